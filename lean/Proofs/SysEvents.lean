/-
  Lemmas about the SysEvents model: structural invariants of every reachable state.
-/
import HapModel.SysEvents
namespace Hap.Sys

/-! ### basic facts -/

@[simp] theorem upd_same {β : Type} (f : Nat → β) (k : Nat) (v : β) : upd f k v k = v := by simp [upd]
theorem upd_other {β : Type} (f : Nat → β) (k a : Nat) (v : β) (h : a ≠ k) : upd f k v a = f a := by simp [upd, h]
theorem upd_apply {β : Type} (f : Nat → β) (k a : Nat) (v : β) : upd f k v a = if a = k then v else f a := rfl

theorem memT_some (l : List Addr) (a : Addr) : memT (some l) a = true ↔ a ∈ l := by simp [memT]
@[simp] theorem memT_none (a : Addr) : memT none a = false := rfl

theorem memT_subAdd (t : Option (List Addr)) (a b : Addr) :
    memT (subAdd t a) b = (memT t b || decide (b = a)) := by
  cases t with
  | none => simp [subAdd, memT]
  | some l =>
    simp only [subAdd]
    split
    · rename_i h; simp only [memT]; by_cases hb : b = a <;> simp [hb, h]
    · simp [memT]

theorem memT_subDel (t : Option (List Addr)) (a b : Addr) :
    memT (subDel t a) b = (memT t b && decide (b ≠ a)) := by
  cases t with
  | none => simp [subDel]
  | some l =>
    simp only [subDel]
    split
    · rename_i h
      simp only [memT_none]
      by_cases hb : b ∈ l
      · by_cases hba : b = a
        · simp [hba]
        · have : b ∈ l.filter (fun b => b ≠ a) := by simp [List.mem_filter, hb, hba]
          rw [h] at this; cases this
      · simp [memT, hb]
    · simp [memT, List.mem_filter]

theorem subAdd_ne_nil (t : Option (List Addr)) (a : Addr) (h : t ≠ some []) : subAdd t a ≠ some [] := by
  cases t with
  | none => simp [subAdd]
  | some l =>
    simp only [subAdd]; split
    · exact h
    · simp

theorem subDel_ne_nil (t : Option (List Addr)) (a : Addr) : subDel t a ≠ some [] := by
  cases t with
  | none => simp [subDel]
  | some l => simp only [subDel]; split <;> simp_all

theorem memT_lostDel (t : Option (List Addr)) (a b : Addr) :
    memT (lostDel t a) b = (memT t b && decide (b ≠ a)) := by
  simp only [lostDel]
  split
  · exact memT_subDel t a b
  · rename_i h
    by_cases hb : b = a
    · subst hb; simp at h; simp [h]
    · simp [hb]

theorem lostDel_ne_nil (t : Option (List Addr)) (a : Addr) (h : t ≠ some []) : lostDel t a ≠ some [] := by
  simp only [lostDel]; split
  · exact subDel_ne_nil t a
  · exact h

/-! ### frame facts for the object operations -/

@[simp] theorem closeO_addr (c : Cfg) (o : Obj) : (closeO c o).addr = o.addr := by
  simp only [closeO]; split <;> rfl
@[simp] theorem closeO_closing (c : Cfg) (o : Obj) : (closeO c o).closing = true := by
  simp only [closeO]; split <;> rfl
@[simp] theorem closeO_lost (c : Cfg) (o : Obj) : (closeO c o).lost = o.lost := by
  simp only [closeO]; split <;> rfl
@[simp] theorem closeO_verified (c : Cfg) (o : Obj) : (closeO c o).verified = o.verified := by
  simp only [closeO]; split <;> rfl
@[simp] theorem closeO_last (c : Cfg) (o : Obj) : (closeO c o).last = o.last := by
  simp only [closeO]; split <;> rfl
@[simp] theorem closeO_soon (c : Cfg) (o : Obj) : (closeO c o).soon = o.soon := by
  simp only [closeO]; split <;> rfl
@[simp] theorem closeO_pending (c : Cfg) (o : Obj) : (closeO c o).pending = o.pending := by
  simp only [closeO]; split <;> rfl
@[simp] theorem closeO_qsrc (c : Cfg) (o : Obj) : (closeO c o).qsrc = o.qsrc := by
  simp only [closeO]; split <;> rfl
@[simp] theorem closeO_learned (c : Cfg) (o : Obj) : (closeO c o).learned = o.learned := by
  simp only [closeO]; split <;> rfl
@[simp] theorem closeO_since (c : Cfg) (o : Obj) : (closeO c o).since = fun _ => false := by
  simp only [closeO]; split <;> rfl
theorem closeO_queue (c : Cfg) (o : Obj) (h : c.fix13 = true) : (closeO c o).queue = [] := by
  simp [closeO, h]
theorem closeO_timer (c : Cfg) (o : Obj) (h : c.fix13 = true) : (closeO c o).timer = none := by
  simp [closeO, h]

@[simp] theorem enqueue_addr (o : Obj) (x v i s n) : (enqueue o x v i s n).addr = o.addr := rfl
@[simp] theorem enqueue_closing (o : Obj) (x v i s n) : (enqueue o x v i s n).closing = o.closing := rfl
@[simp] theorem enqueue_lost (o : Obj) (x v i s n) : (enqueue o x v i s n).lost = o.lost := rfl
@[simp] theorem enqueue_verified (o : Obj) (x v i s n) : (enqueue o x v i s n).verified = o.verified := rfl
@[simp] theorem enqueue_last (o : Obj) (x v i s n) : (enqueue o x v i s n).last = o.last := rfl
@[simp] theorem enqueue_pending (o : Obj) (x v i s n) : (enqueue o x v i s n).pending = o.pending := rfl

end Hap.Sys

namespace Hap.Sys

/-! ### structural invariant (no hypothesis on address reuse) -/

structure InvA (s : St) : Prop where
  reg_ok : ∀ a q, s.reg a = some q → q < s.nobj ∧ (s.obj q).addr = a ∧ (s.obj q).closing = false
  lost_closing : ∀ q, (s.obj q).lost = true → (s.obj q).closing = true
  closing_empty : ∀ q, (s.obj q).closing = true → (s.obj q).queue = [] ∧ (s.obj q).timer = none
  topics_ne : ∀ x, s.topics x ≠ some []
  stopped_reg : s.stopped = true → ∀ a, s.reg a = none
  last_le : ∀ q, (s.obj q).last ≤ s.now

theorem invA_init (c : Cfg) : InvA (init c) := by
  constructor <;> simp [init]

theorem invA_closeP (c : Cfg) (hc : c.fix13 = true) (s : St) (p : ObjId) (h : InvA s) :
    InvA (closeP c s p).1 := by
  obtain ⟨h1, h2, h3, h4, h5, h6⟩ := h
  constructor
  · intro a q hq
    simp only [closeP, upd_apply] at hq ⊢
    split at hq
    · cases hq
    · have := h1 a q hq
      by_cases hqp : q = p
      · subst hqp; simp_all
      · simp [hqp, this]
  · intro q; simp only [closeP, upd_apply]; split
    · simp
    · exact h2 q
  · intro q; simp only [closeP, upd_apply]; split
    · intro _; exact ⟨closeO_queue c _ hc, closeO_timer c _ hc⟩
    · exact h3 q
  · exact h4
  · intro hs a; simp only [closeP, upd_apply]; split
    · rfl
    · exact h5 hs a
  · intro q; simp only [closeP, upd_apply]; split
    · simp; exact h6 p
    · exact h6 q

end Hap.Sys

namespace Hap.Sys

theorem invA_sendEvents (s : St) (p : ObjId) (h : InvA s) : InvA (sendEvents s p).1 := by
  obtain ⟨h1, h2, h3, h4, h5, h6⟩ := h
  simp only [sendEvents]
  split
  · constructor <;> simp only [upd_apply] <;> grind
  · split
    · constructor <;> simp only [upd_apply] <;> grind
    · constructor <;> simp only [upd_apply] <;> grind

theorem invA_respond (s : St) (p : ObjId) (code : Nat) (b : Body) (h : InvA s) : InvA (respond s p code b).1 := by
  obtain ⟨h1, h2, h3, h4, h5, h6⟩ := h
  simp only [respond]
  constructor <;> simp only [upd_apply] <;> grind

@[simp] theorem pubObj_addr (c : Cfg) (s : St) (x : Cid) (v : Val) (sd : Option Addr) (subs : List Addr) (q : ObjId) :
    (pubObj c s x v sd subs q).addr = (s.obj q).addr := by
  simp only [pubObj]; split
  · split <;> rfl
  · rfl

@[simp] theorem pubObj_closing (c : Cfg) (s : St) (x : Cid) (v : Val) (sd : Option Addr) (subs : List Addr) (q : ObjId) :
    (pubObj c s x v sd subs q).closing = (s.obj q).closing := by
  simp only [pubObj]; split
  · split <;> rfl
  · rfl

@[simp] theorem pubObj_lost (c : Cfg) (s : St) (x : Cid) (v : Val) (sd : Option Addr) (subs : List Addr) (q : ObjId) :
    (pubObj c s x v sd subs q).lost = (s.obj q).lost := by
  simp only [pubObj]; split
  · split <;> rfl
  · rfl

@[simp] theorem pubObj_verified (c : Cfg) (s : St) (x : Cid) (v : Val) (sd : Option Addr) (subs : List Addr) (q : ObjId) :
    (pubObj c s x v sd subs q).verified = (s.obj q).verified := by
  simp only [pubObj]; split
  · split <;> rfl
  · rfl

@[simp] theorem pubObj_last (c : Cfg) (s : St) (x : Cid) (v : Val) (sd : Option Addr) (subs : List Addr) (q : ObjId) :
    (pubObj c s x v sd subs q).last = (s.obj q).last := by
  simp only [pubObj]; split
  · split <;> rfl
  · rfl

@[simp] theorem pubObj_pending (c : Cfg) (s : St) (x : Cid) (v : Val) (sd : Option Addr) (subs : List Addr) (q : ObjId) :
    (pubObj c s x v sd subs q).pending = (s.obj q).pending := by
  simp only [pubObj]; split
  · split <;> rfl
  · rfl

theorem pubObj_unreg (c : Cfg) (s : St) (x : Cid) (v : Val) (sd : Option Addr) (subs : List Addr) (q : ObjId)
    (h : s.reg (s.obj q).addr ≠ some q) : pubObj c s x v sd subs q = s.obj q := by
  simp [pubObj, h]

theorem pubTopic_ne_nil (s : St) (sd : Option Addr) (subs : List Addr) (h : subs ≠ []) :
    pubTopic s sd subs ≠ some [] := by
  simp only [pubTopic]; split
  · simpa using h
  · split <;> simp_all

theorem memT_pubTopic (s : St) (sd : Option Addr) (subs : List Addr) (a : Addr)
    (h : memT (pubTopic s sd subs) a = true) : a ∈ subs := by
  simp only [pubTopic] at h
  split at h
  · simpa [memT] using h
  · split at h
    · simp at h
    · simp [memT, List.mem_filter] at h; exact h.1

theorem invA_publish (c : Cfg) (s : St) (x : Cid) (v : Val) (sender : Option Addr) (h : InvA s) :
    InvA (publish c s x v sender) := by
  have h0 := h
  obtain ⟨h1, h2, h3, h4, h5, h6⟩ := h
  simp only [publish]
  split
  · exact h0
  · split
    · exact h0
    · rename_i subs hs _
      constructor
      · intro a q hq; simpa using h1 a q hq
      · intro q; simpa using h2 q
      · intro q hq
        simp only [pubObj_closing] at hq
        have : s.reg (s.obj q).addr ≠ some q := by
          intro hr; have := (h1 _ _ hr).2.2; simp_all
        simp only [pubObj_unreg c s x v sender subs q this]
        exact h3 q hq
      · intro y; simp only [upd_apply]; split
        · apply pubTopic_ne_nil
          intro he; subst he; exact h4 x hs
        · exact h4 y
      · exact h5
      · intro q; simpa using h6 q

end Hap.Sys

namespace Hap.Sys

theorem invA_discardStale (c : Cfg) (s : St) (a : Addr) (x : Cid) (h : InvA s) : InvA (discardStale c s a x) := by
  have h0 := h
  obtain ⟨h1, h2, h3, h4, h5, h6⟩ := h
  simp only [discardStale]
  split
  · split
    · exact h0
    · split
      · exact h0
      · split
        · rename_i q hq _ _ _ _
          have hq' := h1 _ _ hq
          constructor <;> simp only [upd_apply] <;> grind
        · exact h0
  · exact h0

theorem invA_setValue (s : St) (f : Cid → Option Val) (h : InvA s) : InvA { s with value := f } := by
  obtain ⟨h1, h2, h3, h4, h5, h6⟩ := h
  exact ⟨h1, h2, h3, h4, h5, h6⟩

theorem invA_writeVal (c : Cfg) (s : St) (x : Cid) (v : Val) (sd : Option Addr) (h : InvA s) :
    InvA (writeVal c s x v sd) := by
  simp only [writeVal]
  split
  · apply invA_setValue
    split
    · exact invA_publish _ _ _ _ _ (invA_setValue _ _ h)
    · exact invA_setValue _ _ h
  · split
    · exact invA_publish _ _ _ _ _ (invA_setValue _ _ h)
    · exact invA_setValue _ _ h

theorem invA_updGhost (s : St) (p : ObjId) (o' : Obj) (h : InvA s)
    (e1 : o'.addr = (s.obj p).addr) (e2 : o'.closing = (s.obj p).closing) (e3 : o'.lost = (s.obj p).lost)
    (e4 : o'.queue = (s.obj p).queue) (e5 : o'.timer = (s.obj p).timer) (e6 : o'.last ≤ s.now) :
    InvA { s with obj := upd s.obj p o' } := by
  obtain ⟨h1, h2, h3, h4, h5, h6⟩ := h
  constructor <;> simp only [upd_apply] <;> grind

theorem invA_setTopic (s : St) (x : Cid) (t : Option (List Addr)) (h : InvA s) (ht : t ≠ some []) :
    InvA { s with topics := upd s.topics x t } := by
  obtain ⟨h1, h2, h3, h4, h5, h6⟩ := h
  refine ⟨h1, h2, h3, ?_, h5, h6⟩
  intro y; simp only [upd_apply]; split
  · exact ht
  · exact h4 y

theorem invA_dropEvent (c : Cfg) (s : St) (a : Addr) (x : Cid) (h : InvA s) : InvA (dropEvent c s a x) := by
  have h0 := h
  obtain ⟨h1, h2, h3, h4, h5, h6⟩ := h
  simp only [dropEvent]
  split
  · split
    · exact h0
    · rename_i q hq
      have hq' := h1 _ _ hq
      constructor <;> simp only [upd_apply] <;> grind [adel]
  · exact h0

theorem invA_unsubSt (s : St) (p : ObjId) (x : Cid) (h : InvA s) : InvA (unsubSt s p x) := by
  have := invA_updGhost s p { s.obj p with since := upd (s.obj p).since x false } h rfl rfl rfl rfl rfl (h.last_le p)
  exact invA_setTopic _ _ _ this (subDel_ne_nil _ _)

theorem invA_putSub (c : Cfg) (s : St) (p : ObjId) (x : Cid) (ev : Option Bool) (h : InvA s) : InvA (putSub c s p x ev) := by
  simp only [putSub]
  split
  · exact h
  · exact invA_setTopic _ _ _ h (subAdd_ne_nil _ _ (h.topics_ne x))
  · exact invA_dropEvent c _ _ x (invA_unsubSt s p x h)

theorem invA_runCallback (c : Cfg) (s : St) (x : Cid) (v : Val) (h : InvA s) : InvA (runCallback c s x v) := by
  simp only [runCallback]
  split
  · exact h
  · exact invA_writeVal c s x v none h
  · exact invA_writeVal c s x _ none h
  · exact invA_writeVal c s _ _ none h
  · exact h

theorem invA_clientUpdate (c : Cfg) (s : St) (x : Cid) (v : Val) (sd : Option Addr) (h : InvA s) :
    InvA (clientUpdate c s x v sd) := by
  simp only [clientUpdate]
  have h2 : InvA (runCallback c (setVal s x v) x v) := invA_runCallback c _ x v (invA_setValue _ _ h)
  have h3 : InvA (match (runCallback c (setVal s x v) x v).value x with
    | some u => if (runCallback c (setVal s x v) x v).value x ≠ s.value x then publish c (runCallback c (setVal s x v) x v) x u sd
                else runCallback c (setVal s x v) x v
    | none => runCallback c (setVal s x v) x v) := by
    split
    · split
      · exact invA_publish _ _ _ _ _ h2
      · exact h2
    · exact h2
  split
  · exact invA_setValue _ _ h3
  · exact h3

theorem invA_putVal (c : Cfg) (s : St) (p : ObjId) (x : Cid) (v : Val) (h : InvA s) : InvA (putVal c s p x v) := by
  simp only [putVal]
  have h5 := invA_discardStale c _ (s.obj p).addr x (invA_clientUpdate c s x v (some (s.obj p).addr) h)
  exact invA_updGhost _ p _ h5 rfl rfl rfl rfl rfl (h5.last_le p)

theorem invA_putChars (c : Cfg) (s : St) (p : ObjId) (x : Cid) (ev : Option Bool) (val : Option Val) (h : InvA s) :
    InvA (putChars c s p x ev val) := by
  simp only [putChars]
  split
  · exact invA_putSub _ _ _ _ _ h
  · split
    · simp only [failVal]; split
      · exact invA_putSub _ _ _ _ _ h
      · exact invA_setValue _ _ (invA_putSub _ _ _ _ _ h)
    · exact invA_putVal _ _ _ _ _ (invA_putSub _ _ _ _ _ h)

theorem invA_setPrepared (s : St) (f : Addr → Option (List Pid)) (h : InvA s) : InvA { s with prepared := f } := by
  obtain ⟨h1, h2, h3, h4, h5, h6⟩ := h
  exact ⟨h1, h2, h3, h4, h5, h6⟩

theorem invA_touch (s : St) (p : ObjId) (h : InvA s) : InvA (touch s p) :=
  invA_updGhost s p _ h rfl rfl rfl rfl rfl (Nat.le_refl _)

theorem foldl_pres {α β : Type} (P : α → Prop) (f : α → β → α) (h : ∀ a b, P a → P (f a b)) :
    ∀ (l : List β) (a : α), P a → P (List.foldl f a l) := by
  intro l
  induction l with
  | nil => intro a ha; exact ha
  | cons b bs ih => intro a ha; exact ih _ (h a b ha)

theorem putAll_pres (P : St → Prop) (c : Cfg) (p : ObjId)
    (h : ∀ t x ev val, P t → P (putChars c t p x ev val)) (s : St) (qs : List (Cid × Option Bool × Option Val)) (hs : P s) :
    P (putAll c s p qs) := by
  simp only [putAll]
  apply foldl_pres P
  · intro t q ht
    split
    · exact ht
    · exact h t _ _ _ ht
  · exact foldl_pres P _ (fun t q ht => h t _ _ _ ht) qs s hs

theorem invA_putAll (c : Cfg) (s : St) (p : ObjId) (qs : List (Cid × Option Bool × Option Val)) (h : InvA s) : InvA (putAll c s p qs) :=
  putAll_pres InvA c p (fun t x ev val ht => invA_putChars c t p x ev val ht) s qs h

theorem invA_onPutMany (c : Cfg) (hc : c.fix13 = true) (s : St) (p : ObjId) (qs cl) (h : InvA s) :
    InvA (onPutMany c s p qs cl).1 := by
  simp only [onPutMany]
  have hr : InvA (if (s.obj p).verified then respond (putAll c s p qs) p (putCode c qs) (putBody c qs)
           else respond s p 401 Body.none).1 := by
    split
    · exact invA_respond _ p _ _ (invA_putAll c s p qs h)
    · exact invA_respond _ p 401 Body.none h
  split
  · exact invA_closeP c hc _ _ hr
  · exact hr

theorem invA_onPut (c : Cfg) (hc : c.fix13 = true) (s : St) (p : ObjId) (x ev val cl) (h : InvA s) :
    InvA (onPut c s p x ev val cl).1 := by
  simp only [onPut]
  have hr : InvA (if (s.obj p).verified then respond (putChars c s p x ev val) p (putCode c [(x, ev, val)]) (putBody c [(x, ev, val)])
           else respond s p 401 Body.none).1 := by
    split
    · exact invA_respond _ p _ _ (invA_putChars c s p x ev val h)
    · exact invA_respond _ p 401 Body.none h
  split
  · exact invA_closeP c hc _ _ hr
  · exact hr

theorem invA_onReq (c : Cfg) (hc : c.fix13 = true) (s : St) (p : ObjId) (r : Req) (h : InvA s) :
    InvA (onReq c s p r).1 := by
  simp only [onReq]
  split
  · exact invA_closeP c hc _ _ h
  · split
    · exact invA_closeP c hc _ _ h
    · exact invA_closeP c hc _ _ h
    · exact invA_onPut c hc _ _ _ _ _ _ h
    · exact invA_onPutMany c hc _ _ _ _ h
    · split
      · exact invA_respond _ _ _ _ h
      · exact invA_respond _ _ _ _ h
    · split
      · exact invA_respond _ _ _ _ (invA_setPrepared _ _ h)
      · exact invA_respond _ _ _ _ h
    · split
      · exact invA_updGhost s p _ h rfl rfl rfl rfl rfl (h.last_le p)
      · exact invA_respond _ _ _ _ h

theorem invA_onData (c : Cfg) (hc : c.fix13 = true) (s : St) (p : ObjId) (r : Req) (h : InvA s) :
    InvA (onData c s p r).1 := invA_onReq c hc _ p r (invA_touch s p h)

theorem closeP_closing (c : Cfg) (s : St) (p : ObjId) : ((closeP c s p).1.obj p).closing = true := by
  simp [closeP]

theorem invA_markLost (s : St) (p : ObjId) (h : InvA s) (hcl : (s.obj p).closing = true) :
    InvA (markLost s p) := by
  simp only [markLost]
  obtain ⟨h1, h2, h3, h4, h5, h6⟩ := h
  constructor <;> simp only [upd_apply] <;> grind

theorem invA_step (c : Cfg) (hc : c.fix13 = true) (s : St) (e : Ev) (h : InvA s) : InvA (step c s e).1 := by
  have h0 := h
  obtain ⟨h1, h2, h3, h4, h5, h6⟩ := h
  cases e with
  | tick dt => simp only [step]; constructor <;> grind
  | connect a =>
    simp only [step]; split
    · exact h0
    · constructor <;> simp only [upd_apply] <;> grind
  | verify p =>
    simp only [step]; split
    · exact invA_updGhost s p _ h0 rfl rfl rfl rfl rfl (h6 p)
    · exact h0
  | data p r =>
    simp only [step]; split
    · exact invA_onData c hc s p r h0
    · exact h0
  | appSet x v => exact invA_writeVal c s x v none h0
  | appSetWorker x v =>
    simp only [step, appSetWorker]
    split <;> exact ⟨h1, h2, h3, h4, h5, h6⟩
  | handOff =>
    simp only [step, handOff]
    split
    · exact h0
    · split
      · exact ⟨h1, h2, h3, h4, h5, h6⟩
      · exact invA_publish c _ _ _ none ⟨h1, h2, h3, h4, h5, h6⟩
  | timerFire p =>
    simp only [step]; split
    · exact invA_sendEvents s p h0
    · exact h0
  | soonFlush p =>
    simp only [step]; split
    · exact invA_sendEvents _ p (invA_updGhost s p _ h0 rfl rfl rfl rfl rfl (h6 p))
    · exact h0
  | respReady p ok =>
    simp only [step]; split
    · have hs1 := invA_updGhost s p { s.obj p with pending := false } h0 rfl rfl rfl rfl rfl (h6 p)
      split
      · exact hs1
      · split
        · exact invA_respond _ _ _ _ hs1
        · exact invA_respond _ _ _ _ hs1
    · exact h0
  | lose p =>
    simp only [step]; split
    · have hs1 : InvA (dropConn s (s.obj p).addr) := by
        refine ⟨h1, h2, h3, ?_, h5, h6⟩
        intro x; exact lostDel_ne_nil _ _ (h4 x)
      exact invA_markLost _ p (invA_closeP c hc _ p hs1) (closeP_closing c _ p)
    · exact h0
  | idleSweep =>
    simp only [step]
    constructor
    · intro a q hq
      simp only at hq ⊢
      cases hr : s.reg a with
      | none => simp [hr] at hq
      | some q' =>
        simp only [hr] at hq
        split at hq
        · cases hq
        · cases hq
          have := h1 a q hr
          have hni : ¬ (q < s.nobj ∧ idleDue s q) := by
            intro hh; rename_i hnd; exact hnd hh.2
          simp only [hni, if_false]
          exact this
    · intro q; simp only; split
      · simp
      · exact h2 q
    · intro q; simp only; split
      · intro _; exact ⟨closeO_queue c _ hc, closeO_timer c _ hc⟩
      · exact h3 q
    · exact h4
    · intro hs a; simp only; rw [h5 hs a]
    · intro q; simp only; split
      · simp; exact h6 q
      · exact h6 q
  | stop =>
    simp only [step]
    constructor
    · intro a q hq; simp at hq
    · intro q; simp only; split
      · simp
      · exact h2 q
    · intro q; simp only; split
      · intro _; exact ⟨closeO_queue c _ hc, closeO_timer c _ hc⟩
      · exact h3 q
    · exact h4
    · intro _ a; rfl
    · intro q; simp only; split
      · simp; exact h6 q
      · exact h6 q

end Hap.Sys

namespace Hap.Sys

theorem invA_run (c : Cfg) (hc : c.fix13 = true) (tr : List Ev) (s : St) (h : InvA s) : InvA (run c s tr).1 := by
  induction tr generalizing s with
  | nil => exact h
  | cons e es ih => simp only [run]; exact ih _ (invA_step c hc s e h)

/-! ### what a step may change for connections and addresses -/

/-- `s'` has the same connections as `s` (same objects, addresses, loss flags) at the same time;
    `last_activity` is unchanged or refreshed to now; only address `b` may have gained a
    subscription or a prepared write. -/
structure Rel (b : Option Addr) (s s' : St) : Prop where
  nobj : s'.nobj = s.nobj
  now : s'.now = s.now
  addr : ∀ q, (s'.obj q).addr = (s.obj q).addr
  lost : ∀ q, (s'.obj q).lost = (s.obj q).lost
  closing : ∀ q, (s.obj q).closing = true → (s'.obj q).closing = true
  last : ∀ q, (s'.obj q).last = (s.obj q).last ∨ (s'.obj q).last = s.now
  verified : ∀ q, (s.obj q).verified = true → (s'.obj q).verified = true
  topics : ∀ a x, some a ≠ b → memT (s'.topics x) a = true → memT (s.topics x) a = true
  prepared : ∀ a, some a ≠ b → s.prepared a = none → s'.prepared a = none

theorem Rel.refl (b : Option Addr) (s : St) : Rel b s s :=
  ⟨rfl, rfl, fun _ => rfl, fun _ => rfl, fun _ h => h, fun _ => Or.inl rfl, fun _ h => h, fun _ _ _ h => h, fun _ _ h => h⟩

theorem Rel.trans {b : Option Addr} {s s1 s2 : St} (h1 : Rel b s s1) (h2 : Rel b s1 s2) : Rel b s s2 := by
  obtain ⟨a1, a0, a2, a3, a4, a7, a8, a5, a6⟩ := h1
  obtain ⟨b1, b0, b2, b3, b4, b7, b8, b5, b6⟩ := h2
  constructor <;> grind

theorem Rel.weaken {b : Option Addr} {s s' : St} (h : Rel none s s') : Rel b s s' := by
  obtain ⟨a1, a0, a2, a3, a4, a7, a8, a5, a6⟩ := h
  refine ⟨a1, a0, a2, a3, a4, a7, a8, ?_, ?_⟩
  · intro a x _ hm; exact a5 a x (by simp) hm
  · intro a _ hp; exact a6 a (by simp) hp

theorem rel_updObj (s : St) (p : ObjId) (o' : Obj) (e1 : o'.addr = (s.obj p).addr) (e2 : o'.lost = (s.obj p).lost)
    (e3 : (s.obj p).closing = true → o'.closing = true) (e4 : o'.last = (s.obj p).last ∨ o'.last = s.now)
    (e5 : (s.obj p).verified = true → o'.verified = true := by exact fun h => h) :
    Rel none s { s with obj := upd s.obj p o' } := by
  constructor <;> simp only [upd_apply] <;> grind

theorem rel_closeP (c : Cfg) (s : St) (p : ObjId) : Rel none s (closeP c s p).1 := by
  simp only [closeP]
  constructor <;> simp only [upd_apply] <;> grind [closeO_addr, closeO_lost, closeO_closing, closeO_last, closeO_verified]

theorem rel_sendEvents (s : St) (p : ObjId) : Rel none s (sendEvents s p).1 := by
  simp only [sendEvents]
  split
  · exact rel_updObj s p _ rfl rfl (fun h => h) (Or.inl rfl)
  · split
    · exact rel_updObj s p _ rfl rfl (fun h => h) (Or.inl rfl)
    · exact rel_updObj s p _ rfl rfl (fun h => h) (Or.inr rfl)

theorem rel_respond (s : St) (p : ObjId) (code : Nat) (b : Body) : Rel none s (respond s p code b).1 :=
  rel_updObj s p _ rfl rfl (fun h => h) (Or.inr rfl)

theorem rel_setValue (s : St) (f : Cid → Option Val) : Rel none s { s with value := f } :=
  ⟨rfl, rfl, fun _ => rfl, fun _ => rfl, fun _ h => h, fun _ => Or.inl rfl, fun _ h => h, fun _ _ _ h => h, fun _ _ h => h⟩

theorem rel_publish (c : Cfg) (s : St) (x : Cid) (v : Val) (sd : Option Addr) : Rel none s (publish c s x v sd) := by
  simp only [publish]
  split
  · exact Rel.refl _ _
  · split
    · exact Rel.refl _ _
    · rename_i subs hs _
      refine ⟨rfl, rfl, fun q => by simp, fun q => by simp, fun q h => by simpa using h, fun q => by simp,
        fun q h => by simpa using h, ?_, fun _ _ h => h⟩
      intro a y _ hm
      simp only [upd_apply] at hm
      split at hm
      · rename_i hy; subst hy
        rw [hs]; simpa [memT] using memT_pubTopic s sd subs a hm
      · exact hm

theorem rel_writeVal (c : Cfg) (s : St) (x : Cid) (v : Val) (sd : Option Addr) : Rel none s (writeVal c s x v sd) := by
  simp only [writeVal]
  split
  · refine Rel.trans ?_ (rel_setValue _ _)
    split
    · exact Rel.trans (rel_setValue _ _) (rel_publish _ _ _ _ _)
    · exact rel_setValue _ _
  · split
    · exact Rel.trans (rel_setValue _ _) (rel_publish _ _ _ _ _)
    · exact rel_setValue _ _

theorem rel_discardStale (c : Cfg) (s : St) (a : Addr) (x : Cid) : Rel none s (discardStale c s a x) := by
  simp only [discardStale]
  split
  · split
    · exact Rel.refl _ _
    · split
      · exact Rel.refl _ _
      · split
        · exact rel_updObj s _ _ rfl rfl (fun h => h) (Or.inl rfl)
        · exact Rel.refl _ _
  · exact Rel.refl _ _

theorem rel_dropEvent (c : Cfg) (s : St) (a : Addr) (x : Cid) : Rel none s (dropEvent c s a x) := by
  simp only [dropEvent]
  split
  · split
    · exact Rel.refl _ _
    · exact rel_updObj s _ _ rfl rfl (fun h => h) (Or.inl rfl)
  · exact Rel.refl _ _

theorem rel_putSub (c : Cfg) (s : St) (p : ObjId) (x : Cid) (ev : Option Bool) : Rel (some (s.obj p).addr) s (putSub c s p x ev) := by
  simp only [putSub]
  split
  · exact Rel.refl _ _
  · refine ⟨rfl, rfl, fun _ => rfl, fun _ => rfl, fun _ h => h, fun _ => Or.inl rfl, fun _ h => h, ?_, fun _ _ h => h⟩
    intro a y ha hm
    simp only [upd_apply] at hm
    split at hm
    · rename_i hy; subst hy
      rw [memT_subAdd] at hm
      have : a ≠ (s.obj p).addr := fun e => ha (by rw [e])
      simpa [this] using hm
    · exact hm
  · refine Rel.trans ?_ (Rel.weaken (rel_dropEvent c _ _ x))
    simp only [unsubSt]
    refine ⟨rfl, rfl, fun q => ?_, fun q => ?_, fun q h => ?_, fun q => ?_, fun q h => ?_, ?_, fun _ _ h => h⟩
    · simp only [upd_apply]; split <;> simp_all
    · simp only [upd_apply]; split <;> simp_all
    · simp only [upd_apply]; split <;> simp_all
    · simp only [upd_apply]; split <;> simp_all
    · simp only [upd_apply]; split <;> simp_all
    · intro a y ha hm
      simp only [upd_apply] at hm
      split at hm
      · rename_i hy; subst hy
        rw [memT_subDel] at hm
        simp at hm; exact hm.1
      · exact hm

theorem rel_runCallback (c : Cfg) (s : St) (x : Cid) (v : Val) : Rel none s (runCallback c s x v) := by
  simp only [runCallback]
  split
  · exact Rel.refl _ _
  · exact rel_writeVal c s x v none
  · exact rel_writeVal c s x _ none
  · exact rel_writeVal c s _ _ none
  · exact Rel.refl _ _

theorem rel_clientUpdate (c : Cfg) (s : St) (x : Cid) (v : Val) (sd : Option Addr) : Rel none s (clientUpdate c s x v sd) := by
  simp only [clientUpdate]
  have h2 : Rel none s (runCallback c (setVal s x v) x v) :=
    Rel.trans (rel_setValue s _) (rel_runCallback c (setVal s x v) x v)
  have h3 : Rel none s (match (runCallback c (setVal s x v) x v).value x with
    | some u => if (runCallback c (setVal s x v) x v).value x ≠ s.value x then publish c (runCallback c (setVal s x v) x v) x u sd
                else runCallback c (setVal s x v) x v
    | none => runCallback c (setVal s x v) x v) := by
    split
    · split
      · exact Rel.trans h2 (rel_publish _ _ _ _ _)
      · exact h2
    · exact h2
  split
  · exact Rel.trans h3 (rel_setValue _ _)
  · exact h3

theorem rel_putVal (c : Cfg) (s : St) (p : ObjId) (x : Cid) (v : Val) : Rel none s (putVal c s p x v) := by
  simp only [putVal]
  exact Rel.trans (Rel.trans (rel_clientUpdate c s x v _) (rel_discardStale c _ _ x))
    (rel_updObj _ p _ rfl rfl (fun h => h) (Or.inl rfl))

theorem rel_putChars (c : Cfg) (s : St) (p : ObjId) (x : Cid) (ev : Option Bool) (val : Option Val) :
    Rel (some (s.obj p).addr) s (putChars c s p x ev val) := by
  simp only [putChars]
  split
  · exact rel_putSub c s p x ev
  · split
    · simp only [failVal]; split
      · exact rel_putSub c s p x ev
      · exact Rel.trans (rel_putSub c s p x ev) (Rel.weaken (rel_setValue _ _))
    · exact Rel.trans (rel_putSub c s p x ev) (Rel.weaken (rel_putVal c _ p x _))

/-- the address a request on `p` may add subscriptions / prepared writes for: its own, and only
    when it holds a verified session -/
def vtgt (s : St) (p : ObjId) : Option Addr := if (s.obj p).verified then some (s.obj p).addr else none

theorem rel_onPut (c : Cfg) (s : St) (p : ObjId) (x ev val cl) : Rel (vtgt s p) s (onPut c s p x ev val cl).1 := by
  simp only [onPut]
  have hr : Rel (vtgt s p) s (if (s.obj p).verified then respond (putChars c s p x ev val) p (putCode c [(x, ev, val)]) (putBody c [(x, ev, val)])
           else respond s p 401 Body.none).1 := by
    split
    · rename_i hv; simp only [vtgt, hv, if_true]
      exact Rel.trans (rel_putChars c s p x ev val) (Rel.weaken (rel_respond _ _ _ _))
    · exact Rel.weaken (rel_respond _ _ _ _)
  split
  · exact Rel.trans hr (Rel.weaken (rel_closeP c _ p))
  · exact hr

theorem rel_putAll (c : Cfg) (s : St) (p : ObjId) (qs : List (Cid × Option Bool × Option Val)) :
    Rel (some (s.obj p).addr) s (putAll c s p qs) := by
  apply putAll_pres (fun t => Rel (some (s.obj p).addr) s t) c p
  · intro t x ev val ht
    have h1 := rel_putChars c t p x ev val
    rw [ht.addr p] at h1
    exact Rel.trans ht h1
  · exact Rel.refl _ _

theorem rel_onPutMany (c : Cfg) (s : St) (p : ObjId) (qs cl) : Rel (vtgt s p) s (onPutMany c s p qs cl).1 := by
  simp only [onPutMany]
  have hr : Rel (vtgt s p) s (if (s.obj p).verified then respond (putAll c s p qs) p (putCode c qs) (putBody c qs)
           else respond s p 401 Body.none).1 := by
    split
    · rename_i hv; simp only [vtgt, hv, if_true]
      exact Rel.trans (rel_putAll c s p qs) (Rel.weaken (rel_respond _ _ _ _))
    · exact Rel.weaken (rel_respond _ _ _ _)
  split
  · exact Rel.trans hr (Rel.weaken (rel_closeP c _ p))
  · exact hr

theorem rel_onReq (c : Cfg) (s : St) (p : ObjId) (r : Req) : Rel (vtgt s p) s (onReq c s p r).1 := by
  simp only [onReq]
  split
  · exact Rel.weaken (rel_closeP c s p)
  · split
    · exact Rel.weaken (rel_closeP c s p)
    · exact Rel.weaken (rel_closeP c s p)
    · exact rel_onPut c s p _ _ _ _
    · exact rel_onPutMany c s p _ _
    · split
      · exact Rel.weaken (rel_respond _ _ _ _)
      · exact Rel.weaken (rel_respond _ _ _ _)
    · split
      · rename_i hv; simp only [vtgt, hv, if_true]
        refine Rel.trans ?_ (Rel.weaken (rel_respond _ _ _ _))
        refine ⟨rfl, rfl, fun _ => rfl, fun _ => rfl, fun _ h => h, fun _ => Or.inl rfl, fun _ h => h, fun _ _ _ h => h, ?_⟩
        intro a ha hp
        simp only [upd_apply]; split
        · rename_i e; exact absurd (by rw [e]) ha
        · exact hp
      · exact Rel.weaken (rel_respond _ _ _ _)
    · split
      · exact Rel.weaken (rel_updObj s p _ rfl rfl (fun h => h) (Or.inl rfl))
      · exact Rel.weaken (rel_respond _ _ _ _)

theorem rel_onData (c : Cfg) (s : St) (p : ObjId) (r : Req) : Rel (vtgt s p) s (onData c s p r).1 := by
  simp only [onData]
  have h1 : Rel (vtgt s p) s (touch s p) := Rel.weaken (rel_updObj s p _ rfl rfl (fun h => h) (Or.inr rfl))
  have h2 := rel_onReq c (touch s p) p r
  have e : vtgt (touch s p) p = vtgt s p := by simp [vtgt, touch]
  rw [e] at h2
  exact Rel.trans h1 h2


/-- the address a step may add subscriptions / prepared writes for -/
def tgt (s : St) : Ev → Option Addr
  | .data p _ => vtgt s p
  | _ => none

theorem rel_step (c : Cfg) (s : St) (e : Ev) (h1 : ∀ a, e ≠ Ev.connect a) (h2 : ∀ p, e ≠ Ev.lose p)
    (h3 : ∀ dt, e ≠ Ev.tick dt) :
    Rel (tgt s e) s (step c s e).1 := by
  cases e with
  | tick dt => exact absurd rfl (h3 dt)
  | connect a => exact absurd rfl (h1 a)
  | verify p =>
    simp only [step]; split
    · exact rel_updObj s p _ rfl rfl (fun h => h) (Or.inl rfl) (fun _ => rfl)
    · exact Rel.refl _ _
  | data p r =>
    simp only [step, tgt]; split
    · exact rel_onData c s p r
    · exact Rel.refl _ _
  | appSet x v => exact rel_writeVal c s x v none
  | appSetWorker x v =>
    simp only [step, appSetWorker]
    split <;> exact ⟨rfl, rfl, fun _ => rfl, fun _ => rfl, fun _ h => h, fun _ => Or.inl rfl, fun _ h => h, fun _ _ _ h => h, fun _ _ h => h⟩
  | handOff =>
    simp only [step, handOff]
    split
    · exact Rel.refl _ _
    · rename_i x v rest _
      have h0 : Rel none s { s with handoffs := rest } :=
        ⟨rfl, rfl, fun _ => rfl, fun _ => rfl, fun _ h => h, fun _ => Or.inl rfl, fun _ h => h, fun _ _ _ h => h, fun _ _ h => h⟩
      split
      · exact h0
      · exact Rel.trans h0 (rel_publish c _ x v none)
  | timerFire p =>
    simp only [step]; split
    · exact rel_sendEvents s p
    · exact Rel.refl _ _
  | soonFlush p =>
    simp only [step]; split
    · exact Rel.trans (rel_updObj s p { s.obj p with soon := (s.obj p).soon - 1 } rfl rfl (fun h => h) (Or.inl rfl)) (rel_sendEvents _ p)
    · exact Rel.refl _ _
  | respReady p ok =>
    simp only [step]; split
    · have hs1 : Rel none s { s with obj := upd s.obj p { s.obj p with pending := false } } :=
        rel_updObj s p _ rfl rfl (fun h => h) (Or.inl rfl)
      split
      · exact hs1
      · split
        · exact Rel.trans hs1 (rel_respond _ _ _ _)
        · exact Rel.trans hs1 (rel_respond _ _ _ _)
    · exact Rel.refl _ _
  | lose p => exact absurd rfl (h2 p)
  | idleSweep =>
    simp only [step]
    refine ⟨rfl, rfl, fun q => ?_, fun q => ?_, fun q h => ?_, fun q => ?_, fun q h => ?_, fun _ _ _ h => h, fun _ _ h => h⟩
    · simp only; split <;> simp
    · simp only; split <;> simp
    · simp only; split
      · simp
      · exact h
    · simp only; split <;> simp
    · simp only; split
      · simpa using h
      · exact h
  | stop =>
    simp only [step]
    refine ⟨rfl, rfl, fun q => ?_, fun q => ?_, fun q h => ?_, fun q => ?_, fun q h => ?_, fun _ _ _ h => h, fun _ _ h => h⟩
    · simp only; split <;> simp
    · simp only; split <;> simp
    · simp only; split
      · simp
      · exact h
    · simp only; split <;> simp
    · simp only; split
      · simpa using h
      · exact h

/-- nothing is held for an address all of whose connections have been lost -/
def CleanInv (s : St) : Prop :=
  ∀ a, allLost s a → (∀ x, memT (s.topics x) a = false) ∧ s.prepared a = none

theorem cleanInv_init (c : Cfg) : CleanInv (init c) := by
  intro a _; simp [init]

theorem cleanInv_step (c : Cfg) (s : St) (e : Ev) (hA : InvA s) (h : CleanInv s) : CleanInv (step c s e).1 := by
  by_cases hc : ∃ a, e = Ev.connect a
  · obtain ⟨a', rfl⟩ := hc
    simp only [step]; split
    · exact h
    · intro a hal
      have hne : a ≠ a' := by
        intro e; subst e
        have := hal s.nobj (by simp) (by simp [upd_apply])
        simp [upd_apply] at this
      have hobj : ∀ p, p < s.nobj → upd s.obj s.nobj ({ addr := a', last := s.now } : Obj) p = s.obj p := by
        intro p hp; simp [upd_apply, Nat.ne_of_lt hp]
      have : allLost s a := by
        intro p hp hpa
        have := hal p (Nat.lt_succ_of_lt hp) (by show (upd s.obj s.nobj _ p).addr = a; rw [hobj p hp]; exact hpa)
        have e : (upd s.obj s.nobj ({ addr := a', last := s.now } : Obj) p).lost = true := this
        rw [hobj p hp] at e; exact e
      exact h a this
  · by_cases hl : ∃ p, e = Ev.lose p
    · obtain ⟨p, rfl⟩ := hl
      simp only [step]; split
      · rename_i hp
        intro a hal
        simp only [markLost, closeP, dropConn]
        by_cases ha : a = (s.obj p).addr
        · subst ha
          refine ⟨fun x => ?_, by simp [upd_apply]⟩
          simp [memT_lostDel]
        · have : allLost s a := by
            intro q hq hqa
            have := hal q (by simpa [markLost, closeP, dropConn] using hq)
            simp only [markLost, closeP, dropConn, upd_apply] at this
            by_cases hqp : q = p
            · subst hqp; exact absurd hqa.symm ha
            · simpa [hqp, hqa] using this
          obtain ⟨g1, g2⟩ := h a this
          refine ⟨fun x => ?_, by simp [upd_apply, ha, g2]⟩
          simp [memT_lostDel, g1 x]
      · exact h
    · by_cases htk : ∃ dt, e = Ev.tick dt
      · obtain ⟨dt, rfl⟩ := htk
        exact h
      by_cases hdis : ∃ p r, e = Ev.data p r ∧ ¬ (p < s.nobj ∧ (s.obj p).closing = false)
      · obtain ⟨p, r, rfl, hen⟩ := hdis
        simp only [step, hen, if_false]; exact h
      have hr := rel_step c s e (fun a he => hc ⟨a, he⟩) (fun p he => hl ⟨p, he⟩) (fun dt he => htk ⟨dt, he⟩)
      intro a hal
      have hal' : allLost s a := by
        intro q hq hqa
        have := hal q (by rw [hr.nobj]; exact hq) (by rw [hr.addr]; exact hqa)
        rw [hr.lost] at this; exact this
      obtain ⟨g1, g2⟩ := h a hal'
      have hne : some a ≠ tgt s e := by
        intro he
        cases e with
        | data p r =>
          simp only [tgt, vtgt] at he
          split at he
          case isFalse => cases he
          have hen : p < s.nobj ∧ (s.obj p).closing = false := by
            apply Classical.byContradiction; intro hen; exact hdis ⟨p, r, rfl, hen⟩
          have hpl : (s.obj p).lost = true := hal' p hen.1 (by injection he with he; exact he.symm)
          have := hA.lost_closing p hpl
          simp_all
        | _ => simp [tgt] at he
      refine ⟨fun x => ?_, hr.prepared a hne g2⟩
      cases hm : memT ((step c s e).1.topics x) a with
      | false => rfl
      | true => have := hr.topics a x hne hm; rw [g1 x] at this; cases this

end Hap.Sys

namespace Hap.Sys

/-! ### monotone facts over arbitrary steps -/

theorem step_nobj_le (c : Cfg) (s : St) (e : Ev) : s.nobj ≤ (step c s e).1.nobj := by
  by_cases hc : ∃ a, e = Ev.connect a
  · obtain ⟨a, rfl⟩ := hc; simp only [step]; split <;> simp
  by_cases hl : ∃ p, e = Ev.lose p
  · obtain ⟨p, rfl⟩ := hl; simp only [step]; split <;> simp [markLost, closeP, dropConn]
  by_cases ht : ∃ dt, e = Ev.tick dt
  · obtain ⟨dt, rfl⟩ := ht; simp [step]
  exact Nat.le_of_eq (rel_step c s e (fun a he => hc ⟨a, he⟩) (fun p he => hl ⟨p, he⟩) (fun d he => ht ⟨d, he⟩)).nobj.symm

/-- existing objects keep their address, stay closing / lost once they are -/
theorem step_obj_mono (c : Cfg) (s : St) (e : Ev) (q : ObjId) (hq : q < s.nobj) :
    ((step c s e).1.obj q).addr = (s.obj q).addr ∧
    ((s.obj q).closing = true → ((step c s e).1.obj q).closing = true) ∧
    ((s.obj q).lost = true → ((step c s e).1.obj q).lost = true) := by
  by_cases hc : ∃ a, e = Ev.connect a
  · obtain ⟨a, rfl⟩ := hc; simp only [step]; split
    · simp
    · simp [upd_apply, Nat.ne_of_lt hq]
  by_cases hl : ∃ p, e = Ev.lose p
  · obtain ⟨p, rfl⟩ := hl; simp only [step]; split
    · simp only [markLost, closeP, dropConn, upd_apply]
      by_cases hqp : q = p
      · subst hqp; simp
      · simp [hqp]
    · simp
  by_cases ht : ∃ dt, e = Ev.tick dt
  · obtain ⟨dt, rfl⟩ := ht; simp [step]
  have hr := rel_step c s e (fun a he => hc ⟨a, he⟩) (fun p he => hl ⟨p, he⟩) (fun d he => ht ⟨d, he⟩)
  exact ⟨hr.addr q, hr.closing q, fun h => by rw [hr.lost]; exact h⟩

/-- once all connections from `a` are lost this stays so until somebody connects from `a` again -/
theorem allLost_step (c : Cfg) (s : St) (e : Ev) (a : Addr) (h : allLost s a) (hne : e ≠ Ev.connect a) :
    allLost (step c s e).1 a := by
  by_cases hc : ∃ a', e = Ev.connect a'
  · obtain ⟨a', rfl⟩ := hc
    have haa : a' ≠ a := fun e => hne (by rw [e])
    simp only [step]; split
    · exact h
    · intro p hp hpa
      simp only at hp hpa ⊢
      by_cases hpn : p = s.nobj
      · subst hpn; simp [upd_apply] at hpa; exact absurd hpa haa
      · have hp' : p < s.nobj := by omega
        simp only [upd_apply, hpn, if_false] at hpa ⊢
        exact h p hp' hpa
  · intro p hp hpa
    by_cases hp' : p < s.nobj
    · have := step_obj_mono c s e p hp'
      rw [this.1] at hpa
      exact this.2.2 (h p hp' hpa)
    · -- no new object without a connect
      exfalso
      by_cases hl : ∃ p, e = Ev.lose p
      · obtain ⟨p', rfl⟩ := hl
        simp only [step] at hp; split at hp <;> simp [markLost, closeP, dropConn] at hp <;> omega
      by_cases ht : ∃ dt, e = Ev.tick dt
      · obtain ⟨dt, rfl⟩ := ht; simp [step] at hp; omega
      have hr := rel_step c s e (fun a he => hc ⟨a, he⟩) (fun p he => hl ⟨p, he⟩) (fun d he => ht ⟨d, he⟩)
      rw [hr.nobj] at hp; omega

/-! ### under the address-reuse hypothesis: at most one live connection per address -/

def UniqInv (s : St) : Prop :=
  ∀ p q, p < s.nobj → q < s.nobj → (s.obj p).lost = false → (s.obj q).lost = false →
    (s.obj p).addr = (s.obj q).addr → p = q

theorem uniqInv_init (c : Cfg) : UniqInv (init c) := by
  intro p q hp; simp [init] at hp

/-- the reuse condition for one event -/
def reuseCond (s : St) : Ev → Prop
  | .connect a => allLost s a
  | _ => True

theorem uniqInv_step (c : Cfg) (s : St) (e : Ev) (h : UniqInv s) (hr : reuseCond s e) : UniqInv (step c s e).1 := by
  by_cases hc : ∃ a, e = Ev.connect a
  · obtain ⟨a, rfl⟩ := hc
    simp only [reuseCond] at hr
    simp only [step]; split
    · exact h
    · intro p q hp hq hpl hql hpq
      simp only at hp hq hpl hql hpq
      simp only [upd_apply] at hpl hql hpq
      by_cases hpn : p = s.nobj <;> by_cases hqn : q = s.nobj
      · omega
      · exfalso
        simp only [hpn, hqn, if_true, if_false] at hpq hql
        have : q < s.nobj := by omega
        have := hr q this hpq.symm
        simp_all
      · exfalso
        simp only [hpn, hqn, if_true, if_false] at hpq hpl
        have : p < s.nobj := by omega
        have := hr p this hpq
        simp_all
      · simp only [hpn, hqn, if_false] at hpq hpl hql
        exact h p q (by omega) (by omega) hpl hql hpq
  · intro p q hp hq hpl hql hpq
    have hnobj : (step c s e).1.nobj = s.nobj := by
      by_cases hl : ∃ p, e = Ev.lose p
      · obtain ⟨p', rfl⟩ := hl
        simp only [step]; split <;> simp [markLost, closeP, dropConn]
      by_cases ht : ∃ dt, e = Ev.tick dt
      · obtain ⟨dt, rfl⟩ := ht; simp [step]
      exact (rel_step c s e (fun a he => hc ⟨a, he⟩) (fun p he => hl ⟨p, he⟩) (fun d he => ht ⟨d, he⟩)).nobj
    rw [hnobj] at hp hq
    have mp := step_obj_mono c s e p hp
    have mq := step_obj_mono c s e q hq
    rw [mp.1, mq.1] at hpq
    have hpl' : (s.obj p).lost = false := by
      cases hh : (s.obj p).lost with
      | false => rfl
      | true => have := mp.2.2 hh; simp_all
    have hql' : (s.obj q).lost = false := by
      cases hh : (s.obj q).lost with
      | false => rfl
      | true => have := mq.2.2 hh; simp_all
    exact h p q hp hq hpl' hql' hpq

theorem reuseOK_cons (c : Cfg) (s : St) (e : Ev) (es : List Ev) :
    ReuseOK c s (e :: es) ↔ reuseCond s e ∧ ReuseOK c (step c s e).1 es := by
  cases e <;> simp [ReuseOK, reuseCond]

/-- all invariants of reachable states under the reuse hypothesis -/
structure Good (s : St) : Prop where
  a : InvA s
  clean : CleanInv s
  uniq : UniqInv s

theorem good_init (c : Cfg) : Good (init c) := ⟨invA_init c, cleanInv_init c, uniqInv_init c⟩

theorem good_run (c : Cfg) (hc : c.fix13 = true) (tr : List Ev) (s : St) (h : Good s) (hr : ReuseOK c s tr) :
    Good (run c s tr).1 := by
  induction tr generalizing s with
  | nil => exact h
  | cons e es ih =>
    rw [reuseOK_cons] at hr
    simp only [run]
    exact ih _ ⟨invA_step c hc s e h.a, cleanInv_step c s e h.a h.clean, uniqInv_step c s e h.uniq hr.1⟩ hr.2

theorem cleanInv_run (c : Cfg) (hc : c.fix13 = true) (tr : List Ev) (s : St) (hA : InvA s) (h : CleanInv s) :
    CleanInv (run c s tr).1 := by
  induction tr generalizing s with
  | nil => exact h
  | cons e es ih => simp only [run]; exact ih _ (invA_step c hc s e hA) (cleanInv_step c s e hA h)

end Hap.Sys

namespace Hap.Sys

/-! ### outputs -/

/-- every write in `l` goes to the transport of `q` -/
def writesOnly (q : ObjId) (l : List Out) : Prop := ∀ o ∈ l, ∀ p, o.isWriteTo p → p = q

theorem writesOnly_nil (q : ObjId) : writesOnly q [] := by intro o ho; cases ho

theorem writesOnly_append {q : ObjId} {l1 l2 : List Out} (h1 : writesOnly q l1) (h2 : writesOnly q l2) :
    writesOnly q (l1 ++ l2) := by
  intro o ho; rcases List.mem_append.mp ho with h | h
  · exact h1 o h
  · exact h2 o h

theorem closeOuts_noWrite (q : ObjId) (t : Nat) (p : ObjId) : ∀ o ∈ closeOuts q t, ¬ o.isWriteTo p := by
  intro o ho; simp [closeOuts] at ho; rcases ho with rfl | rfl <;> simp [Out.isWriteTo]

theorem writesOnly_closeP (c : Cfg) (s : St) (q : ObjId) : writesOnly q (closeP c s q).2 := by
  intro o ho p hp; exact absurd hp (closeOuts_noWrite q s.now p o ho)

theorem writesOnly_respond (s : St) (q : ObjId) (code : Nat) (b : Body) : writesOnly q (respond s q code b).2 := by
  intro o ho p hp; simp [respond] at ho; subst ho; simpa [Out.isWriteTo] using hp.symm

theorem writesOnly_sendEvents (s : St) (q : ObjId) : writesOnly q (sendEvents s q).2 := by
  simp only [sendEvents]
  split
  · exact writesOnly_nil q
  · split
    · exact writesOnly_nil q
    · intro o ho p hp; simp at ho; subst ho; simpa [Out.isWriteTo] using hp.symm

theorem writesOnly_onReq (c : Cfg) (s : St) (q : ObjId) (r : Req) : writesOnly q (onReq c s q r).2 := by
  simp only [onReq]
  split
  · exact writesOnly_closeP c s q
  · split
    · exact writesOnly_closeP c s q
    · exact writesOnly_closeP c s q
    · rename_i x ev val cl
      simp only [onPut]
      have hr : writesOnly q (if (s.obj q).verified then respond (putChars c s q x ev val) q (putCode c [(x, ev, val)]) (putBody c [(x, ev, val)])
           else respond s q 401 Body.none).2 := by
        split <;> exact writesOnly_respond _ _ _ _
      split
      · exact writesOnly_append hr (writesOnly_closeP c _ q)
      · exact hr
    · rename_i qs cl
      simp only [onPutMany]
      have hr : writesOnly q (if (s.obj q).verified then respond (putAll c s q qs) q (putCode c qs) (putBody c qs)
           else respond s q 401 Body.none).2 := by
        split <;> exact writesOnly_respond _ _ _ _
      split
      · exact writesOnly_append hr (writesOnly_closeP c _ q)
      · exact hr
    · split <;> exact writesOnly_respond _ _ _ _
    · split <;> exact writesOnly_respond _ _ _ _
    · split
      · exact writesOnly_nil q
      · exact writesOnly_respond _ _ _ _

/-- **no write to a transport after `close()`** (one step) -/
theorem step_silent (c : Cfg) (s : St) (e : Ev) (p : ObjId) (hA : InvA s) (hcl : (s.obj p).closing = true) :
    ∀ o ∈ (step c s e).2, ¬ o.isWriteTo p := by
  have hq := hA.closing_empty p hcl
  cases e with
  | tick dt => intro o ho; cases ho
  | connect a => simp only [step]; split <;> (intro o ho; cases ho)
  | verify q => simp only [step]; split <;> (intro o ho; cases ho)
  | data q r =>
    simp only [step]; split
    · rename_i hen
      intro o ho hp
      have := writesOnly_onReq c (touch s q) q r o ho p hp
      subst this; simp_all
    · intro o ho; cases ho
  | appSet x v => intro o ho; cases ho
  | appSetWorker x v => intro o ho; cases ho
  | handOff => intro o ho; cases ho
  | timerFire q =>
    simp only [step]; split
    · rename_i hen
      intro o ho hp
      have := writesOnly_sendEvents s q o ho p hp
      subst this; simp_all
    · intro o ho; cases ho
  | soonFlush q =>
    simp only [step]; split
    · intro o ho hp
      have := writesOnly_sendEvents _ q o ho p hp
      subst this
      simp [sendEvents, hq.1] at ho
    · intro o ho; cases ho
  | respReady q ok =>
    simp only [step]; split
    · split
      · intro o ho; cases ho
      · rename_i hncl
        have hqp : q ≠ p := by intro e; subst e; simp [hcl] at hncl
        split <;> (intro o ho hp; exact hqp (writesOnly_respond _ q _ _ o ho p hp).symm)
    · intro o ho; cases ho
  | lose q =>
    simp only [step]; split
    · intro o ho; exact closeOuts_noWrite q _ p o ho
    · intro o ho; cases ho
  | idleSweep =>
    simp only [step]
    intro o ho
    simp only [List.mem_flatMap] at ho
    obtain ⟨q, _, hq⟩ := ho
    exact closeOuts_noWrite q _ p o hq
  | stop =>
    simp only [step]
    intro o ho
    simp only [List.mem_flatMap] at ho
    obtain ⟨q, _, hq⟩ := ho
    exact closeOuts_noWrite q _ p o hq

theorem closing_step (c : Cfg) (s : St) (e : Ev) (p : ObjId) (hp : p < s.nobj) (hcl : (s.obj p).closing = true) :
    ((step c s e).1.obj p).closing = true := (step_obj_mono c s e p hp).2.1 hcl

theorem run_silent (c : Cfg) (hc : c.fix13 = true) (tr : List Ev) (s : St) (p : ObjId) (hA : InvA s)
    (hp : p < s.nobj) (hcl : (s.obj p).closing = true) : ∀ o ∈ (run c s tr).2, ¬ o.isWriteTo p := by
  induction tr generalizing s with
  | nil => intro o ho; cases ho
  | cons e es ih =>
    intro o ho
    simp only [run] at ho
    rcases List.mem_append.mp ho with h | h
    · exact step_silent c s e p hA hcl o h
    · exact ih _ (invA_step c hc s e hA) (Nat.lt_of_lt_of_le hp (step_nobj_le c s e)) (closing_step c s e p hp hcl) o h

/-! ### idle sweep -/

theorem idleSweep_closes_only_idle (c : Cfg) (s : St) (p : ObjId)
    (h0 : (s.obj p).closing = false) (h1 : ((step c s Ev.idleSweep).1.obj p).closing = true) :
    registered s p ∧ (s.obj p).last + IDLE < s.now := by
  simp only [step] at h1
  split at h1
  · rename_i h; exact h.2
  · simp_all

theorem data_refreshes (c : Cfg) (s : St) (p : ObjId) (r : Req)
    (hen : p < s.nobj ∧ (s.obj p).closing = false) :
    ((step c s (Ev.data p r)).1.obj p).last = s.now := by
  simp only [step, hen, and_self, if_true, onData]
  have ht : ((touch s p).obj p).last = s.now := by simp [touch]
  have hr := (rel_onReq c (touch s p) p r).last p
  have hn : (touch s p).now = s.now := rfl
  rw [ht, hn] at hr
  rcases hr with h | h <;> exact h

/-- `last_activity` never decreases, the clock never runs backwards -/
theorem step_last_mono (c : Cfg) (s : St) (e : Ev) (q : ObjId) (hq : q < s.nobj) (hA : InvA s) :
    s.now ≤ (step c s e).1.now ∧ (s.obj q).last ≤ ((step c s e).1.obj q).last := by
  by_cases hc : ∃ a, e = Ev.connect a
  · obtain ⟨a, rfl⟩ := hc; simp only [step]; split
    · simp
    · simp [upd_apply, Nat.ne_of_lt hq]
  by_cases hl : ∃ p, e = Ev.lose p
  · obtain ⟨p, rfl⟩ := hl; simp only [step]; split
    · simp only [markLost, closeP, dropConn, upd_apply]
      by_cases hqp : q = p
      · subst hqp; simp
      · simp [hqp]
    · simp
  by_cases ht : ∃ dt, e = Ev.tick dt
  · obtain ⟨dt, rfl⟩ := ht; simp [step]
  have hr := rel_step c s e (fun a he => hc ⟨a, he⟩) (fun p he => hl ⟨p, he⟩) (fun d he => ht ⟨d, he⟩)
  refine ⟨Nat.le_of_eq hr.now.symm, ?_⟩
  rcases hr.last q with h | h
  · exact Nat.le_of_eq h.symm
  · rw [h]; exact hA.last_le q

theorem run_last_mono (c : Cfg) (hc : c.fix13 = true) (tr : List Ev) (s : St) (q : ObjId) (hq : q < s.nobj) (hA : InvA s) :
    s.now ≤ (run c s tr).1.now ∧ (s.obj q).last ≤ ((run c s tr).1.obj q).last ∧ q < (run c s tr).1.nobj := by
  induction tr generalizing s with
  | nil => exact ⟨Nat.le_refl _, Nat.le_refl _, hq⟩
  | cons e es ih =>
    simp only [run]
    have h1 := step_last_mono c s e q hq hA
    have h2 := ih _ (Nat.lt_of_lt_of_le hq (step_nobj_le c s e)) (invA_step c hc s e hA)
    exact ⟨Nat.le_trans h1.1 h2.1, Nat.le_trans h1.2 h2.2.1, h2.2.2⟩

end Hap.Sys

namespace Hap.Sys

/-! ### the dict-like queue -/

theorem aget_aset (q : List (Cid × Val)) (x y : Cid) (v : Val) :
    aget (aset q x v) y = if y = x then some v else aget q y := by
  induction q with
  | nil => simp only [aset, aget]; split <;> simp_all [eq_comm]
  | cons h t ih =>
    obtain ⟨z, w⟩ := h
    simp only [aset]
    split
    · rename_i hz; subst hz
      simp only [aget]; split <;> simp_all [eq_comm]
    · rename_i hz
      simp only [aget, ih]
      split <;> split <;> simp_all

theorem aget_filter (q : List (Cid × Val)) (P : Cid → Bool) (y : Cid) :
    aget (q.filter (fun e => P e.1)) y = if P y then aget q y else none := by
  induction q with
  | nil => simp [aget]
  | cons h t ih =>
    obtain ⟨z, w⟩ := h
    simp only [List.filter]
    cases hz : P z with
    | true =>
      simp only [aget, ih]
      split
      · rename_i e; subst e; simp [hz]
      · rfl
    | false =>
      simp only [ih, aget]
      split
      · split
        · rename_i e; subst e; simp_all
        · rfl
      · rfl

theorem aget_adel (q : List (Cid × Val)) (x y : Cid) :
    aget (adel q x) y = if y = x then none else aget q y := by
  have := aget_filter q (fun z => decide (z ≠ x)) y
  simp only [adel]
  rw [this]
  by_cases h : y = x <;> simp [h]

theorem aget_none_of_not_mem (q : List (Cid × Val)) (x : Cid) (h : x ∉ q.map Prod.fst) : aget q x = none := by
  induction q with
  | nil => rfl
  | cons hd t ih =>
    obtain ⟨z, w⟩ := hd
    simp only [List.map, List.mem_cons, not_or] at h
    simp only [aget]
    split
    · rename_i e; exact absurd e.symm h.1
    · exact ih h.2

theorem keys_aset (q : List (Cid × Val)) (x : Cid) (v : Val) (y : Cid) :
    y ∈ (aset q x v).map Prod.fst ↔ y = x ∨ y ∈ q.map Prod.fst := by
  induction q with
  | nil => simp [aset]
  | cons h t ih =>
    obtain ⟨z, w⟩ := h
    simp only [aset]
    split
    · rename_i e; subst e; simp
    · simp only [List.map, List.mem_cons, ih]
      constructor
      · rintro (h | h | h) <;> simp_all
      · rintro (h | h | h) <;> simp_all

theorem nodup_aset (q : List (Cid × Val)) (x : Cid) (v : Val) (h : (q.map Prod.fst).Nodup) :
    ((aset q x v).map Prod.fst).Nodup := by
  induction q with
  | nil => simp [aset]
  | cons hd t ih =>
    obtain ⟨z, w⟩ := hd
    simp only [List.map, List.nodup_cons] at h
    simp only [aset]
    split
    · simp only [List.map, List.nodup_cons]; exact h
    · rename_i hz
      simp only [List.map, List.nodup_cons]
      refine ⟨?_, ih h.2⟩
      intro hm
      rcases (keys_aset t x v z).mp hm with e | e
      · exact hz e
      · exact h.1 e

theorem nodup_filter_keys (q : List (Cid × Val)) (P : Cid × Val → Bool) (h : (q.map Prod.fst).Nodup) :
    ((q.filter P).map Prod.fst).Nodup := by
  induction q with
  | nil => simp
  | cons hd t ih =>
    simp only [List.map, List.nodup_cons] at h
    simp only [List.filter]
    split
    · simp only [List.map, List.nodup_cons]
      refine ⟨fun hm => h.1 ?_, ih h.2⟩
      obtain ⟨e, he, hee⟩ := List.mem_map.mp hm
      exact List.mem_map.mpr ⟨e, (List.mem_filter.mp he).1, hee⟩
    · exact ih h.2

theorem aget_of_mem (q : List (Cid × Val)) (x : Cid) (v : Val) (h : (q.map Prod.fst).Nodup) (hm : (x, v) ∈ q) :
    aget q x = some v := by
  induction q with
  | nil => cases hm
  | cons hd t ih =>
    obtain ⟨z, w⟩ := hd
    simp only [List.map, List.nodup_cons] at h
    simp only [aget]
    rcases List.mem_cons.mp hm with e | e
    · cases e; simp
    · split
      · rename_i hz; subst hz
        exact absurd (List.mem_map.mpr ⟨(z, v), e, rfl⟩) h.1
      · exact ih h.2 e

/-! ### per-object queue invariant -/

/-- originator exclusion (ghost `qsrc`), immediate entries have a pending `call_soon` flush,
    the queue is a dict -/
structure QOk (c : Cfg) (o : Obj) : Prop where
  src : ∀ x, o.qsrc x ≠ some o.addr
  imm : ∀ x, (aget o.queue x).isSome = true → c.imm x = true → 0 < o.soon
  nodup : (o.queue.map Prod.fst).Nodup

theorem qok_default (c : Cfg) (a : Addr) (t : Nat) : QOk c { addr := a, last := t } := by
  constructor <;> simp [aget]

theorem qok_closeO (c : Cfg) (o : Obj) (h : QOk c o) : QOk c (closeO c o) := by
  obtain ⟨h1, h2, h3⟩ := h
  simp only [closeO]; split
  · constructor <;> simp [aget]; exact h1
  · exact ⟨h1, h2, h3⟩

theorem qok_enqueue (c : Cfg) (o : Obj) (x : Cid) (v : Val) (src : Option Addr) (now : Nat) (h : QOk c o)
    (hs : src ≠ some o.addr) : QOk c (enqueue o x v (c.imm x) src now) := by
  obtain ⟨h1, h2, h3⟩ := h
  constructor
  · intro y; simp only [enqueue, upd_apply]; split
    · exact hs
    · exact h1 y
  · intro y hy hi
    simp only [enqueue] at hy ⊢
    rw [aget_aset] at hy
    split at hy
    · rename_i e; subst e; simp [hi]
    · have := h2 y hy hi
      split <;> omega
  · exact nodup_aset _ _ _ h3

theorem qok_clear (c : Cfg) (o o' : Obj) (h : QOk c o) (e1 : o'.addr = o.addr) (e2 : o'.qsrc = o.qsrc) (e3 : o'.queue = []) :
    QOk c o' := by
  obtain ⟨h1, h2, h3⟩ := h
  constructor
  · intro x; rw [e1, e2]; exact h1 x
  · intro x hx; rw [e3] at hx; simp [aget] at hx
  · rw [e3]; simp

theorem qok_same (c : Cfg) (o o' : Obj) (h : QOk c o) (e1 : o'.addr = o.addr) (e2 : o'.qsrc = o.qsrc)
    (e3 : o'.queue = o.queue) (e4 : o.soon ≤ o'.soon) : QOk c o' := by
  obtain ⟨h1, h2, h3⟩ := h
  constructor
  · intro x; rw [e1, e2]; exact h1 x
  · intro x hx hi; rw [e3] at hx; have := h2 x hx hi; omega
  · rw [e3]; exact h3

theorem qok_adel (c : Cfg) (o : Obj) (x : Cid) (h : QOk c o) : QOk c { o with queue := adel o.queue x } := by
  obtain ⟨h1, h2, h3⟩ := h
  constructor
  · exact h1
  · intro y hy hi
    simp only [aget_adel] at hy
    split at hy
    · simp at hy
    · exact h2 y hy hi
  · exact nodup_filter_keys _ _ h3

def InvQ (c : Cfg) (s : St) : Prop := ∀ q, QOk c (s.obj q)

theorem invQ_init (c : Cfg) : InvQ c (init c) := by
  intro q; constructor <;> simp [init, aget]

theorem invQ_updObj (c : Cfg) (s : St) (p : ObjId) (o' : Obj) (h : InvQ c s) (ho : QOk c o') :
    InvQ c { s with obj := upd s.obj p o' } := by
  intro q; simp only [upd_apply]; split
  · exact ho
  · exact h q

theorem invQ_closeP (c : Cfg) (s : St) (p : ObjId) (h : InvQ c s) : InvQ c (closeP c s p).1 := by
  simp only [closeP]
  intro q; simp only [upd_apply]; split
  · exact qok_closeO c _ (h p)
  · exact h q

theorem invQ_sendEvents_weak (c : Cfg) (s : St) (p : ObjId) (h : ∀ q, q ≠ p → QOk c (s.obj q))
    (hp : ∀ x, (s.obj p).qsrc x ≠ some (s.obj p).addr) : InvQ c (sendEvents s p).1 := by
  have key : ∀ o' : Obj, o'.addr = (s.obj p).addr → o'.qsrc = (s.obj p).qsrc → o'.queue = [] →
      InvQ c { s with obj := upd s.obj p o' } := by
    intro o' e1 e2 e3 q
    simp only [upd_apply]; split
    · constructor
      · intro x; rw [e1, e2]; exact hp x
      · intro x hx; rw [e3] at hx; simp [aget] at hx
      · rw [e3]; simp
    · rename_i hq; exact h q hq
  simp only [sendEvents]
  split
  · rename_i hq; exact key _ rfl rfl hq
  · split
    · exact key _ rfl rfl rfl
    · exact key _ rfl rfl rfl

theorem invQ_sendEvents (c : Cfg) (s : St) (p : ObjId) (h : InvQ c s) : InvQ c (sendEvents s p).1 :=
  invQ_sendEvents_weak c s p (fun q _ => h q) (h p).src

theorem invQ_respond (c : Cfg) (s : St) (p : ObjId) (code : Nat) (b : Body) (h : InvQ c s) : InvQ c (respond s p code b).1 :=
  invQ_updObj c s p _ h (qok_same c (s.obj p) _ (h p) rfl rfl rfl (Nat.le_refl _))

theorem invQ_publish (c : Cfg) (s : St) (x : Cid) (v : Val) (sd : Option Addr) (h : InvQ c s) :
    InvQ c (publish c s x v sd) := by
  simp only [publish]
  split
  · exact h
  · split
    · exact h
    · intro q
      simp only [pubObj]
      split
      · split
        · exact qok_same c (s.obj q) _ (h q) rfl rfl rfl (Nat.le_refl _)
        · rename_i hne
          have := qok_enqueue c (s.obj q) x v sd s.now (h q) (fun e => hne e.symm)
          exact qok_same c _ _ this rfl rfl rfl (Nat.le_refl _)
      · exact h q

theorem invQ_writeVal (c : Cfg) (s : St) (x : Cid) (v : Val) (sd : Option Addr) (h : InvQ c s) :
    InvQ c (writeVal c s x v sd) := by
  simp only [writeVal]
  have h1 : InvQ c { s with value := upd s.value x (some v) } := h
  split
  · split
    · exact invQ_publish c _ x v sd h1
    · exact h1
  · split
    · exact invQ_publish c _ x v sd h1
    · exact h1

theorem invQ_discardStale (c : Cfg) (s : St) (a : Addr) (x : Cid) (h : InvQ c s) : InvQ c (discardStale c s a x) := by
  simp only [discardStale]
  split
  · split
    · exact h
    · split
      · exact h
      · split
        · exact invQ_updObj c s _ _ h (qok_adel c _ x (h _))
        · exact h
  · exact h

theorem invQ_clientUpdate (c : Cfg) (s : St) (x : Cid) (v : Val) (sd : Option Addr) (h : InvQ c s) :
    InvQ c (clientUpdate c s x v sd) := by
  simp only [clientUpdate]
  have h2 : InvQ c (runCallback c (setVal s x v) x v) := by
    simp only [runCallback]
    have h1 : InvQ c (setVal s x v) := h
    split
    · exact h1
    · exact invQ_writeVal c _ x v none h1
    · exact invQ_writeVal c _ x _ none h1
    · exact invQ_writeVal c _ _ _ none h1
    · exact h1
  have h3 : InvQ c (match (runCallback c (setVal s x v) x v).value x with
    | some u => if (runCallback c (setVal s x v) x v).value x ≠ s.value x then publish c (runCallback c (setVal s x v) x v) x u sd
                else runCallback c (setVal s x v) x v
    | none => runCallback c (setVal s x v) x v) := by
    split
    · split
      · exact invQ_publish c _ _ _ _ h2
      · exact h2
    · exact h2
  split
  · exact h3
  · exact h3

theorem invQ_putChars (c : Cfg) (s : St) (p : ObjId) (x : Cid) (ev : Option Bool) (val : Option Val) (h : InvQ c s) :
    InvQ c (putChars c s p x ev val) := by
  have h1 : InvQ c (putSub c s p x ev) := by
    simp only [putSub]; split
    · exact h
    · exact h
    · have hu : InvQ c (unsubSt s p x) :=
        invQ_updObj c { s with topics := _ } p _ h (qok_same c (s.obj p) _ (h p) rfl rfl rfl (Nat.le_refl _))
      simp only [dropEvent]
      split
      · split
        · exact hu
        · exact invQ_updObj c _ _ _ hu (qok_adel c _ x (hu _))
      · exact hu
  simp only [putChars]
  split
  · exact h1
  · rename_i v
    split
    · simp only [failVal]; split
      · exact h1
      · exact h1
    · simp only [putVal]
      have h5 := invQ_discardStale c _ ((putSub c s p x ev).obj p).addr x (invQ_clientUpdate c (putSub c s p x ev) x v (some ((putSub c s p x ev).obj p).addr) h1)
      exact invQ_updObj c _ p _ h5 (qok_same c _ _ (h5 p) rfl rfl rfl (Nat.le_refl _))

theorem invQ_onReq (c : Cfg) (s : St) (p : ObjId) (r : Req) (h : InvQ c s) : InvQ c (onReq c s p r).1 := by
  simp only [onReq]
  split
  · exact invQ_closeP c s p h
  · split
    · exact invQ_closeP c s p h
    · exact invQ_closeP c s p h
    · rename_i x ev val cl
      simp only [onPut]
      have hr : InvQ c (if (s.obj p).verified then respond (putChars c s p x ev val) p (putCode c [(x, ev, val)]) (putBody c [(x, ev, val)])
           else respond s p 401 Body.none).1 := by
        split
        · exact invQ_respond c _ p _ _ (invQ_putChars c s p x ev val h)
        · exact invQ_respond c _ p _ _ h
      split
      · exact invQ_closeP c _ p hr
      · exact hr
    · rename_i qs cl
      simp only [onPutMany]
      have hr : InvQ c (if (s.obj p).verified then respond (putAll c s p qs) p (putCode c qs) (putBody c qs)
           else respond s p 401 Body.none).1 := by
        split
        · exact invQ_respond c _ p _ _
            (putAll_pres (InvQ c) c p (fun t x ev val ht => invQ_putChars c t p x ev val ht) s qs h)
        · exact invQ_respond c _ p _ _ h
      split
      · exact invQ_closeP c _ p hr
      · exact hr
    · split <;> exact invQ_respond c _ p _ _ h
    · split
      · exact invQ_respond c { s with prepared := _ } p _ _ h
      · exact invQ_respond c _ p _ _ h
    · split
      · exact invQ_updObj c s p _ h (qok_same c (s.obj p) _ (h p) rfl rfl rfl (Nat.le_refl _))
      · exact invQ_respond c _ p _ _ h

theorem invQ_step (c : Cfg) (s : St) (e : Ev) (h : InvQ c s) : InvQ c (step c s e).1 := by
  cases e with
  | tick dt => exact h
  | connect a =>
    simp only [step]; split
    · exact h
    · exact invQ_updObj c { s with nobj := _, reg := _ } s.nobj _ h (qok_default c a s.now)
  | verify p =>
    simp only [step]; split
    · exact invQ_updObj c s p _ h (qok_same c (s.obj p) _ (h p) rfl rfl rfl (Nat.le_refl _))
    · exact h
  | data p r =>
    simp only [step]; split
    · simp only [onData]
      exact invQ_onReq c _ p r (invQ_updObj c s p _ h (qok_same c (s.obj p) _ (h p) rfl rfl rfl (Nat.le_refl _)))
    · exact h
  | appSet x v => exact invQ_writeVal c s x v none h
  | appSetWorker x v =>
    simp only [step, appSetWorker]
    split <;> exact h
  | handOff =>
    simp only [step, handOff]
    split
    · exact h
    · split
      · exact h
      · exact invQ_publish c _ _ _ none h
  | timerFire p =>
    simp only [step]; split
    · exact invQ_sendEvents c s p h
    · exact h
  | soonFlush p =>
    simp only [step]; split
    · -- the decremented counter is only checked after the queue has been cleared
      apply invQ_sendEvents_weak
      · intro q hq; simp only [upd_apply, hq, if_false]; exact h q
      · intro x; simp only [upd_apply, if_true]; exact (h p).src x
    · exact h
  | respReady p ok =>
    simp only [step]; split
    · have hs1 : InvQ c { s with obj := upd s.obj p { s.obj p with pending := false } } :=
        invQ_updObj c s p _ h (qok_same c (s.obj p) _ (h p) rfl rfl rfl (Nat.le_refl _))
      split
      · exact hs1
      · split <;> exact invQ_respond c _ p _ _ hs1
    · exact h
  | lose p =>
    simp only [step]; split
    · simp only [markLost]
      have h2 : InvQ c (closeP c (dropConn s (s.obj p).addr) p).1 := invQ_closeP c _ p h
      exact invQ_updObj c _ p _ h2 (qok_same c _ _ (h2 p) rfl rfl rfl (Nat.le_refl _))
    · exact h
  | idleSweep =>
    simp only [step]
    intro q; simp only; split
    · exact qok_closeO c _ (h q)
    · exact h q
  | stop =>
    simp only [step]
    intro q; simp only; split
    · exact qok_closeO c _ (h q)
    · exact h q

theorem invQ_run (c : Cfg) (tr : List Ev) (s : St) (h : InvQ c s) : InvQ c (run c s tr).1 := by
  induction tr generalizing s with
  | nil => exact h
  | cons e es ih => simp only [run]; exact ih _ (invQ_step c s e h)

end Hap.Sys

namespace Hap.Sys

/-- every subscribed address belongs to a live (not lost) connection holding a verified session -/
def SubInv (s : St) : Prop :=
  ∀ a x, subscribed s x a →
    ∃ p, p < s.nobj ∧ (s.obj p).addr = a ∧ (s.obj p).lost = false ∧ (s.obj p).verified = true

theorem subInv_init (c : Cfg) : SubInv (init c) := by
  intro a x h; simp [subscribed, init] at h

theorem subInv_step (c : Cfg) (s : St) (e : Ev) (hA : InvA s) (h : SubInv s) : SubInv (step c s e).1 := by
  by_cases hc : ∃ a, e = Ev.connect a
  · obtain ⟨a', rfl⟩ := hc
    simp only [step]; split
    · exact h
    · intro a x hs
      obtain ⟨p, p1, p2, p3, p4⟩ := h a x hs
      refine ⟨p, Nat.lt_succ_of_lt p1, ?_, ?_, ?_⟩ <;> simp [upd_apply, Nat.ne_of_lt p1, p2, p3, p4]
  by_cases hl : ∃ p, e = Ev.lose p
  · obtain ⟨p, rfl⟩ := hl
    simp only [step]; split
    · intro a x hs
      simp only [subscribed, markLost, closeP, dropConn, memT_lostDel] at hs
      simp at hs
      obtain ⟨w, w1, w2, w3, w4⟩ := h a x hs.1
      have hwp : w ≠ p := by intro e; subst e; exact hs.2 w2.symm
      refine ⟨w, by simpa [markLost, closeP, dropConn] using w1, ?_, ?_, ?_⟩ <;>
        simp [markLost, closeP, dropConn, upd_apply, hwp, w2, w3, w4]
    · exact h
  by_cases ht : ∃ dt, e = Ev.tick dt
  · obtain ⟨dt, rfl⟩ := ht; exact h
  by_cases hdis : ∃ p r, e = Ev.data p r ∧ ¬ (p < s.nobj ∧ (s.obj p).closing = false)
  · obtain ⟨p, r, rfl, hen⟩ := hdis
    simp only [step, hen, if_false]; exact h
  have hr := rel_step c s e (fun a he => hc ⟨a, he⟩) (fun p he => hl ⟨p, he⟩) (fun d he => ht ⟨d, he⟩)
  intro a x hs
  have carry : ∀ w, w < s.nobj ∧ (s.obj w).addr = a ∧ (s.obj w).lost = false ∧ (s.obj w).verified = true →
      ∃ p, p < (step c s e).1.nobj ∧ ((step c s e).1.obj p).addr = a ∧ ((step c s e).1.obj p).lost = false ∧
        ((step c s e).1.obj p).verified = true := by
    intro w ⟨w1, w2, w3, w4⟩
    exact ⟨w, by rw [hr.nobj]; exact w1, by rw [hr.addr]; exact w2, by rw [hr.lost]; exact w3, hr.verified w w4⟩
  by_cases hne : some a = tgt s e
  · cases e with
    | data p r =>
      simp only [tgt, vtgt] at hne
      split at hne
      case isFalse => cases hne
      rename_i hv
      injection hne with hne
      have hen : p < s.nobj ∧ (s.obj p).closing = false := by
        apply Classical.byContradiction; intro hen; exact hdis ⟨p, r, rfl, hen⟩
      have hpl : (s.obj p).lost = false := by
        cases hh : (s.obj p).lost with
        | false => rfl
        | true => have := hA.lost_closing p hh; simp_all
      exact carry p ⟨hen.1, hne.symm, hpl, hv⟩
    | _ => simp [tgt] at hne
  · obtain ⟨w, hw⟩ := h a x (hr.topics a x hne hs)
    exact carry w hw

/-- under the reuse hypothesis an open connection is the registered one for its address -/
def RegInv (s : St) : Prop := ∀ p, p < s.nobj → (s.obj p).closing = false → s.reg (s.obj p).addr = some p

end Hap.Sys

namespace Hap.Sys

/-! ### where EVENT messages come from -/

def Out.isEvent : Out → Prop
  | .event _ _ _ => True
  | _ => False

def noEvent (l : List Out) : Prop := ∀ o ∈ l, ¬ o.isEvent

theorem noEvent_nil : noEvent [] := by intro o ho; cases ho
theorem noEvent_append {l1 l2 : List Out} (h1 : noEvent l1) (h2 : noEvent l2) : noEvent (l1 ++ l2) := by
  intro o ho; rcases List.mem_append.mp ho with h | h
  · exact h1 o h
  · exact h2 o h
theorem noEvent_closeOuts (q : ObjId) (t : Nat) : noEvent (closeOuts q t) := by
  intro o ho; simp [closeOuts] at ho; rcases ho with rfl | rfl <;> simp [Out.isEvent]
theorem noEvent_respond (s : St) (q : ObjId) (code : Nat) (b : Body) : noEvent (respond s q code b).2 := by
  intro o ho; simp [respond] at ho; subst ho; simp [Out.isEvent]

theorem noEvent_onReq (c : Cfg) (s : St) (q : ObjId) (r : Req) : noEvent (onReq c s q r).2 := by
  simp only [onReq]
  split
  · exact noEvent_closeOuts _ _
  · split
    · exact noEvent_closeOuts _ _
    · exact noEvent_closeOuts _ _
    · rename_i x ev val cl
      simp only [onPut]
      have hr : noEvent (if (s.obj q).verified then respond (putChars c s q x ev val) q (putCode c [(x, ev, val)]) (putBody c [(x, ev, val)])
           else respond s q 401 Body.none).2 := by
        split <;> exact noEvent_respond _ _ _ _
      split
      · exact noEvent_append hr (noEvent_closeOuts _ _)
      · exact hr
    · rename_i qs cl
      simp only [onPutMany]
      have hr : noEvent (if (s.obj q).verified then respond (putAll c s q qs) q (putCode c qs) (putBody c qs)
           else respond s q 401 Body.none).2 := by
        split <;> exact noEvent_respond _ _ _ _
      split
      · exact noEvent_append hr (noEvent_closeOuts _ _)
      · exact hr
    · split <;> exact noEvent_respond _ _ _ _
    · split <;> exact noEvent_respond _ _ _ _
    · split
      · exact noEvent_nil
      · exact noEvent_respond _ _ _ _

theorem sendEvents_event (s : St) (p q : ObjId) (t : Nat) (es : List (Cid × Val))
    (h : Out.event q t es ∈ (sendEvents s p).2) :
    q = p ∧ t = s.now ∧ es ≠ [] ∧ es = (s.obj p).queue.filter (fun e => memT (s.topics e.1) (s.obj p).addr) := by
  simp only [sendEvents] at h
  split at h
  · cases h
  · split at h
    · cases h
    · rename_i hne
      simp at h
      obtain ⟨rfl, rfl, rfl⟩ := h
      exact ⟨rfl, rfl, hne, rfl⟩

/-- an EVENT message is only ever produced by `_send_events`, run by the coalescing timer or by a
    `call_soon` callback of that same connection, and lists exactly the queued entries whose
    characteristic the connection is subscribed to at that instant -/
theorem step_event (c : Cfg) (s : St) (e : Ev) (q : ObjId) (t : Nat) (es : List (Cid × Val))
    (h : Out.event q t es ∈ (step c s e).2) :
    (e = Ev.timerFire q ∨ e = Ev.soonFlush q) ∧ q < s.nobj ∧ t = s.now ∧ es ≠ [] ∧
    es = (s.obj q).queue.filter (fun e => memT (s.topics e.1) (s.obj q).addr) := by
  have ne : ∀ l : List Out, noEvent l → Out.event q t es ∉ l := fun l hl hm => hl _ hm (by simp [Out.isEvent])
  cases e with
  | tick dt => cases h
  | connect a => simp only [step] at h; split at h <;> cases h
  | verify p => simp only [step] at h; split at h <;> cases h
  | data p r =>
    simp only [step] at h; split at h
    · exact absurd h (ne _ (noEvent_onReq c _ p r))
    · cases h
  | appSet x v => cases h
  | appSetWorker x v => cases h
  | handOff => cases h
  | timerFire p =>
    simp only [step] at h; split at h
    · rename_i hen
      obtain ⟨rfl, h2, h3, h4⟩ := sendEvents_event s p q t es h
      exact ⟨Or.inl rfl, hen.1, h2, h3, h4⟩
    · cases h
  | soonFlush p =>
    simp only [step] at h; split at h
    · rename_i hen
      obtain ⟨rfl, h2, h3, h4⟩ := sendEvents_event _ p q t es h
      refine ⟨Or.inr rfl, hen.1, h2, h3, ?_⟩
      simpa [upd_apply] using h4
    · cases h
  | respReady p ok =>
    simp only [step] at h; split at h
    · split at h
      · cases h
      · split at h <;> exact absurd h (ne _ (noEvent_respond _ _ _ _))
    · cases h
  | lose p =>
    simp only [step] at h; split at h
    · exact absurd h (ne _ (noEvent_closeOuts _ _))
    · cases h
  | idleSweep =>
    simp only [step, List.mem_flatMap] at h
    obtain ⟨p, _, hp⟩ := h
    exact absurd hp (ne _ (noEvent_closeOuts _ _))
  | stop =>
    simp only [step, List.mem_flatMap] at h
    obtain ⟨p, _, hp⟩ := h
    exact absurd hp (ne _ (noEvent_closeOuts _ _))

theorem subInv_run (c : Cfg) (hc : c.fix13 = true) (tr : List Ev) (s : St) (hA : InvA s) (h : SubInv s) :
    SubInv (run c s tr).1 := by
  induction tr generalizing s with
  | nil => exact h
  | cons e es ih => simp only [run]; exact ih _ (invA_step c hc s e hA) (subInv_step c s e hA h)

end Hap.Sys

namespace Hap.Sys

theorem run_append (c : Cfg) (s : St) (t1 t2 : List Ev) :
    (run c s (t1 ++ t2)).1 = (run c (run c s t1).1 t2).1 := by
  induction t1 generalizing s with
  | nil => rfl
  | cons e es ih => simp only [List.cons_append, run]; exact ih _

theorem reuseOK_append (c : Cfg) (s : St) (t1 t2 : List Ev) :
    ReuseOK c s (t1 ++ t2) ↔ ReuseOK c s t1 ∧ ReuseOK c (run c s t1).1 t2 := by
  induction t1 generalizing s with
  | nil => simp [ReuseOK, run]
  | cons e es ih =>
    simp only [List.cons_append, reuseOK_cons, run, ih]
    constructor
    · rintro ⟨h1, h2, h3⟩; exact ⟨⟨h1, h2⟩, h3⟩
    · rintro ⟨⟨h1, h2⟩, h3⟩; exact ⟨h1, h2, h3⟩

/-- what the accessory may still hold for a peer address -/
def holdsNothingFor (s : St) (a : Addr) : Prop :=
  (∀ x, ¬ subscribed s x a) ∧ s.prepared a = none ∧ s.reg a = none

theorem clean_of_allLost (s : St) (a : Addr) (hA : InvA s) (hC : CleanInv s) (h : allLost s a) :
    holdsNothingFor s a := by
  obtain ⟨g1, g2⟩ := hC a h
  refine ⟨fun x hx => ?_, g2, ?_⟩
  · simp [subscribed, g1 x] at hx
  · cases hr : s.reg a with
    | none => rfl
    | some q =>
      obtain ⟨q1, q2, q3⟩ := hA.reg_ok a q hr
      have hl := h q q1 q2
      have := hA.lost_closing q hl
      simp_all


end Hap.Sys
