/-
  Lemmas about the SysEvents model: structural invariants of every reachable state.
-/
import HapModel.SysEvents
namespace Hap.Sys

/-! ### basic facts -/

@[simp] theorem upd_same {β : Type} (f : Nat → β) (k : Nat) (v : β) : upd f k v k = v := by simp [upd]
theorem upd_other {β : Type} (f : Nat → β) (k a : Nat) (v : β) (h : a ≠ k) : upd f k v a = f a := by simp [upd, h]
theorem upd_apply {β : Type} (f : Nat → β) (k a : Nat) (v : β) : upd f k v a = if a = k then v else f a := rfl

theorem memT_some (l : List Addr) (a : Addr) : memT (some l) a = true ↔ a ∈ l := by simp [memT]
@[simp] theorem memT_none (a : Addr) : memT none a = false := rfl

theorem memT_subAdd (t : Option (List Addr)) (a b : Addr) :
    memT (subAdd t a) b = (memT t b || decide (b = a)) := by
  cases t with
  | none => simp [subAdd, memT]
  | some l =>
    simp only [subAdd]
    split
    · rename_i h; simp only [memT]; by_cases hb : b = a <;> simp [hb, h]
    · simp [memT]

theorem memT_subDel (t : Option (List Addr)) (a b : Addr) :
    memT (subDel t a) b = (memT t b && decide (b ≠ a)) := by
  cases t with
  | none => simp [subDel]
  | some l =>
    simp only [subDel]
    split
    · rename_i h
      simp only [memT_none]
      by_cases hb : b ∈ l
      · by_cases hba : b = a
        · simp [hba]
        · have : b ∈ l.filter (fun b => b ≠ a) := by simp [List.mem_filter, hb, hba]
          rw [h] at this; cases this
      · simp [memT, hb]
    · simp [memT, List.mem_filter]

theorem subAdd_ne_nil (t : Option (List Addr)) (a : Addr) (h : t ≠ some []) : subAdd t a ≠ some [] := by
  cases t with
  | none => simp [subAdd]
  | some l =>
    simp only [subAdd]; split
    · exact h
    · simp

theorem subDel_ne_nil (t : Option (List Addr)) (a : Addr) : subDel t a ≠ some [] := by
  cases t with
  | none => simp [subDel]
  | some l => simp only [subDel]; split <;> simp_all

theorem memT_lostDel (t : Option (List Addr)) (a b : Addr) :
    memT (lostDel t a) b = (memT t b && decide (b ≠ a)) := by
  simp only [lostDel]
  split
  · exact memT_subDel t a b
  · rename_i h
    by_cases hb : b = a
    · subst hb; simp at h; simp [h]
    · simp [hb]

theorem lostDel_ne_nil (t : Option (List Addr)) (a : Addr) (h : t ≠ some []) : lostDel t a ≠ some [] := by
  simp only [lostDel]; split
  · exact subDel_ne_nil t a
  · exact h

/-! ### frame facts for the object operations -/

@[simp] theorem closeO_addr (c : Cfg) (o : Obj) : (closeO c o).addr = o.addr := by
  simp only [closeO]; split <;> rfl
@[simp] theorem closeO_closing (c : Cfg) (o : Obj) : (closeO c o).closing = true := by
  simp only [closeO]; split <;> rfl
@[simp] theorem closeO_lost (c : Cfg) (o : Obj) : (closeO c o).lost = o.lost := by
  simp only [closeO]; split <;> rfl
@[simp] theorem closeO_verified (c : Cfg) (o : Obj) : (closeO c o).verified = o.verified := by
  simp only [closeO]; split <;> rfl
@[simp] theorem closeO_last (c : Cfg) (o : Obj) : (closeO c o).last = o.last := by
  simp only [closeO]; split <;> rfl
@[simp] theorem closeO_soon (c : Cfg) (o : Obj) : (closeO c o).soon = o.soon := by
  simp only [closeO]; split <;> rfl
@[simp] theorem closeO_pending (c : Cfg) (o : Obj) : (closeO c o).pending = o.pending := by
  simp only [closeO]; split <;> rfl
@[simp] theorem closeO_qsrc (c : Cfg) (o : Obj) : (closeO c o).qsrc = o.qsrc := by
  simp only [closeO]; split <;> rfl
@[simp] theorem closeO_learned (c : Cfg) (o : Obj) : (closeO c o).learned = o.learned := by
  simp only [closeO]; split <;> rfl
@[simp] theorem closeO_since (c : Cfg) (o : Obj) : (closeO c o).since = fun _ => false := by
  simp only [closeO]; split <;> rfl
theorem closeO_queue (c : Cfg) (o : Obj) (h : c.fix13 = true) : (closeO c o).queue = [] := by
  simp [closeO, h]
theorem closeO_timer (c : Cfg) (o : Obj) (h : c.fix13 = true) : (closeO c o).timer = none := by
  simp [closeO, h]

@[simp] theorem enqueue_addr (o : Obj) (x v i s n) : (enqueue o x v i s n).addr = o.addr := rfl
@[simp] theorem enqueue_closing (o : Obj) (x v i s n) : (enqueue o x v i s n).closing = o.closing := rfl
@[simp] theorem enqueue_lost (o : Obj) (x v i s n) : (enqueue o x v i s n).lost = o.lost := rfl
@[simp] theorem enqueue_verified (o : Obj) (x v i s n) : (enqueue o x v i s n).verified = o.verified := rfl
@[simp] theorem enqueue_last (o : Obj) (x v i s n) : (enqueue o x v i s n).last = o.last := rfl
@[simp] theorem enqueue_pending (o : Obj) (x v i s n) : (enqueue o x v i s n).pending = o.pending := rfl

end Hap.Sys

namespace Hap.Sys

/-! ### structural invariant (no hypothesis on address reuse) -/

structure InvA (s : St) : Prop where
  reg_ok : ∀ a q, s.reg a = some q → q < s.nobj ∧ (s.obj q).addr = a ∧ (s.obj q).closing = false
  lost_closing : ∀ q, (s.obj q).lost = true → (s.obj q).closing = true
  closing_empty : ∀ q, (s.obj q).closing = true → (s.obj q).queue = [] ∧ (s.obj q).timer = none
  topics_ne : ∀ x, s.topics x ≠ some []
  stopped_reg : s.stopped = true → ∀ a, s.reg a = none
  last_le : ∀ q, (s.obj q).last ≤ s.now

theorem invA_init (c : Cfg) : InvA (init c) := by
  constructor <;> simp [init]

theorem invA_closeP (c : Cfg) (hc : c.fix13 = true) (s : St) (p : ObjId) (h : InvA s) :
    InvA (closeP c s p).1 := by
  obtain ⟨h1, h2, h3, h4, h5, h6⟩ := h
  constructor
  · intro a q hq
    simp only [closeP, upd_apply] at hq ⊢
    split at hq
    · cases hq
    · have := h1 a q hq
      by_cases hqp : q = p
      · subst hqp; simp_all
      · simp [hqp, this]
  · intro q; simp only [closeP, upd_apply]; split
    · simp
    · exact h2 q
  · intro q; simp only [closeP, upd_apply]; split
    · intro _; exact ⟨closeO_queue c _ hc, closeO_timer c _ hc⟩
    · exact h3 q
  · exact h4
  · intro hs a; simp only [closeP, upd_apply]; split
    · rfl
    · exact h5 hs a
  · intro q; simp only [closeP, upd_apply]; split
    · simp; exact h6 p
    · exact h6 q

end Hap.Sys

namespace Hap.Sys

theorem invA_sendEvents (s : St) (p : ObjId) (h : InvA s) : InvA (sendEvents s p).1 := by
  obtain ⟨h1, h2, h3, h4, h5, h6⟩ := h
  simp only [sendEvents]
  split
  · constructor <;> simp only [upd_apply] <;> grind
  · split
    · constructor <;> simp only [upd_apply] <;> grind
    · constructor <;> simp only [upd_apply] <;> grind

theorem invA_respond (s : St) (p : ObjId) (code : Nat) (b : Body) (h : InvA s) : InvA (respond s p code b).1 := by
  obtain ⟨h1, h2, h3, h4, h5, h6⟩ := h
  simp only [respond]
  constructor <;> simp only [upd_apply] <;> grind

@[simp] theorem pubObj_addr (c : Cfg) (s : St) (x : Cid) (v : Val) (sd : Option Addr) (subs : List Addr) (q : ObjId) :
    (pubObj c s x v sd subs q).addr = (s.obj q).addr := by
  simp only [pubObj]; split
  · split <;> rfl
  · rfl

@[simp] theorem pubObj_closing (c : Cfg) (s : St) (x : Cid) (v : Val) (sd : Option Addr) (subs : List Addr) (q : ObjId) :
    (pubObj c s x v sd subs q).closing = (s.obj q).closing := by
  simp only [pubObj]; split
  · split <;> rfl
  · rfl

@[simp] theorem pubObj_lost (c : Cfg) (s : St) (x : Cid) (v : Val) (sd : Option Addr) (subs : List Addr) (q : ObjId) :
    (pubObj c s x v sd subs q).lost = (s.obj q).lost := by
  simp only [pubObj]; split
  · split <;> rfl
  · rfl

@[simp] theorem pubObj_verified (c : Cfg) (s : St) (x : Cid) (v : Val) (sd : Option Addr) (subs : List Addr) (q : ObjId) :
    (pubObj c s x v sd subs q).verified = (s.obj q).verified := by
  simp only [pubObj]; split
  · split <;> rfl
  · rfl

@[simp] theorem pubObj_last (c : Cfg) (s : St) (x : Cid) (v : Val) (sd : Option Addr) (subs : List Addr) (q : ObjId) :
    (pubObj c s x v sd subs q).last = (s.obj q).last := by
  simp only [pubObj]; split
  · split <;> rfl
  · rfl

@[simp] theorem pubObj_pending (c : Cfg) (s : St) (x : Cid) (v : Val) (sd : Option Addr) (subs : List Addr) (q : ObjId) :
    (pubObj c s x v sd subs q).pending = (s.obj q).pending := by
  simp only [pubObj]; split
  · split <;> rfl
  · rfl

theorem pubObj_unreg (c : Cfg) (s : St) (x : Cid) (v : Val) (sd : Option Addr) (subs : List Addr) (q : ObjId)
    (h : s.reg (s.obj q).addr ≠ some q) : pubObj c s x v sd subs q = s.obj q := by
  simp [pubObj, h]

theorem pubTopic_ne_nil (s : St) (sd : Option Addr) (subs : List Addr) (h : subs ≠ []) :
    pubTopic s sd subs ≠ some [] := by
  simp only [pubTopic]; split
  · simpa using h
  · split <;> simp_all

theorem memT_pubTopic (s : St) (sd : Option Addr) (subs : List Addr) (a : Addr)
    (h : memT (pubTopic s sd subs) a = true) : a ∈ subs := by
  simp only [pubTopic] at h
  split at h
  · simpa [memT] using h
  · split at h
    · simp at h
    · simp [memT, List.mem_filter] at h; exact h.1

theorem invA_publish (c : Cfg) (s : St) (x : Cid) (v : Val) (sender : Option Addr) (h : InvA s) :
    InvA (publish c s x v sender) := by
  have h0 := h
  obtain ⟨h1, h2, h3, h4, h5, h6⟩ := h
  simp only [publish]
  split
  · exact h0
  · split
    · exact h0
    · rename_i subs hs _
      constructor
      · intro a q hq; simpa using h1 a q hq
      · intro q; simpa using h2 q
      · intro q hq
        simp only [pubObj_closing] at hq
        have : s.reg (s.obj q).addr ≠ some q := by
          intro hr; have := (h1 _ _ hr).2.2; simp_all
        simp only [pubObj_unreg c s x v sender subs q this]
        exact h3 q hq
      · intro y; simp only [upd_apply]; split
        · apply pubTopic_ne_nil
          intro he; subst he; exact h4 x hs
        · exact h4 y
      · exact h5
      · intro q; simpa using h6 q

end Hap.Sys

namespace Hap.Sys

theorem invA_discardStale (c : Cfg) (s : St) (a : Addr) (x : Cid) (h : InvA s) : InvA (discardStale c s a x) := by
  have h0 := h
  obtain ⟨h1, h2, h3, h4, h5, h6⟩ := h
  simp only [discardStale]
  split
  · split
    · exact h0
    · split
      · exact h0
      · split
        · rename_i q hq _ _ _ _
          have hq' := h1 _ _ hq
          constructor <;> simp only [upd_apply] <;> grind
        · exact h0
  · exact h0

theorem invA_setValue (s : St) (f : Cid → Option Val) (h : InvA s) : InvA { s with value := f } := by
  obtain ⟨h1, h2, h3, h4, h5, h6⟩ := h
  exact ⟨h1, h2, h3, h4, h5, h6⟩

theorem invA_writeVal (c : Cfg) (s : St) (x : Cid) (v : Val) (sd : Option Addr) (h : InvA s) :
    InvA (writeVal c s x v sd) := by
  simp only [writeVal]
  split
  · apply invA_setValue
    split
    · exact invA_publish _ _ _ _ _ (invA_setValue _ _ h)
    · exact invA_setValue _ _ h
  · split
    · exact invA_publish _ _ _ _ _ (invA_setValue _ _ h)
    · exact invA_setValue _ _ h

theorem invA_updGhost (s : St) (p : ObjId) (o' : Obj) (h : InvA s)
    (e1 : o'.addr = (s.obj p).addr) (e2 : o'.closing = (s.obj p).closing) (e3 : o'.lost = (s.obj p).lost)
    (e4 : o'.queue = (s.obj p).queue) (e5 : o'.timer = (s.obj p).timer) (e6 : o'.last ≤ s.now) :
    InvA { s with obj := upd s.obj p o' } := by
  obtain ⟨h1, h2, h3, h4, h5, h6⟩ := h
  constructor <;> simp only [upd_apply] <;> grind

theorem invA_setTopic (s : St) (x : Cid) (t : Option (List Addr)) (h : InvA s) (ht : t ≠ some []) :
    InvA { s with topics := upd s.topics x t } := by
  obtain ⟨h1, h2, h3, h4, h5, h6⟩ := h
  refine ⟨h1, h2, h3, ?_, h5, h6⟩
  intro y; simp only [upd_apply]; split
  · exact ht
  · exact h4 y

theorem invA_putSub (s : St) (p : ObjId) (x : Cid) (ev : Option Bool) (h : InvA s) : InvA (putSub s p x ev) := by
  simp only [putSub]
  split
  · exact h
  · exact invA_setTopic _ _ _ h (subAdd_ne_nil _ _ (h.topics_ne x))
  · have := invA_updGhost s p { s.obj p with since := upd (s.obj p).since x false } h rfl rfl rfl rfl rfl (h.last_le p)
    exact invA_setTopic _ _ _ this (subDel_ne_nil _ _)

theorem invA_putVal (c : Cfg) (s : St) (p : ObjId) (x : Cid) (v : Val) (h : InvA s) : InvA (putVal c s p x v) := by
  simp only [putVal]
  have h5 := invA_discardStale c _ (s.obj p).addr x (invA_writeVal c s x v (some (s.obj p).addr) h)
  exact invA_updGhost _ p _ h5 rfl rfl rfl rfl rfl (h5.last_le p)

theorem invA_putChars (c : Cfg) (s : St) (p : ObjId) (x : Cid) (ev : Option Bool) (val : Option Val) (h : InvA s) :
    InvA (putChars c s p x ev val) := by
  simp only [putChars]
  split
  · exact invA_putSub _ _ _ _ h
  · exact invA_putVal _ _ _ _ _ (invA_putSub _ _ _ _ h)

theorem invA_setPrepared (s : St) (f : Addr → Option (List Pid)) (h : InvA s) : InvA { s with prepared := f } := by
  obtain ⟨h1, h2, h3, h4, h5, h6⟩ := h
  exact ⟨h1, h2, h3, h4, h5, h6⟩

theorem invA_touch (s : St) (p : ObjId) (h : InvA s) : InvA (touch s p) :=
  invA_updGhost s p _ h rfl rfl rfl rfl rfl (Nat.le_refl _)

theorem invA_onPut (c : Cfg) (hc : c.fix13 = true) (s : St) (p : ObjId) (x ev val cl) (h : InvA s) :
    InvA (onPut c s p x ev val cl).1 := by
  simp only [onPut]
  have hr : InvA (if (s.obj p).verified then respond (putChars c s p x ev val) p 204 Body.none
           else respond s p 401 Body.none).1 := by
    split
    · exact invA_respond _ p 204 Body.none (invA_putChars c s p x ev val h)
    · exact invA_respond _ p 401 Body.none h
  split
  · exact invA_closeP c hc _ _ hr
  · exact hr

theorem invA_onReq (c : Cfg) (hc : c.fix13 = true) (s : St) (p : ObjId) (r : Req) (h : InvA s) :
    InvA (onReq c s p r).1 := by
  simp only [onReq]
  split
  · exact invA_closeP c hc _ _ h
  · split
    · exact invA_closeP c hc _ _ h
    · exact invA_closeP c hc _ _ h
    · exact invA_onPut c hc _ _ _ _ _ _ h
    · split
      · exact invA_respond _ _ _ _ h
      · exact invA_respond _ _ _ _ h
    · split
      · exact invA_respond _ _ _ _ (invA_setPrepared _ _ h)
      · exact invA_respond _ _ _ _ h
    · exact invA_updGhost s p _ h rfl rfl rfl rfl rfl (h.last_le p)

theorem invA_onData (c : Cfg) (hc : c.fix13 = true) (s : St) (p : ObjId) (r : Req) (h : InvA s) :
    InvA (onData c s p r).1 := invA_onReq c hc _ p r (invA_touch s p h)

theorem closeP_closing (c : Cfg) (s : St) (p : ObjId) : ((closeP c s p).1.obj p).closing = true := by
  simp [closeP]

theorem invA_markLost (s : St) (p : ObjId) (h : InvA s) (hcl : (s.obj p).closing = true) :
    InvA (markLost s p) := by
  simp only [markLost]
  obtain ⟨h1, h2, h3, h4, h5, h6⟩ := h
  constructor <;> simp only [upd_apply] <;> grind

theorem invA_step (c : Cfg) (hc : c.fix13 = true) (s : St) (e : Ev) (h : InvA s) : InvA (step c s e).1 := by
  have h0 := h
  obtain ⟨h1, h2, h3, h4, h5, h6⟩ := h
  cases e with
  | tick dt => simp only [step]; constructor <;> grind
  | connect a =>
    simp only [step]; split
    · exact h0
    · constructor <;> simp only [upd_apply] <;> grind
  | verify p =>
    simp only [step]; split
    · exact invA_updGhost s p _ h0 rfl rfl rfl rfl rfl (h6 p)
    · exact h0
  | data p r =>
    simp only [step]; split
    · exact invA_onData c hc s p r h0
    · exact h0
  | appSet x v => exact invA_writeVal c s x v none h0
  | timerFire p =>
    simp only [step]; split
    · exact invA_sendEvents s p h0
    · exact h0
  | soonFlush p =>
    simp only [step]; split
    · exact invA_sendEvents _ p (invA_updGhost s p _ h0 rfl rfl rfl rfl rfl (h6 p))
    · exact h0
  | respReady p ok =>
    simp only [step]; split
    · have hs1 := invA_updGhost s p { s.obj p with pending := false } h0 rfl rfl rfl rfl rfl (h6 p)
      split
      · exact hs1
      · split
        · exact invA_respond _ _ _ _ hs1
        · exact invA_respond _ _ _ _ hs1
    · exact h0
  | lose p =>
    simp only [step]; split
    · have hs1 : InvA (dropConn s (s.obj p).addr) := by
        refine ⟨h1, h2, h3, ?_, h5, h6⟩
        intro x; exact lostDel_ne_nil _ _ (h4 x)
      exact invA_markLost _ p (invA_closeP c hc _ p hs1) (closeP_closing c _ p)
    · exact h0
  | idleSweep =>
    simp only [step]
    constructor
    · intro a q hq
      simp only at hq ⊢
      cases hr : s.reg a with
      | none => simp [hr] at hq
      | some q' =>
        simp only [hr] at hq
        split at hq
        · cases hq
        · cases hq
          have := h1 a q hr
          have hni : ¬ (q < s.nobj ∧ idleDue s q) := by
            intro hh; rename_i hnd; exact hnd hh.2
          simp only [hni, if_false]
          exact this
    · intro q; simp only; split
      · simp
      · exact h2 q
    · intro q; simp only; split
      · intro _; exact ⟨closeO_queue c _ hc, closeO_timer c _ hc⟩
      · exact h3 q
    · exact h4
    · intro hs a; simp only; rw [h5 hs a]
    · intro q; simp only; split
      · simp; exact h6 q
      · exact h6 q
  | stop =>
    simp only [step]
    constructor
    · intro a q hq; simp at hq
    · intro q; simp only; split
      · simp
      · exact h2 q
    · intro q; simp only; split
      · intro _; exact ⟨closeO_queue c _ hc, closeO_timer c _ hc⟩
      · exact h3 q
    · exact h4
    · intro _ a; rfl
    · intro q; simp only; split
      · simp; exact h6 q
      · exact h6 q

end Hap.Sys

namespace Hap.Sys

theorem invA_run (c : Cfg) (hc : c.fix13 = true) (tr : List Ev) (s : St) (h : InvA s) : InvA (run c s tr).1 := by
  induction tr generalizing s with
  | nil => exact h
  | cons e es ih => simp only [run]; exact ih _ (invA_step c hc s e h)

/-! ### what a step may change for connections and addresses -/

/-- `s'` has the same connections as `s` (same objects, addresses, loss flags) at the same time;
    `last_activity` is unchanged or refreshed to now; only address `b` may have gained a
    subscription or a prepared write. -/
structure Rel (b : Option Addr) (s s' : St) : Prop where
  nobj : s'.nobj = s.nobj
  now : s'.now = s.now
  addr : ∀ q, (s'.obj q).addr = (s.obj q).addr
  lost : ∀ q, (s'.obj q).lost = (s.obj q).lost
  closing : ∀ q, (s.obj q).closing = true → (s'.obj q).closing = true
  last : ∀ q, (s'.obj q).last = (s.obj q).last ∨ (s'.obj q).last = s.now
  topics : ∀ a x, some a ≠ b → memT (s'.topics x) a = true → memT (s.topics x) a = true
  prepared : ∀ a, some a ≠ b → s.prepared a = none → s'.prepared a = none

theorem Rel.refl (b : Option Addr) (s : St) : Rel b s s :=
  ⟨rfl, rfl, fun _ => rfl, fun _ => rfl, fun _ h => h, fun _ => Or.inl rfl, fun _ _ _ h => h, fun _ _ h => h⟩

theorem Rel.trans {b : Option Addr} {s s1 s2 : St} (h1 : Rel b s s1) (h2 : Rel b s1 s2) : Rel b s s2 := by
  obtain ⟨a1, a0, a2, a3, a4, a7, a5, a6⟩ := h1
  obtain ⟨b1, b0, b2, b3, b4, b7, b5, b6⟩ := h2
  constructor <;> grind

theorem Rel.weaken {b : Option Addr} {s s' : St} (h : Rel none s s') : Rel b s s' := by
  obtain ⟨a1, a0, a2, a3, a4, a7, a5, a6⟩ := h
  refine ⟨a1, a0, a2, a3, a4, a7, ?_, ?_⟩
  · intro a x _ hm; exact a5 a x (by simp) hm
  · intro a _ hp; exact a6 a (by simp) hp

theorem rel_updObj (s : St) (p : ObjId) (o' : Obj) (e1 : o'.addr = (s.obj p).addr) (e2 : o'.lost = (s.obj p).lost)
    (e3 : (s.obj p).closing = true → o'.closing = true) (e4 : o'.last = (s.obj p).last ∨ o'.last = s.now) :
    Rel none s { s with obj := upd s.obj p o' } := by
  constructor <;> simp only [upd_apply] <;> grind

theorem rel_closeP (c : Cfg) (s : St) (p : ObjId) : Rel none s (closeP c s p).1 := by
  simp only [closeP]
  constructor <;> simp only [upd_apply] <;> grind [closeO_addr, closeO_lost, closeO_closing, closeO_last]

theorem rel_sendEvents (s : St) (p : ObjId) : Rel none s (sendEvents s p).1 := by
  simp only [sendEvents]
  split
  · exact rel_updObj s p _ rfl rfl (fun h => h) (Or.inl rfl)
  · split
    · exact rel_updObj s p _ rfl rfl (fun h => h) (Or.inl rfl)
    · exact rel_updObj s p _ rfl rfl (fun h => h) (Or.inr rfl)

theorem rel_respond (s : St) (p : ObjId) (code : Nat) (b : Body) : Rel none s (respond s p code b).1 :=
  rel_updObj s p _ rfl rfl (fun h => h) (Or.inr rfl)

theorem rel_setValue (s : St) (f : Cid → Option Val) : Rel none s { s with value := f } :=
  ⟨rfl, rfl, fun _ => rfl, fun _ => rfl, fun _ h => h, fun _ => Or.inl rfl, fun _ _ _ h => h, fun _ _ h => h⟩

theorem rel_publish (c : Cfg) (s : St) (x : Cid) (v : Val) (sd : Option Addr) : Rel none s (publish c s x v sd) := by
  simp only [publish]
  split
  · exact Rel.refl _ _
  · split
    · exact Rel.refl _ _
    · rename_i subs hs _
      refine ⟨rfl, rfl, fun q => by simp, fun q => by simp, fun q h => by simpa using h, fun q => by simp, ?_, fun _ _ h => h⟩
      intro a y _ hm
      simp only [upd_apply] at hm
      split at hm
      · rename_i hy; subst hy
        rw [hs]; simpa [memT] using memT_pubTopic s sd subs a hm
      · exact hm

theorem rel_writeVal (c : Cfg) (s : St) (x : Cid) (v : Val) (sd : Option Addr) : Rel none s (writeVal c s x v sd) := by
  simp only [writeVal]
  split
  · refine Rel.trans ?_ (rel_setValue _ _)
    split
    · exact Rel.trans (rel_setValue _ _) (rel_publish _ _ _ _ _)
    · exact rel_setValue _ _
  · split
    · exact Rel.trans (rel_setValue _ _) (rel_publish _ _ _ _ _)
    · exact rel_setValue _ _

theorem rel_discardStale (c : Cfg) (s : St) (a : Addr) (x : Cid) : Rel none s (discardStale c s a x) := by
  simp only [discardStale]
  split
  · split
    · exact Rel.refl _ _
    · split
      · exact Rel.refl _ _
      · split
        · exact rel_updObj s _ _ rfl rfl (fun h => h) (Or.inl rfl)
        · exact Rel.refl _ _
  · exact Rel.refl _ _

theorem rel_putSub (s : St) (p : ObjId) (x : Cid) (ev : Option Bool) : Rel (some (s.obj p).addr) s (putSub s p x ev) := by
  simp only [putSub]
  split
  · exact Rel.refl _ _
  · refine ⟨rfl, rfl, fun _ => rfl, fun _ => rfl, fun _ h => h, fun _ => Or.inl rfl, ?_, fun _ _ h => h⟩
    intro a y ha hm
    simp only [upd_apply] at hm
    split at hm
    · rename_i hy; subst hy
      rw [memT_subAdd] at hm
      have : a ≠ (s.obj p).addr := fun e => ha (by rw [e])
      simpa [this] using hm
    · exact hm
  · refine ⟨rfl, rfl, fun q => ?_, fun q => ?_, fun q h => ?_, fun q => ?_, ?_, fun _ _ h => h⟩
    · simp only [upd_apply]; split <;> simp_all
    · simp only [upd_apply]; split <;> simp_all
    · simp only [upd_apply]; split <;> simp_all
    · simp only [upd_apply]; split <;> simp_all
    · intro a y ha hm
      simp only [upd_apply] at hm
      split at hm
      · rename_i hy; subst hy
        rw [memT_subDel] at hm
        simp at hm; exact hm.1
      · exact hm

theorem rel_putVal (c : Cfg) (s : St) (p : ObjId) (x : Cid) (v : Val) : Rel none s (putVal c s p x v) := by
  simp only [putVal]
  exact Rel.trans (Rel.trans (rel_writeVal c s x v _) (rel_discardStale c _ _ x))
    (rel_updObj _ p _ rfl rfl (fun h => h) (Or.inl rfl))

theorem rel_putChars (c : Cfg) (s : St) (p : ObjId) (x : Cid) (ev : Option Bool) (val : Option Val) :
    Rel (some (s.obj p).addr) s (putChars c s p x ev val) := by
  simp only [putChars]
  split
  · exact rel_putSub s p x ev
  · exact Rel.trans (rel_putSub s p x ev) (Rel.weaken (rel_putVal c _ p x _))

theorem rel_onPut (c : Cfg) (s : St) (p : ObjId) (x ev val cl) : Rel (some (s.obj p).addr) s (onPut c s p x ev val cl).1 := by
  simp only [onPut]
  have hr : Rel (some (s.obj p).addr) s (if (s.obj p).verified then respond (putChars c s p x ev val) p 204 Body.none
           else respond s p 401 Body.none).1 := by
    split
    · exact Rel.trans (rel_putChars c s p x ev val) (Rel.weaken (rel_respond _ _ _ _))
    · exact Rel.weaken (rel_respond _ _ _ _)
  split
  · exact Rel.trans hr (Rel.weaken (rel_closeP c _ p))
  · exact hr

theorem rel_onReq (c : Cfg) (s : St) (p : ObjId) (r : Req) : Rel (some (s.obj p).addr) s (onReq c s p r).1 := by
  simp only [onReq]
  split
  · exact Rel.weaken (rel_closeP c s p)
  · split
    · exact Rel.weaken (rel_closeP c s p)
    · exact Rel.weaken (rel_closeP c s p)
    · exact rel_onPut c s p _ _ _ _
    · split
      · exact Rel.weaken (rel_respond _ _ _ _)
      · exact Rel.weaken (rel_respond _ _ _ _)
    · split
      · refine Rel.trans ?_ (Rel.weaken (rel_respond _ _ _ _))
        refine ⟨rfl, rfl, fun _ => rfl, fun _ => rfl, fun _ h => h, fun _ => Or.inl rfl, fun _ _ _ h => h, ?_⟩
        intro a ha hp
        simp only [upd_apply]; split
        · rename_i e; exact absurd (by rw [e]) ha
        · exact hp
      · exact Rel.weaken (rel_respond _ _ _ _)
    · exact Rel.weaken (rel_updObj s p _ rfl rfl (fun h => h) (Or.inl rfl))

theorem rel_onData (c : Cfg) (s : St) (p : ObjId) (r : Req) : Rel (some (s.obj p).addr) s (onData c s p r).1 := by
  simp only [onData]
  have h1 : Rel (some (s.obj p).addr) s (touch s p) := Rel.weaken (rel_updObj s p _ rfl rfl (fun h => h) (Or.inr rfl))
  have h2 := rel_onReq c (touch s p) p r
  have e : ((touch s p).obj p).addr = (s.obj p).addr := h1.addr p
  rw [e] at h2
  exact Rel.trans h1 h2


/-- the address a step may add subscriptions / prepared writes for -/
def tgt (s : St) : Ev → Option Addr
  | .data p _ => some (s.obj p).addr
  | _ => none

theorem rel_step (c : Cfg) (s : St) (e : Ev) (h1 : ∀ a, e ≠ Ev.connect a) (h2 : ∀ p, e ≠ Ev.lose p)
    (h3 : ∀ dt, e ≠ Ev.tick dt) :
    Rel (tgt s e) s (step c s e).1 := by
  cases e with
  | tick dt => exact absurd rfl (h3 dt)
  | connect a => exact absurd rfl (h1 a)
  | verify p =>
    simp only [step]; split
    · exact rel_updObj s p _ rfl rfl (fun h => h) (Or.inl rfl)
    · exact Rel.refl _ _
  | data p r =>
    simp only [step, tgt]; split
    · exact rel_onData c s p r
    · exact Rel.refl _ _
  | appSet x v => exact rel_writeVal c s x v none
  | timerFire p =>
    simp only [step]; split
    · exact rel_sendEvents s p
    · exact Rel.refl _ _
  | soonFlush p =>
    simp only [step]; split
    · exact Rel.trans (rel_updObj s p { s.obj p with soon := (s.obj p).soon - 1 } rfl rfl (fun h => h) (Or.inl rfl)) (rel_sendEvents _ p)
    · exact Rel.refl _ _
  | respReady p ok =>
    simp only [step]; split
    · have hs1 : Rel none s { s with obj := upd s.obj p { s.obj p with pending := false } } :=
        rel_updObj s p _ rfl rfl (fun h => h) (Or.inl rfl)
      split
      · exact hs1
      · split
        · exact Rel.trans hs1 (rel_respond _ _ _ _)
        · exact Rel.trans hs1 (rel_respond _ _ _ _)
    · exact Rel.refl _ _
  | lose p => exact absurd rfl (h2 p)
  | idleSweep =>
    simp only [step]
    refine ⟨rfl, rfl, fun q => ?_, fun q => ?_, fun q h => ?_, fun q => ?_, fun _ _ _ h => h, fun _ _ h => h⟩
    · simp only; split <;> simp
    · simp only; split <;> simp
    · simp only; split
      · simp
      · exact h
    · simp only; split <;> simp
  | stop =>
    simp only [step]
    refine ⟨rfl, rfl, fun q => ?_, fun q => ?_, fun q h => ?_, fun q => ?_, fun _ _ _ h => h, fun _ _ h => h⟩
    · simp only; split <;> simp
    · simp only; split <;> simp
    · simp only; split
      · simp
      · exact h
    · simp only; split <;> simp

/-- nothing is held for an address all of whose connections have been lost -/
def CleanInv (s : St) : Prop :=
  ∀ a, allLost s a → (∀ x, memT (s.topics x) a = false) ∧ s.prepared a = none

theorem cleanInv_init (c : Cfg) : CleanInv (init c) := by
  intro a _; simp [init]

theorem cleanInv_step (c : Cfg) (s : St) (e : Ev) (hA : InvA s) (h : CleanInv s) : CleanInv (step c s e).1 := by
  by_cases hc : ∃ a, e = Ev.connect a
  · obtain ⟨a', rfl⟩ := hc
    simp only [step]; split
    · exact h
    · intro a hal
      have hne : a ≠ a' := by
        intro e; subst e
        have := hal s.nobj (by simp) (by simp [upd_apply])
        simp [upd_apply] at this
      have hobj : ∀ p, p < s.nobj → upd s.obj s.nobj ({ addr := a', last := s.now } : Obj) p = s.obj p := by
        intro p hp; simp [upd_apply, Nat.ne_of_lt hp]
      have : allLost s a := by
        intro p hp hpa
        have := hal p (Nat.lt_succ_of_lt hp) (by show (upd s.obj s.nobj _ p).addr = a; rw [hobj p hp]; exact hpa)
        have e : (upd s.obj s.nobj ({ addr := a', last := s.now } : Obj) p).lost = true := this
        rw [hobj p hp] at e; exact e
      exact h a this
  · by_cases hl : ∃ p, e = Ev.lose p
    · obtain ⟨p, rfl⟩ := hl
      simp only [step]; split
      · rename_i hp
        intro a hal
        simp only [markLost, closeP, dropConn]
        by_cases ha : a = (s.obj p).addr
        · subst ha
          refine ⟨fun x => ?_, by simp [upd_apply]⟩
          simp [memT_lostDel]
        · have : allLost s a := by
            intro q hq hqa
            have := hal q (by simpa [markLost, closeP, dropConn] using hq)
            simp only [markLost, closeP, dropConn, upd_apply] at this
            by_cases hqp : q = p
            · subst hqp; exact absurd hqa.symm ha
            · simpa [hqp, hqa] using this
          obtain ⟨g1, g2⟩ := h a this
          refine ⟨fun x => ?_, by simp [upd_apply, ha, g2]⟩
          simp [memT_lostDel, g1 x]
      · exact h
    · by_cases htk : ∃ dt, e = Ev.tick dt
      · obtain ⟨dt, rfl⟩ := htk
        exact h
      by_cases hdis : ∃ p r, e = Ev.data p r ∧ ¬ (p < s.nobj ∧ (s.obj p).closing = false)
      · obtain ⟨p, r, rfl, hen⟩ := hdis
        simp only [step, hen, if_false]; exact h
      have hr := rel_step c s e (fun a he => hc ⟨a, he⟩) (fun p he => hl ⟨p, he⟩) (fun dt he => htk ⟨dt, he⟩)
      intro a hal
      have hal' : allLost s a := by
        intro q hq hqa
        have := hal q (by rw [hr.nobj]; exact hq) (by rw [hr.addr]; exact hqa)
        rw [hr.lost] at this; exact this
      obtain ⟨g1, g2⟩ := h a hal'
      have hne : some a ≠ tgt s e := by
        intro he
        cases e with
        | data p r =>
          simp only [tgt] at he
          have hen : p < s.nobj ∧ (s.obj p).closing = false := by
            apply Classical.byContradiction; intro hen; exact hdis ⟨p, r, rfl, hen⟩
          have hpl : (s.obj p).lost = true := hal' p hen.1 (by injection he with he; exact he.symm)
          have := hA.lost_closing p hpl
          simp_all
        | _ => simp [tgt] at he
      refine ⟨fun x => ?_, hr.prepared a hne g2⟩
      cases hm : memT ((step c s e).1.topics x) a with
      | false => rfl
      | true => have := hr.topics a x hne hm; rw [g1 x] at this; cases this

end Hap.Sys
