/-
  C12 lemmas, part b: the `learned` invariant over steps and traces; draining.
-/
import Proofs.SysEventsC12cb
namespace Hap.Sys

/-- facts about the acting connection that every stage of a request preserves -/
structure Live (s : St) (p : ObjId) : Prop where
  a : InvA s
  u : UniqInv s
  lt : p < s.nobj
  nl : (s.obj p).lost = false

theorem live_of_rel {b : Option Addr} {s s' : St} {p : ObjId} (hr : Rel b s s') (hA' : InvA s') (h : Live s p) : Live s' p :=
  ⟨hA', uniq_of_rel hr h.u, by rw [hr.nobj]; exact h.lt, by rw [hr.lost]; exact h.nl⟩

theorem invL_putChars (c : Cfg) (h12 : c.fix12 = true) (hcb : CbOK c) (s : St) (p : ObjId) (x : Cid) (ev : Option Bool) (val : Option Val)
    (h : InvL c s) (hl : Live s p) : InvL c (putChars c s p x ev val) := by
  have h1 := invL_putSub c s p x ev h hl.a hl.u hl.lt hl.nl
  have l1 := live_of_rel (rel_putSub c s p x ev) (invA_putSub c s p x ev hl.a) hl
  simp only [putChars]
  split
  · exact h1
  · split
    · simp only [failVal, hcb.fixRaise, if_true]; exact h1
    · rename_i hnf
      have hnf' : cbFails c x = false := by simpa using hnf
      refine invL_putVal c h12 _ p x _ h1 l1.a l1.u l1.lt l1.nl (fun hn => ?_) hnf'
      rcases hcb.nul x hn with e | e
      · exact e
      · simp [cbFails, e] at hnf'

theorem invL_onPut (c : Cfg) (h12 : c.fix12 = true) (h13 : c.fix13 = true) (hcb : CbOK c) (s : St) (p : ObjId) (x ev val cl)
    (h : InvL c s) (hl : Live s p) : InvL c (onPut c s p x ev val cl).1 := by
  simp only [onPut]
  have hr : InvL c (if (s.obj p).verified then respond (putChars c s p x ev val) p (putCode c [(x, ev, val)]) (putBody c [(x, ev, val)])
           else respond s p 401 Body.none).1 ∧
      Live (if (s.obj p).verified then respond (putChars c s p x ev val) p (putCode c [(x, ev, val)]) (putBody c [(x, ev, val)])
           else respond s p 401 Body.none).1 p := by
    split
    · refine ⟨invL_respond c _ p _ _ (invL_putChars c h12 hcb s p x ev val h hl), ?_⟩
      exact live_of_rel (Rel.trans (rel_putChars c s p x ev val) (Rel.weaken (rel_respond _ p _ _)))
        (invA_respond _ p _ _ (invA_putChars c s p x ev val hl.a)) hl
    · exact ⟨invL_respond c _ p _ _ h, live_of_rel (rel_respond s p 401 Body.none) (invA_respond _ p 401 Body.none hl.a) hl⟩
  split
  · exact invL_closeP c _ p hr.1 hr.2.a hr.2.u hr.2.lt hr.2.nl
  · exact hr.1

/-- the invariant together with the liveness facts of the acting connection, carried through the
    queries of one PUT -/
theorem invL_putAll (c : Cfg) (h12 : c.fix12 = true) (hcb : CbOK c) (s : St) (p : ObjId)
    (qs : List (Cid × Option Bool × Option Val)) (h : InvL c s) (hl : Live s p) :
    InvL c (putAll c s p qs) ∧ Live (putAll c s p qs) p := by
  apply putAll_pres (fun t => InvL c t ∧ Live t p) c p
  · intro t x ev val ht
    exact ⟨invL_putChars c h12 hcb t p x ev val ht.1 ht.2,
           live_of_rel (rel_putChars c t p x ev val) (invA_putChars c t p x ev val ht.2.a) ht.2⟩
  · exact ⟨h, hl⟩

theorem invL_onPutMany (c : Cfg) (h12 : c.fix12 = true) (h13 : c.fix13 = true) (hcb : CbOK c) (s : St) (p : ObjId) (qs cl)
    (h : InvL c s) (hl : Live s p) : InvL c (onPutMany c s p qs cl).1 := by
  simp only [onPutMany]
  have hr : InvL c (if (s.obj p).verified then respond (putAll c s p qs) p (putCode c qs) (putBody c qs)
           else respond s p 401 Body.none).1 ∧
      Live (if (s.obj p).verified then respond (putAll c s p qs) p (putCode c qs) (putBody c qs)
           else respond s p 401 Body.none).1 p := by
    split
    · have ha := invL_putAll c h12 hcb s p qs h hl
      refine ⟨invL_respond c _ p _ _ ha.1, ?_⟩
      exact live_of_rel (rel_respond _ p _ _) (invA_respond _ p _ _ ha.2.a) ha.2
    · exact ⟨invL_respond c _ p _ _ h, live_of_rel (rel_respond s p 401 Body.none) (invA_respond _ p 401 Body.none hl.a) hl⟩
  split
  · exact invL_closeP c _ p hr.1 hr.2.a hr.2.u hr.2.lt hr.2.nl
  · exact hr.1

theorem invL_setPrepared (c : Cfg) (s : St) (f : Addr → Option (List Pid)) (h : InvL c s) : InvL c { s with prepared := f } := by
  intro q x hs
  exact lok_frame c s _ q x (h q x hs) rfl rfl (fun g => g) rfl rfl rfl (fun g => g)

theorem invL_onReq (c : Cfg) (h12 : c.fix12 = true) (h13 : c.fix13 = true) (hcb : CbOK c) (s : St) (p : ObjId) (r : Req)
    (h : InvL c s) (hl : Live s p) : InvL c (onReq c s p r).1 := by
  simp only [onReq]
  split
  · exact invL_closeP c s p h hl.a hl.u hl.lt hl.nl
  · split
    · exact invL_closeP c s p h hl.a hl.u hl.lt hl.nl
    · exact invL_closeP c s p h hl.a hl.u hl.lt hl.nl
    · exact invL_onPut c h12 h13 hcb s p _ _ _ _ h hl
    · exact invL_onPutMany c h12 h13 hcb s p _ _ h hl
    · split <;> exact invL_respond c _ p _ _ h
    · split
      · exact invL_respond c _ p _ _ (invL_setPrepared c s _ h)
      · exact invL_respond c _ p _ _ h
    · split
      · exact invL_updObj c s p _ h rfl rfl rfl rfl rfl (Nat.le_refl _)
      · exact invL_respond c _ p _ _ h

/-- the event is not a change made on a worker thread -/
def notWorker : Ev → Prop
  | .appSetWorker _ _ => False
  | _ => True

/-- histories in which every application change happens on the loop thread -/
def NoWorker (tr : List Ev) : Prop := ∀ e ∈ tr, notWorker e

/-! the hand-off FIFO is touched by `appSetWorker` / `handOff` only -/

theorem hf_closeP (c : Cfg) (s : St) (p : ObjId) : (closeP c s p).1.handoffs = s.handoffs := rfl
theorem hf_respond (s : St) (p : ObjId) (code : Nat) (b : Body) : (respond s p code b).1.handoffs = s.handoffs := rfl
theorem hf_sendEvents (s : St) (p : ObjId) : (sendEvents s p).1.handoffs = s.handoffs := by
  simp only [sendEvents]; split
  · rfl
  · split <;> rfl
theorem hf_publish (c : Cfg) (s : St) (x : Cid) (v : Val) (sd : Option Addr) : (publish c s x v sd).handoffs = s.handoffs := by
  simp only [publish]; split
  · rfl
  · split <;> rfl
theorem hf_writeVal (c : Cfg) (s : St) (x : Cid) (v : Val) (sd : Option Addr) : (writeVal c s x v sd).handoffs = s.handoffs := by
  rw [writeVal_eq]
  have key : (if s.value x ≠ some v then publish c (setVal s x v) x v sd else setVal s x v).handoffs = s.handoffs := by
    split
    · rw [hf_publish]; rfl
    · rfl
  simp only; split
  · exact key
  · exact key
theorem hf_clientUpdate (c : Cfg) (s : St) (x : Cid) (v : Val) (sd : Option Addr) : (clientUpdate c s x v sd).handoffs = s.handoffs := by
  simp only [clientUpdate]
  have h2 : (runCallback c (setVal s x v) x v).handoffs = s.handoffs := by
    simp only [runCallback]; split
    · rfl
    · rw [hf_writeVal]; rfl
    · rw [hf_writeVal]; rfl
    · rw [hf_writeVal]; rfl
    · rfl
  have h3 : (match (runCallback c (setVal s x v) x v).value x with
    | some u => if (runCallback c (setVal s x v) x v).value x ≠ s.value x then publish c (runCallback c (setVal s x v) x v) x u sd
                else runCallback c (setVal s x v) x v
    | none => runCallback c (setVal s x v) x v).handoffs = s.handoffs := by
    split
    · split
      · rw [hf_publish]; exact h2
      · exact h2
    · exact h2
  split
  · exact h3
  · exact h3
theorem hf_discardStale (c : Cfg) (s : St) (a : Addr) (x : Cid) : (discardStale c s a x).handoffs = s.handoffs := by
  simp only [discardStale]; split
  · split
    · rfl
    · split
      · rfl
      · split <;> rfl
  · rfl
theorem hf_dropEvent (c : Cfg) (s : St) (a : Addr) (x : Cid) : (dropEvent c s a x).handoffs = s.handoffs := by
  simp only [dropEvent]; split
  · split <;> rfl
  · rfl
theorem hf_putSub (c : Cfg) (s : St) (p : ObjId) (x : Cid) (ev : Option Bool) : (putSub c s p x ev).handoffs = s.handoffs := by
  simp only [putSub]; split
  · rfl
  · rfl
  · rw [hf_dropEvent]; rfl
theorem hf_putChars (c : Cfg) (s : St) (p : ObjId) (x : Cid) (ev : Option Bool) (val : Option Val) :
    (putChars c s p x ev val).handoffs = s.handoffs := by
  simp only [putChars]; split
  · exact hf_putSub c s p x ev
  · split
    · simp only [failVal]; split
      · exact hf_putSub c s p x ev
      · exact hf_putSub c s p x ev
    · simp only [putVal]
      show (discardStale c _ _ x).handoffs = _
      rw [hf_discardStale, hf_clientUpdate, hf_putSub]
theorem hf_onReq (c : Cfg) (s : St) (p : ObjId) (r : Req) : (onReq c s p r).1.handoffs = s.handoffs := by
  simp only [onReq]; split
  · rfl
  · split
    · rfl
    · rfl
    · rename_i x ev val cl
      simp only [onPut]
      have hr : (if (s.obj p).verified then respond (putChars c s p x ev val) p (putCode c [(x, ev, val)]) (putBody c [(x, ev, val)])
           else respond s p 401 Body.none).1.handoffs = s.handoffs := by
        split
        · rw [hf_respond, hf_putChars]
        · rfl
      split
      · rw [hf_closeP]; exact hr
      · exact hr
    · rename_i qs cl
      simp only [onPutMany]
      have hr : (if (s.obj p).verified then respond (putAll c s p qs) p (putCode c qs) (putBody c qs)
           else respond s p 401 Body.none).1.handoffs = s.handoffs := by
        split
        · rw [hf_respond]
          exact putAll_pres (fun t => t.handoffs = s.handoffs) c p
            (fun t x ev val ht => by rw [hf_putChars]; exact ht) s qs rfl
        · rfl
      split
      · rw [hf_closeP]; exact hr
      · exact hr
    · split <;> rfl
    · split <;> rfl
    · split <;> rfl

theorem handoffs_step (c : Cfg) (s : St) (e : Ev) (hw : notWorker e) (h0 : s.handoffs = []) :
    (step c s e).1.handoffs = [] := by
  cases e with
  | tick dt => exact h0
  | connect a => simp only [step]; split <;> exact h0
  | verify p => simp only [step]; split <;> exact h0
  | data p r =>
    simp only [step]; split
    · simp only [onData]; rw [hf_onReq]; exact h0
    · exact h0
  | appSet x v => simp only [step, appSet]; rw [hf_writeVal]; exact h0
  | appSetWorker x v => exact absurd hw (by simp [notWorker])
  | handOff => simp [step, handOff, h0]
  | timerFire p =>
    simp only [step]; split
    · rw [hf_sendEvents]; exact h0
    · exact h0
  | soonFlush p =>
    simp only [step]; split
    · rw [hf_sendEvents]; exact h0
    · exact h0
  | respReady p ok =>
    simp only [step]; split
    · split
      · exact h0
      · split <;> exact h0
    · exact h0
  | lose p =>
    simp only [step]; split
    · exact h0
    · exact h0
  | idleSweep => exact h0
  | stop => exact h0

theorem invL_step (c : Cfg) (h12 : c.fix12 = true) (h13 : c.fix13 = true) (hcb : CbOK c) (s : St) (e : Ev) (h : InvL c s)
    (hG : Good s) (hr : reuseCond s e) (hw : notWorker e) (h0 : s.handoffs = []) : InvL c (step c s e).1 := by
  cases e with
  | tick dt =>
    intro q x hs
    exact lok_frame c s _ q x (h q x hs) rfl rfl (fun g => g) rfl rfl rfl (fun g => g)
  | connect a =>
    simp only [step]; split
    · exact h
    · exact invL_connect c s a h hG.a hr
  | verify p =>
    simp only [step]; split
    · exact invL_updObj c s p _ h rfl rfl rfl rfl rfl (Nat.le_refl _)
    · exact h
  | data p r =>
    simp only [step]; split
    · rename_i hen
      simp only [onData]
      have hl : Live s p := ⟨hG.a, hG.uniq, hen.1, open_live s hG.a p hen.2⟩
      have ht : Rel none s (touch s p) := rel_updObj s p _ rfl rfl (fun g => g) (Or.inr rfl)
      exact invL_onReq c h12 h13 hcb _ p r (invL_updObj c s p _ h rfl rfl rfl rfl rfl (Nat.le_refl _))
        (live_of_rel ht (invA_touch s p hG.a) hl)
    · exact h
  | appSet x v => exact invL_appSet c s x v h hG.a
  | appSetWorker x v => exact absurd hw (by simp [notWorker])
  | handOff => simpa [step, handOff, h0] using h
  | timerFire p =>
    simp only [step]; split
    · exact invL_sendEvents c s p h
    · exact h
  | soonFlush p =>
    simp only [step]; split
    · exact invL_soonFlush c s p _ h
    · exact h
  | respReady p ok =>
    simp only [step]; split
    · have hs1 : InvL c { s with obj := upd s.obj p { s.obj p with pending := false } } :=
        invL_updObj c s p _ h rfl rfl rfl rfl rfl (Nat.le_refl _)
      split
      · exact hs1
      · split <;> exact invL_respond c _ p _ _ hs1
    · exact h
  | lose p =>
    simp only [step]; split
    · rename_i hen
      exact invL_lose c s p h hG.a hG.uniq hen.1 hen.2
    · exact h
  | idleSweep => exact invL_idleSweep c s h hG.a
  | stop => exact invL_stop c s h hG.a

theorem invL_run_from (c : Cfg) (h12 : c.fix12 = true) (h13 : c.fix13 = true) (hcb : CbOK c) (tr : List Ev) (s : St)
    (h : InvL c s) (hG : Good s) (hr : ReuseOK c s tr) (hw : NoWorker tr) (h0 : s.handoffs = []) :
    InvL c (run c s tr).1 := by
  induction tr generalizing s with
  | nil => exact h
  | cons e es ih =>
    rw [reuseOK_cons] at hr
    simp only [run]
    have hwe := hw e (List.mem_cons_self ..)
    exact ih _ (invL_step c h12 h13 hcb s e h hG hr.1 hwe h0)
      ⟨invA_step c h13 s e hG.a, cleanInv_step c s e hG.a hG.clean, uniqInv_step c s e hG.uniq hr.1⟩ hr.2
      (fun e' he' => hw e' (List.mem_cons_of_mem _ he')) (handoffs_step c s e hwe h0)

theorem invL_run (c : Cfg) (h12 : c.fix12 = true) (h13 : c.fix13 = true) (hcb : CbOK c) (tr : List Ev)
    (hr : ReuseOK c (init c) tr) (hw : NoWorker tr) : InvL c (run c (init c) tr).1 :=
  invL_run_from c h12 h13 hcb tr _ (invL_init c) (good_init c) hr hw rfl

/-! #### draining one connection -/

theorem sendEvents_timer (s : St) (p : ObjId) :
    ((sendEvents s p).1.obj p).timer = none ∧ ((sendEvents s p).1.obj p).soon = (s.obj p).soon := by
  simp only [sendEvents]
  split
  · simp [upd_apply]
  · split <;> simp [upd_apply]

theorem run_soonFlush (c : Cfg) (p : ObjId) (n : Nat) (s : St) (hp : p < s.nobj) (hn : (s.obj p).soon = n) :
    ((run c s (List.replicate n (Ev.soonFlush p))).1.obj p).soon = 0 ∧
    p < (run c s (List.replicate n (Ev.soonFlush p))).1.nobj := by
  induction n generalizing s with
  | zero => simp [run, hn, hp]
  | succ k ih =>
    simp only [List.replicate, run]
    have hen : p < s.nobj ∧ 0 < (s.obj p).soon := ⟨hp, by omega⟩
    have hstep : ((step c s (Ev.soonFlush p)).1.obj p).soon = k ∧ p < (step c s (Ev.soonFlush p)).1.nobj := by
      simp only [step, hen, and_self, if_true]
      have := sendEvents_timer { s with obj := upd s.obj p { s.obj p with soon := (s.obj p).soon - 1 } } p
      refine ⟨?_, ?_⟩
      · rw [this.2]; simp [upd_apply]; omega
      · have := (rel_sendEvents { s with obj := upd s.obj p { s.obj p with soon := (s.obj p).soon - 1 } } p).nobj
        rw [this]; exact hp
    exact ih _ hstep.2 hstep.1

theorem drain_not_pending (c : Cfg) (s : St) (p : ObjId) (hp : p < s.nobj) :
    ¬ pendingFlush (run c s (List.replicate (s.obj p).soon (Ev.soonFlush p) ++ [Ev.timerFire p])).1 p := by
  rw [run_append]
  obtain ⟨h1, h2⟩ := run_soonFlush c p _ s hp rfl
  generalize (run c s (List.replicate (s.obj p).soon (Ev.soonFlush p))).1 = s1 at h1 h2
  simp only [run, step]
  split
  · have := sendEvents_timer s1 p
    simp [pendingFlush, this.1, this.2, h1]
  · rename_i hne
    simp only [pendingFlush, h1]
    intro g
    rcases g with g | g
    · exact hne ⟨h2, g⟩
    · omega

end Hap.Sys

namespace Hap.Sys

theorem sendEvents_other (s : St) (p q : ObjId) (h : q ≠ p) :
    (sendEvents s p).1.obj q = s.obj q ∧ (sendEvents s p).1.nobj = s.nobj := by
  simp only [sendEvents]
  split
  · simp [upd_apply, h]
  · split <;> simp [upd_apply, h]

theorem flush_other (c : Cfg) (s : St) (p q : ObjId) (e : Ev) (he : e = Ev.soonFlush p ∨ e = Ev.timerFire p)
    (h : q ≠ p) : (step c s e).1.obj q = s.obj q ∧ (step c s e).1.nobj = s.nobj := by
  rcases he with rfl | rfl
  · simp only [step]; split
    · have := sendEvents_other { s with obj := upd s.obj p { s.obj p with soon := (s.obj p).soon - 1 } } p q h
      rw [this.1, this.2]; simp [upd_apply, h]
    · exact ⟨rfl, rfl⟩
  · simp only [step]; split
    · exact sendEvents_other s p q h
    · exact ⟨rfl, rfl⟩

theorem run_flush_other (c : Cfg) (p q : ObjId) (h : q ≠ p) (l : List Ev)
    (hl : ∀ e ∈ l, e = Ev.soonFlush p ∨ e = Ev.timerFire p) (s : St) :
    (run c s l).1.obj q = s.obj q ∧ (run c s l).1.nobj = s.nobj := by
  induction l generalizing s with
  | nil => exact ⟨rfl, rfl⟩
  | cons e es ih =>
    simp only [run]
    have h1 := flush_other c s p q e (hl e (List.mem_cons_self ..)) h
    have h2 := ih (fun e' he' => hl e' (List.mem_cons_of_mem _ he')) (step c s e).1
    exact ⟨h2.1.trans h1.1, h2.2.trans h1.2⟩

/-- the events that drain connection `p` -/
def drainOf (s : St) (p : ObjId) : List Ev := List.replicate (s.obj p).soon (Ev.soonFlush p) ++ [Ev.timerFire p]

theorem drainOf_events (s : St) (p : ObjId) : ∀ e ∈ drainOf s p, e = Ev.soonFlush p ∨ e = Ev.timerFire p := by
  intro e he
  simp only [drainOf, List.mem_append, List.mem_replicate, List.mem_singleton] at he
  rcases he with ⟨_, rfl⟩ | rfl
  · exact Or.inl rfl
  · exact Or.inr rfl

theorem drainOf_nobj (c : Cfg) (s t : St) (p : ObjId) : (run c t (drainOf s p)).1.nobj = t.nobj := by
  have : ∀ (l : List Ev), (∀ e ∈ l, e = Ev.soonFlush p ∨ e = Ev.timerFire p) → ∀ t : St, (run c t l).1.nobj = t.nobj := by
    intro l hl
    induction l with
    | nil => intro t; rfl
    | cons e es ih =>
      intro t
      simp only [run]
      rw [ih (fun e' he' => hl e' (List.mem_cons_of_mem _ he'))]
      rcases hl e (List.mem_cons_self ..) with rfl | rfl
      · simp only [step]; split
        · exact (rel_sendEvents _ p).nobj
        · rfl
      · simp only [step]; split
        · exact (rel_sendEvents _ p).nobj
        · rfl
  exact this _ (drainOf_events s p) t

/-- drain every connection in `l` -/
def drainList (s : St) (l : List ObjId) : List Ev := l.flatMap (drainOf s)

theorem drainList_quiet (c : Cfg) (s : St) (l : List ObjId) (hnd : l.Nodup) (hl : ∀ p ∈ l, p < s.nobj) (t : St)
    (hn : t.nobj = s.nobj) (hsame : ∀ p ∈ l, t.obj p = s.obj p) :
    (∀ p ∈ l, ¬ pendingFlush (run c t (drainList s l)).1 p) ∧
    (∀ q, q ∉ l → (run c t (drainList s l)).1.obj q = t.obj q) ∧
    (run c t (drainList s l)).1.nobj = s.nobj := by
  induction l generalizing t with
  | nil => exact ⟨fun p hp => (by cases hp), fun _ _ => rfl, hn⟩
  | cons p ps ih =>
    simp only [drainList, List.flatMap_cons]
    rw [run_append]
    have hp : p < t.nobj := by rw [hn]; exact hl p (List.mem_cons_self ..)
    have hnd' := List.nodup_cons.mp hnd
    -- drain p
    have e : drainOf s p = drainOf t p := by simp [drainOf, hsame p (List.mem_cons_self ..)]
    have h1 : ¬ pendingFlush (run c t (drainOf s p)).1 p := by rw [e]; exact drain_not_pending c t p hp
    have h2 : ∀ q, q ≠ p → (run c t (drainOf s p)).1.obj q = t.obj q :=
      fun q hq => (run_flush_other c p q hq _ (drainOf_events s p) t).1
    have h3 : (run c t (drainOf s p)).1.nobj = s.nobj := by rw [drainOf_nobj]; exact hn
    -- then the others
    have ih' := ih hnd'.2 (fun q hq => hl q (List.mem_cons_of_mem _ hq)) (run c t (drainOf s p)).1 h3
      (fun q hq => by
        have hqp : q ≠ p := fun e => hnd'.1 (e ▸ hq)
        rw [h2 q hqp]; exact hsame q (List.mem_cons_of_mem _ hq))
    refine ⟨?_, ?_, ih'.2.2⟩
    · intro q hq
      rcases List.mem_cons.mp hq with rfl | hq
      · have hob : (run c (run c t (drainOf s q)).1 (drainList s ps)).1.obj q = (run c t (drainOf s q)).1.obj q :=
          ih'.2.1 q hnd'.1
        unfold pendingFlush at h1 ⊢
        simp only [drainList] at hob
        rw [hob]; exact h1
      · exact ih'.1 q hq
    · intro q hq
      have hqp : q ≠ p := fun e => hq (e ▸ List.mem_cons_self ..)
      have hqps : q ∉ ps := fun h => hq (List.mem_cons_of_mem _ h)
      show (run c (run c t (drainOf s p)).1 (drainList s ps)).1.obj q = t.obj q
      rw [ih'.2.1 q hqps, h2 q hqp]

/-- all pending flushes of all connections -/
def drainAll (s : St) : List Ev := drainList s (List.range s.nobj)

theorem drainAll_quiet (c : Cfg) (s : St) :
    (∀ p, p < (run c s (drainAll s)).1.nobj → ¬ pendingFlush (run c s (drainAll s)).1 p) := by
  have := drainList_quiet c s (List.range s.nobj) List.nodup_range (fun p hp => List.mem_range.mp hp) s rfl (fun _ _ => rfl)
  intro p hp
  rw [show (run c s (drainAll s)).1.nobj = s.nobj from this.2.2] at hp
  exact this.1 p (List.mem_range.mpr hp)

theorem reuseOK_noConnect (c : Cfg) (l : List Ev) (h : ∀ e ∈ l, ∀ a, e ≠ Ev.connect a) (s : St) : ReuseOK c s l := by
  induction l generalizing s with
  | nil => trivial
  | cons e es ih =>
    rw [reuseOK_cons]
    refine ⟨?_, ih (fun e' he' => h e' (List.mem_cons_of_mem _ he')) _⟩
    cases e with
    | connect a => exact absurd rfl (h _ (List.mem_cons_self ..) a)
    | _ => trivial

theorem drainAll_noConnect (s : St) : ∀ e ∈ drainAll s, ∀ a, e ≠ Ev.connect a := by
  intro e he a
  simp only [drainAll, drainList, List.mem_flatMap] at he
  obtain ⟨p, _, hp⟩ := he
  rcases drainOf_events s p e hp with rfl | rfl <;> simp

end Hap.Sys
