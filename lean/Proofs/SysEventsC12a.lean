/-
  C12 lemmas, part a: the `learned` obligation and the flush.
-/
import Proofs.SysEvents
namespace Hap.Sys

/-! ### C12: what each connection has learned -/

/-- the obligation attached to ghost `since q x` -/
def LOk (c : Cfg) (s : St) (q : ObjId) (x : Cid) : Prop :=
  registered s q ∧ subscribed s x (s.obj q).addr ∧
  (c.nul x = false → ∃ v, s.value x = some v ∧
     (∀ w, aget (s.obj q).queue x = some w → w = v) ∧
     ((s.obj q).learned x = some v ∨ (aget (s.obj q).queue x = some v ∧ pendingFlush s q)))

def InvL (c : Cfg) (s : St) : Prop := ∀ q x, (s.obj q).since x = true → LOk c s q x

theorem invL_init (c : Cfg) : InvL c (init c) := by
  intro q x h; simp [init] at h

/-- frame lemma: nothing that `LOk c s q x` looks at got worse -/
theorem lok_frame (c : Cfg) (s s' : St) (q : ObjId) (x : Cid) (h : LOk c s q x)
    (e_addr : (s'.obj q).addr = (s.obj q).addr)
    (e_reg : s'.reg (s.obj q).addr = s.reg (s.obj q).addr)
    (e_sub : subscribed s x (s.obj q).addr → subscribed s' x (s.obj q).addr)
    (e_val : s'.value x = s.value x)
    (e_q : aget (s'.obj q).queue x = aget (s.obj q).queue x)
    (e_l : (s'.obj q).learned x = (s.obj q).learned x)
    (e_p : pendingFlush s q → pendingFlush s' q) : LOk c s' q x := by
  obtain ⟨h1, h2, h3⟩ := h
  refine ⟨?_, ?_, ?_⟩
  · simp only [registered] at h1 ⊢; rw [e_addr, e_reg]; exact h1
  · rw [e_addr]; exact e_sub h2
  · intro hn
    obtain ⟨v, v1, v2, v3⟩ := h3 hn
    refine ⟨v, by rw [e_val]; exact v1, by rw [e_q]; exact v2, ?_⟩
    rw [e_q, e_l]
    rcases v3 with g | g
    · exact Or.inl g
    · exact Or.inr ⟨g.1, e_p g.2⟩

/-! #### `_send_events` -/

/-- `LOk` without the "a flush is pending" part (what `_send_events` of `q` itself needs) -/
def LOkW (c : Cfg) (s : St) (q : ObjId) (x : Cid) : Prop :=
  registered s q ∧ subscribed s x (s.obj q).addr ∧
  (c.nul x = false → ∃ v, s.value x = some v ∧
     (∀ w, aget (s.obj q).queue x = some w → w = v) ∧
     ((s.obj q).learned x = some v ∨ aget (s.obj q).queue x = some v))

theorem invL_sendEvents_weak (c : Cfg) (s : St) (p : ObjId)
    (h : ∀ q x, q ≠ p → (s.obj q).since x = true → LOk c s q x)
    (hp : ∀ x, (s.obj p).since x = true → LOkW c s p x) : InvL c (sendEvents s p).1 := by
  -- description of the resulting state
  have key : ∀ (o' : Obj), o'.addr = (s.obj p).addr → o'.since = (s.obj p).since → o'.queue = [] →
      (∀ x, (∃ w, aget (s.obj p).queue x = some w ∧ memT (s.topics x) (s.obj p).addr = true ∧ o'.learned x = some w) ∨
            ((aget (s.obj p).queue x = none ∨ memT (s.topics x) (s.obj p).addr = false) ∧ o'.learned x = (s.obj p).learned x)) →
      InvL c { s with obj := upd s.obj p o' } := by
    intro o' e1 e2 e3 e4 q x hs
    by_cases hqp : q = p
    · subst hqp
      simp only [upd_apply, if_true] at hs ⊢
      rw [e2] at hs
      obtain ⟨h1, h2, h3⟩ := hp x hs
      refine ⟨?_, ?_, ?_⟩
      · simpa [registered, upd_apply, e1] using h1
      · simp only [upd_apply, if_true, e1]; exact h2
      · intro hn
        obtain ⟨v, v1, v2, v3⟩ := h3 hn
        refine ⟨v, v1, ?_, Or.inl ?_⟩
        · simp [upd_apply, e3, aget]
        · simp only [upd_apply, if_true]
          rcases e4 x with ⟨w, w1, _, w3⟩ | ⟨w1, w3⟩
          · rw [w3, v2 w w1]
          · rw [w3]
            rcases v3 with g | g
            · exact g
            · rcases w1 with w1 | w1
              · rw [w1] at g; cases g
              · simp [subscribed, w1] at h2
    · simp only [upd_apply, hqp, if_false] at hs
      have := h q x hqp hs
      refine lok_frame c s _ q x this ?_ rfl (fun g => g) rfl ?_ ?_ ?_
      all_goals simp [upd_apply, hqp, pendingFlush]
  simp only [sendEvents]
  split
  · rename_i hq
    refine key _ rfl rfl hq (fun x => Or.inr ⟨Or.inl (by rw [hq]; rfl), rfl⟩)
  · split
    · rename_i hne hent
      refine key _ rfl rfl rfl (fun x => Or.inr ⟨?_, rfl⟩)
      -- no entry passes the filter
      cases hx : aget (s.obj p).queue x with
      | none => exact Or.inl rfl
      | some w =>
        right
        have := aget_filter (s.obj p).queue (fun y => memT (s.topics y) (s.obj p).addr) x
        rw [hent] at this
        simp only [aget] at this
        cases hm : memT (s.topics x) (s.obj p).addr with
        | false => rfl
        | true => rw [hm, hx] at this; simp at this
    · refine key _ rfl rfl rfl (fun x => ?_)
      have hf := aget_filter (s.obj p).queue (fun y => memT (s.topics y) (s.obj p).addr) x
      simp only
      rw [hf]
      cases hm : memT (s.topics x) (s.obj p).addr with
      | false => exact Or.inr ⟨Or.inr rfl, by simp⟩
      | true =>
        cases hx : aget (s.obj p).queue x with
        | none => exact Or.inr ⟨Or.inl rfl, by simp⟩
        | some w => exact Or.inl ⟨w, rfl, rfl, by simp⟩

theorem lok_weak (c : Cfg) (s : St) (q : ObjId) (x : Cid) (h : LOk c s q x) : LOkW c s q x := by
  obtain ⟨h1, h2, h3⟩ := h
  refine ⟨h1, h2, fun hn => ?_⟩
  obtain ⟨v, v1, v2, v3⟩ := h3 hn
  exact ⟨v, v1, v2, v3.imp id (fun g => g.1)⟩

theorem invL_sendEvents (c : Cfg) (s : St) (p : ObjId) (h : InvL c s) : InvL c (sendEvents s p).1 :=
  invL_sendEvents_weak c s p (fun q x _ hs => h q x hs) (fun x hs => lok_weak c s p x (h p x hs))

/-- `soonFlush`: the callback counter is decremented, then `_send_events` runs -/
theorem invL_soonFlush (c : Cfg) (s : St) (p : ObjId) (n : Nat) (h : InvL c s) :
    InvL c (sendEvents { s with obj := upd s.obj p { s.obj p with soon := n } } p).1 := by
  apply invL_sendEvents_weak
  · intro q x hqp hs
    simp only [upd_apply, hqp, if_false] at hs
    refine lok_frame c s _ q x (h q x hs) ?_ rfl (fun g => g) rfl ?_ ?_ ?_
    all_goals simp [upd_apply, hqp, pendingFlush]
  · intro x hs
    simp only [upd_apply, if_true] at hs
    obtain ⟨h1, h2, h3⟩ := lok_weak c s p x (h p x hs)
    refine ⟨by simpa [registered, upd_apply] using h1, by simpa [subscribed, upd_apply] using h2, fun hn => ?_⟩
    obtain ⟨v, v1, v2, v3⟩ := h3 hn
    exact ⟨v, v1, by simpa [upd_apply] using v2, by simpa [upd_apply] using v3⟩

/-- updates of one object that leave everything C12 looks at alone -/
theorem invL_updObj (c : Cfg) (s : St) (p : ObjId) (o' : Obj) (h : InvL c s)
    (e1 : o'.addr = (s.obj p).addr) (e2 : o'.since = (s.obj p).since) (e3 : o'.queue = (s.obj p).queue)
    (e4 : o'.learned = (s.obj p).learned) (e5 : o'.timer = (s.obj p).timer) (e6 : (s.obj p).soon ≤ o'.soon) :
    InvL c { s with obj := upd s.obj p o' } := by
  intro q x hs
  by_cases hqp : q = p
  · subst hqp
    simp only [upd_apply, if_true] at hs
    rw [e2] at hs
    refine lok_frame c s _ q x (h q x hs) ?_ rfl (fun g => g) rfl ?_ ?_ ?_
    · simp [upd_apply, e1]
    · simp [upd_apply, e3]
    · simp [upd_apply, e4]
    · simp only [pendingFlush, upd_apply, if_true, e5]
      intro g; rcases g with g | g
      · exact Or.inl g
      · exact Or.inr (by omega)
  · simp only [upd_apply, hqp, if_false] at hs
    refine lok_frame c s _ q x (h q x hs) ?_ rfl (fun g => g) rfl ?_ ?_ ?_
    all_goals simp [upd_apply, hqp, pendingFlush]

theorem invL_respond (c : Cfg) (s : St) (p : ObjId) (code : Nat) (b : Body) (h : InvL c s) : InvL c (respond s p code b).1 :=
  invL_updObj c s p _ h rfl rfl rfl rfl rfl (Nat.le_refl _)

end Hap.Sys

namespace Hap.Sys

theorem uniq_of_rel {b : Option Addr} {s s' : St} (hr : Rel b s s') (h : UniqInv s) : UniqInv s' := by
  intro p q hp hq hpl hql hpq
  rw [hr.nobj] at hp hq
  rw [hr.lost] at hpl hql
  rw [hr.addr, hr.addr] at hpq
  exact h p q hp hq hpl hql hpq

/-- a registered connection is open, hence its loss has not been processed -/
theorem registered_live (s : St) (hA : InvA s) (q : ObjId) (h : registered s q) :
    q < s.nobj ∧ (s.obj q).closing = false ∧ (s.obj q).lost = false := by
  obtain ⟨h1, _, h3⟩ := hA.reg_ok _ q h
  refine ⟨h1, h3, ?_⟩
  cases hh : (s.obj q).lost with
  | false => rfl
  | true => have := hA.lost_closing q hh; simp_all

theorem open_live (s : St) (hA : InvA s) (p : ObjId) (h : (s.obj p).closing = false) : (s.obj p).lost = false := by
  cases hh : (s.obj p).lost with
  | false => rfl
  | true => have := hA.lost_closing p hh; simp_all

/-- two live connections have different addresses (reuse hypothesis) -/
theorem addr_ne (s : St) (hA : InvA s) (hU : UniqInv s) (q p : ObjId) (hq : registered s q)
    (hp : p < s.nobj) (hpl : (s.obj p).lost = false) (hne : q ≠ p) : (s.obj q).addr ≠ (s.obj p).addr := by
  intro e
  obtain ⟨q1, _, q3⟩ := registered_live s hA q hq
  exact hne (hU q p q1 hp q3 hpl e)

theorem invL_closeP (c : Cfg) (s : St) (p : ObjId) (h : InvL c s) (hA : InvA s) (hU : UniqInv s)
    (hp : p < s.nobj) (hpl : (s.obj p).lost = false) : InvL c (closeP c s p).1 := by
  intro q x hs
  simp only [closeP] at hs ⊢
  by_cases hqp : q = p
  · subst hqp; simp [upd_apply] at hs
  · simp only [upd_apply, hqp, if_false] at hs
    have hl := h q x hs
    have hne := addr_ne s hA hU q p hl.1 hp hpl hqp
    refine lok_frame c s _ q x hl ?_ ?_ (fun g => g) rfl ?_ ?_ ?_
    all_goals simp [upd_apply, hqp, hne, pendingFlush]

theorem invL_lose (c : Cfg) (s : St) (p : ObjId) (h : InvL c s) (hA : InvA s) (hU : UniqInv s)
    (hp : p < s.nobj) (hpl : (s.obj p).lost = false) :
    InvL c (markLost (closeP c (dropConn s (s.obj p).addr) p).1 p) := by
  intro q x hs
  simp only [markLost, closeP, dropConn] at hs ⊢
  by_cases hqp : q = p
  · subst hqp; simp [upd_apply] at hs
  · simp only [upd_apply, hqp, if_false] at hs
    have hl := h q x hs
    have hne := addr_ne s hA hU q p hl.1 hp hpl hqp
    refine lok_frame c s _ q x hl ?_ ?_ ?_ rfl ?_ ?_ ?_
    · simp [upd_apply, hqp]
    · simp [upd_apply, hne]
    · intro g; simp only [subscribed, memT_lostDel] at g ⊢; simp [g, hne]
    · simp [upd_apply, hqp]
    · simp [upd_apply, hqp]
    · simp [upd_apply, hqp, pendingFlush]

theorem invL_connect (c : Cfg) (s : St) (a : Addr) (h : InvL c s) (hA : InvA s) (hall : allLost s a) :
    InvL c { s with nobj := s.nobj + 1, obj := upd s.obj s.nobj { addr := a, last := s.now },
                    reg := upd s.reg a (some s.nobj) } := by
  intro q x hs
  by_cases hqn : q = s.nobj
  · subst hqn; simp [upd_apply] at hs
  · simp only [upd_apply, hqn, if_false] at hs
    have hl := h q x hs
    obtain ⟨q1, _, q3⟩ := registered_live s hA q hl.1
    have hne : (s.obj q).addr ≠ a := by
      intro e; have := hall q q1 e; simp_all
    refine lok_frame c s _ q x hl ?_ ?_ (fun g => g) rfl ?_ ?_ ?_
    all_goals simp [upd_apply, hqn, hne, pendingFlush]

theorem invL_idleSweep (c : Cfg) (s : St) (h : InvL c s) (hA : InvA s) : InvL c (step c s Ev.idleSweep).1 := by
  intro q x hs
  simp only [step] at hs ⊢
  by_cases hd : q < s.nobj ∧ idleDue s q
  · simp [hd] at hs
  · simp only [hd, if_false] at hs
    have hl := h q x hs
    obtain ⟨q1, _, _⟩ := registered_live s hA q hl.1
    have hnd : ¬ idleDue s q := fun g => hd ⟨q1, g⟩
    have hr : s.reg (s.obj q).addr = some q := hl.1
    refine lok_frame c s _ q x hl ?_ ?_ (fun g => g) rfl ?_ ?_ ?_
    · simp [hd]
    · simp only; rw [hr]; simp [hnd]
    · simp [hd]
    · simp [hd]
    · simp [hd, pendingFlush]

theorem invL_stop (c : Cfg) (s : St) (h : InvL c s) (hA : InvA s) : InvL c (step c s Ev.stop).1 := by
  intro q x hs
  simp only [step] at hs
  by_cases hd : q < s.nobj ∧ registered s q
  · simp [hd] at hs
  · simp only [hd, if_false] at hs
    have hl := h q x hs
    obtain ⟨q1, _, _⟩ := registered_live s hA q hl.1
    exact absurd ⟨q1, hl.1⟩ hd

/-- dropping the queued entry of `x` from the connection registered for `a` is harmless when that
    connection carries no obligation for `x` -/
theorem invL_dropEvent (c : Cfg) (t : St) (a : Addr) (x : Cid) (h : InvL c t)
    (hq : ∀ q, t.reg a = some q → (t.obj q).since x = false) : InvL c (dropEvent c t a x) := by
  simp only [dropEvent]
  split
  · split
    · exact h
    · rename_i q0 hq0
      intro q y hs
      by_cases hqq : q = q0
      · subst hqq
        simp only [upd_apply, if_true] at hs
        have hyx : y ≠ x := by
          intro e; subst e; have := hq q hq0; simp_all
        refine lok_frame c t _ q y (h q y hs) ?_ rfl (fun g => g) rfl ?_ ?_ ?_
        · simp [upd_apply]
        · simp [upd_apply, aget_adel, hyx]
        · simp [upd_apply]
        · simp [upd_apply, pendingFlush]
      · simp only [upd_apply, hqq, if_false] at hs
        refine lok_frame c t _ q y (h q y hs) ?_ rfl (fun g => g) rfl ?_ ?_ ?_
        all_goals simp [upd_apply, hqq, pendingFlush]
  · exact h

theorem invL_putSub (c : Cfg) (s : St) (p : ObjId) (x : Cid) (ev : Option Bool) (h : InvL c s) (hA : InvA s)
    (hU : UniqInv s) (hp : p < s.nobj) (hpl : (s.obj p).lost = false) : InvL c (putSub c s p x ev) := by
  simp only [putSub]
  split
  · exact h
  · intro q y hs
    refine lok_frame c s _ q y (h q y hs) rfl rfl ?_ rfl rfl rfl (fun g => g)
    intro g
    simp only [subscribed, upd_apply] at g ⊢
    split
    · rename_i e; subst e; simp [memT_subAdd, g]
    · exact g
  · apply invL_dropEvent
    case hq =>
      -- the connection registered for the requester's address is the requester itself
      intro q0 h0
      have h0' : s.reg (s.obj p).addr = some q0 := h0
      have hq0 : q0 = p := by
        by_cases e : q0 = p
        · exact e
        · exfalso
          have hr0 : registered s q0 := by
            have := (hA.reg_ok _ q0 h0').2.1
            simp only [registered, this]; exact h0'
          exact addr_ne s hA hU q0 p hr0 hp hpl e (hA.reg_ok _ q0 h0').2.1
      subst hq0
      simp [unsubSt, upd_apply]
    simp only [unsubSt]
    intro q y hs
    by_cases hqp : q = p
    · subst hqp
      simp only [upd_apply, if_true] at hs
      by_cases hyx : y = x
      · subst hyx; simp at hs
      · simp only [hyx, if_false] at hs
        refine lok_frame c s _ q y (h q y hs) ?_ rfl ?_ rfl ?_ ?_ ?_
        · simp [upd_apply]
        · intro g; simpa [subscribed, upd_apply, hyx] using g
        · simp [upd_apply]
        · simp [upd_apply]
        · simp [upd_apply, pendingFlush]
    · simp only [upd_apply, hqp, if_false] at hs
      have hl := h q y hs
      have hne := addr_ne s hA hU q p hl.1 hp hpl hqp
      refine lok_frame c s _ q y hl ?_ rfl ?_ rfl ?_ ?_ ?_
      · simp [upd_apply, hqp]
      · intro g
        simp only [subscribed, upd_apply] at g ⊢
        split
        · rename_i e; subst e; simp [memT_subDel, g, hne]
        · exact g
      · simp [upd_apply, hqp]
      · simp [upd_apply, hqp]
      · simp [upd_apply, hqp, pendingFlush]

end Hap.Sys

namespace Hap.Sys

theorem memT_pubTopic_keep (s : St) (sd : Option Addr) (subs : List Addr) (a : Addr) (ha : a ∈ subs)
    (hk : s.reg a ≠ none ∨ some a = sd) : memT (pubTopic s sd subs) a = true := by
  simp only [pubTopic]
  split
  · simp [memT, ha]
  · have hmem : a ∈ subs.filter (fun a => ¬ (some a ≠ sd ∧ s.reg a = none)) := by
      simp only [List.mem_filter]
      refine ⟨ha, ?_⟩
      rcases hk with h | h <;> simp [h]
    split
    · rename_i he; rw [he] at hmem; cases hmem
    · simp only [memT, decide_eq_true_eq]; exact hmem

theorem pending_enqueue (s : St) (o : Obj) (x : Cid) (v : Val) (i : Bool) (sd : Option Addr) :
    (enqueue o x v i sd s.now).timer.isSome = true ∨ 0 < (enqueue o x v i sd s.now).soon := by
  simp only [enqueue]
  cases i with
  | true => right; simp
  | false =>
    left
    cases h : o.timer <;> simp [h]

theorem pending_mono_enqueue (o : Obj) (x : Cid) (v : Val) (i : Bool) (sd : Option Addr) (now : Nat)
    (h : o.timer.isSome = true ∨ 0 < o.soon) :
    (enqueue o x v i sd now).timer.isSome = true ∨ 0 < (enqueue o x v i sd now).soon := by
  simp only [enqueue]
  rcases h with h | h
  · left; cases i <;> simp [h]
  · right; cases i <;> simp <;> omega

theorem publish_none (c : Cfg) (s : St) (x : Cid) (v : Val) (sd : Option Addr) (ht : s.topics x = none) :
    publish c s x v sd = s := by simp [publish, ht]

theorem publish_stopped (c : Cfg) (s : St) (x : Cid) (v : Val) (sd : Option Addr) (hst : s.stopped = true) :
    publish c s x v sd = s := by
  simp only [publish, hst, if_true]; split <;> rfl

theorem publish_active (c : Cfg) (s : St) (x : Cid) (v : Val) (sd : Option Addr) (subs : List Addr)
    (ht : s.topics x = some subs) (hst : s.stopped = false) :
    publish c s x v sd = { s with obj := pubObj c s x v sd subs, topics := upd s.topics x (pubTopic s sd subs) } := by
  simp [publish, ht, hst]

theorem pubObj_sub (c : Cfg) (s : St) (x : Cid) (v : Val) (sd : Option Addr) (subs : List Addr) (q : ObjId)
    (h1 : s.reg (s.obj q).addr = some q ∧ (s.obj q).addr ∈ subs) (h2 : some (s.obj q).addr ≠ sd) :
    pubObj c s x v sd subs q = { (enqueue (s.obj q) x v (c.imm x) sd s.now) with since := upd (s.obj q).since x true } := by
  simp only [pubObj, h1, and_self, if_true]
  have : ¬ (some (s.obj q).addr = sd) := h2
  simp only [this, if_false]

theorem pubObj_sender (c : Cfg) (s : St) (x : Cid) (v : Val) (sd : Option Addr) (subs : List Addr) (q : ObjId)
    (h1 : s.reg (s.obj q).addr = some q ∧ (s.obj q).addr ∈ subs) (h2 : some (s.obj q).addr = sd) :
    pubObj c s x v sd subs q = { s.obj q with since := upd (s.obj q).since x true } := by
  simp only [pubObj, h1, and_self, if_true, h2]

theorem pubObj_other (c : Cfg) (s : St) (x : Cid) (v : Val) (sd : Option Addr) (subs : List Addr) (q : ObjId)
    (h1 : ¬ (s.reg (s.obj q).addr = some q ∧ (s.obj q).addr ∈ subs)) : pubObj c s x v sd subs q = s.obj q := by
  simp only [pubObj, h1, if_false]

/-- the active case of `lok_publish`, on the explicit resulting state -/
theorem lok_publish_active (c : Cfg) (s : St) (x : Cid) (v : Val) (sd : Option Addr) (subs : List Addr)
    (h : InvL c s) (ht : s.topics x = some subs) (q : ObjId) (y : Cid)
    (hs : ((pubObj c s x v sd subs q)).since y = true) (hns : some (s.obj q).addr ≠ sd) :
    LOk c { s with value := upd s.value x (some v), obj := pubObj c s x v sd subs,
                   topics := upd s.topics x (pubTopic s sd subs) } q y := by
  have hval : ∀ z, z ≠ x → upd s.value x (some v) z = s.value z := by
    intro z hz; simp [upd_apply, hz]
  by_cases hsub : s.reg (s.obj q).addr = some q ∧ (s.obj q).addr ∈ subs
  · have hobj := pubObj_sub c s x v sd subs q hsub hns
    rw [hobj] at hs
    refine ⟨?_, ?_, ?_⟩
    · show s.reg (pubObj c s x v sd subs q).addr = some q
      rw [hobj]; exact hsub.1
    · show memT (upd s.topics x (pubTopic s sd subs) y) (pubObj c s x v sd subs q).addr = true
      rw [hobj]
      by_cases hy : y = x
      · subst hy
        simp only [upd_apply, if_true]
        apply memT_pubTopic_keep _ _ _ _ hsub.2
        left; rw [hsub.1]; simp
      · simp only [upd_apply, hy, if_false]
        simp only [upd_apply, hy, if_false] at hs
        exact (h q y hs).2.1
    · intro hn
      show ∃ w, upd s.value x (some v) y = some w ∧
        (∀ u, aget (pubObj c s x v sd subs q).queue y = some u → u = w) ∧
        ((pubObj c s x v sd subs q).learned y = some w ∨
          (aget (pubObj c s x v sd subs q).queue y = some w ∧
            ((pubObj c s x v sd subs q).timer.isSome = true ∨ 0 < (pubObj c s x v sd subs q).soon)))
      rw [hobj]
      by_cases hy : y = x
      · subst hy
        refine ⟨v, by simp [upd_apply], ?_, Or.inr ⟨?_, ?_⟩⟩
        · intro w hw; simp only [enqueue, aget_aset, if_true] at hw; cases hw; rfl
        · simp only [enqueue, aget_aset, if_true]
        · exact pending_enqueue s (s.obj q) y v (c.imm y) sd
      · simp only [upd_apply, hy, if_false] at hs
        obtain ⟨w, w1, w2, w3⟩ := (h q y hs).2.2 hn
        refine ⟨w, by rw [hval y hy]; exact w1, ?_, ?_⟩
        · intro u hu; simp only [enqueue, aget_aset, hy, if_false] at hu; exact w2 u hu
        · simp only [enqueue, aget_aset, hy, if_false]
          rcases w3 with g | g
          · exact Or.inl g
          · exact Or.inr ⟨g.1, pending_mono_enqueue (s.obj q) x v (c.imm x) sd s.now g.2⟩
  · have hobj := pubObj_other c s x v sd subs q hsub
    rw [hobj] at hs
    have hl := h q y hs
    by_cases hy : y = x
    · subst hy
      exfalso; apply hsub
      refine ⟨hl.1, ?_⟩
      have := hl.2.1
      simpa [subscribed, ht, memT] using this
    · refine lok_frame c s _ q y hl ?_ rfl ?_ (hval y hy) ?_ ?_ ?_
      · show (pubObj c s x v sd subs q).addr = _; rw [hobj]
      · intro g; show memT (upd s.topics x (pubTopic s sd subs) y) (s.obj q).addr = true
        simp only [upd_apply, hy, if_false]; exact g
      · show aget (pubObj c s x v sd subs q).queue y = _; rw [hobj]
      · show (pubObj c s x v sd subs q).learned y = _; rw [hobj]
      · intro g
        show ((pubObj c s x v sd subs q).timer.isSome = true ∨ 0 < (pubObj c s x v sd subs q).soon)
        rw [hobj]; exact g

/-- after a *change* of `x` to `v` has been published, every connection other than the sender's
    meets its obligation again (the subscribers have the new value queued, with a flush pending) -/
theorem lok_publish (c : Cfg) (s : St) (x : Cid) (v : Val) (sd : Option Addr) (h : InvL c s) (hA : InvA s)
    (q : ObjId) (y : Cid) (hs : ((publish c (setVal s x v) x v sd).obj q).since y = true)
    (hns : some (s.obj q).addr ≠ sd) : LOk c (publish c (setVal s x v) x v sd) q y := by
  have hval : ∀ z, z ≠ x → (setVal s x v).value z = s.value z := by
    intro z hz; simp [setVal, upd_apply, hz]
  cases ht : s.topics x with
  | none =>
    rw [publish_none c (setVal s x v) x v sd ht] at hs ⊢
    have hl := h q y hs
    by_cases hy : y = x
    · subst hy
      have := hl.2.1
      simp [subscribed, ht] at this
    · exact lok_frame c s _ q y hl rfl rfl (fun g => g) (hval y hy) rfl rfl (fun g => g)
  | some subs =>
    cases hst : s.stopped with
    | true =>
      rw [publish_stopped c (setVal s x v) x v sd hst] at hs ⊢
      have hl := h q y hs
      have := hA.stopped_reg hst (s.obj q).addr
      have hr : s.reg (s.obj q).addr = some q := hl.1
      rw [this] at hr; cases hr
    | false =>
      rw [publish_active c (setVal s x v) x v sd subs ht hst] at hs ⊢
      exact lok_publish_active c s x v sd subs h ht q y hs hns

end Hap.Sys

namespace Hap.Sys

theorem lok_setNull (c : Cfg) (s : St) (x : Cid) (q : ObjId) (y : Cid) (hn : c.nul x = true) (h : LOk c s q y) :
    LOk c { s with value := upd s.value x none } q y := by
  obtain ⟨h1, h2, h3⟩ := h
  refine ⟨h1, h2, fun hy => ?_⟩
  have hyx : y ≠ x := by intro e; subst e; simp_all
  obtain ⟨w, w1, w2, w3⟩ := h3 hy
  exact ⟨w, by simp [upd_apply, hyx, w1], w2, w3⟩

theorem writeVal_eq (c : Cfg) (s : St) (x : Cid) (v : Val) (sd : Option Addr) :
    writeVal c s x v sd =
      (let s2 := if s.value x ≠ some v then publish c (setVal s x v) x v sd else setVal s x v
       if c.nul x then { s2 with value := upd s2.value x none } else s2) := rfl

/-- after `set_value` / `client_update_value` every connection other than the sender's meets its
    obligation -/
theorem lok_writeVal (c : Cfg) (s : St) (x : Cid) (v : Val) (sd : Option Addr) (h : InvL c s) (hA : InvA s)
    (q : ObjId) (y : Cid) (hs : ((writeVal c s x v sd).obj q).since y = true)
    (hns : some (s.obj q).addr ≠ sd) : LOk c (writeVal c s x v sd) q y := by
  rw [writeVal_eq] at hs ⊢
  have key : ∀ s2 : St, s2 = (if s.value x ≠ some v then publish c (setVal s x v) x v sd else setVal s x v) →
      (s2.obj q).since y = true → LOk c s2 q y := by
    intro s2 e hs2
    by_cases hch : s.value x ≠ some v
    · rw [if_pos hch] at e; subst e
      exact lok_publish c s x v sd h hA q y hs2 hns
    · rw [if_neg hch] at e; subst e
      have hv : s.value x = some v := Classical.not_not.mp hch
      refine lok_frame c s _ q y (h q y hs2) rfl rfl (fun g => g) ?_ rfl rfl (fun g => g)
      simp only [setVal, upd_apply]; split
      · rename_i e; subst e; exact hv.symm
      · rfl
  simp only at hs ⊢
  by_cases hn : c.nul x = true
  · simp only [hn, if_true] at hs ⊢
    exact lok_setNull c _ x q y hn (key _ rfl hs)
  · simp only [hn] at hs ⊢
    exact key _ rfl hs

theorem invL_appSet (c : Cfg) (s : St) (x : Cid) (v : Val) (h : InvL c s) (hA : InvA s) : InvL c (appSet c s x v) := by
  intro q y hs
  exact lok_writeVal c s x v none h hA q y hs (by simp)

/-! #### the writer's side of a controller write -/

/-- what `writeVal` leaves of an object whose address is the sender's: only ghost `since x` may have
    been set, and then the object is a registered subscriber -/
theorem writeVal_sender_obj (c : Cfg) (s : St) (x : Cid) (v : Val) (sd : Option Addr) (p : ObjId)
    (hsd : some (s.obj p).addr = sd) :
    (writeVal c s x v sd).obj p = s.obj p ∨
    ((writeVal c s x v sd).obj p = { s.obj p with since := upd (s.obj p).since x true } ∧
      registered s p ∧ subscribed s x (s.obj p).addr) := by
  rw [writeVal_eq]
  have key : ∀ s2 : St, s2 = (if s.value x ≠ some v then publish c (setVal s x v) x v sd else setVal s x v) →
      s2.obj p = s.obj p ∨ (s2.obj p = { s.obj p with since := upd (s.obj p).since x true } ∧
        registered s p ∧ subscribed s x (s.obj p).addr) := by
    intro s2 e
    by_cases hch : s.value x ≠ some v
    · rw [if_pos hch] at e; subst e
      cases ht : s.topics x with
      | none => rw [publish_none c (setVal s x v) x v sd ht]; exact Or.inl rfl
      | some subs =>
        cases hst : s.stopped with
        | true => rw [publish_stopped c (setVal s x v) x v sd hst]; exact Or.inl rfl
        | false =>
          rw [publish_active c (setVal s x v) x v sd subs ht hst]
          show pubObj c (setVal s x v) x v sd subs p = _ ∨ (pubObj c (setVal s x v) x v sd subs p = _ ∧ _)
          by_cases hsub : s.reg (s.obj p).addr = some p ∧ (s.obj p).addr ∈ subs
          · right
            refine ⟨pubObj_sender c (setVal s x v) x v sd subs p hsub hsd, hsub.1, ?_⟩
            simp [subscribed, ht, memT, hsub.2]
          · left; exact pubObj_other c (setVal s x v) x v sd subs p hsub
    · rw [if_neg hch] at e; subst e; exact Or.inl rfl
  simp only
  generalize hs2 : (if s.value x ≠ some v then publish c (setVal s x v) x v sd else setVal s x v) = s2
  have k := key s2 hs2.symm
  split
  · exact k
  · exact k

theorem writeVal_reg (c : Cfg) (s : St) (x : Cid) (v : Val) (sd : Option Addr) : (writeVal c s x v sd).reg = s.reg := by
  rw [writeVal_eq]
  have key : ∀ s2 : St, s2 = (if s.value x ≠ some v then publish c (setVal s x v) x v sd else setVal s x v) → s2.reg = s.reg := by
    intro s2 e
    by_cases hch : s.value x ≠ some v
    · rw [if_pos hch] at e; subst e
      simp only [publish]; split
      · rfl
      · split <;> rfl
    · rw [if_neg hch] at e; subst e; rfl
  simp only
  generalize hs2 : (if s.value x ≠ some v then publish c (setVal s x v) x v sd else setVal s x v) = s2
  have k := key s2 hs2.symm
  split
  · exact k
  · exact k

theorem writeVal_value (c : Cfg) (s : St) (x : Cid) (v : Val) (sd : Option Addr) (y : Cid) :
    (writeVal c s x v sd).value y = if y = x then (if c.nul x then none else some v) else s.value y := by
  rw [writeVal_eq]
  have key : ∀ s2 : St, s2 = (if s.value x ≠ some v then publish c (setVal s x v) x v sd else setVal s x v) →
      s2.value y = if y = x then some v else s.value y := by
    intro s2 e
    by_cases hch : s.value x ≠ some v
    · rw [if_pos hch] at e; subst e
      simp only [publish]; split
      · simp [setVal, upd_apply]
      · split <;> simp [setVal, upd_apply]
    · rw [if_neg hch] at e; subst e; simp [setVal, upd_apply]
  simp only
  by_cases hn : c.nul x = true
  · simp only [hn, if_true, upd_apply]
    split
    · rfl
    · rename_i hy; rw [key _ rfl]; simp [hy]
  · simp only [hn]; exact key _ rfl

/-- subscriptions of registered addresses and of the sender survive the pruning in `async_send_event` -/
theorem writeVal_subscribed (c : Cfg) (s : St) (x : Cid) (v : Val) (sd : Option Addr) (y : Cid) (a : Addr)
    (h : subscribed s y a) (hk : s.reg a ≠ none ∨ some a = sd) : subscribed (writeVal c s x v sd) y a := by
  rw [writeVal_eq]
  have key : ∀ s2 : St, s2 = (if s.value x ≠ some v then publish c (setVal s x v) x v sd else setVal s x v) →
      subscribed s2 y a := by
    intro s2 e
    by_cases hch : s.value x ≠ some v
    · rw [if_pos hch] at e; subst e
      cases ht : s.topics x with
      | none => rw [publish_none c (setVal s x v) x v sd ht]; exact h
      | some subs =>
        cases hst : s.stopped with
        | true => rw [publish_stopped c (setVal s x v) x v sd hst]; exact h
        | false =>
          rw [publish_active c (setVal s x v) x v sd subs ht hst]
          show memT (upd s.topics x (pubTopic (setVal s x v) sd subs) y) a = true
          simp only [upd_apply]; split
          · rename_i e; subst e
            have : a ∈ subs := by simpa [subscribed, ht, memT] using h
            exact memT_pubTopic_keep (setVal s y v) sd subs a this hk
          · exact h
    · rw [if_neg hch] at e; subst e; exact h
  simp only
  generalize hs2 : (if s.value x ≠ some v then publish c (setVal s x v) x v sd else setVal s x v) = s2
  have k := key s2 hs2.symm
  split
  · exact k
  · exact k

end Hap.Sys

namespace Hap.Sys

/-! #### `discard_stale_event` -/

/-- `discardStale` touches at most the queue of the object registered for `a` -/
theorem discardStale_obj (c : Cfg) (s : St) (a : Addr) (x : Cid) (q : ObjId) :
    (discardStale c s a x).obj q = s.obj q ∨
    (s.reg a = some q ∧ (discardStale c s a x).obj q = { s.obj q with queue := adel (s.obj q).queue x }) := by
  simp only [discardStale]
  split
  · split
    · exact Or.inl rfl
    · rename_i q0 hq0
      split
      · exact Or.inl rfl
      · split
        · by_cases e : q = q0
          · subst e; right; exact ⟨hq0, by simp [upd_apply]⟩
          · left; simp [upd_apply, e]
        · exact Or.inl rfl
  · exact Or.inl rfl

theorem discardStale_frame (c : Cfg) (s : St) (a : Addr) (x : Cid) :
    (discardStale c s a x).reg = s.reg ∧ (discardStale c s a x).topics = s.topics ∧
    (discardStale c s a x).value = s.value := by
  simp only [discardStale]
  split
  · split
    · exact ⟨rfl, rfl, rfl⟩
    · split
      · exact ⟨rfl, rfl, rfl⟩
      · split <;> exact ⟨rfl, rfl, rfl⟩
  · exact ⟨rfl, rfl, rfl⟩

/-- with the repair: what remains queued for `x` on the writer's connection carries the current value -/
theorem discardStale_fresh (c : Cfg) (h12 : c.fix12 = true) (s : St) (a : Addr) (x : Cid) (q : ObjId)
    (hr : s.reg a = some q) (w : Val) (hw : aget ((discardStale c s a x).obj q).queue x = some w) :
    s.value x = some w := by
  simp only [discardStale, h12, if_true, hr] at hw
  split at hw
  · rename_i hn; rw [hn] at hw; cases hw
  · rename_i u hu
    split at hw
    · simp [upd_apply, aget_adel] at hw
    · rename_i hne
      rw [hu] at hw; cases hw
      exact (Classical.not_not.mp hne).symm

/-- without a setter callback `client_update_value` is assignment + change test + notify + reset -/
theorem clientUpdate_none (c : Cfg) (s : St) (x : Cid) (v : Val) (sd : Option Addr) (h : c.cb x = Callback.none) :
    clientUpdate c s x v sd = writeVal c s x v sd := by
  rw [writeVal_eq]
  simp only [clientUpdate, runCallback, h]
  have hv : (setVal s x v).value x = some v := by simp [setVal]
  simp only [hv]
  by_cases hch : s.value x = some v
  · have : ¬ (some v ≠ s.value x) := fun g => g hch.symm
    simp [hch]
  · have : some v ≠ s.value x := fun g => hch g.symm
    simp [hch, this]

/-- the tail of `putVal`: the stale-entry discard, then the writer has learned `v` from its own
    acknowledged write -/
def finishPut (c : Cfg) (t : St) (p : ObjId) (a : Addr) (x : Cid) (v : Val) : St :=
  { (discardStale c t a x) with
    obj := upd (discardStale c t a x).obj p
      { (discardStale c t a x).obj p with learned := upd ((discardStale c t a x).obj p).learned x (some v) } }

theorem putVal_eq (c : Cfg) (s : St) (p : ObjId) (x : Cid) (v : Val) :
    putVal c s p x v = finishPut c (clientUpdate c s x v (some (s.obj p).addr)) p (s.obj p).addr x v := rfl

/-- a plain write (`client_update_value` = assignment + change test + notify) followed by the tail -/
theorem invL_finish_writeVal (c : Cfg) (h12 : c.fix12 = true) (s : St) (p : ObjId) (a : Addr) (x : Cid) (v : Val) (h : InvL c s)
    (hA : InvA s) (hU : UniqInv s) (hp : p < s.nobj) (hpl : (s.obj p).lost = false) (ha : (s.obj p).addr = a) :
    InvL c (finishPut c (writeVal c s x v (some a)) p a x v) := by
  intro q y hs
  simp only [finishPut] at hs ⊢
  -- the three stages
  generalize hs4 : writeVal c s x v (some a) = s4 at hs ⊢
  have hreg4 : s4.reg = s.reg := by rw [← hs4]; exact writeVal_reg c s x v (some a)
  obtain ⟨hreg5, htop5, hval5⟩ := discardStale_frame c s4 a x
  -- the object registered for `a`, if any, is the writer itself
  have hwriter : ∀ q0, s.reg a = some q0 → q0 = p := by
    intro q0 h0
    by_cases e : q0 = p
    · exact e
    · exfalso
      have hr0 : registered s q0 := by
        have := (hA.reg_ok a q0 h0).2.1
        simp only [registered, this]; exact h0
      exact addr_ne s hA hU q0 p hr0 hp hpl e (by rw [(hA.reg_ok a q0 h0).2.1, ha])
  by_cases hqp : q = p
  · subst hqp
    simp only [upd_apply, if_true] at hs
    -- stage by stage description of the writer's object
    have h4 := writeVal_sender_obj c s x v (some a) q (by rw [ha])
    rw [hs4] at h4
    have h5 := discardStale_obj c s4 a x q
    have haddr5 : ((discardStale c s4 a x).obj q).addr = a := by
      rcases h5 with e | ⟨_, e⟩ <;> rcases h4 with e4 | ⟨e4, _⟩ <;> simp [e, e4, ha]
    have hsince5 : ((discardStale c s4 a x).obj q).since = (s4.obj q).since := by
      rcases h5 with e | ⟨_, e⟩ <;> simp [e]
    have hlearned5 : ((discardStale c s4 a x).obj q).learned = (s.obj q).learned := by
      rcases h5 with e | ⟨_, e⟩ <;> rcases h4 with e4 | ⟨e4, _⟩ <;> simp [e, e4]
    have htimer5 : ((discardStale c s4 a x).obj q).timer = (s.obj q).timer ∧
        ((discardStale c s4 a x).obj q).soon = (s.obj q).soon := by
      rcases h5 with e | ⟨_, e⟩ <;> rcases h4 with e4 | ⟨e4, _⟩ <;> simp [e, e4]
    have hq4 : (s4.obj q).queue = (s.obj q).queue := by
      rcases h4 with e4 | ⟨e4, _⟩ <;> simp [e4]
    have hqueue5 : ∀ z, z ≠ x → aget ((discardStale c s4 a x).obj q).queue z = aget (s.obj q).queue z := by
      intro z hz
      rcases h5 with e | ⟨_, e⟩
      · rw [e, hq4]
      · rw [e]; simp only [aget_adel, hz, if_false]; rw [hq4]
    rw [hsince5] at hs
    -- registered and subscribed before the write
    have hbase : LOk c s q y ∨ (y = x ∧ registered s q ∧ subscribed s x a) := by
      rcases h4 with e4 | ⟨e4, r4, s4'⟩
      · rw [e4] at hs; exact Or.inl (h q y hs)
      · rw [e4] at hs
        by_cases hy : y = x
        · exact Or.inr ⟨hy, r4, by rw [← ha]; exact s4'⟩
        · simp only [upd_apply, hy, if_false] at hs; exact Or.inl (h q y hs)
    have hregq : registered s q := by
      rcases hbase with g | g
      · exact g.1
      · exact g.2.1
    have hsuby : subscribed s y a := by
      rcases hbase with g | g
      · rw [← ha]; exact g.2.1
      · rw [g.1]; exact g.2.2
    have hrega : s.reg a = some q := by rw [← ha]; exact hregq
    refine ⟨?_, ?_, ?_⟩
    · show (discardStale c s4 a x).reg ((upd (discardStale c s4 a x).obj q _ q).addr) = some q
      simp only [upd_apply, if_true]
      rw [haddr5, hreg5, hreg4]; exact hrega
    · show memT ((discardStale c s4 a x).topics y) ((upd (discardStale c s4 a x).obj q _ q).addr) = true
      simp only [upd_apply, if_true]
      rw [haddr5, htop5, ← hs4]
      exact writeVal_subscribed c s x v (some a) y a hsuby (Or.inr rfl)
    · intro hn
      show ∃ w, (discardStale c s4 a x).value y = some w ∧
        (∀ u, aget ((upd (discardStale c s4 a x).obj q _ q).queue) y = some u → u = w) ∧
        ((upd (discardStale c s4 a x).obj q _ q).learned y = some w ∨
          (aget ((upd (discardStale c s4 a x).obj q _ q).queue) y = some w ∧
           ((upd (discardStale c s4 a x).obj q _ q).timer.isSome = true ∨ 0 < (upd (discardStale c s4 a x).obj q _ q).soon)))
      simp only [upd_apply, if_true]
      rw [hval5]
      by_cases hy : y = x
      · subst hy
        have hv4 : s4.value y = some v := by
          rw [← hs4, writeVal_value]; simp [hn]
        refine ⟨v, hv4, ?_, Or.inl (by simp)⟩
        intro u hu
        have := discardStale_fresh c h12 s4 a y q (by rw [hreg4]; exact hrega) u hu
        rw [hv4] at this; cases this; rfl
      · have hl : LOk c s q y := by
          rcases hbase with g | g
          · exact g
          · exact absurd g.1 hy
        obtain ⟨w, w1, w2, w3⟩ := hl.2.2 hn
        have hv4 : s4.value y = s.value y := by
          rw [← hs4, writeVal_value]; simp [hy]
        refine ⟨w, by rw [hv4]; exact w1, ?_, ?_⟩
        · intro u hu; rw [hqueue5 y hy] at hu; exact w2 u hu
        · rw [hqueue5 y hy, hlearned5, htimer5.1, htimer5.2]
          simp only [upd_apply, hy, if_false]
          exact w3
  · -- another connection: it is not the sender, and the discard does not touch it
    simp only [upd_apply, hqp, if_false] at hs
    have h5 : (discardStale c s4 a x).obj q = s4.obj q := by
      rcases discardStale_obj c s4 a x q with e | ⟨e, _⟩
      · exact e
      · rw [hreg4] at e; exact absurd (hwriter q e) hqp
    rw [h5] at hs
    have hns : some (s.obj q).addr ≠ some a := by
      intro e
      injection e with e
      -- a second object with the writer's address cannot be a registered subscriber
      have h4 := writeVal_sender_obj c s x v (some a) q (by rw [e])
      rw [hs4] at h4
      have hr : registered s q := by
        rcases h4 with e4 | ⟨_, r4, _⟩
        · rw [e4] at hs; exact (h q y hs).1
        · exact r4
      exact addr_ne s hA hU q p hr hp hpl hqp (by rw [e, ha])
    have hl4 : LOk c s4 q y := by
      rw [← hs4] at hs ⊢
      exact lok_writeVal c s x v (some a) h hA q y hs hns
    refine lok_frame c s4 _ q y hl4 ?_ ?_ ?_ ?_ ?_ ?_ ?_
    · show (upd (discardStale c s4 a x).obj p _ q).addr = _
      simp only [upd_apply, hqp, if_false]; rw [h5]
    · show (discardStale c s4 a x).reg _ = _; rw [hreg5]
    · intro g; show memT ((discardStale c s4 a x).topics y) _ = true; rw [htop5]; exact g
    · show (discardStale c s4 a x).value y = _; rw [hval5]
    · show aget (upd (discardStale c s4 a x).obj p _ q).queue y = _
      simp only [upd_apply, hqp, if_false]; rw [h5]
    · show (upd (discardStale c s4 a x).obj p _ q).learned y = _
      simp only [upd_apply, hqp, if_false]; rw [h5]
    · intro g
      show (upd (discardStale c s4 a x).obj p _ q).timer.isSome = true ∨ 0 < (upd (discardStale c s4 a x).obj p _ q).soon
      simp only [upd_apply, hqp, if_false]; rw [h5]; exact g

end Hap.Sys
