/-
  C12 lemmas, part c: with `discard_event` on unsubscribe no registered connection keeps a queued
  entry for a characteristic it is not subscribed to.
-/
import Proofs.SysEventsC12
namespace Hap.Sys

/-- with `discard_event` on unsubscribe: a registered connection has nothing queued for a
    characteristic its address is not subscribed to -/
def NoOrphan (s : St) : Prop :=
  ∀ q x, registered s q → memT (s.topics x) (s.obj q).addr = false → aget (s.obj q).queue x = none

theorem noOrphan_init (c : Cfg) : NoOrphan (init c) := by
  intro q x _ _; simp [init, aget]

theorem no_frame (s s' : St) (q : ObjId) (x : Cid) (h : NoOrphan s)
    (haddr : (s'.obj q).addr = (s.obj q).addr)
    (hr : s'.reg (s.obj q).addr = some q → s.reg (s.obj q).addr = some q)
    (ht : memT (s'.topics x) (s.obj q).addr = false → memT (s.topics x) (s.obj q).addr = false)
    (hq : aget (s'.obj q).queue x = none ∨ aget (s'.obj q).queue x = aget (s.obj q).queue x) :
    registered s' q → memT (s'.topics x) (s'.obj q).addr = false → aget (s'.obj q).queue x = none := by
  intro h1 h2
  rcases hq with e | e
  · exact e
  · rw [e]
    simp only [registered, haddr] at h1
    rw [haddr] at h2
    exact h q x (hr h1) (ht h2)

theorem no_updObj (s : St) (p : ObjId) (o' : Obj) (h : NoOrphan s) (e1 : o'.addr = (s.obj p).addr)
    (e2 : ∀ x, aget o'.queue x = none ∨ aget o'.queue x = aget (s.obj p).queue x) :
    NoOrphan { s with obj := upd s.obj p o' } := by
  intro q x
  by_cases hqp : q = p
  · subst hqp
    exact no_frame s _ q x h (by simp [upd_apply, e1]) (fun g => g) (fun g => g) (by simpa [upd_apply] using e2 x)
  · exact no_frame s _ q x h (by simp [upd_apply, hqp]) (fun g => g) (fun g => g) (by simp [upd_apply, hqp])

theorem no_sendEvents (s : St) (p : ObjId) (h : NoOrphan s) : NoOrphan (sendEvents s p).1 := by
  simp only [sendEvents]
  split
  · exact no_updObj s p _ h rfl (fun x => Or.inr rfl)
  · split
    · exact no_updObj s p _ h rfl (fun x => Or.inl (by simp [aget]))
    · exact no_updObj s p _ h rfl (fun x => Or.inl (by simp [aget]))

theorem no_respond (s : St) (p : ObjId) (code : Nat) (b : Body) (h : NoOrphan s) : NoOrphan (respond s p code b).1 :=
  no_updObj s p _ h rfl (fun _ => Or.inr rfl)

theorem no_closeP (c : Cfg) (s : St) (p : ObjId) (h : NoOrphan s) : NoOrphan (closeP c s p).1 := by
  intro q x hr ht
  simp only [closeP] at hr ht ⊢
  by_cases hqp : q = p
  · subst hqp
    simp [registered, upd_apply] at hr
  · simp only [registered, upd_apply, hqp, if_false] at hr ht ⊢
    split at hr
    · cases hr
    · exact h q x hr ht

theorem no_lose (c : Cfg) (s : St) (p : ObjId) (h : NoOrphan s) (hA : InvA s) (hU : UniqInv s)
    (hp : p < s.nobj) (hpl : (s.obj p).lost = false) :
    NoOrphan (markLost (closeP c (dropConn s (s.obj p).addr) p).1 p) := by
  intro q x hr ht
  simp only [markLost, closeP, dropConn] at hr ht ⊢
  by_cases hqp : q = p
  · subst hqp
    simp [registered, upd_apply] at hr
  · simp only [registered, upd_apply, hqp, if_false] at hr ht ⊢
    split at hr
    · cases hr
    · have hne := addr_ne s hA hU q p hr hp hpl hqp
      rw [memT_lostDel] at ht
      simp [hne] at ht
      exact h q x hr ht

theorem no_connect (s : St) (a : Addr) (h : NoOrphan s) :
    NoOrphan { s with nobj := s.nobj + 1, obj := upd s.obj s.nobj { addr := a, last := s.now },
                      reg := upd s.reg a (some s.nobj) } := by
  intro q x hr ht
  by_cases hqn : q = s.nobj
  · subst hqn; simp [upd_apply, aget]
  · simp only [registered, upd_apply, hqn, if_false] at hr ht ⊢
    split at hr
    · injection hr with hr; exact absurd hr.symm hqn
    · exact h q x hr ht

theorem no_idleSweep (c : Cfg) (s : St) (h : NoOrphan s) : NoOrphan (step c s Ev.idleSweep).1 := by
  intro q x hr ht
  simp only [step, registered] at hr ht ⊢
  by_cases hd : q < s.nobj ∧ idleDue s q
  · simp only [hd, and_self, if_true, closeO_addr] at hr
    have : s.reg (s.obj q).addr = some q := hd.2.1
    simp [this, hd.2] at hr
  · simp only [hd, if_false] at hr ht ⊢
    have hreg : s.reg (s.obj q).addr = some q := by
      cases hh : s.reg (s.obj q).addr with
      | none => simp [hh] at hr
      | some q' =>
        simp only [hh] at hr
        split at hr
        · cases hr
        · exact hr
    exact h q x hreg ht

theorem no_stop (c : Cfg) (s : St) : NoOrphan (step c s Ev.stop).1 := by
  intro q x hr _
  simp [step, registered] at hr

theorem no_dropEvent (c : Cfg) (s : St) (a : Addr) (x : Cid) (h : NoOrphan s) : NoOrphan (dropEvent c s a x) := by
  simp only [dropEvent]
  split
  · split
    · exact h
    · exact no_updObj s _ _ h rfl (fun y => by
        simp only [aget_adel]; split
        · exact Or.inl rfl
        · exact Or.inr rfl)
  · exact h

theorem no_discardStale (c : Cfg) (s : St) (a : Addr) (x : Cid) (h : NoOrphan s) : NoOrphan (discardStale c s a x) := by
  simp only [discardStale]
  split
  · split
    · exact h
    · split
      · exact h
      · split
        · exact no_updObj s _ _ h rfl (fun y => by
            simp only [aget_adel]; split
            · exact Or.inl rfl
            · exact Or.inr rfl)
        · exact h
  · exact h

theorem no_setValue (s : St) (f : Cid → Option Val) (h : NoOrphan s) : NoOrphan { s with value := f } := h

theorem no_publish (c : Cfg) (s : St) (x : Cid) (v : Val) (sd : Option Addr) (h : NoOrphan s) :
    NoOrphan (publish c s x v sd) := by
  cases ht : s.topics x with
  | none => rw [publish_none c s x v sd ht]; exact h
  | some subs =>
    cases hst : s.stopped with
    | true => rw [publish_stopped c s x v sd hst]; exact h
    | false =>
      rw [publish_active c s x v sd subs ht hst]
      intro q y hr hty
      have hr' : s.reg (s.obj q).addr = some q := by simpa [registered] using hr
      have hty' : memT (upd s.topics x (pubTopic s sd subs) y) (s.obj q).addr = false := by simpa using hty
      show aget (pubObj c s x v sd subs q).queue y = none
      by_cases hy : y = x
      · subst hy
        simp only [upd_apply, if_true] at hty'
        -- a registered address survives the pruning, so it was not subscribed before either
        have hns : (s.obj q).addr ∉ subs := by
          intro hm
          have := memT_pubTopic_keep s sd subs _ hm (Or.inl (by rw [hr']; simp))
          rw [this] at hty'; cases hty'
        rw [pubObj_other c s y v sd subs q (fun g => hns g.2)]
        exact h q y hr' (by simp [ht, memT, hns])
      · simp only [upd_apply, hy, if_false] at hty'
        have hold := h q y hr' hty'
        by_cases hsub : s.reg (s.obj q).addr = some q ∧ (s.obj q).addr ∈ subs
        · by_cases hsd : some (s.obj q).addr = sd
          · rw [pubObj_sender c s x v sd subs q hsub hsd]; exact hold
          · rw [pubObj_sub c s x v sd subs q hsub hsd]
            simp only [enqueue, aget_aset, hy, if_false]; exact hold
        · rw [pubObj_other c s x v sd subs q hsub]; exact hold

theorem no_writeVal (c : Cfg) (s : St) (x : Cid) (v : Val) (sd : Option Addr) (h : NoOrphan s) :
    NoOrphan (writeVal c s x v sd) := by
  rw [writeVal_eq]
  have key : NoOrphan (if s.value x ≠ some v then publish c (setVal s x v) x v sd else setVal s x v) := by
    split
    · exact no_publish c (setVal s x v) x v sd h
    · exact h
  simp only
  split
  · exact key
  · exact key

theorem no_clientUpdate (c : Cfg) (s : St) (x : Cid) (v : Val) (sd : Option Addr) (h : NoOrphan s) :
    NoOrphan (clientUpdate c s x v sd) := by
  simp only [clientUpdate]
  have h2 : NoOrphan (runCallback c (setVal s x v) x v) := by
    have h1 : NoOrphan (setVal s x v) := h
    simp only [runCallback]; split
    · exact h1
    · exact no_writeVal c _ x v none h1
    · exact no_writeVal c _ x _ none h1
    · exact no_writeVal c _ _ _ none h1
    · exact h1
  have h3 : NoOrphan (match (runCallback c (setVal s x v) x v).value x with
    | some u => if (runCallback c (setVal s x v) x v).value x ≠ s.value x then publish c (runCallback c (setVal s x v) x v) x u sd
                else runCallback c (setVal s x v) x v
    | none => runCallback c (setVal s x v) x v) := by
    split
    · split
      · exact no_publish c _ _ _ _ h2
      · exact h2
    · exact h2
  split
  · exact h3
  · exact h3

theorem no_putSub (c : Cfg) (hr : c.fixResub = true) (s : St) (p : ObjId) (x : Cid) (ev : Option Bool) (h : NoOrphan s)
    (hA : InvA s) (hU : UniqInv s) (hp : p < s.nobj) (hpl : (s.obj p).lost = false) : NoOrphan (putSub c s p x ev) := by
  simp only [putSub]
  split
  · exact h
  · intro q y hq hty
    simp only [registered] at hq
    refine h q y hq ?_
    simp only [upd_apply] at hty
    split at hty
    · rename_i e; subst e
      rw [memT_subAdd] at hty
      simp at hty; exact hty.1
    · exact hty
  · -- unsubscribe, then drop the requester's queued entry
    intro q y hq hty
    simp only [dropEvent, hr, if_true] at hq hty ⊢
    have hreg_same : (unsubSt s p x).reg = s.reg := rfl
    cases h0 : s.reg (s.obj p).addr with
    | none =>
      have h0' : (unsubSt s p x).reg (s.obj p).addr = none := h0
      simp only [h0'] at hq hty ⊢
      -- the requester is not registered; everybody else has another address or is not registered
      have hqp : q ≠ p := by
        intro e; subst e
        simp only [registered, unsubSt, upd_apply, if_true] at hq
        rw [h0] at hq; cases hq
      have hq' : s.reg (s.obj q).addr = some q := by
        simpa [registered, unsubSt, upd_apply, hqp] using hq
      have hne : (s.obj q).addr ≠ (s.obj p).addr := by intro e; rw [e, h0] at hq'; cases hq'
      simp only [unsubSt, upd_apply, hqp, if_false] at hty ⊢
      refine h q y hq' ?_
      split at hty
      · rename_i e; subst e
        rw [memT_subDel] at hty; simpa [hne] using hty
      · exact hty
    | some q0 =>
      have h0' : (unsubSt s p x).reg (s.obj p).addr = some q0 := h0
      simp only [h0'] at hq hty ⊢
      have hq0 : q0 = p := by
        by_cases e : q0 = p
        · exact e
        · exfalso
          have hr0 : registered s q0 := by
            have := (hA.reg_ok _ q0 h0).2.1
            simp only [registered, this]; exact h0
          exact addr_ne s hA hU q0 p hr0 hp hpl e (hA.reg_ok _ q0 h0).2.1
      subst hq0
      by_cases hqp : q = q0
      · subst hqp
        simp only [unsubSt, upd_apply, if_true, registered] at hq hty ⊢
        by_cases hy : y = x
        · subst hy; simp [aget_adel]
        · simp only [aget_adel, hy, if_false]
          simp only [hy, if_false] at hty
          exact h q y h0 hty
      · simp only [unsubSt, upd_apply, hqp, if_false, registered] at hq hty ⊢
        have hne := addr_ne s hA hU q q0 hq hp hpl hqp
        refine h q y hq ?_
        split at hty
        · rename_i e; subst e
          rw [memT_subDel] at hty; simpa [hne] using hty
        · exact hty

end Hap.Sys

namespace Hap.Sys

theorem no_putChars (c : Cfg) (hr : c.fixResub = true) (s : St) (p : ObjId) (x : Cid) (ev : Option Bool) (val : Option Val)
    (h : NoOrphan s) (hl : Live s p) : NoOrphan (putChars c s p x ev val) := by
  have h1 := no_putSub c hr s p x ev h hl.a hl.u hl.lt hl.nl
  simp only [putChars]
  split
  · exact h1
  · split
    · simp only [failVal]; split
      · exact h1
      · exact no_setValue _ _ h1
    · simp only [putVal]
      exact no_updObj _ p _ (no_discardStale c _ _ x (no_clientUpdate c _ x _ _ h1)) rfl (fun _ => Or.inr rfl)

theorem no_onReq (c : Cfg) (hr : c.fixResub = true) (s : St) (p : ObjId) (r : Req) (h : NoOrphan s) (hl : Live s p) :
    NoOrphan (onReq c s p r).1 := by
  simp only [onReq]
  split
  · exact no_closeP c s p h
  · split
    · exact no_closeP c s p h
    · exact no_closeP c s p h
    · rename_i x ev val cl
      simp only [onPut]
      have hh : NoOrphan (if (s.obj p).verified then respond (putChars c s p x ev val) p (putCode c [(x, ev, val)]) (putBody c [(x, ev, val)])
           else respond s p 401 Body.none).1 := by
        split
        · exact no_respond _ p _ _ (no_putChars c hr s p x ev val h hl)
        · exact no_respond _ p _ _ h
      split
      · exact no_closeP c _ p hh
      · exact hh
    · rename_i qs cl
      simp only [onPutMany]
      have hh : NoOrphan (if (s.obj p).verified then respond (putAll c s p qs) p (putCode c qs) (putBody c qs)
           else respond s p 401 Body.none).1 := by
        split
        · have ha : NoOrphan (putAll c s p qs) ∧ Live (putAll c s p qs) p := by
            apply putAll_pres (fun t => NoOrphan t ∧ Live t p) c p
            · intro t x ev val ht
              exact ⟨no_putChars c hr t p x ev val ht.1 ht.2,
                     live_of_rel (rel_putChars c t p x ev val) (invA_putChars c t p x ev val ht.2.a) ht.2⟩
            · exact ⟨h, hl⟩
          exact no_respond _ p _ _ ha.1
        · exact no_respond _ p _ _ h
      split
      · exact no_closeP c _ p hh
      · exact hh
    · split <;> exact no_respond _ p _ _ h
    · split
      · exact no_respond { s with prepared := _ } p _ _ h
      · exact no_respond _ p _ _ h
    · split
      · exact no_updObj s p _ h rfl (fun _ => Or.inr rfl)
      · exact no_respond _ p _ _ h

theorem no_step (c : Cfg) (hr : c.fixResub = true) (s : St) (e : Ev) (h : NoOrphan s) (hG : Good s) :
    NoOrphan (step c s e).1 := by
  cases e with
  | tick dt => exact h
  | connect a =>
    simp only [step]; split
    · exact h
    · exact no_connect s a h
  | verify p =>
    simp only [step]; split
    · exact no_updObj s p _ h rfl (fun _ => Or.inr rfl)
    · exact h
  | data p r =>
    simp only [step]; split
    · rename_i hen
      simp only [onData]
      have hl : Live s p := ⟨hG.a, hG.uniq, hen.1, open_live s hG.a p hen.2⟩
      have ht : Rel none s (touch s p) := rel_updObj s p _ rfl rfl (fun g => g) (Or.inr rfl)
      exact no_onReq c hr _ p r (no_updObj s p _ h rfl (fun _ => Or.inr rfl)) (live_of_rel ht (invA_touch s p hG.a) hl)
    · exact h
  | appSet x v => exact no_writeVal c s x v none h
  | appSetWorker x v =>
    simp only [step, appSetWorker]
    split <;> exact h
  | handOff =>
    simp only [step, handOff]
    split
    · exact h
    · split
      · exact h
      · exact no_publish c _ _ _ none h
  | timerFire p =>
    simp only [step]; split
    · exact no_sendEvents s p h
    · exact h
  | soonFlush p =>
    simp only [step]; split
    · exact no_sendEvents _ p (no_updObj s p _ h rfl (fun _ => Or.inr rfl))
    · exact h
  | respReady p ok =>
    simp only [step]; split
    · have hs1 : NoOrphan { s with obj := upd s.obj p { s.obj p with pending := false } } :=
        no_updObj s p _ h rfl (fun _ => Or.inr rfl)
      split
      · exact hs1
      · split <;> exact no_respond _ p _ _ hs1
    · exact h
  | lose p =>
    simp only [step]; split
    · rename_i hen
      exact no_lose c s p h hG.a hG.uniq hen.1 hen.2
    · exact h
  | idleSweep => exact no_idleSweep c s h
  | stop => exact no_stop c s

theorem no_run (c : Cfg) (hr : c.fixResub = true) (h13 : c.fix13 = true) (tr : List Ev) (s : St)
    (h : NoOrphan s) (hG : Good s) (hre : ReuseOK c s tr) : NoOrphan (run c s tr).1 := by
  induction tr generalizing s with
  | nil => exact h
  | cons e es ih =>
    rw [reuseOK_cons] at hre
    simp only [run]
    exact ih _ (no_step c hr s e h hG)
      ⟨invA_step c h13 s e hG.a, cleanInv_step c s e hG.a hG.clean, uniqInv_step c s e hG.uniq hre.1⟩ hre.2

end Hap.Sys
