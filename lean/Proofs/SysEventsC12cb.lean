/-
  C12 lemmas, part a': the `learned` invariant through a controller write whose characteristic has a
  setter callback (echo / set another value / set another characteristic).
-/
import Proofs.SysEventsC12a
namespace Hap.Sys

/-! ### function updates -/

theorem upd_upd {β : Type} (f : Nat → β) (k : Nat) (a b : β) : upd (upd f k a) k b = upd f k b := by
  funext z; simp only [upd]; split <;> rfl

theorem upd_self {β : Type} (f : Nat → β) (k : Nat) (a : β) (h : f k = a) : upd f k a = f := by
  funext z; simp only [upd]; split
  · rename_i e; subst e; exact h.symm
  · rfl

theorem upd_comm {β : Type} (f : Nat → β) (k j : Nat) (a b : β) (h : k ≠ j) :
    upd (upd f k a) j b = upd (upd f j b) k a := by
  funext z; simp only [upd]
  by_cases e1 : z = j
  · subst e1
    have : ¬ z = k := fun e => h e.symm
    simp [this]
  · simp [e1]

theorem setVal_setVal (s : St) (x : Cid) (a b : Val) : setVal (setVal s x a) x b = setVal s x b := by
  simp only [setVal, upd_upd]

theorem setVal_self (s : St) (x : Cid) (u : Val) (h : s.value x = some u) : setVal s x u = s := by
  simp only [setVal, upd_self s.value x (some u) h]

/-! ### `publish` does not read the values -/

theorem publish_setValue (c : Cfg) (t : St) (g : Cid → Option Val) (x : Cid) (u : Val) (sd : Option Addr) :
    publish c { t with value := g } x u sd = { publish c t x u sd with value := g } := by
  simp only [publish]
  split
  · rfl
  · split <;> rfl

theorem publish_value (c : Cfg) (t : St) (x : Cid) (u : Val) (sd : Option Addr) : (publish c t x u sd).value = t.value := by
  simp only [publish]
  split
  · rfl
  · split <;> rfl

theorem publish_reg (c : Cfg) (t : St) (x : Cid) (u : Val) (sd : Option Addr) : (publish c t x u sd).reg = t.reg := by
  simp only [publish]
  split
  · rfl
  · split <;> rfl

theorem publish_addr (c : Cfg) (t : St) (x : Cid) (u : Val) (sd : Option Addr) (q : ObjId) :
    ((publish c t x u sd).obj q).addr = (t.obj q).addr := by
  simp only [publish]
  split
  · rfl
  · split
    · rfl
    · simp

/-- normal form of `writeVal`: the fan-out (if the value changes) on the old state, then the store -/
theorem writeVal_nf (c : Cfg) (t : St) (y : Cid) (w : Val) (sd : Option Addr) :
    writeVal c t y w sd =
      { (if t.value y ≠ some w then publish c t y w sd else t) with
        value := upd t.value y (if c.nul y then none else some w) } := by
  rw [writeVal_eq]
  by_cases hch : t.value y ≠ some w
  · simp only [hch, if_true, ne_eq, not_false_eq_true]
    have e : publish c (setVal t y w) y w sd = { publish c t y w sd with value := upd t.value y (some w) } :=
      publish_setValue c t _ y w sd
    rw [e]
    by_cases hn : c.nul y = true
    · simp only [hn, if_true, upd_upd]
    · simp only [hn]; rfl
  · simp only [hch, if_false]
    by_cases hn : c.nul y = true
    · simp only [hn, if_true, setVal, upd_upd]
    · simp only [hn]; rfl

/-- a callback that writes ANOTHER characteristic commutes with the store of the written one -/
theorem writeVal_setVal_comm (c : Cfg) (s : St) (x y : Cid) (v w : Val) (hxy : y ≠ x) :
    writeVal c (setVal s x v) y w none = setVal (writeVal c s y w none) x v := by
  rw [writeVal_nf, writeVal_nf]
  have hv : (setVal s x v).value y = s.value y := by simp [setVal, upd_apply, hxy]
  have e : publish c (setVal s x v) y w none = { publish c s y w none with value := upd s.value x (some v) } :=
    publish_setValue c s _ y w none
  rw [hv, e]
  by_cases hch : s.value y ≠ some w
  · simp only [hch, if_true, ne_eq, not_false_eq_true, setVal]
    rw [upd_comm s.value x y _ _ (fun h => hxy h.symm)]
  · simp only [hch, if_false, setVal]
    rw [upd_comm s.value x y _ _ (fun h => hxy h.symm)]

/-! ### `client_update_value` with a callback, as compositions of plain steps -/

theorem clientUpdate_eq (c : Cfg) (s : St) (x : Cid) (v : Val) (sd : Option Addr) :
    clientUpdate c s x v sd =
      (let s2 := runCallback c (setVal s x v) x v
       let s3 := match s2.value x with
         | some u => if s2.value x ≠ s.value x then publish c s2 x u sd else s2
         | none => s2
       if c.nul x then { s3 with value := upd s3.value x none } else s3) := rfl

/-- the tail of `client_update_value` once the callback has run, for a characteristic that is not
    always-null and holds `u` by then -/
theorem clientUpdate_tail (c : Cfg) (s : St) (x : Cid) (v : Val) (sd : Option Addr) (hn : c.nul x = false)
    (s2 : St) (u : Val) (h2 : runCallback c (setVal s x v) x v = s2) (hu : s2.value x = some u) :
    clientUpdate c s x v sd = if some u ≠ s.value x then publish c s2 x u sd else s2 := by
  rw [clientUpdate_eq, h2]
  simp only [hu, hn]
  rfl

/-- the callback re-sets the written value (`echo`, or `set_value` of the same value): exactly a
    plain write -/
theorem clientUpdate_same (c : Cfg) (s : St) (x : Cid) (v : Val) (sd : Option Addr) (hn : c.nul x = false)
    (h : runCallback c (setVal s x v) x v = writeVal c (setVal s x v) x v none) :
    clientUpdate c s x v sd = writeVal c s x v sd := by
  have h2 : runCallback c (setVal s x v) x v = setVal s x v := by
    rw [h, writeVal_nf]
    have : (setVal s x v).value x = some v := by simp [setVal, upd_apply]
    simp only [this, ne_eq, not_true_eq_false, if_false, hn]
    simp only [setVal, upd_upd]
    rfl
  rw [clientUpdate_tail c s x v sd hn (setVal s x v) v h2 (by simp [setVal, upd_apply]), writeVal_eq]
  simp only [hn]
  by_cases hch : s.value x = some v
  · have : ¬ (some v ≠ s.value x) := fun g => g hch.symm
    simp [hch]
  · have : some v ≠ s.value x := fun g => hch g.symm
    simp [hch, this]

/-- the callback writes another characteristic: the application change first, then a plain write -/
theorem clientUpdate_other (c : Cfg) (s : St) (x y : Cid) (v w : Val) (sd : Option Addr) (hn : c.nul x = false)
    (hxy : y ≠ x) (h : runCallback c (setVal s x v) x v = writeVal c (setVal s x v) y w none) :
    clientUpdate c s x v sd = writeVal c (writeVal c s y w none) x v sd := by
  have h2 : runCallback c (setVal s x v) x v = setVal (writeVal c s y w none) x v := by
    rw [h, writeVal_setVal_comm c s x y v w hxy]
  have hprev : (writeVal c s y w none).value x = s.value x := by
    have hne : ¬ x = y := fun e => hxy e.symm
    rw [writeVal_value]; simp [hne]
  rw [clientUpdate_tail c s x v sd hn _ v h2 (by simp [setVal, upd_apply]), writeVal_eq c (writeVal c s y w none) x v sd]
  simp only [hn, hprev]
  by_cases hch : s.value x = some v
  · have : ¬ (some v ≠ s.value x) := fun g => g hch.symm
    simp [hch]
  · have : some v ≠ s.value x := fun g => hch g.symm
    simp [hch, this]

/-- the callback sets the written characteristic to a different value `v2`: everybody is told `v2`
    (originator none), then the change test of `client_update_value` publishes `v2` once more with the
    writer as originator unless `v2` is the value the characteristic had before -/
theorem clientUpdate_reset (c : Cfg) (s : St) (x : Cid) (v v2 : Val) (sd : Option Addr) (hn : c.nul x = false)
    (hne : v2 ≠ v) (h : runCallback c (setVal s x v) x v = writeVal c (setVal s x v) x v2 none) :
    clientUpdate c s x v sd =
      if some v2 ≠ s.value x then publish c (publish c (setVal s x v2) x v2 none) x v2 sd
      else publish c (setVal s x v2) x v2 none := by
  have h2 : runCallback c (setVal s x v) x v = publish c (setVal s x v2) x v2 none := by
    rw [h, writeVal_eq]
    have : (setVal s x v).value x ≠ some v2 := by
      simp only [setVal, upd_apply, if_true]; intro e; injection e with e; exact hne e.symm
    simp only [this, ne_eq, not_false_eq_true, if_true, hn, setVal_setVal]
    rfl
  exact clientUpdate_tail c s x v sd hn _ v2 h2 (by rw [publish_value]; simp [setVal, upd_apply])

/-! ### re-publishing the current value -/

/-- every registered connection subscribed to `x` under address `a` has `since x` set -/
def AllSince (t : St) (x : Cid) (a : Addr) : Prop :=
  ∀ q, registered t q → (t.obj q).addr = a → subscribed t x a → (t.obj q).since x = true

/-- what `publish` leaves of an object whose address is the sender's -/
theorem publish_sender_obj (c : Cfg) (t : St) (x : Cid) (u : Val) (a : Addr) (q : ObjId) (hq : (t.obj q).addr = a) :
    (publish c t x u (some a)).obj q = t.obj q ∨
    ((publish c t x u (some a)).obj q = { t.obj q with since := upd (t.obj q).since x true } ∧
      registered t q ∧ subscribed t x a) := by
  cases ht : t.topics x with
  | none => rw [publish_none c t x u _ ht]; exact Or.inl rfl
  | some subs =>
    cases hst : t.stopped with
    | true => rw [publish_stopped c t x u _ hst]; exact Or.inl rfl
    | false =>
      rw [publish_active c t x u _ subs ht hst]
      show pubObj c t x u (some a) subs q = _ ∨ (pubObj c t x u (some a) subs q = _ ∧ _)
      by_cases hsub : t.reg (t.obj q).addr = some q ∧ (t.obj q).addr ∈ subs
      · right
        refine ⟨pubObj_sender c t x u (some a) subs q hsub (by rw [hq]), hsub.1, ?_⟩
        rw [← hq]; simp [subscribed, ht, memT, hsub.2]
      · left; exact pubObj_other c t x u (some a) subs q hsub

/-- subscriptions of registered addresses survive the pruning of `async_send_event` -/
theorem publish_subscribed (c : Cfg) (t : St) (x : Cid) (u : Val) (sd : Option Addr) (y : Cid) (a : Addr)
    (h : subscribed t y a) (hk : t.reg a ≠ none) : subscribed (publish c t x u sd) y a := by
  cases ht : t.topics x with
  | none => rw [publish_none c t x u _ ht]; exact h
  | some subs =>
    cases hst : t.stopped with
    | true => rw [publish_stopped c t x u _ hst]; exact h
    | false =>
      rw [publish_active c t x u _ subs ht hst]
      show memT (upd t.topics x (pubTopic t sd subs) y) a = true
      simp only [upd_apply]; split
      · rename_i e; subst e
        have : a ∈ subs := by simpa [subscribed, ht, memT] using h
        exact memT_pubTopic_keep t sd subs a this (Or.inl hk)
      · exact h

/-- the current value of `x` is published once more (nobody's knowledge of `x` is wrong, and the
    sender's connection, if subscribed, is already under obligation): the invariant is kept -/
theorem invL_republish (c : Cfg) (t : St) (x : Cid) (u : Val) (sd : Option Addr) (h : InvL c t) (hA : InvA t)
    (hv : t.value x = some u) (hsd : ∀ a, sd = some a → AllSince t x a) : InvL c (publish c t x u sd) := by
  intro q y hs
  by_cases hq : some (t.obj q).addr = sd
  · -- the sender's connection: only ghost `since x` can have been set, and it was set already
    have ho := publish_sender_obj c t x u (t.obj q).addr q rfl
    rw [hq] at ho
    have hsb : (t.obj q).since y = true := by
      rcases ho with e | ⟨e, r, sb⟩
      · rw [e] at hs; exact hs
      · rw [e] at hs
        by_cases hy : y = x
        · subst hy; exact hsd _ hq.symm q r rfl sb
        · simpa [upd_apply, hy] using hs
    have hl := h q y hsb
    have hreg : t.reg (t.obj q).addr ≠ none := by
      have : t.reg (t.obj q).addr = some q := hl.1
      rw [this]; simp
    refine lok_frame c t _ q y hl (publish_addr c t x u sd q) (by rw [publish_reg]) ?_ (by rw [publish_value]) ?_ ?_ ?_
    · intro g; exact publish_subscribed c t x u sd y _ g hreg
    · rcases ho with e | ⟨e, _⟩ <;> rw [e]
    · rcases ho with e | ⟨e, _⟩ <;> rw [e]
    · intro g
      simp only [pendingFlush] at g ⊢
      rcases ho with e | ⟨e, _⟩ <;> rw [e] <;> exact g
  · have e : publish c t x u sd = publish c (setVal t x u) x u sd := by rw [setVal_self t x u hv]
    rw [e] at hs ⊢
    exact lok_publish c t x u sd h hA q y hs hq

/-- after a fan-out with originator none every registered subscriber has the value queued with a
    flush pending, and is under obligation -/
theorem publish_none_queued (c : Cfg) (t : St) (x : Cid) (u : Val) (hA : InvA t) (q : ObjId)
    (hr : registered (publish c t x u none) q) (hsub : subscribed (publish c t x u none) x ((publish c t x u none).obj q).addr) :
    aget ((publish c t x u none).obj q).queue x = some u ∧ pendingFlush (publish c t x u none) q ∧
    ((publish c t x u none).obj q).since x = true := by
  cases ht : t.topics x with
  | none =>
    rw [publish_none c t x u _ ht] at hsub
    simp [subscribed, ht, memT] at hsub
  | some subs =>
    cases hst : t.stopped with
    | true =>
      rw [publish_stopped c t x u _ hst] at hr
      have := hA.stopped_reg hst (t.obj q).addr
      simp only [registered] at hr
      rw [this] at hr; cases hr
    | false =>
      rw [publish_active c t x u _ subs ht hst] at hr hsub ⊢
      simp only [registered, pubObj_addr] at hr
      have hmem : (t.obj q).addr ∈ subs := by
        have : memT (upd t.topics x (pubTopic t none subs) x) (pubObj c t x u none subs q).addr = true := hsub
        simp only [upd_apply, if_true, pubObj_addr] at this
        exact memT_pubTopic t none subs _ this
      have ho := pubObj_sub c t x u none subs q ⟨hr, hmem⟩ (by simp)
      simp only [pendingFlush]
      show aget (pubObj c t x u none subs q).queue x = some u ∧
        ((pubObj c t x u none subs q).timer.isSome = true ∨ 0 < (pubObj c t x u none subs q).soon) ∧
        (pubObj c t x u none subs q).since x = true
      rw [ho]
      refine ⟨by simp only [enqueue, aget_aset, if_true], pending_enqueue t (t.obj q) x u (c.imm x) none, by simp [upd_apply]⟩

/-! ### the tail of `putVal` in general -/

/-- what `discard_stale_event` does to the queue entries of an object -/
theorem discardStale_aget (c : Cfg) (t : St) (a : Addr) (x : Cid) (q : ObjId) (y : Cid) :
    aget ((discardStale c t a x).obj q).queue y = aget (t.obj q).queue y ∨
    (y = x ∧ aget ((discardStale c t a x).obj q).queue y = none ∧
      ∃ w, aget (t.obj q).queue x = some w ∧ some w ≠ t.value x) := by
  simp only [discardStale]
  split
  · split
    · exact Or.inl rfl
    · rename_i q0 hq0
      split
      · exact Or.inl rfl
      · rename_i w hw
        split
        · rename_i hne
          by_cases e : q = q0
          · subst e
            by_cases hy : y = x
            · subst hy
              right
              exact ⟨rfl, by simp [upd_apply, aget_adel], w, hw, hne⟩
            · left; simp [upd_apply, aget_adel, hy]
          · left; simp [upd_apply, e]
        · exact Or.inl rfl
  · exact Or.inl rfl

theorem discardStale_rest (c : Cfg) (t : St) (a : Addr) (x : Cid) (q : ObjId) :
    ((discardStale c t a x).obj q).addr = (t.obj q).addr ∧ ((discardStale c t a x).obj q).since = (t.obj q).since ∧
    ((discardStale c t a x).obj q).learned = (t.obj q).learned ∧ ((discardStale c t a x).obj q).timer = (t.obj q).timer ∧
    ((discardStale c t a x).obj q).soon = (t.obj q).soon := by
  rcases discardStale_obj c t a x q with e | ⟨_, e⟩ <;> rw [e] <;> exact ⟨rfl, rfl, rfl, rfl, rfl⟩

/-- dropping a queued entry that does not carry the current value never hurts -/
theorem invL_discardStale (c : Cfg) (t : St) (a : Addr) (x : Cid) (h : InvL c t) : InvL c (discardStale c t a x) := by
  intro q y hs
  obtain ⟨r1, r2, r3, r4, r5⟩ := discardStale_rest c t a x q
  obtain ⟨f1, f2, f3⟩ := discardStale_frame c t a x
  rw [r2] at hs
  obtain ⟨h1, h2, h3⟩ := h q y hs
  refine ⟨?_, ?_, ?_⟩
  · simp only [registered] at h1 ⊢; rw [r1, f1]; exact h1
  · simp only [subscribed] at h2 ⊢; rw [r1, f2]; exact h2
  · intro hn
    obtain ⟨v, v1, v2, v3⟩ := h3 hn
    refine ⟨v, by rw [f3]; exact v1, ?_, ?_⟩
    · intro w hw
      rcases discardStale_aget c t a x q y with e | ⟨_, e, _⟩
      · rw [e] at hw; exact v2 w hw
      · rw [e] at hw; cases hw
    · rw [r3]
      simp only [pendingFlush, r4, r5]
      rcases v3 with g | g
      · exact Or.inl g
      · right
        refine ⟨?_, g.2⟩
        rcases discardStale_aget c t a x q y with e | ⟨hy, _, w, hw, hne⟩
        · rw [e]; exact g.1
        · subst hy
          rw [g.1] at hw; cases hw
          exact absurd v1.symm hne

/-- the writer records what it wrote: harmless when that is the current value, or when the current
    value is queued for it with a flush pending -/
theorem invL_setLearned (c : Cfg) (t : St) (p : ObjId) (x : Cid) (v : Val) (h : InvL c t)
    (hk : (t.obj p).since x = true → c.nul x = false →
      t.value x = some v ∨ (∃ u, t.value x = some u ∧ aget (t.obj p).queue x = some u ∧ pendingFlush t p)) :
    InvL c { t with obj := upd t.obj p { t.obj p with learned := upd (t.obj p).learned x (some v) } } := by
  intro q y hs
  by_cases hqp : q = p
  · subst hqp
    simp only [upd_apply, if_true] at hs
    obtain ⟨h1, h2, h3⟩ := h q y hs
    refine ⟨by simpa [registered, upd_apply] using h1, by simpa [subscribed, upd_apply] using h2, fun hn => ?_⟩
    obtain ⟨w, w1, w2, w3⟩ := h3 hn
    refine ⟨w, w1, by simpa [upd_apply] using w2, ?_⟩
    simp only [upd_apply, if_true, pendingFlush]
    by_cases hy : y = x
    · subst hy
      simp only [if_true]
      rcases hk hs hn with g | ⟨u, u1, u2, u3⟩
      · left; rw [g] at w1; exact w1
      · right; rw [u1] at w1; cases w1; exact ⟨u2, u3⟩
    · simp only [hy, if_false]; exact w3
  · simp only [upd_apply, hqp, if_false] at hs
    refine lok_frame c t _ q y (h q y hs) ?_ rfl (fun g => g) rfl ?_ ?_ ?_
    all_goals simp [upd_apply, hqp, pendingFlush]

/-- the tail of `putVal` after a callback that left the characteristic at `v2` (the writer wrote
    something else): the writer's connection, if it is a registered subscriber, has `v2` queued with a
    flush pending, so recording its own write does no harm -/
theorem invL_finish_reset (c : Cfg) (t2 : St) (p : ObjId) (a : Addr) (x : Cid) (v v2 : Val) (h : InvL c t2)
    (hval : t2.value x = some v2)
    (hq : registered t2 p → subscribed t2 x (t2.obj p).addr →
      aget (t2.obj p).queue x = some v2 ∧ pendingFlush t2 p) :
    InvL c (finishPut c t2 p a x v) := by
  simp only [finishPut]
  apply invL_setLearned c _ p x v (invL_discardStale c t2 a x h)
  intro hs _
  obtain ⟨r1, r2, r3, r4, r5⟩ := discardStale_rest c t2 a x p
  obtain ⟨f1, f2, f3⟩ := discardStale_frame c t2 a x
  obtain ⟨l1, l2, _⟩ := invL_discardStale c t2 a x h p x hs
  have hr : registered t2 p := by simp only [registered] at l1 ⊢; rw [r1, f1] at l1; exact l1
  have hsb : subscribed t2 x (t2.obj p).addr := by simp only [subscribed] at l2 ⊢; rw [r1, f2] at l2; exact l2
  obtain ⟨g1, g2⟩ := hq hr hsb
  right
  refine ⟨v2, by rw [f3]; exact hval, ?_, ?_⟩
  · rcases discardStale_aget c t2 a x p x with e | ⟨_, _, w, hw, hne⟩
    · rw [e]; exact g1
    · rw [g1] at hw; cases hw; exact absurd hval.symm hne
  · simp only [pendingFlush, r4, r5] at g2 ⊢; exact g2

theorem invL_putVal_reset (c : Cfg) (s : St) (p : ObjId) (x : Cid) (v v2 : Val) (h : InvL c s) (hA : InvA s)
    (hn : c.nul x = false) (hne : v2 ≠ v)
    (hcb : runCallback c (setVal s x v) x v = writeVal c (setVal s x v) x v2 none) : InvL c (putVal c s p x v) := by
  rw [putVal_eq, clientUpdate_reset c s x v v2 _ hn hne hcb]
  generalize ha : (s.obj p).addr = a
  have hA1 : InvA (publish c (setVal s x v2) x v2 none) := invA_publish c _ x v2 none (invA_setValue s _ hA)
  have hL1 : InvL c (publish c (setVal s x v2) x v2 none) := fun q y hs => lok_publish c s x v2 none h hA q y hs (by simp)
  have hv1 : (publish c (setVal s x v2) x v2 none).value x = some v2 := by
    rw [publish_value]; simp [setVal, upd_apply]
  have hq1 := publish_none_queued c (setVal s x v2) x v2 (invA_setValue s _ hA)
  have hp1 : ((publish c (setVal s x v2) x v2 none).obj p).addr = a := by rw [publish_addr]; exact ha
  by_cases hpv : some v2 ≠ s.value x
  · rw [if_pos hpv]
    apply invL_finish_reset c _ p a x v v2
    · apply invL_republish c _ x v2 (some a) hL1 hA1 hv1
      intro a' ha' q hr hqa hsub
      exact (hq1 q hr (by rw [hqa]; exact hsub)).2.2
    · rw [publish_value]; exact hv1
    · intro hr hsb
      have hrel := rel_publish c (publish c (setVal s x v2) x v2 none) x v2 (some a)
      have hr1 : registered (publish c (setVal s x v2) x v2 none) p := by
        simp only [registered] at hr ⊢; rw [publish_addr, publish_reg] at hr; exact hr
      have hsb1 : subscribed (publish c (setVal s x v2) x v2 none) x ((publish c (setVal s x v2) x v2 none).obj p).addr := by
        simp only [subscribed] at hsb ⊢
        rw [publish_addr] at hsb
        exact hrel.topics _ x (by simp) hsb
      obtain ⟨g1, g2, _⟩ := hq1 p hr1 hsb1
      rcases publish_sender_obj c (publish c (setVal s x v2) x v2 none) x v2 a p hp1 with e | ⟨e, _⟩
      · simp only [pendingFlush] at g2 ⊢; rw [e]; exact ⟨g1, g2⟩
      · simp only [pendingFlush] at g2 ⊢; rw [e]; exact ⟨g1, g2⟩
  · rw [if_neg hpv]
    apply invL_finish_reset c _ p a x v v2 hL1 hv1
    intro hr hsb
    obtain ⟨g1, g2, _⟩ := hq1 p hr hsb
    exact ⟨g1, g2⟩

/-- **the `learned` invariant through a controller write, with any non-raising setter callback** on a
    characteristic that is not always-null -/
theorem invL_putVal (c : Cfg) (h12 : c.fix12 = true) (s : St) (p : ObjId) (x : Cid) (v : Val) (h : InvL c s)
    (hA : InvA s) (hU : UniqInv s) (hp : p < s.nobj) (hpl : (s.obj p).lost = false)
    (hcbn : c.nul x = true → c.cb x = Callback.none) (hnf : cbFails c x = false) : InvL c (putVal c s p x v) := by
  have plain : clientUpdate c s x v (some (s.obj p).addr) = writeVal c s x v (some (s.obj p).addr) →
      InvL c (putVal c s p x v) := by
    intro e
    rw [putVal_eq, e]
    exact invL_finish_writeVal c h12 s p _ x v h hA hU hp hpl rfl
  cases hcb : c.cb x with
  | none => exact plain (clientUpdate_none c s x v _ hcb)
  | raise => simp [cbFails, hcb] at hnf
  | echo =>
    have hn : c.nul x = false := by
      cases hh : c.nul x with
      | false => rfl
      | true => rw [hcbn hh] at hcb; cases hcb
    exact plain (clientUpdate_same c s x v _ hn (by simp only [runCallback, hcb]))
  | setTo v2 =>
    have hn : c.nul x = false := by
      cases hh : c.nul x with
      | false => rfl
      | true => rw [hcbn hh] at hcb; cases hcb
    by_cases e : v2 = v
    · subst e
      exact plain (clientUpdate_same c s x v2 _ hn (by simp only [runCallback, hcb]))
    · exact invL_putVal_reset c s p x v v2 h hA hn e (by simp only [runCallback, hcb])
  | setOther y w =>
    have hn : c.nul x = false := by
      cases hh : c.nul x with
      | false => rfl
      | true => rw [hcbn hh] at hcb; cases hcb
    by_cases hy : y = x
    · subst hy
      by_cases e : w = v
      · subst e
        exact plain (clientUpdate_same c s y w _ hn (by simp only [runCallback, hcb]))
      · exact invL_putVal_reset c s p y v w h hA hn e (by simp only [runCallback, hcb])
    · -- an application change of `y` first, then a plain write of `x`
      have e := clientUpdate_other c s x y v w (some (s.obj p).addr) hn hy (by simp only [runCallback, hcb])
      rw [putVal_eq, e]
      have hrel := rel_writeVal c s y w none
      have hA' := invA_writeVal c s y w none hA
      exact invL_finish_writeVal c h12 _ p _ x v (invL_appSet c s y w h hA) hA' (uniq_of_rel hrel hU)
        (by rw [hrel.nobj]; exact hp) (by rw [hrel.lost]; exact hpl) (hrel.addr p)

/-- configuration hypothesis of the quiescence theorems: the repair for raising callbacks is applied,
    and a state-changing setter callback sits only on characteristics that are not always-null
    (the always-null type, Programmable Switch Event, has no write permission in HAP) -/
structure CbOK (c : Cfg) : Prop where
  fixRaise : c.fixRaise = true
  nul : ∀ x, c.nul x = true → c.cb x = Callback.none ∨ c.cb x = Callback.raise

end Hap.Sys
