/-
  Further lemmas for C12 / C13 (deepening round):
  * every byte written to a connection refreshes its `last_activity` (C13 "active connections are
    never closed as idle", for the write side);
  * after an application change every registered subscriber has the new value queued with a flush
    pending (C12 "events reach exactly the subscribed ... controllers", the "reach" direction).
-/
import Proofs.SysEventsC12cb
namespace Hap.Sys

theorem sendEvents_write (s : St) (q : ObjId) (o : Out) (ho : o ∈ (sendEvents s q).2) :
    ((sendEvents s q).1.obj q).last = s.now ∧ (sendEvents s q).1.now = s.now := by
  by_cases h1 : (s.obj q).queue = []
  · simp [sendEvents, h1] at ho
  · by_cases h2 : (s.obj q).queue.filter (fun e => memT (s.topics e.1) (s.obj q).addr) = []
    · simp [sendEvents, h1, h2] at ho
    · simp [sendEvents, h1, h2, upd_apply]

/-- **a write is activity.** Whenever a step writes bytes (an EVENT message or an HTTP response) to
    the transport of `p`, `p.last_activity` is the current time afterwards and the clock has not moved. -/
theorem step_write_refreshes (c : Cfg) (s : St) (e : Ev) (p : ObjId) (o : Out)
    (ho : o ∈ (step c s e).2) (hw : o.isWriteTo p) :
    ((step c s e).1.obj p).last = s.now ∧ (step c s e).1.now = s.now ∧ p < s.nobj := by
  cases e with
  | tick dt => cases ho
  | connect a => simp only [step] at ho; split at ho <;> cases ho
  | verify q => simp only [step] at ho; split at ho <;> cases ho
  | appSet x v => cases ho
  | appSetWorker x v => cases ho
  | handOff => cases ho
  | data q r =>
    by_cases hen : q < s.nobj ∧ (s.obj q).closing = false
    · have hpq : p = q := by
        simp only [step, hen, and_self, if_true, onData] at ho
        exact writesOnly_onReq c (touch s q) q r o ho p hw
      subst hpq
      refine ⟨data_refreshes c s p r hen, ?_, hen.1⟩
      simp only [step, hen, and_self, if_true]
      exact (rel_onData c s p r).now
    · simp only [step, hen, if_false] at ho; cases ho
  | timerFire q =>
    by_cases hen : q < s.nobj ∧ (s.obj q).timer.isSome
    · simp only [step, hen, and_self, if_true] at ho ⊢
      have hpq : p = q := writesOnly_sendEvents s q o ho p hw
      subst hpq
      exact ⟨(sendEvents_write s p o ho).1, (sendEvents_write s p o ho).2, hen.1⟩
    · simp only [step, hen, if_false] at ho; cases ho
  | soonFlush q =>
    by_cases hen : q < s.nobj ∧ 0 < (s.obj q).soon
    · simp only [step, hen, and_self, if_true] at ho ⊢
      have hpq : p = q := writesOnly_sendEvents _ q o ho p hw
      subst hpq
      exact ⟨(sendEvents_write _ p o ho).1, (sendEvents_write _ p o ho).2, hen.1⟩
    · simp only [step, hen, if_false] at ho; cases ho
  | respReady q ok =>
    by_cases hen : q < s.nobj ∧ (s.obj q).pending
    · simp only [step, hen, and_self, if_true] at ho ⊢
      split at ho
      · cases ho
      · rename_i hncl
        simp only [hncl, if_false]
        cases ok with
        | false =>
          simp only [Bool.false_eq_true, if_false] at ho ⊢
          have hpq : p = q := writesOnly_respond _ q _ _ o ho p hw
          subst hpq
          simp [respond, upd_apply, hen.1]
        | true =>
          simp only [if_true] at ho ⊢
          have hpq : p = q := writesOnly_respond _ q _ _ o ho p hw
          subst hpq
          simp [respond, upd_apply, hen.1]
    · simp only [step, hen, if_false] at ho; cases ho
  | lose q =>
    simp only [step] at ho; split at ho
    · exact absurd hw (closeOuts_noWrite q _ p o ho)
    · cases ho
  | idleSweep =>
    simp only [step, List.mem_flatMap] at ho
    obtain ⟨q, _, hq⟩ := ho
    exact absurd hw (closeOuts_noWrite q _ p o hq)
  | stop =>
    simp only [step, List.mem_flatMap] at ho
    obtain ⟨q, _, hq⟩ := ho
    exact absurd hw (closeOuts_noWrite q _ p o hq)

/-- after `set_value(v)` by the application changed the value of `x`, every registered connection
    whose address is subscribed to `x` has `(x, v)` queued, a flush pending, and is under obligation -/
theorem appSet_serves_all (c : Cfg) (s : St) (x : Cid) (v : Val) (hA : InvA s) (hch : s.value x ≠ some v) (q : ObjId)
    (hr : registered (appSet c s x v) q) (hsub : subscribed (appSet c s x v) x ((appSet c s x v).obj q).addr) :
    aget ((appSet c s x v).obj q).queue x = some v ∧ pendingFlush (appSet c s x v) q ∧
    ((appSet c s x v).obj q).since x = true := by
  have e : appSet c s x v = { publish c s x v none with value := upd s.value x (if c.nul x then none else some v) } := by
    simp only [appSet]; rw [writeVal_nf]; simp only [hch, ne_eq, not_false_eq_true, if_true]
  rw [e] at hr hsub ⊢
  exact publish_none_queued c s x v hA q hr hsub

end Hap.Sys
