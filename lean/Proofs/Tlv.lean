import HapModel.Tlv
namespace Hap.Tlv
open Hap

theorem upsert_upsert (acc : Items) (t : UInt8) (a b : Bytes) :
    upsert (upsert acc t a) t b = upsert acc t (a ++ b) := by
  induction acc with
  | nil => simp [upsert]
  | cons h tl ih =>
    obtain ⟨t', v'⟩ := h
    by_cases h : t' = t <;> simp [upsert, h, ih]

theorem decode_frag (tag : UInt8) (v rest : Bytes) (acc : Items) (h : v.length ≤ FRAG) :
    decode (tag :: UInt8.ofNat v.length :: (v ++ rest)) acc = decode rest (upsert acc tag v) := by
  rw [decode]
  have : (UInt8.ofNat v.length).toNat = v.length := by
    simp [FRAG] at h; simp; omega
  simp [this]

/-- spec-level fragments: k full fragments from the front of d -/
def frags (tag : UInt8) : Nat → Bytes → Bytes
  | 0, _ => []
  | k+1, d => tag :: UInt8.ofNat FRAG :: d.take FRAG ++ frags tag k (d.drop FRAG)

theorem fullLoop_eq (tag : UInt8) (data : Bytes) (n k : Nat) (acc : Bytes) (hk : k ≤ n) :
    fullLoop tag data n k acc = acc ++ frags tag k (data.drop ((n-k)*FRAG)) := by
  induction k generalizing acc with
  | zero => simp [fullLoop, frags]
  | succ k ih =>
    simp only [fullLoop, frags]
    rw [ih _ (by omega)]
    have e : (n - k) * FRAG = (n - (k+1)) * FRAG + FRAG := by
      have : n - k = (n - (k+1)) + 1 := by omega
      rw [this, Nat.add_mul, Nat.one_mul]
    rw [e, ← List.drop_drop]
    simp [List.append_assoc]

theorem frag_toNat : (UInt8.ofNat FRAG).toNat = FRAG := by simp [FRAG]

/-- decoding k full fragments that follow an already-started item -/
theorem decode_frags (tag : UInt8) (k : Nat) (d rest pre : Bytes) (acc : Items)
    (hd : k * FRAG ≤ d.length) :
    decode (frags tag k d ++ rest) (upsert acc tag pre)
      = decode rest (upsert acc tag (pre ++ d.take (k*FRAG))) := by
  induction k generalizing d pre with
  | zero => simp [frags]
  | succ k ih =>
    have hlen : (d.take FRAG).length = FRAG := by
      rw [List.length_take]; rw [Nat.add_mul, Nat.one_mul] at hd; omega
    have h1 : frags tag (k+1) d ++ rest
        = tag :: UInt8.ofNat (d.take FRAG).length :: (d.take FRAG ++ (frags tag k (d.drop FRAG) ++ rest)) := by
      simp [frags, hlen]
    rw [h1, decode_frag _ _ _ _ (by omega), upsert_upsert]
    rw [ih (d.drop FRAG) (pre ++ d.take FRAG) (by rw [List.length_drop]; rw [Nat.add_mul, Nat.one_mul] at hd; omega)]
    congr 2
    rw [List.append_assoc]
    congr 1
    rw [Nat.add_mul, Nat.one_mul, Nat.add_comm (k*FRAG) FRAG, List.take_add]

/-- first fragment starts the item -/
theorem decode_frags_first (tag : UInt8) (k : Nat) (d rest : Bytes) (acc : Items)
    (hd : (k+1) * FRAG ≤ d.length) :
    decode (frags tag (k+1) d ++ rest) acc = decode rest (upsert acc tag (d.take ((k+1)*FRAG))) := by
  have hd' := hd; rw [Nat.add_mul, Nat.one_mul] at hd'
  have hlen : (d.take FRAG).length = FRAG := by rw [List.length_take]; omega
  have h1 : frags tag (k+1) d ++ rest
      = tag :: UInt8.ofNat (d.take FRAG).length :: (d.take FRAG ++ (frags tag k (d.drop FRAG) ++ rest)) := by
    simp [frags, hlen]
  rw [h1, decode_frag _ _ _ _ (by omega)]
  rw [decode_frags tag k (d.drop FRAG) rest (d.take FRAG) acc (by rw [List.length_drop]; omega)]
  congr 2
  rw [Nat.add_mul, Nat.one_mul, Nat.add_comm (k*FRAG) FRAG, List.take_add]

theorem decode_encodeItem (tag : UInt8) (v rest : Bytes) (acc : Items) :
    decode (encodeItem tag v ++ rest) acc = decode rest (upsert acc tag v) := by
  unfold encodeItem
  split
  · next h => simpa using decode_frag tag v rest acc h
  · next h =>
    have hlen : FRAG < v.length := Nat.lt_of_not_le h
    have hF : 0 < FRAG := by simp [FRAG]
    obtain ⟨m, hm⟩ : ∃ m, v.length / FRAG = m + 1 :=
      ⟨v.length / FRAG - 1, by have : 1 ≤ v.length / FRAG := (Nat.le_div_iff_mul_le hF).mpr (by omega); omega⟩
    have hdiv : (m+1) * FRAG + v.length % FRAG = v.length := by
      rw [← hm, Nat.mul_comm]; exact Nat.div_add_mod v.length FRAG
    simp only [hm]
    rw [fullLoop_eq tag v (m+1) (m+1) [] (Nat.le_refl _)]
    simp only [Nat.sub_self, Nat.zero_mul, List.drop_zero, List.nil_append]
    by_cases hr : v.length % FRAG = 0
    · simp only [hr, if_true, List.append_nil]
      rw [decode_frags_first tag m v rest acc (by omega)]
      have : (m+1) * FRAG = v.length := by omega
      rw [this, List.take_length]
    · simp only [hr, if_false, List.append_assoc]
      rw [decode_frags_first tag m v _ acc (by omega)]
      have hrlt : v.length % FRAG < FRAG := Nat.mod_lt _ hF
      have hpl : (pyLast v (v.length % FRAG)).length = v.length % FRAG := by
        simp [pyLast, hr, List.length_drop]; omega
      have h2 : tag :: UInt8.ofNat (v.length % FRAG) :: pyLast v (v.length % FRAG) ++ rest
          = tag :: UInt8.ofNat (pyLast v (v.length % FRAG)).length :: (pyLast v (v.length % FRAG) ++ rest) := by
        simp [hpl]
      rw [h2, decode_frag _ _ _ _ (by omega), upsert_upsert]
      congr 2
      have : v.length - v.length % FRAG = (m+1) * FRAG := by omega
      simp only [pyLast, hr, if_false, this]
      exact List.take_append_drop _ _

theorem decode_encode_acc (items : Items) (acc : Items) :
    decode (encode items) acc = some (merge acc items) := by
  induction items generalizing acc with
  | nil => simp [encode, merge, decode]
  | cons h t ih =>
    obtain ⟨tag, v⟩ := h
    simp only [encode, merge]
    rw [decode_encodeItem, ih]

/-! ### chunks / spec encoder -/

theorem chunks_nil (n : Nat) : chunks n [] = [] := by
  rw [chunks]; simp

theorem chunks_cons (n : Nat) (l : Bytes) (hn : n ≠ 0) (hl : l ≠ []) :
    chunks n l = l.take n :: chunks n (l.drop n) := by
  rw [chunks]; simp [hn, hl]

/-- `frags` followed by a short remainder is the flatMap over chunks -/
theorem frags_chunks (tag : UInt8) (k : Nat) (d : Bytes) (hd : k * FRAG ≤ d.length) :
    frags tag k d ++ (chunks FRAG (d.drop (k*FRAG))).flatMap (fun c => tag :: UInt8.ofNat c.length :: c)
      = (chunks FRAG d).flatMap (fun c => tag :: UInt8.ofNat c.length :: c) := by
  induction k generalizing d with
  | zero => simp [frags]
  | succ k ih =>
    have hd' := hd; rw [Nat.add_mul, Nat.one_mul] at hd'
    have hF : FRAG ≠ 0 := by simp [FRAG]
    have hne : d ≠ [] := by
      intro e; subst e; simp [FRAG] at hd'
    have hlen : (d.take FRAG).length = FRAG := by rw [List.length_take]; omega
    rw [chunks_cons FRAG d hF hne]
    simp only [frags, List.flatMap_cons, hlen]
    have := ih (d.drop FRAG) (by rw [List.length_drop]; omega)
    rw [List.drop_drop] at this
    have e : FRAG + k * FRAG = (k+1) * FRAG := by rw [Nat.add_mul, Nat.one_mul, Nat.add_comm]
    rw [e] at this
    simp only [List.cons_append, List.append_assoc]
    rw [this]

theorem chunks_short (l : Bytes) (h0 : l ≠ []) (h : l.length ≤ FRAG) : chunks FRAG l = [l] := by
  have hF : FRAG ≠ 0 := by simp [FRAG]
  rw [chunks_cons FRAG l hF h0]
  have : l.drop FRAG = [] := List.drop_eq_nil_of_le h
  rw [this, chunks_nil, List.take_of_length_le h]

theorem encodeItem_eq_spec (tag : UInt8) (v : Bytes) : encodeItem tag v = specEncodeItem tag v := by
  unfold encodeItem specEncodeItem
  have hF : 0 < FRAG := by simp [FRAG]
  split
  · next h =>
    by_cases hv : v = []
    · subst hv; simp
    · simp [hv, chunks_short v hv h]
  · next h =>
    have hlen : FRAG < v.length := Nat.lt_of_not_le h
    have hv : v ≠ [] := by intro e; subst e; simp at hlen
    simp only [hv, if_false]
    have hk : v.length / FRAG * FRAG ≤ v.length := Nat.div_mul_le_self _ _
    rw [fullLoop_eq tag v _ _ [] (Nat.le_refl _)]
    simp only [Nat.sub_self, Nat.zero_mul, List.drop_zero, List.nil_append]
    rw [← frags_chunks tag (v.length / FRAG) v hk]
    congr 1
    have hdm : v.length / FRAG * FRAG + v.length % FRAG = v.length := by
      rw [Nat.mul_comm]; exact Nat.div_add_mod _ _
    by_cases hr : v.length % FRAG = 0
    · have : v.drop (v.length / FRAG * FRAG) = [] := List.drop_eq_nil_of_le (by omega)
      simp [hr, this, chunks_nil]
    · have hrlt : v.length % FRAG < FRAG := Nat.mod_lt _ hF
      have hlast : pyLast v (v.length % FRAG) = v.drop (v.length / FRAG * FRAG) := by
        simp only [pyLast, hr, if_false]; congr 1; omega
      have hl : (v.drop (v.length / FRAG * FRAG)).length = v.length % FRAG := by
        rw [List.length_drop]; omega
      have hne : v.drop (v.length / FRAG * FRAG) ≠ [] := by
        intro e; rw [e] at hl; simp at hl; omega
      rw [chunks_short _ hne (by omega)]
      simp [hr, hlast, hl]

theorem encode_eq_spec (items : Items) : encode items = specEncode items := by
  induction items with
  | nil => rfl
  | cons h t ih => obtain ⟨tag, v⟩ := h; simp [encode, specEncode, encodeItem_eq_spec, ih]

/-- shape of the chunk list: no chunk is empty or longer than 255, all but the last are full,
    and the chunks concatenate back to the value -/
theorem chunks_shape_aux (n : Nat) : ∀ l : Bytes, l.length ≤ n →
    (chunks FRAG l).flatten = l ∧
    (∀ c ∈ chunks FRAG l, 1 ≤ c.length ∧ c.length ≤ FRAG) ∧
    (∀ c ∈ (chunks FRAG l).dropLast, c.length = FRAG) := by
  have hF : FRAG ≠ 0 := by simp [FRAG]
  induction n with
  | zero =>
    intro l hl
    have : l = [] := List.eq_nil_of_length_eq_zero (by omega)
    subst this; simp [chunks_nil]
  | succ n ih =>
    intro l hn
    by_cases hl : l = []
    · subst hl; simp [chunks_nil]
    · rw [chunks_cons FRAG l hF hl]
      have hpos : 0 < l.length := List.length_pos_iff.mpr hl
      have hFpos : 0 < FRAG := by simp [FRAG]
      have hdrop : (l.drop FRAG).length ≤ n := by rw [List.length_drop]; omega
      obtain ⟨h1, h2, h3⟩ := ih (l.drop FRAG) hdrop
      refine ⟨?_, ?_, ?_⟩
      · simp [h1]
      · intro c hc
        rcases List.mem_cons.mp hc with rfl | hc
        · rw [List.length_take]; omega
        · exact h2 c hc
      · intro c hc
        by_cases hrest : chunks FRAG (l.drop FRAG) = []
        · simp [hrest] at hc
        · rw [List.dropLast_cons_of_ne_nil hrest] at hc
          rcases List.mem_cons.mp hc with rfl | hc
          · have hne : l.drop FRAG ≠ [] := by intro e; rw [e, chunks_nil] at hrest; exact hrest rfl
            have hp : 0 < (l.drop FRAG).length := List.length_pos_iff.mpr hne
            rw [List.length_drop] at hp
            rw [List.length_take]; omega
          · exact h3 c hc

/-- shape of the chunk list: no chunk is empty or longer than 255, all but the last are full,
    and the chunks concatenate back to the value -/
theorem chunks_shape (l : Bytes) :
    (chunks FRAG l).flatten = l ∧
    (∀ c ∈ chunks FRAG l, 1 ≤ c.length ∧ c.length ≤ FRAG) ∧
    (∀ c ∈ (chunks FRAG l).dropLast, c.length = FRAG) :=
  chunks_shape_aux l.length l (Nat.le_refl _)

/-! ### decoding any well-formed record sequence -/

/-- wire form of raw records (each value ≤ 255 bytes, any tags) -/
def wireRecords : Items → Bytes
  | [] => []
  | (t, v) :: rest => t :: UInt8.ofNat v.length :: v ++ wireRecords rest

theorem decode_wireRecords (rs : Items) (acc : Items) (h : ∀ r ∈ rs, r.2.length ≤ FRAG) :
    decode (wireRecords rs) acc = some (merge acc rs) := by
  induction rs generalizing acc with
  | nil => simp [wireRecords, merge, decode]
  | cons r rs ih =>
    obtain ⟨t, v⟩ := r
    have hv : v.length ≤ FRAG := h (t, v) (by simp)
    simp only [wireRecords, merge]
    rw [show t :: UInt8.ofNat v.length :: v ++ wireRecords rs
          = t :: UInt8.ofNat v.length :: (v ++ wireRecords rs) by simp]
    rw [decode_frag _ _ _ _ hv]
    exact ih _ (fun r hr => h r (by simp [hr]))

end Hap.Tlv

namespace Hap.Tlv
/-! ### uniqueness of the fragmentation -/

/-- Any fragmentation with the TLV8 shape (no fragment empty or longer than 255, all but the last
    exactly 255) is THE chunk list of the concatenated value: the shape rule determines the
    fragments, hence the byte string. -/
theorem chunks_unique (cs : List Bytes)
    (h1 : ∀ c ∈ cs, 1 ≤ c.length ∧ c.length ≤ FRAG)
    (h2 : ∀ c ∈ cs.dropLast, c.length = FRAG) :
    chunks FRAG cs.flatten = cs := by
  have hF : FRAG ≠ 0 := by simp [FRAG]
  induction cs with
  | nil => simp [chunks_nil]
  | cons c rest ih =>
    have hc := h1 c (by simp)
    have hne : (c :: rest).flatten ≠ [] := by
      intro e
      have h0 : ((c :: rest).flatten).length = 0 := by rw [e]; rfl
      rw [List.flatten_cons, List.length_append] at h0
      omega
    rw [chunks_cons FRAG _ hF hne]
    have ihr := ih (fun x hx => h1 x (by simp [hx])) (by
      intro x hx
      by_cases hr : rest = []
      · subst hr; simp at hx
      · exact h2 x (by rw [List.dropLast_cons_of_ne_nil hr]; simp [hx]))
    by_cases hr : rest = []
    · subst hr
      simp only [List.flatten_cons, List.flatten_nil, List.append_nil]
      rw [List.take_of_length_le hc.2, List.drop_of_length_le hc.2, chunks_nil]
    · have hcl : c.length = FRAG := h2 c (by rw [List.dropLast_cons_of_ne_nil hr]; simp)
      simp only [List.flatten_cons]
      rw [List.take_left' hcl, List.drop_left' hcl, ihr]

end Hap.Tlv
