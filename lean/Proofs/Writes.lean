/-
  Lemmas about the Writes model (C10). Core only.
-/
import HapModel.Writes
set_option linter.unusedSimpArgs false
set_option linter.unusedVariables false
namespace Hap.Writes

/-! ### `firsts` : keys of an insertion-ordered dict -/

theorem mem_firsts {κ : Type} [DecidableEq κ] (l : List κ) (x : κ) : x ∈ firsts l ↔ x ∈ l := by
  induction l with
  | nil => simp [firsts]
  | cons k t ih =>
    simp only [firsts, List.mem_cons, List.mem_filter, ih]
    by_cases h : x = k <;> simp [h]

theorem nodup_firsts {κ : Type} [DecidableEq κ] (l : List κ) : (firsts l).Nodup := by
  induction l with
  | nil => simp [firsts]
  | cons k t ih =>
    simp only [firsts, List.nodup_cons, List.mem_filter]
    exact ⟨by simp, ih.filter _⟩

/-! ### Python `or` and the status override -/

/-- effect of `set_result = char_set_result or acc_set_result; if not set_result: continue;
    status = set_result` on one status -/
def ov (r : Option Int) (st0 : Int) : Int :=
  match r with
  | some x => if x = 0 then st0 else x
  | none => st0

theorem ov_idem (r : Option Int) (s : Int) : ov r (ov r s) = ov r s := by
  unfold ov; cases r with
  | none => rfl
  | some x => by_cases h : x = 0 <;> simp [h]


/-! ### the per-query loop, entry by entry -/

/-- the query gets a result entry (`"value" in query or expired`) -/
def answered (expired : Bool) (q : Query) : Bool := q.hasValue || expired

/-- `query.get("value")` -/
def qvalue (q : Query) : Option Val := if q.hasValue then q.value else none

/-- the setter is called: `value is not None [and not expired]` -/
def runs (fixed expired : Bool) (q : Query) : Bool := (qvalue q).isSome && (!fixed || !expired)

/-- status and returned value of `_wrap_char_setter` (independent of the state) -/
def charOutcome (q : Query) : Int × Option Val :=
  match q.valid, q.cb with
  | none, _ => (FAIL, none)
  | some _, .absent => (OK, none)
  | some _, .returns r => (OK, r)
  | some _, .raises => (FAIL, none)

/-- the callback invocation made by `client_update_value`, if any -/
def called (q : Query) : Option Ev :=
  match q.valid, q.cb with
  | some n, .returns _ => some (Ev.char q.id n)
  | some n, .raises => some (Ev.char q.id n)
  | _, _ => none

/-- `self.value = value` -/
def store (vals : CharId → Val) (q : Query) : CharId → Val :=
  match q.valid with
  | some n => fun c => if c = q.id then n else vals c
  | none => vals

def storeAll (vals : CharId → Val) : List Query → CharId → Val
  | [] => vals
  | q :: qs => storeAll (store vals q) qs

/-- the value recorded for the service / accessory callbacks: the normalised value after a
    successful setter (C10b), else `query.get("value")` -/
def upValue (fixed nu expired : Bool) (q : Query) : Option Val :=
  if nu && runs fixed expired q && (charOutcome q).1 == OK then q.valid else qvalue q

/-- the result entry written by the per-query loop -/
def res0 (fixed expired : Bool) (q : Query) : Res :=
  let o : Int × Option Val := if runs fixed expired q then charOutcome q else (INVALID, none)
  if o.2.isSome && q.wr then ⟨o.1, o.2⟩ else ⟨o.1, none⟩

theorem wrapCharSetter_eq (q : Query) (st : CharSt) :
    wrapCharSetter q st =
      (⟨store st.vals q, st.log ++ (called q).toList⟩, (charOutcome q).1, (charOutcome q).2) := by
  unfold wrapCharSetter clientUpdate store called charOutcome
  cases hv : q.valid with
  | none => simp
  | some n => cases hc : q.cb <;> simp

theorem step1_eq (fixed nu expired : Bool) (s : L1) (q : Query) :
    step1 fixed nu expired s q =
      if answered expired q then
        { st := if runs fixed expired q then ⟨store s.st.vals q, s.st.log ++ (called q).toList⟩ else s.st
          results := s.results ++ [(q.id, res0 fixed expired q)]
          updates := if fixed && expired then s.updates else s.updates ++ [(q.id, upValue fixed nu expired q)] }
      else s := by
  unfold step1 answered res0 upValue runs qvalue
  by_cases h1 : q.hasValue <;> by_cases h2 : expired <;> by_cases h3 : fixed <;>
    cases hv : q.value <;> simp [h1, h2, h3, hv, wrapCharSetter_eq]

theorem loop1_results (fixed nu expired : Bool) (qs : List Query) (s : L1) :
    (loop1 fixed nu expired s qs).results =
      s.results ++ (qs.filter (answered expired)).map (fun q => (q.id, res0 fixed expired q)) := by
  induction qs generalizing s with
  | nil => simp [loop1]
  | cons q qs ih =>
    simp only [loop1, ih, step1_eq]
    by_cases h : answered expired q <;> simp [h, List.filter_cons]

theorem loop1_updates (fixed nu expired : Bool) (qs : List Query) (s : L1) :
    (loop1 fixed nu expired s qs).updates =
      s.updates ++ (if fixed && expired then [] else
        (qs.filter (answered expired)).map (fun q => (q.id, upValue fixed nu expired q))) := by
  induction qs generalizing s with
  | nil => simp [loop1]
  | cons q qs ih =>
    simp only [loop1, ih, step1_eq]
    by_cases h : answered expired q <;> by_cases h2 : (fixed && expired) = true <;> simp [h, h2, List.filter_cons]

theorem loop1_log (fixed nu expired : Bool) (qs : List Query) (s : L1) :
    (loop1 fixed nu expired s qs).st.log =
      s.st.log ++ ((qs.filter (fun q => answered expired q && runs fixed expired q)).filterMap called) := by
  induction qs generalizing s with
  | nil => simp [loop1]
  | cons q qs ih =>
    simp only [loop1, ih, step1_eq]
    by_cases h : answered expired q <;> by_cases h2 : runs fixed expired q <;>
      simp [h, h2, List.filter_cons]
    cases hc : called q <;> simp [hc, List.filterMap_cons]

theorem loop1_vals (fixed nu expired : Bool) (qs : List Query) (s : L1) :
    (loop1 fixed nu expired s qs).st.vals =
      storeAll s.st.vals (qs.filter (fun q => answered expired q && runs fixed expired q)) := by
  induction qs generalizing s with
  | nil => simp [loop1, storeAll]
  | cons q qs ih =>
    simp only [loop1, ih, step1_eq]
    by_cases h : answered expired q <;> by_cases h2 : runs fixed expired q <;>
      simp [h, h2, List.filter_cons, storeAll]


/-! ### the service / accessory callback pass -/

def svcRes (T : Topo) (B : Behav) (a s : Nat) : Option Int :=
  if T.svcCb a s then some (cbResult (B.svcRaises a s)) else none

def accRes (T : Topo) (B : Behav) (a : Nat) : Option Int :=
  if T.accCb a then some (cbResult (B.accRaises a)) else none

/-- callback invocations of the pass for one service / one accessory -/
def svcEvs (T : Topo) (ups : List Upd) (a s : Nat) : List Ev :=
  if T.svcCb a s then [Ev.svc a s (svcGroup T ups a s)] else []

def accEvs (T : Topo) (ups : List Upd) (a : Nat) : List Ev :=
  if T.accCb a then [Ev.acc a ((svcsOf T ups a).map (fun s => (s, svcGroup T ups a s)))] else []

/-- rewrite every status by a function of (id, status) -/
def setSt (f : CharId → Int → Int) (results : List (CharId × Res)) : List (CharId × Res) :=
  results.map (fun cr => (cr.1, { cr.2 with status := f cr.1 cr.2.status }))

theorem setSt_id (results : List (CharId × Res)) : setSt (fun _ st => st) results = results := by
  unfold setSt; induction results with
  | nil => rfl
  | cons x t ih => simp [List.map_cons, ih]

theorem setSt_setSt (f g : CharId → Int → Int) (results : List (CharId × Res)) :
    setSt g (setSt f results) = setSt (fun c st => g c (f c st)) results := by
  unfold setSt; simp [List.map_map, Function.comp_def]

theorem setSt_congr {f g : CharId → Int → Int} (h : ∀ c st, f c st = g c st)
    (results : List (CharId × Res)) : setSt f results = setSt g results := by
  have : f = g := by funext c st; exact h c st
  rw [this]

theorem mem_svcGroup_keys (T : Topo) (ups : List Upd) (a s : Nat) (c : CharId) :
    c ∈ (svcGroup T ups a s).map (·.1) ↔ c ∈ ups.map (·.1) ∧ c.aid = a ∧ T.svc c = s := by
  simp only [svcGroup, List.mem_map, List.mem_filter, decide_eq_true_eq]
  constructor
  · rintro ⟨u, ⟨hu, h1, h2⟩, rfl⟩; exact ⟨⟨u, hu, rfl⟩, h1, h2⟩
  · rintro ⟨⟨u, hu, rfl⟩, h1, h2⟩; exact ⟨u, ⟨hu, h1, h2⟩, rfl⟩

theorem pass2Svc_eq (T : Topo) (B : Behav) (ups : List Upd) (a : Nat) (ar : Option Int)
    (acc : List (CharId × Res) × List Ev) (s : Nat) :
    pass2Svc T B ups a ar acc s =
      (setSt (fun c st => if c ∈ ups.map (·.1) ∧ c.aid = a ∧ T.svc c = s
                          then ov (pyOr (svcRes T B a s) ar) st else st) acc.1,
       acc.2 ++ svcEvs T ups a s) := by
  have hlog : (if T.svcCb a s then acc.2 ++ [Ev.svc a s (svcGroup T ups a s)] else acc.2)
      = acc.2 ++ svcEvs T ups a s := by
    unfold svcEvs; by_cases h : T.svcCb a s <;> simp [h]
  unfold pass2Svc
  simp only [hlog]
  have hres : (if T.svcCb a s then some (cbResult (B.svcRaises a s)) else none) = svcRes T B a s := rfl
  rw [hres]
  cases hp : pyOr (svcRes T B a s) ar with
  | none =>
    simp only [ov]
    rw [show (fun (c : CharId) (st : Int) => if c ∈ ups.map (·.1) ∧ c.aid = a ∧ T.svc c = s then st else st)
        = (fun _ st => st) from by funext c st; simp, setSt_id]
  | some x =>
    by_cases hx : x = 0
    · simp only [hx, ov, if_true]
      rw [show (fun (c : CharId) (st : Int) => if c ∈ ups.map (·.1) ∧ c.aid = a ∧ T.svc c = s then st else st)
        = (fun _ st => st) from by funext c st; simp, setSt_id]
    · simp only [hx, ov, if_false]
      congr 1
      unfold setStatus setSt
      apply List.map_congr_left
      intro cr _
      have hm := mem_svcGroup_keys T ups a s cr.1
      by_cases hc : cr.1 ∈ ups.map (·.1) ∧ cr.1.aid = a ∧ T.svc cr.1 = s
      · have h1 := hm.2 hc
        simp only [h1, hc, if_true, and_self]
      · have h1 : ¬ cr.1 ∈ (svcGroup T ups a s).map (·.1) := fun h => hc (hm.1 h)
        simp only [h1, hc, if_false]


theorem pass2Svcs_eq (T : Topo) (B : Behav) (ups : List Upd) (a : Nat) (ar : Option Int)
    (ss : List Nat) (acc : List (CharId × Res) × List Ev) :
    pass2Svcs T B ups a ar acc ss =
      (setSt (fun c st => if c ∈ ups.map (·.1) ∧ c.aid = a ∧ T.svc c ∈ ss
                          then ov (pyOr (svcRes T B a (T.svc c)) ar) st else st) acc.1,
       acc.2 ++ ss.flatMap (svcEvs T ups a)) := by
  induction ss generalizing acc with
  | nil =>
    simp only [pass2Svcs, List.not_mem_nil, and_false, if_false, List.flatMap_nil, List.append_nil]
    rw [setSt_id]
  | cons s ss ih =>
    simp only [pass2Svcs, ih, pass2Svc_eq, setSt_setSt, List.flatMap_cons, List.append_assoc]
    congr 1
    apply setSt_congr
    intro c st
    by_cases hk : c ∈ ups.map (·.1) <;> by_cases ha : c.aid = a <;> by_cases hs : T.svc c = s <;>
      by_cases hss : T.svc c ∈ ss <;> simp [hk, ha, hs, hss, ov_idem]
    all_goals (subst hs; simp_all [ov_idem])


/-- `char_set_result or acc_set_result` for the service and accessory of a characteristic -/
def override (T : Topo) (B : Behav) (c : CharId) : Option Int :=
  pyOr (svcRes T B c.aid (T.svc c)) (accRes T B c.aid)

/-- callback invocations of the pass for accessory `a`, in order -/
def passEvs (T : Topo) (ups : List Upd) (a : Nat) : List Ev :=
  accEvs T ups a ++ (svcsOf T ups a).flatMap (svcEvs T ups a)

theorem mem_svcsOf (T : Topo) (ups : List Upd) (a s : Nat) :
    s ∈ svcsOf T ups a ↔ ∃ u ∈ ups, u.1.aid = a ∧ T.svc u.1 = s := by
  simp only [svcsOf, mem_firsts, List.mem_map, List.mem_filter, decide_eq_true_eq]
  constructor
  · rintro ⟨u, ⟨hu, h1⟩, h2⟩; exact ⟨u, hu, h1, h2⟩
  · rintro ⟨u, hu, h1, h2⟩; exact ⟨u, ⟨hu, h1⟩, h2⟩

theorem mem_accsOf (ups : List Upd) (a : Nat) : a ∈ accsOf ups ↔ ∃ u ∈ ups, u.1.aid = a := by
  simp [accsOf, mem_firsts]

theorem pass2Acc_eq (T : Topo) (B : Behav) (ups : List Upd)
    (acc : List (CharId × Res) × List Ev) (a : Nat) :
    pass2Acc T B ups acc a =
      (setSt (fun c st => if c ∈ ups.map (·.1) ∧ c.aid = a then ov (override T B c) st else st) acc.1,
       acc.2 ++ passEvs T ups a) := by
  have hlog : (if T.accCb a then acc.2 ++ [Ev.acc a ((svcsOf T ups a).map (fun s => (s, svcGroup T ups a s)))] else acc.2)
      = acc.2 ++ accEvs T ups a := by
    unfold accEvs; by_cases h : T.accCb a <;> simp [h]
  unfold pass2Acc
  simp only [hlog, pass2Svcs_eq, passEvs, List.append_assoc]
  congr 1
  apply setSt_congr
  intro c st
  by_cases hk : c ∈ ups.map (·.1) <;> by_cases ha : c.aid = a <;> simp [hk, ha]
  · have : T.svc c ∈ svcsOf T ups a := by
      rw [mem_svcsOf]
      obtain ⟨u, hu, rfl⟩ := List.mem_map.1 hk
      exact ⟨u, hu, ha, rfl⟩
    subst ha
    simp [this, override, accRes]

theorem pass2Accs_eq (T : Topo) (B : Behav) (ups : List Upd) (as : List Nat)
    (acc : List (CharId × Res) × List Ev) :
    pass2Accs T B ups acc as =
      (setSt (fun c st => if c ∈ ups.map (·.1) ∧ c.aid ∈ as then ov (override T B c) st else st) acc.1,
       acc.2 ++ as.flatMap (passEvs T ups)) := by
  induction as generalizing acc with
  | nil =>
    simp only [pass2Accs, List.not_mem_nil, and_false, if_false, List.flatMap_nil, List.append_nil]
    rw [setSt_id]
  | cons a as ih =>
    simp only [pass2Accs, ih, pass2Acc_eq, setSt_setSt, List.flatMap_cons, List.append_assoc]
    congr 1
    apply setSt_congr
    intro c st
    by_cases hk : c ∈ ups.map (·.1) <;> by_cases ha : c.aid = a <;>
      by_cases hss : c.aid ∈ as <;> simp [hk, ha, hss, ov_idem]
    all_goals (subst ha; simp_all [ov_idem])

/-- closed form of the callback pass -/
theorem pass2_eq (T : Topo) (B : Behav) (ups : List Upd) (results : List (CharId × Res)) (log : List Ev) :
    pass2 T B ups results log =
      (setSt (fun c st => if c ∈ ups.map (·.1) then ov (override T B c) st else st) results,
       log ++ (accsOf ups).flatMap (passEvs T ups)) := by
  unfold pass2
  rw [pass2Accs_eq]
  congr 1
  apply setSt_congr
  intro c st
  by_cases hk : c ∈ ups.map (·.1) <;> simp [hk]
  have : c.aid ∈ accsOf ups := by
    rw [mem_accsOf]
    obtain ⟨u, hu, rfl⟩ := List.mem_map.1 hk
    exact ⟨u, hu, rfl⟩
  simp [this]


/-! ### result assembly and the closed form of a request -/

theorem mem_assemble (results : List (CharId × Res)) (x : CharId × Res) :
    x ∈ assemble results ↔ x ∈ results := by
  simp only [assemble, List.mem_flatMap, mem_firsts, List.mem_map, List.mem_filter, decide_eq_true_eq]
  constructor
  · rintro ⟨a, _, hx, _⟩; exact hx
  · intro hx; exact ⟨x.1.aid, ⟨x, hx, rfl⟩, hx, rfl⟩

/-- the answer for one entry: a function of the entry, of the callbacks of its own service and
    accessory, and of the expiry decision only -/
def entryRes (fixed expired : Bool) (T : Topo) (B : Behav) (q : Query) : Res :=
  { res0 fixed expired q with
    status := if fixed && expired then (res0 fixed expired q).status
              else ov (override T B q.id) (res0 fixed expired q).status }

/-- the updates collected by the per-query loop -/
def upsOf (fixed nu expired : Bool) (qs : List Query) : List Upd :=
  if fixed && expired then [] else (qs.filter (answered expired)).map (fun q => (q.id, upValue fixed nu expired q))

theorem setChars_updates (fixed nu : Bool) (expired : Bool) (vals : CharId → Val) (qs : List Query) :
    (loop1 fixed nu expired ⟨⟨vals, []⟩, [], []⟩ qs).updates = upsOf fixed nu expired qs := by
  simp [loop1_updates, upsOf]

theorem mem_upsOf_keys (fixed nu expired : Bool) (qs : List Query) (c : CharId) :
    c ∈ (upsOf fixed nu expired qs).map (·.1) ↔
      (fixed && expired) = false ∧ ∃ q ∈ qs, answered expired q = true ∧ q.id = c := by
  unfold upsOf
  by_cases hfe : (fixed && expired) = true
  · simp [hfe]
  · simp only [hfe, Bool.false_eq_true, if_false, List.mem_map, List.mem_filter]
    constructor
    · rintro ⟨u, ⟨q, ⟨hq, ha⟩, rfl⟩, rfl⟩; exact ⟨by simpa using hfe, q, hq, ha, rfl⟩
    · rintro ⟨_, q, hq, ha, rfl⟩; exact ⟨(q.id, upValue fixed nu expired q), ⟨q, ⟨hq, ha⟩, rfl⟩, rfl⟩

theorem mem_chars (fixed nu : Bool) (T : Topo) (B : Behav) (expired : Bool) (vals : CharId → Val)
    (qs : List Query) (x : CharId × Res) :
    x ∈ (setChars fixed nu T B expired vals qs).chars ↔
      ∃ q ∈ qs, answered expired q = true ∧ x = (q.id, entryRes fixed expired T B q) := by
  have key : ∀ q ∈ qs, answered expired q = true →
      (q.id, ({ res0 fixed expired q with
        status := if q.id ∈ (upsOf fixed nu expired qs).map (·.1)
                  then ov (override T B q.id) (res0 fixed expired q).status
                  else (res0 fixed expired q).status } : Res)) = (q.id, entryRes fixed expired T B q) := by
    intro q hq ha
    unfold entryRes
    by_cases hfe : (fixed && expired) = true
    · have : ¬ q.id ∈ (upsOf fixed nu expired qs).map (·.1) := by
        rw [mem_upsOf_keys]; simp [hfe]
      simp only [this, hfe, if_true, if_false]
    · have : q.id ∈ (upsOf fixed nu expired qs).map (·.1) := by
        rw [mem_upsOf_keys]; exact ⟨by simpa using hfe, q, hq, ha, rfl⟩
      simp only [this, hfe, Bool.false_eq_true, if_true, if_false]
  unfold setChars
  rw [mem_assemble, pass2_eq, setChars_updates, loop1_results]
  simp only [List.nil_append, setSt]
  constructor
  · intro hx
    obtain ⟨cr, hcr, rfl⟩ := List.mem_map.1 hx
    obtain ⟨q, hq, rfl⟩ := List.mem_map.1 hcr
    obtain ⟨hq, ha⟩ := List.mem_filter.1 hq
    exact ⟨q, hq, ha, key q hq ha⟩
  · rintro ⟨q, hq, ha, rfl⟩
    refine List.mem_map.2 ⟨(q.id, res0 fixed expired q), List.mem_map.2 ⟨q, List.mem_filter.2 ⟨hq, ha⟩, rfl⟩, ?_⟩
    exact key q hq ha

theorem setChars_vals (fixed nu : Bool) (T : Topo) (B : Behav) (expired : Bool) (vals : CharId → Val)
    (qs : List Query) :
    (setChars fixed nu T B expired vals qs).vals =
      storeAll vals (qs.filter (fun q => answered expired q && runs fixed expired q)) := by
  simp [setChars, loop1_vals]

theorem setChars_log (fixed nu : Bool) (T : Topo) (B : Behav) (expired : Bool) (vals : CharId → Val)
    (qs : List Query) :
    (setChars fixed nu T B expired vals qs).log =
      (qs.filter (fun q => answered expired q && runs fixed expired q)).filterMap called ++
        (accsOf (upsOf fixed nu expired qs)).flatMap (passEvs T (upsOf fixed nu expired qs)) := by
  simp [setChars, pass2_eq, loop1_log, setChars_updates]

theorem setChars_body (fixed nu : Bool) (T : Topo) (B : Behav) (expired : Bool) (vals : CharId → Val)
    (qs : List Query) :
    (setChars fixed nu T B expired vals qs).body =
      if nonempty (setChars fixed nu T B expired vals qs).chars
      then some (setChars fixed nu T B expired vals qs).chars else none := rfl


/-! ### reading the callback log -/

/-- arguments of the invocations of the setter_callback of characteristic `c`, in order -/
def charCalls (log : List Ev) (c : CharId) : List Val :=
  log.filterMap (fun e => match e with
    | .char c' v => if c' = c then some v else none
    | _ => none)

/-- arguments of the invocations of the setter_callback of service `s` of accessory `a` -/
def svcCalls (log : List Ev) (a s : Nat) : List (List Upd) :=
  log.filterMap (fun e => match e with
    | .svc a' s' args => if a' = a ∧ s' = s then some args else none
    | _ => none)

/-- arguments of the invocations of the setter_callback of accessory `a` -/
def accCalls (log : List Ev) (a : Nat) : List (List (Nat × List Upd)) :=
  log.filterMap (fun e => match e with
    | .acc a' args => if a' = a then some args else none
    | _ => none)

/-- the entries of a batch address pairwise distinct characteristics -/
def Distinct (qs : List Query) : Prop := (qs.map (·.id)).Nodup

theorem Distinct.filter {qs : List Query} (h : Distinct qs) (p : Query → Bool) :
    Distinct (qs.filter p) :=
  List.Nodup.sublist ((List.filter_sublist (l := qs) (p := p)).map _) h

theorem storeAll_not_mem (qs : List Query) (vals : CharId → Val) (c : CharId)
    (h : ∀ p ∈ qs, p.id ≠ c) : storeAll vals qs c = vals c := by
  induction qs generalizing vals with
  | nil => rfl
  | cons p ps ih =>
    simp only [storeAll]
    rw [ih _ (fun p' hp' => h p' (List.mem_cons_of_mem _ hp'))]
    have hp : p.id ≠ c := h p (List.mem_cons_self ..)
    unfold store
    cases p.valid with
    | none => rfl
    | some n => simp [Ne.symm hp]

theorem storeAll_of_mem (qs : List Query) (vals : CharId → Val) (q : Query) (n : Val)
    (hd : Distinct qs) (hq : q ∈ qs) (hv : q.valid = some n) : storeAll vals qs q.id = n := by
  induction qs generalizing vals with
  | nil => cases hq
  | cons p ps ih =>
    simp only [Distinct, List.map_cons, List.nodup_cons, List.mem_map, not_exists, not_and] at hd
    simp only [storeAll]
    rcases List.mem_cons.1 hq with rfl | hq'
    · rw [storeAll_not_mem _ _ _ (fun p' hp' => hd.1 p' hp')]
      simp [store, hv]
    · exact ih _ hd.2 hq'

/-- value handed to the characteristic's own callback, if it is invoked -/
def calledVal (q : Query) : Option Val :=
  match q.valid, q.cb with
  | some n, .returns _ => some n
  | some n, .raises => some n
  | _, _ => none

theorem charCalls_append (l1 l2 : List Ev) (c : CharId) :
    charCalls (l1 ++ l2) c = charCalls l1 c ++ charCalls l2 c := by
  simp [charCalls, List.filterMap_append]

theorem svcCalls_append (l1 l2 : List Ev) (a s : Nat) :
    svcCalls (l1 ++ l2) a s = svcCalls l1 a s ++ svcCalls l2 a s := by
  simp [svcCalls, List.filterMap_append]

theorem accCalls_append (l1 l2 : List Ev) (a : Nat) :
    accCalls (l1 ++ l2) a = accCalls l1 a ++ accCalls l2 a := by
  simp [accCalls, List.filterMap_append]

theorem charCalls_called (q : Query) (c : CharId) :
    charCalls (called q).toList c = if q.id = c then (calledVal q).toList else [] := by
  unfold called calledVal charCalls
  cases q.valid with
  | none => simp
  | some n => cases q.cb <;> by_cases h : q.id = c <;> simp [h]

theorem charCalls_loop_not_mem (qs : List Query) (c : CharId) (h : ∀ p ∈ qs, p.id ≠ c) :
    charCalls (qs.filterMap called) c = [] := by
  induction qs with
  | nil => rfl
  | cons p ps ih =>
    have : (p :: ps).filterMap called = (called p).toList ++ ps.filterMap called := by
      simp only [List.filterMap_cons]; cases called p <;> simp
    rw [this, charCalls_append, charCalls_called, ih (fun p' hp' => h p' (List.mem_cons_of_mem _ hp'))]
    simp [h p (List.mem_cons_self ..)]

theorem charCalls_loop_of_mem (qs : List Query) (q : Query) (hd : Distinct qs) (hq : q ∈ qs) :
    charCalls (qs.filterMap called) q.id = (calledVal q).toList := by
  induction qs with
  | nil => cases hq
  | cons p ps ih =>
    have : (p :: ps).filterMap called = (called p).toList ++ ps.filterMap called := by
      simp only [List.filterMap_cons]; cases called p <;> simp
    simp only [Distinct, List.map_cons, List.nodup_cons, List.mem_map, not_exists, not_and] at hd
    rw [this, charCalls_append, charCalls_called]
    rcases List.mem_cons.1 hq with rfl | hq'
    · rw [charCalls_loop_not_mem _ _ (fun p' hp' => hd.1 p' hp')]; simp
    · have hne : p.id ≠ q.id := fun h => hd.1 q hq' h.symm
      rw [ih hd.2 hq']; simp [hne]


theorem nodup_svcsOf (T : Topo) (ups : List Upd) (a : Nat) : (svcsOf T ups a).Nodup := nodup_firsts _
theorem nodup_accsOf (ups : List Upd) : (accsOf ups).Nodup := nodup_firsts _

theorem filterMap_flatMap_nodup {α β γ : Type} [DecidableEq α] (l : List α) (f : α → List β) (g : β → Option γ) (a : α)
    (hn : l.Nodup) (hz : ∀ b ∈ l, b ≠ a → (f b).filterMap g = []) :
    (l.flatMap f).filterMap g = if a ∈ l then (f a).filterMap g else [] := by
  induction l with
  | nil => simp
  | cons b t ih =>
    simp only [List.nodup_cons] at hn
    have iht := ih hn.2 (fun b' hb' => hz b' (List.mem_cons_of_mem _ hb'))
    simp only [List.flatMap_cons, List.filterMap_append, iht, List.mem_cons]
    by_cases hba : b = a
    · subst hba; simp [hn.1]
    · rw [hz b (List.mem_cons_self ..) hba]
      have : (a = b) = False := by simp; exact fun h => hba h.symm
      simp [this]

theorem upperCalls_loop (qs : List Query) (a s : Nat) :
    svcCalls (qs.filterMap called) a s = [] ∧ accCalls (qs.filterMap called) a = [] := by
  constructor
  · unfold svcCalls
    rw [List.filterMap_eq_nil_iff]
    intro e he
    obtain ⟨q, _, hq⟩ := List.mem_filterMap.1 he
    unfold called at hq
    cases hv : q.valid <;> cases hc : q.cb <;> simp [hv, hc] at hq <;> subst hq <;> rfl
  · unfold accCalls
    rw [List.filterMap_eq_nil_iff]
    intro e he
    obtain ⟨q, _, hq⟩ := List.mem_filterMap.1 he
    unfold called at hq
    cases hv : q.valid <;> cases hc : q.cb <;> simp [hv, hc] at hq <;> subst hq <;> rfl

theorem charCalls_pass (T : Topo) (ups : List Upd) (as : List Nat) (c : CharId) :
    charCalls (as.flatMap (passEvs T ups)) c = [] := by
  unfold charCalls
  rw [List.filterMap_eq_nil_iff]
  intro e he
  obtain ⟨a, _, hea⟩ := List.mem_flatMap.1 he
  unfold passEvs accEvs at hea
  rcases List.mem_append.1 hea with h | h
  · by_cases hc : T.accCb a <;> simp [hc] at h; subst h; rfl
  · obtain ⟨s, _, hs⟩ := List.mem_flatMap.1 h
    unfold svcEvs at hs
    by_cases hc : T.svcCb a s <;> simp [hc] at hs; subst hs; rfl

theorem svcCalls_svcEvs (T : Topo) (ups : List Upd) (a' s' a s : Nat) :
    svcCalls (svcEvs T ups a' s') a s =
      if a' = a ∧ s' = s ∧ T.svcCb a s = true then [svcGroup T ups a s] else [] := by
  unfold svcEvs svcCalls
  by_cases hc : T.svcCb a' s' <;> by_cases ha : a' = a <;> by_cases hs : s' = s <;> simp_all

theorem svcCalls_passEvs (T : Topo) (ups : List Upd) (a' a s : Nat) :
    svcCalls (passEvs T ups a') a s =
      if a' = a ∧ s ∈ svcsOf T ups a ∧ T.svcCb a s = true then [svcGroup T ups a s] else [] := by
  unfold passEvs
  rw [svcCalls_append]
  have h1 : svcCalls (accEvs T ups a') a s = [] := by
    unfold accEvs svcCalls; by_cases hc : T.accCb a' <;> simp [hc]
  rw [h1, List.nil_append]
  unfold svcCalls
  rw [filterMap_flatMap_nodup _ _ _ s (nodup_svcsOf T ups a')]
  · have := svcCalls_svcEvs T ups a' s a s
    unfold svcCalls at this
    rw [this]
    by_cases ha : a' = a
    · subst ha; by_cases hs : s ∈ svcsOf T ups a' <;> simp [hs]
    · simp [ha]
  · intro s' _ hne
    have := svcCalls_svcEvs T ups a' s' a s
    unfold svcCalls at this
    rw [this]; simp [hne]

/-- the service callback of `(a, s)` is invoked once if the request reaches the service, never otherwise -/
theorem svcCalls_pass (T : Topo) (ups : List Upd) (a s : Nat) :
    svcCalls ((accsOf ups).flatMap (passEvs T ups)) a s =
      if a ∈ accsOf ups ∧ s ∈ svcsOf T ups a ∧ T.svcCb a s = true then [svcGroup T ups a s] else [] := by
  unfold svcCalls
  rw [filterMap_flatMap_nodup _ _ _ a (nodup_accsOf ups)]
  · have := svcCalls_passEvs T ups a a s
    unfold svcCalls at this
    rw [this]
    by_cases ha : a ∈ accsOf ups <;> simp [ha]
  · intro a' _ hne
    have := svcCalls_passEvs T ups a' a s
    unfold svcCalls at this
    rw [this]; simp [hne]

theorem accCalls_passEvs (T : Topo) (ups : List Upd) (a' a : Nat) :
    accCalls (passEvs T ups a') a =
      if a' = a ∧ T.accCb a = true
      then [(svcsOf T ups a).map (fun s => (s, svcGroup T ups a s))] else [] := by
  unfold passEvs
  rw [accCalls_append]
  have h2 : accCalls ((svcsOf T ups a').flatMap (svcEvs T ups a')) a = [] := by
    unfold accCalls
    rw [List.filterMap_eq_nil_iff]
    intro e he
    obtain ⟨s, _, hs⟩ := List.mem_flatMap.1 he
    unfold svcEvs at hs
    by_cases hc : T.svcCb a' s <;> simp [hc] at hs; subst hs; rfl
  rw [h2, List.append_nil]
  unfold accEvs accCalls
  by_cases hc : T.accCb a' <;> by_cases ha : a' = a <;> simp_all

/-- the accessory callback of `a` is invoked once if the request reaches the accessory -/
theorem accCalls_pass (T : Topo) (ups : List Upd) (a : Nat) :
    accCalls ((accsOf ups).flatMap (passEvs T ups)) a =
      if a ∈ accsOf ups ∧ T.accCb a = true
      then [(svcsOf T ups a).map (fun s => (s, svcGroup T ups a s))] else [] := by
  unfold accCalls
  rw [filterMap_flatMap_nodup _ _ _ a (nodup_accsOf ups)]
  · have := accCalls_passEvs T ups a a
    unfold accCalls at this
    rw [this]
    by_cases ha : a ∈ accsOf ups <;> simp [ha]
  · intro a' _ hne
    have := accCalls_passEvs T ups a' a
    unfold accCalls at this
    rw [this]; simp [hne]


/-! ### small facts used by the property theorems -/

theorem distinct_inj {qs : List Query} (hd : Distinct qs) {q q' : Query} (hq : q ∈ qs) (hq' : q' ∈ qs)
    (hid : q'.id = q.id) : q' = q := by
  induction qs with
  | nil => cases hq
  | cons p ps ih =>
    simp only [Distinct, List.map_cons, List.nodup_cons, List.mem_map, not_exists, not_and] at hd
    rcases List.mem_cons.1 hq with rfl | h1 <;> rcases List.mem_cons.1 hq' with rfl | h2
    · rfl
    · exact absurd hid (hd.1 q' h2)
    · exact absurd hid.symm (hd.1 q h1)
    · exact ih hd.2 h1 h2

theorem ov_eq_zero {r : Option Int} {s : Int} (h : ov r s = 0) : s = 0 ∧ (r = none ∨ r = some 0) := by
  unfold ov at h
  cases r with
  | none => exact ⟨h, Or.inl rfl⟩
  | some x =>
    by_cases hx : x = 0
    · simp [hx] at h; exact ⟨h, Or.inr (by rw [hx])⟩
    · simp [hx] at h

theorem pyOr_ok {a b : Option Int} (h : pyOr a b = none ∨ pyOr a b = some 0) :
    (a = none ∨ a = some 0) ∧ (b = none ∨ b = some 0) := by
  unfold pyOr at h
  cases a with
  | none => exact ⟨Or.inl rfl, h⟩
  | some x =>
    by_cases hx : x = 0
    · subst hx; simp at h; exact ⟨Or.inr rfl, h⟩
    · simp [hx] at h

theorem cbResult_ok {b : Bool} (h : some (cbResult b) = none ∨ some (cbResult b) = some 0) : b = false := by
  cases b with
  | false => rfl
  | true => simp [cbResult, FAIL] at h

/-- a refused timed write (repaired code): nothing runs, nothing is collected -/
theorem expired_facts (nu : Bool) (T : Topo) (B : Behav) (vals : CharId → Val) (qs : List Query) :
    (setChars true nu T B true vals qs).vals = vals ∧ (setChars true nu T B true vals qs).log = [] ∧
    ∀ x, x ∈ (setChars true nu T B true vals qs).chars ↔ ∃ q ∈ qs, x = (q.id, ⟨INVALID, none⟩) := by
  refine ⟨?_, ?_, ?_⟩
  · rw [setChars_vals]
    have : qs.filter (fun q => answered true q && runs true true q) = [] := by
      rw [List.filter_eq_nil_iff]; intro q _; simp [runs]
    rw [this]; rfl
  · rw [setChars_log]; simp [runs, upsOf, accsOf, firsts]
  · intro x
    rw [mem_chars]
    simp [answered, entryRes, res0, runs]

theorem storeAll_unchanged (qs : List Query) (vals : CharId → Val) (c : CharId)
    (h : ∀ p ∈ qs, p.id = c → p.valid = none) : storeAll vals qs c = vals c := by
  induction qs generalizing vals with
  | nil => rfl
  | cons p ps ih =>
    simp only [storeAll]
    rw [ih _ (fun p' hp' => h p' (List.mem_cons_of_mem _ hp'))]
    unfold store
    cases hv : p.valid with
    | none => rfl
    | some n =>
      have : p.id ≠ c := fun hid => by have := h p (List.mem_cons_self ..) hid; simp [hv] at this
      simp [Ne.symm this]

/-- a write-response value is due for the entry -/
def WrDue (fixed expired : Bool) (q : Query) : Prop :=
  runs fixed expired q = true ∧ q.wr = true ∧ ∃ n r, q.valid = some n ∧ q.cb = CharCb.returns (some r)

theorem res0_value_none (fixed expired : Bool) (q : Query) :
    (res0 fixed expired q).value = none ↔ ¬ WrDue fixed expired q := by
  unfold res0 WrDue charOutcome
  by_cases hr : runs fixed expired q = true <;> by_cases hw : q.wr = true <;> simp [hr, hw]
  cases hv : q.valid with
  | none => simp
  | some n =>
    cases hc : q.cb with
    | absent => simp
    | raises => simp
    | returns r => cases r <;> simp

/-- everything the request does to / says about one entry, as a function of that entry alone
    (plus the callbacks of its own service and accessory and the expiry decision) -/
theorem entry_closed_form (nu : Bool) (T : Topo) (B : Behav) (expired : Bool) (vals : CharId → Val)
    (qs : List Query) (hd : Distinct qs) (q : Query) (hq : q ∈ qs) :
    (∀ r, (q.id, r) ∈ (setChars true nu T B expired vals qs).chars ↔
        (answered expired q = true ∧ r = entryRes true expired T B q)) ∧
    (setChars true nu T B expired vals qs).vals q.id =
        (if (answered expired q && runs true expired q) = true
         then (match q.valid with | some n => n | none => vals q.id) else vals q.id) ∧
    charCalls (setChars true nu T B expired vals qs).log q.id =
        (if (answered expired q && runs true expired q) = true then (calledVal q).toList else []) := by
  refine ⟨?_, ?_, ?_⟩
  · intro r
    rw [mem_chars]
    constructor
    · rintro ⟨q', hq', ha', hx⟩
      have hid : q'.id = q.id := (congrArg Prod.fst hx).symm
      have := distinct_inj hd hq hq' hid
      subst this
      exact ⟨ha', congrArg Prod.snd hx⟩
    · rintro ⟨ha, rfl⟩; exact ⟨q, hq, ha, rfl⟩
  · rw [setChars_vals]
    by_cases hf : (answered expired q && runs true expired q) = true
    · have hmem : q ∈ qs.filter (fun q => answered expired q && runs true expired q) :=
        List.mem_filter.2 ⟨hq, hf⟩
      simp only [hf, if_true]
      cases hv : q.valid with
      | some n => exact storeAll_of_mem _ _ _ _ (hd.filter _) hmem hv
      | none =>
        apply storeAll_unchanged
        intro p hp hid
        have := distinct_inj hd hq (List.mem_filter.1 hp).1 hid
        subst this; exact hv
    · simp only [hf, if_false]
      apply storeAll_not_mem
      intro p hp hid
      have := distinct_inj hd hq (List.mem_filter.1 hp).1 hid
      subst this; exact hf (List.mem_filter.1 hp).2
  · rw [setChars_log, charCalls_append, charCalls_pass, List.append_nil]
    by_cases hf : (answered expired q && runs true expired q) = true
    · simp only [hf, if_true]
      exact charCalls_loop_of_mem _ _ (hd.filter _) (List.mem_filter.2 ⟨hq, hf⟩)
    · simp only [hf, if_false]
      apply charCalls_loop_not_mem
      intro p hp hid
      have := distinct_inj hd hq (List.mem_filter.1 hp).1 hid
      subst this; exact hf (List.mem_filter.1 hp).2

/-- invocation counts of the service / accessory callbacks of an entry that is carried out -/
theorem upper_calls (nu : Bool) (T : Topo) (B : Behav) (vals : CharId → Val) (qs : List Query) (q : Query)
    (hq : q ∈ qs) (ha : q.hasValue = true) :
    svcCalls (setChars true nu T B false vals qs).log q.id.aid (T.svc q.id) =
        (if T.svcCb q.id.aid (T.svc q.id) = true
         then [svcGroup T (upsOf true nu false qs) q.id.aid (T.svc q.id)] else []) ∧
    accCalls (setChars true nu T B false vals qs).log q.id.aid =
        (if T.accCb q.id.aid = true
         then [(svcsOf T (upsOf true nu false qs) q.id.aid).map
                (fun s => (s, svcGroup T (upsOf true nu false qs) q.id.aid s))] else []) ∧
    (q.id, upValue true nu false q) ∈ svcGroup T (upsOf true nu false qs) q.id.aid (T.svc q.id) ∧
    T.svc q.id ∈ svcsOf T (upsOf true nu false qs) q.id.aid := by
  have hups : (q.id, upValue true nu false q) ∈ upsOf true nu false qs := by
    simp only [upsOf, Bool.and_false, Bool.false_eq_true, if_false, List.mem_map, List.mem_filter]
    exact ⟨q, ⟨hq, by simp [answered, ha]⟩, rfl⟩
  have hacc : q.id.aid ∈ accsOf (upsOf true nu false qs) := (mem_accsOf _ _).2 ⟨_, hups, rfl⟩
  have hsvc : T.svc q.id ∈ svcsOf T (upsOf true nu false qs) q.id.aid :=
    (mem_svcsOf _ _ _ _).2 ⟨_, hups, rfl, rfl⟩
  refine ⟨?_, ?_, ?_, hsvc⟩
  · rw [setChars_log, svcCalls_append, (upperCalls_loop _ _ _).1, List.nil_append, svcCalls_pass]
    simp [hacc, hsvc]
  · rw [setChars_log, accCalls_append, (upperCalls_loop _ _ 0).2, List.nil_append, accCalls_pass]
    simp [hacc]
  · simp [svcGroup, List.mem_filter, hups]

/-! ### histories: prepare / advance / write / lose -/

/-- the op changes `prepared_writes[c][p]` -/
def Touches (c : Conn) (p : Pid) : Op → Prop
  | .prepare c' ttl pid => c' = c ∧ ttl.isSome = true ∧ pid = some p
  | .write c' b => c' = c ∧ b.pid = some p
  | .lose c' => c' = c
  | .advance _ => False

/-- Connection `c` holds a usable prepare for `p` with expiry `e` after the history `hrev`
    (most recent op first): some well-formed `prepare` of `p` by `c` at time `e - ttl`, and since
    then no write of `c` carrying `p`, no loss of `c`, and no newer prepare of `p` by `c`. -/
def LivePrep (fixed nu : Bool) (T : Topo) (s0 : State) (hrev : List Op) (c : Conn) (p : Pid) (e : Nat) : Prop :=
  ∃ later earlier ttl, hrev = later ++ Op.prepare c (some ttl) (some p) :: earlier ∧
    (∀ op ∈ later, ¬ Touches c p op) ∧ e = (runRev fixed nu T s0 earlier).now + ttl

theorem livePrep_cons (fixed nu : Bool) (T : Topo) (s0 : State) (op : Op) (h : List Op) (c : Conn) (p : Pid) (e : Nat) :
    LivePrep fixed nu T s0 (op :: h) c p e ↔
      (∃ ttl, op = Op.prepare c (some ttl) (some p) ∧ e = (runRev fixed nu T s0 h).now + ttl) ∨
      (¬ Touches c p op ∧ LivePrep fixed nu T s0 h c p e) := by
  constructor
  · rintro ⟨later, earlier, ttl, heq, hno, he⟩
    cases later with
    | nil =>
      simp only [List.nil_append, List.cons.injEq] at heq
      obtain ⟨h1, h2⟩ := heq
      subst h1 h2
      exact Or.inl ⟨ttl, rfl, he⟩
    | cons o later' =>
      simp only [List.cons_append, List.cons.injEq] at heq
      obtain ⟨h1, h2⟩ := heq
      subst h1 h2
      exact Or.inr ⟨hno _ (List.mem_cons_self ..),
        later', earlier, ttl, rfl, fun o' ho' => hno o' (List.mem_cons_of_mem _ ho'), he⟩
  · rintro (⟨ttl, rfl, he⟩ | ⟨hnt, later, earlier, ttl, rfl, hno, he⟩)
    · exact ⟨[], h, ttl, rfl, by simp, he⟩
    · refine ⟨op :: later, earlier, ttl, rfl, ?_, he⟩
      intro o ho
      rcases List.mem_cons.1 ho with rfl | ho'
      · exact hnt
      · exact hno o ho'

theorem step_prep_untouched (fixed nu : Bool) (T : Topo) (s : State) (op : Op) (c : Conn) (p : Pid)
    (h : ¬ Touches c p op) : (step fixed nu T s op).prep c p = s.prep c p := by
  cases op with
  | prepare c' ttl pid =>
    cases ttl with
    | none => cases pid <;> rfl
    | some t =>
      cases pid with
      | none => rfl
      | some p' =>
        simp only [Touches, Option.isSome_some, Option.some.injEq, true_and] at h
        have : ¬ (c = c' ∧ p = p') := fun ⟨h1, h2⟩ => h ⟨h1.symm, h2.symm⟩
        simp [step, prepare, this]
  | advance dt => rfl
  | write c' b =>
    simp only [step, write, popPid]
    cases hb : b.pid with
    | none => rfl
    | some p' =>
      simp only [Touches, hb, Option.some.injEq] at h
      have : ¬ (c = c' ∧ p = p') := fun ⟨h1, h2⟩ => h ⟨h1.symm, h2.symm⟩
      simp [this]
  | lose c' =>
    simp only [Touches] at h
    have : ¬ c = c' := fun h1 => h h1.symm
    simp [step, lose, this]

theorem step_prep_touched (fixed nu : Bool) (T : Topo) (s : State) (op : Op) (c : Conn) (p : Pid)
    (h : Touches c p op) :
    (step fixed nu T s op).prep c p =
      match op with
      | .prepare _ (some ttl) (some _) => some (s.now + ttl)
      | _ => none := by
  cases op with
  | prepare c' ttl pid =>
    simp only [Touches] at h
    obtain ⟨rfl, h2, rfl⟩ := h
    cases ttl with
    | none => simp at h2
    | some t => simp [step, prepare]
  | advance dt => simp [Touches] at h
  | write c' b =>
    simp only [Touches] at h
    simp [step, write, popPid, h.2, h.1]
  | lose c' =>
    simp only [Touches] at h
    simp [step, lose, h]

/-- the invariant on `prepared_writes`: the table holds exactly the live prepares -/
theorem prep_iff_live (fixed nu : Bool) (T : Topo) (s0 : State) (h0 : ∀ c p, s0.prep c p = none)
    (hrev : List Op) (c : Conn) (p : Pid) (e : Nat) :
    (runRev fixed nu T s0 hrev).prep c p = some e ↔ LivePrep fixed nu T s0 hrev c p e := by
  induction hrev generalizing e with
  | nil =>
    simp only [runRev, h0, LivePrep]
    constructor
    · intro h; cases h
    · rintro ⟨later, earlier, ttl, heq, _⟩; cases later <;> simp at heq
  | cons op h ih =>
    rw [livePrep_cons, runRev]
    by_cases ht : Touches c p op
    · rw [step_prep_touched _ _ _ _ _ _ _ ht]
      cases op with
      | prepare c' ttl pid =>
        simp only [Touches] at ht
        obtain ⟨rfl, h2, rfl⟩ := ht
        cases ttl with
        | none => simp at h2
        | some t =>
          simp only [Option.some.injEq]
          constructor
          · intro he; exact Or.inl ⟨t, rfl, he.symm⟩
          · rintro (⟨ttl, heq, he⟩ | ⟨hnt, _⟩)
            · simp only [Op.prepare.injEq, Option.some.injEq, true_and, and_true] at heq
              subst heq; exact he.symm
            · exact absurd (show Touches c' p (Op.prepare c' (some t) (some p)) from ⟨rfl, rfl, rfl⟩) hnt
      | advance dt => simp [Touches] at ht
      | write c' b =>
        simp only [ht, not_true_eq_false, false_and, or_false]
        constructor
        · intro h; cases h
        · rintro ⟨ttl, heq, _⟩; cases heq
      | lose c' =>
        simp only [ht, not_true_eq_false, false_and, or_false]
        constructor
        · intro h; cases h
        · rintro ⟨ttl, heq, _⟩; cases heq
    · rw [step_prep_untouched _ _ _ _ _ _ _ ht, ih]
      constructor
      · intro hl; exact Or.inr ⟨ht, hl⟩
      · rintro (⟨ttl, rfl, _⟩ | ⟨_, hl⟩)
        · exact absurd (show Touches c p (Op.prepare c (some ttl) (some p)) from ⟨rfl, rfl, rfl⟩) ht
        · exact hl


/-! ### insertion-ordered dicts: why `firsts` + `filter` denote them -/

/-- `d[k]... = x` on a `defaultdict(list)`-like insertion-ordered dict: append to the group of `k`,
    creating it at the end -/
def insGroup {κ α : Type} [DecidableEq κ] (k : κ) (x : α) : List (κ × List α) → List (κ × List α)
  | [] => [(k, [x])]
  | (k', g) :: t => if k' = k then (k', g ++ [x]) :: t else (k', g) :: insGroup k x t

/-- keys in first-insertion order, each with the sub-list of its elements -/
def groupsOf {κ α : Type} [DecidableEq κ] (key : α → κ) (l : List α) : List (κ × List α) :=
  (firsts (l.map key)).map (fun k => (k, l.filter (fun x => key x = k)))

theorem firsts_snoc {κ : Type} [DecidableEq κ] (l : List κ) (k : κ) :
    firsts (l ++ [k]) = if k ∈ l then firsts l else firsts l ++ [k] := by
  induction l with
  | nil => simp [firsts]
  | cons a t ih =>
    simp only [List.cons_append, firsts, ih, List.mem_cons]
    by_cases hkt : k ∈ t
    · simp [hkt]
    · by_cases hka : k = a
      · subst hka; simp [hkt, List.filter_append]
      · simp [hkt, hka, List.filter_append]

theorem insGroup_map {κ α : Type} [DecidableEq κ] (key : α → κ) (l0 : List α) (x : α) (M : List κ)
    (hn : M.Nodup) :
    insGroup (key x) x (M.map (fun k => (k, l0.filter (fun y => key y = k)))) =
      (M.map (fun k => (k, (l0 ++ [x]).filter (fun y => key y = k)))) ++
        (if key x ∈ M then [] else [(key x, [x])]) := by
  induction M with
  | nil => simp [insGroup]
  | cons a t ih =>
    simp only [List.nodup_cons] at hn
    simp only [List.map_cons, insGroup, List.mem_cons]
    by_cases ha : a = key x
    · subst ha
      have : ∀ k ∈ t, (l0 ++ [x]).filter (fun y => key y = k) = l0.filter (fun y => key y = k) := by
        intro k hk
        have : key x ≠ k := fun h => hn.1 (h ▸ hk)
        simp [List.filter_append, this]
      have hm : t.map (fun k => (k, (l0 ++ [x]).filter (fun y => key y = k)))
          = t.map (fun k => (k, l0.filter (fun y => key y = k))) :=
        List.map_congr_left (fun k hk => by rw [this k hk])
      simp [hm, List.filter_append]
      intro a ha h; exact hn.1 (h ▸ ha)
    · have hne : key x ≠ a := fun h => ha h.symm
      simp only [ha, if_false, ih hn.2, hne, false_or]
      simp [List.filter_append, hne]

/-- Building the dict by insertion gives exactly `firsts` (keys) + `filter` (groups): the way
    `Writes.lean` denotes `results[aid]`, `updates[acc]`, `updates[acc][service]`. -/
theorem insertion_order_groups {κ α : Type} [DecidableEq κ] (key : α → κ) (l0 l : List α) :
    l.foldl (fun m x => insGroup (key x) x m) (groupsOf key l0) = groupsOf key (l0 ++ l) := by
  induction l generalizing l0 with
  | nil => simp
  | cons x l ih =>
    have step : insGroup (key x) x (groupsOf key l0) = groupsOf key (l0 ++ [x]) := by
      unfold groupsOf
      rw [insGroup_map key l0 x _ (nodup_firsts _), List.map_append, List.map_cons, List.map_nil,
        firsts_snoc]
      by_cases h : key x ∈ firsts (l0.map key)
      · have h' : key x ∈ l0.map key := (mem_firsts _ _).1 h
        simp [h, h']
      · have h' : ¬ key x ∈ l0.map key := fun hh => h ((mem_firsts _ _).2 hh)
        simp [h, h', List.filter_append]
        intro y hy hk; exact absurd (List.mem_map.2 ⟨y, hy, hk⟩) h'
    rw [List.foldl_cons, step, ih, List.append_assoc]; rfl

end Hap.Writes
