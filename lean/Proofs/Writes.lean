/-
  Lemmas about the Writes model (C10). Core only.
-/
import HapModel.Writes
set_option linter.unusedSimpArgs false
set_option linter.unusedVariables false
namespace Hap.Writes

/-! ### `firsts` : keys of an insertion-ordered dict -/

theorem mem_firsts {κ : Type} [DecidableEq κ] (l : List κ) (x : κ) : x ∈ firsts l ↔ x ∈ l := by
  induction l with
  | nil => simp [firsts]
  | cons k t ih =>
    simp only [firsts, List.mem_cons, List.mem_filter, ih]
    by_cases h : x = k <;> simp [h]

theorem nodup_firsts {κ : Type} [DecidableEq κ] (l : List κ) : (firsts l).Nodup := by
  induction l with
  | nil => simp [firsts]
  | cons k t ih =>
    simp only [firsts, List.nodup_cons, List.mem_filter]
    exact ⟨by simp, ih.filter _⟩

/-! ### Python `or` and the status override -/

/-- effect of `set_result = char_set_result or acc_set_result; if not set_result: continue;
    status = set_result` on one status -/
def ov (r : Option Int) (st0 : Int) : Int :=
  match r with
  | some x => if x = 0 then st0 else x
  | none => st0

theorem ov_idem (r : Option Int) (s : Int) : ov r (ov r s) = ov r s := by
  unfold ov; cases r with
  | none => rfl
  | some x => by_cases h : x = 0 <;> simp [h]


/-! ### insertion-ordered dicts with overwrite: `upsert`, and "the last entry for a key" -/

/-- the dict after the stores `m[x.1] = x.2` for `x` in `l`, in order -/
def upsertAll {κ α : Type} [DecidableEq κ] : List (κ × α) → List (κ × α) → List (κ × α)
  | m, [] => m
  | m, x :: t => upsertAll (upsert x.1 x.2 m) t

theorem keys_upsert {κ α : Type} [DecidableEq κ] (k : κ) (v : α) (m : List (κ × α)) :
    (upsert k v m).map Prod.fst =
      if k ∈ m.map Prod.fst then m.map Prod.fst else m.map Prod.fst ++ [k] := by
  induction m with
  | nil => simp [upsert]
  | cons y t ih =>
    obtain ⟨k', v'⟩ := y
    by_cases h : k' = k
    · subst h; simp [upsert]
    · have h' : ¬ k = k' := fun e => h e.symm
      simp only [upsert, h, if_false, List.map_cons, ih, List.mem_cons, h', false_or]
      by_cases hk : k ∈ t.map Prod.fst <;> simp [hk]

theorem nodup_keys_upsert {κ α : Type} [DecidableEq κ] (k : κ) (v : α) (m : List (κ × α))
    (h : (m.map Prod.fst).Nodup) : ((upsert k v m).map Prod.fst).Nodup := by
  rw [keys_upsert]
  by_cases hk : k ∈ m.map Prod.fst
  · simp only [hk, if_true]; exact h
  · simp only [hk, if_false]
    rw [List.nodup_append]
    refine ⟨h, by simp, ?_⟩
    intro a ha b hb
    simp only [List.mem_singleton] at hb
    subst hb; intro e; subst e; exact hk ha

theorem mem_upsert {κ α : Type} [DecidableEq κ] (k : κ) (v : α) (m : List (κ × α))
    (h : (m.map Prod.fst).Nodup) (x : κ × α) :
    x ∈ upsert k v m ↔ x = (k, v) ∨ (x ∈ m ∧ x.1 ≠ k) := by
  induction m with
  | nil => simp [upsert]
  | cons y t ih =>
    obtain ⟨k', v'⟩ := y
    simp only [List.map_cons, List.nodup_cons] at h
    by_cases hk : k' = k
    · subst hk
      simp only [upsert, if_true, List.mem_cons]
      constructor
      · rintro (rfl | hx)
        · exact Or.inl rfl
        · refine Or.inr ⟨Or.inr hx, ?_⟩
          intro e; exact h.1 (e ▸ List.mem_map.2 ⟨x, hx, rfl⟩)
      · rintro (rfl | ⟨rfl | hx, hne⟩)
        · exact Or.inl rfl
        · exact absurd rfl hne
        · exact Or.inr hx
    · simp only [upsert, hk, if_false, List.mem_cons, ih h.2]
      constructor
      · rintro (rfl | rfl | ⟨hx, hne⟩)
        · exact Or.inr ⟨Or.inl rfl, hk⟩
        · exact Or.inl rfl
        · exact Or.inr ⟨Or.inr hx, hne⟩
      · rintro (rfl | ⟨rfl | hx, hne⟩)
        · exact Or.inr (Or.inl rfl)
        · exact Or.inl rfl
        · exact Or.inr (Or.inr ⟨hx, hne⟩)

theorem nodup_keys_upsertAll {κ α : Type} [DecidableEq κ] (l m : List (κ × α))
    (h : (m.map Prod.fst).Nodup) : ((upsertAll m l).map Prod.fst).Nodup := by
  induction l generalizing m with
  | nil => exact h
  | cons x t ih => exact ih _ (nodup_keys_upsert _ _ _ h)

theorem keys_upsertAll {κ α : Type} [DecidableEq κ] (l m : List (κ × α)) (k : κ) :
    k ∈ (upsertAll m l).map Prod.fst ↔ k ∈ m.map Prod.fst ∨ k ∈ l.map Prod.fst := by
  induction l generalizing m with
  | nil => simp [upsertAll]
  | cons x t ih =>
    simp only [upsertAll, ih, keys_upsert, List.map_cons, List.mem_cons]
    by_cases hk : x.1 ∈ m.map Prod.fst
    · simp only [hk, if_true]
      constructor
      · rintro (h | h)
        · exact Or.inl h
        · exact Or.inr (Or.inr h)
      · rintro (h | rfl | h)
        · exact Or.inl h
        · exact Or.inl hk
        · exact Or.inr h
    · simp only [hk, if_false, List.mem_append, List.mem_singleton]
      constructor
      · rintro ((h | h) | h)
        · exact Or.inl h
        · exact Or.inr (Or.inl h)
        · exact Or.inr (Or.inr h)
      · rintro (h | h | h)
        · exact Or.inl (Or.inl h)
        · exact Or.inl (Or.inr h)
        · exact Or.inr h

/-- `x` is the last element of `l` with its key -/
def LastBy {α κ : Type} (key : α → κ) : List α → α → Prop
  | [], _ => False
  | y :: t, x => (x = y ∧ ∀ z ∈ t, key z ≠ key x) ∨ LastBy key t x

theorem LastBy.mem {α κ : Type} {key : α → κ} {l : List α} {a : α} (h : LastBy key l a) : a ∈ l := by
  induction l with
  | nil => exact h.elim
  | cons y t ih =>
    rcases h with ⟨rfl, _⟩ | h
    · exact List.mem_cons_self ..
    · exact List.mem_cons_of_mem _ (ih h)

theorem lastBy_split {α κ : Type} (key : α → κ) (l : List α) (a : α) :
    LastBy key l a ↔ ∃ l1 l2, l = l1 ++ a :: l2 ∧ ∀ z ∈ l2, key z ≠ key a := by
  induction l with
  | nil => simp [LastBy]
  | cons y t ih =>
    simp only [LastBy, ih]
    constructor
    · rintro (⟨rfl, h⟩ | ⟨l1, l2, rfl, h⟩)
      · exact ⟨[], t, rfl, h⟩
      · exact ⟨y :: l1, l2, rfl, h⟩
    · rintro ⟨l1, l2, he, h⟩
      cases l1 with
      | nil =>
        simp only [List.nil_append, List.cons.injEq] at he
        obtain ⟨rfl, rfl⟩ := he
        exact Or.inl ⟨rfl, h⟩
      | cons y' l1' =>
        simp only [List.cons_append, List.cons.injEq] at he
        obtain ⟨rfl, rfl⟩ := he
        exact Or.inr ⟨l1', l2, rfl, h⟩

/-- every key that occurs has a last entry -/
theorem lastBy_exists {α κ : Type} (key : α → κ) (l : List α) (a : α) (h : a ∈ l) :
    ∃ b, LastBy key l b ∧ key b = key a := by
  induction l generalizing a with
  | nil => cases h
  | cons y t ih =>
    by_cases hex : ∃ z ∈ t, key z = key a
    · obtain ⟨z, hz, hk⟩ := hex
      obtain ⟨b, hb, hkb⟩ := ih z hz
      exact ⟨b, Or.inr hb, hkb.trans hk⟩
    · rcases List.mem_cons.1 h with rfl | h'
      · exact ⟨a, Or.inl ⟨rfl, fun z hz e => hex ⟨z, hz, e⟩⟩, rfl⟩
      · exact absurd ⟨a, h', rfl⟩ hex

/-- … and only one -/
theorem lastBy_unique {α κ : Type} (key : α → κ) (l : List α) (a b : α)
    (ha : LastBy key l a) (hb : LastBy key l b) (hk : key a = key b) : a = b := by
  induction l with
  | nil => exact ha.elim
  | cons y t ih =>
    rcases ha with ⟨rfl, h1⟩ | ha <;> rcases hb with ⟨rfl, h2⟩ | hb
    · rfl
    · exact absurd hk.symm (h1 b hb.mem)
    · exact absurd hk (h2 a ha.mem)
    · exact ih ha hb

theorem lastBy_of_nodup {α κ : Type} (key : α → κ) (l : List α) (h : (l.map key).Nodup) (a : α) :
    LastBy key l a ↔ a ∈ l := by
  constructor
  · exact LastBy.mem
  · intro ha
    induction l with
    | nil => cases ha
    | cons y t ih =>
      simp only [List.map_cons, List.nodup_cons, List.mem_map, not_exists, not_and] at h
      rcases List.mem_cons.1 ha with rfl | ha'
      · exact Or.inl ⟨rfl, fun z hz => h.1 z hz⟩
      · exact Or.inr (ih h.2 ha')

theorem LastBy.filter {α κ : Type} {key : α → κ} {l : List α} {a : α} (h : LastBy key l a)
    (p : α → Bool) (hp : p a = true) : LastBy key (l.filter p) a := by
  induction l with
  | nil => exact h.elim
  | cons y t ih =>
    rcases h with ⟨rfl, h1⟩ | h
    · simp only [List.filter_cons, hp, if_true]
      exact Or.inl ⟨rfl, fun z hz => h1 z (List.mem_filter.1 hz).1⟩
    · by_cases hy : p y = true
      · simp only [List.filter_cons, hy, if_true]; exact Or.inr (ih h)
      · simp only [List.filter_cons, hy]; exact ih h

/-- the dict built by the stores `d[key a] = f a`, `a` in `l`, holds exactly the last entry of every key -/
theorem mem_upsertAll_map {α κ β : Type} [DecidableEq κ] (key : α → κ) (f : α → β) (l : List α)
    (m : List (κ × β)) (hm : (m.map Prod.fst).Nodup) (x : κ × β) :
    x ∈ upsertAll m (l.map fun a => (key a, f a)) ↔
      (∃ a, LastBy key l a ∧ x = (key a, f a)) ∨ (x ∈ m ∧ ∀ z ∈ l, key z ≠ x.1) := by
  induction l generalizing m with
  | nil => simp [upsertAll, LastBy]
  | cons y t ih =>
    simp only [List.map_cons, upsertAll]
    rw [ih _ (nodup_keys_upsert _ _ _ hm), mem_upsert _ _ _ hm]
    constructor
    · rintro (⟨a, ha, rfl⟩ | ⟨rfl | ⟨hx, hne⟩, hall⟩)
      · exact Or.inl ⟨a, Or.inr ha, rfl⟩
      · exact Or.inl ⟨y, Or.inl ⟨rfl, hall⟩, rfl⟩
      · refine Or.inr ⟨hx, ?_⟩
        intro z hz
        rcases List.mem_cons.1 hz with rfl | hz'
        · exact fun e => hne e.symm
        · exact hall z hz'
    · rintro (⟨a, ⟨rfl, hl⟩ | ha, rfl⟩ | ⟨hx, hall⟩)
      · exact Or.inr ⟨Or.inl rfl, hl⟩
      · exact Or.inl ⟨a, ha, rfl⟩
      · exact Or.inr ⟨Or.inr ⟨hx, fun e => hall y (List.mem_cons_self ..) e.symm⟩,
          fun z hz => hall z (List.mem_cons_of_mem _ hz)⟩

/-- without repeated keys the stores are plain appends -/
theorem upsertAll_nodup {κ α : Type} [DecidableEq κ] (l m : List (κ × α))
    (h : ((m ++ l).map Prod.fst).Nodup) : upsertAll m l = m ++ l := by
  induction l generalizing m with
  | nil => simp [upsertAll]
  | cons x t ih =>
    have hx : x.1 ∉ m.map Prod.fst := by
      intro hmem
      rw [List.map_append, List.nodup_append] at h
      exact h.2.2 _ hmem _ (by simp) rfl
    have hu : upsert x.1 x.2 m = m ++ [x] := by
      clear ih h
      induction m with
      | nil => rfl
      | cons y m' ihm =>
        simp only [List.map_cons, List.mem_cons, not_or] at hx
        have : ¬ y.1 = x.1 := fun e => hx.1 e.symm
        simp [upsert, this, ihm hx.2]
    simp only [upsertAll, hu]
    rw [ih (m ++ [x]) (by simpa [List.append_assoc] using h)]
    simp

/-- in a dict every key has one value -/
theorem value_unique_of_nodup_keys {κ α : Type} (l : List (κ × α)) (h : (l.map Prod.fst).Nodup)
    (k : κ) (v w : α) (hv : (k, v) ∈ l) (hw : (k, w) ∈ l) : v = w := by
  induction l with
  | nil => cases hv
  | cons y t ih =>
    simp only [List.map_cons, List.nodup_cons, List.mem_map, not_exists, not_and] at h
    rcases List.mem_cons.1 hv with rfl | hv' <;> rcases List.mem_cons.1 hw with hw' | hw'
    · exact (Prod.mk.inj hw').2.symm
    · exact absurd rfl (h.1 (k, w) hw')
    · subst hw'; exact absurd rfl (h.1 (k, v) hv')
    · exact ih h.2 hv' hw'

/-! ### the per-query loop, entry by entry -/

/-- the query gets a result entry (`"value" in query or expired`) -/
def answered (expired : Bool) (q : Query) : Bool := q.hasValue || expired

/-- `query.get("value")` -/
def qvalue (q : Query) : Option Val := if q.hasValue then q.value else none

/-- the setter is called: the entry names a characteristic and `value is not None [and not expired]` -/
def runs (fixed expired : Bool) (T : Topo) (q : Query) : Bool :=
  T.known q.id && ((qvalue q).isSome && (!fixed || !expired))

/-- the entry is recorded for the service / accessory callback pass -/
def collected (fixed expired : Bool) (T : Topo) (q : Query) : Bool :=
  answered expired q && (T.known q.id && !(fixed && expired))

/-- status and returned value of `_wrap_char_setter` (independent of the state) -/
def charOutcome (q : Query) : Int × Option Val :=
  match q.valid, q.cb with
  | none, _ => (FAIL, none)
  | some _, .absent => (OK, none)
  | some _, .returns r => (OK, r)
  | some _, .raises => (FAIL, none)

/-- the callback invocation made by `client_update_value`, if any -/
def called (q : Query) : Option Ev :=
  match q.valid, q.cb with
  | some n, .returns _ => some (Ev.char q.id n)
  | some n, .raises => some (Ev.char q.id n)
  | _, _ => none

/-- `self.value = value` -/
def store (vals : CharId → Val) (q : Query) : CharId → Val :=
  match q.valid with
  | some n => fun c => if c = q.id then kept q n else vals c
  | none => vals

def storeAll (vals : CharId → Val) : List Query → CharId → Val
  | [] => vals
  | q :: qs => storeAll (store vals q) qs

/-- the value recorded for the service / accessory callbacks: the normalised value after a
    successful setter (C10b), else `query.get("value")` -/
def upValue (fixed nu expired : Bool) (T : Topo) (q : Query) : Option Val :=
  if nu && runs fixed expired T q && (charOutcome q).1 == OK then q.valid else qvalue q

/-- the result entry written by the per-query loop -/
def res0 (fixed expired : Bool) (T : Topo) (q : Query) : Res :=
  if !T.known q.id then ⟨NOEXIST, none⟩ else
  let o : Int × Option Val := if runs fixed expired T q then charOutcome q else (INVALID, none)
  if o.2.isSome && q.wr then ⟨o.1, o.2⟩ else ⟨o.1, none⟩

theorem wrapCharSetter_eq (q : Query) (st : CharSt) :
    wrapCharSetter q st =
      (⟨store st.vals q, st.log ++ (called q).toList⟩, (charOutcome q).1, (charOutcome q).2) := by
  unfold wrapCharSetter clientUpdate store called charOutcome
  cases hv : q.valid with
  | none => simp
  | some n => cases hc : q.cb <;> simp

theorem step1_eq (fixed nu expired : Bool) (T : Topo) (s : L1) (q : Query) :
    step1 fixed nu expired T s q =
      if answered expired q then
        { st := if runs fixed expired T q then ⟨store s.st.vals q, s.st.log ++ (called q).toList⟩ else s.st
          results := upsert q.id (res0 fixed expired T q) s.results
          updates := if collected fixed expired T q then upsert q.id (upValue fixed nu expired T q) s.updates
                     else s.updates }
      else s := by
  unfold step1 answered res0 upValue runs collected qvalue answered
  by_cases h0 : T.known q.id <;> by_cases h1 : q.hasValue <;> by_cases h2 : expired <;> by_cases h3 : fixed <;>
    cases hv : q.value <;> simp [h0, h1, h2, h3, hv, wrapCharSetter_eq]

theorem loop1_results (fixed nu expired : Bool) (T : Topo) (qs : List Query) (s : L1) :
    (loop1 fixed nu expired T s qs).results =
      upsertAll s.results ((qs.filter (answered expired)).map (fun q => (q.id, res0 fixed expired T q))) := by
  induction qs generalizing s with
  | nil => simp [loop1, upsertAll]
  | cons q qs ih =>
    simp only [loop1, ih, step1_eq]
    by_cases h : answered expired q <;> simp [h, List.filter_cons, upsertAll]

theorem loop1_updates (fixed nu expired : Bool) (T : Topo) (qs : List Query) (s : L1) :
    (loop1 fixed nu expired T s qs).updates =
      upsertAll s.updates
        ((qs.filter (collected fixed expired T)).map (fun q => (q.id, upValue fixed nu expired T q))) := by
  induction qs generalizing s with
  | nil => simp [loop1, upsertAll]
  | cons q qs ih =>
    simp only [loop1, ih, step1_eq]
    by_cases h : answered expired q
    · by_cases h2 : collected fixed expired T q <;> simp [h, h2, List.filter_cons, upsertAll]
    · have h2 : collected fixed expired T q = false := by simp [collected, h]
      simp [h, h2, List.filter_cons]

theorem loop1_log (fixed nu expired : Bool) (T : Topo) (qs : List Query) (s : L1) :
    (loop1 fixed nu expired T s qs).st.log =
      s.st.log ++ ((qs.filter (fun q => answered expired q && runs fixed expired T q)).filterMap called) := by
  induction qs generalizing s with
  | nil => simp [loop1]
  | cons q qs ih =>
    simp only [loop1, ih, step1_eq]
    by_cases h : answered expired q <;> by_cases h2 : runs fixed expired T q <;>
      simp [h, h2, List.filter_cons]
    cases hc : called q <;> simp [hc, List.filterMap_cons]

theorem loop1_vals (fixed nu expired : Bool) (T : Topo) (qs : List Query) (s : L1) :
    (loop1 fixed nu expired T s qs).st.vals =
      storeAll s.st.vals (qs.filter (fun q => answered expired q && runs fixed expired T q)) := by
  induction qs generalizing s with
  | nil => simp [loop1, storeAll]
  | cons q qs ih =>
    simp only [loop1, ih, step1_eq]
    by_cases h : answered expired q <;> by_cases h2 : runs fixed expired T q <;>
      simp [h, h2, List.filter_cons, storeAll]


/-! ### the service / accessory callback pass -/

def svcRes (T : Topo) (B : Behav) (a s : Nat) : Option Int :=
  if T.svcCb a s then some (cbResult (B.svcRaises a s)) else none

def accRes (T : Topo) (B : Behav) (a : Nat) : Option Int :=
  if T.accCb a then some (cbResult (B.accRaises a)) else none

/-- callback invocations of the pass for one service / one accessory -/
def svcEvs (T : Topo) (ups : List Upd) (a s : Nat) : List Ev :=
  if T.svcCb a s then [Ev.svc a s (svcGroup T ups a s)] else []

def accEvs (T : Topo) (ups : List Upd) (a : Nat) : List Ev :=
  if T.accCb a then [Ev.acc a ((svcsOf T ups a).map (fun s => (s, svcGroup T ups a s)))] else []

/-- rewrite every status by a function of (id, status) -/
def setSt (f : CharId → Int → Int) (results : List (CharId × Res)) : List (CharId × Res) :=
  results.map (fun cr => (cr.1, { cr.2 with status := f cr.1 cr.2.status }))

theorem setSt_id (results : List (CharId × Res)) : setSt (fun _ st => st) results = results := by
  unfold setSt; induction results with
  | nil => rfl
  | cons x t ih => simp [List.map_cons, ih]

theorem setSt_keys (f : CharId → Int → Int) (results : List (CharId × Res)) :
    (setSt f results).map Prod.fst = results.map Prod.fst := by
  unfold setSt; simp [List.map_map, Function.comp_def]

theorem setSt_setSt (f g : CharId → Int → Int) (results : List (CharId × Res)) :
    setSt g (setSt f results) = setSt (fun c st => g c (f c st)) results := by
  unfold setSt; simp [List.map_map, Function.comp_def]

theorem setSt_congr {f g : CharId → Int → Int} (h : ∀ c st, f c st = g c st)
    (results : List (CharId × Res)) : setSt f results = setSt g results := by
  have : f = g := by funext c st; exact h c st
  rw [this]

theorem mem_svcGroup_keys (T : Topo) (ups : List Upd) (a s : Nat) (c : CharId) :
    c ∈ (svcGroup T ups a s).map (·.1) ↔ c ∈ ups.map (·.1) ∧ c.aid = a ∧ T.svc c = s := by
  simp only [svcGroup, List.mem_map, List.mem_filter, decide_eq_true_eq]
  constructor
  · rintro ⟨u, ⟨hu, h1, h2⟩, rfl⟩; exact ⟨⟨u, hu, rfl⟩, h1, h2⟩
  · rintro ⟨⟨u, hu, rfl⟩, h1, h2⟩; exact ⟨u, ⟨hu, h1, h2⟩, rfl⟩

theorem pass2Svc_eq (T : Topo) (B : Behav) (ups : List Upd) (a : Nat) (ar : Option Int)
    (acc : List (CharId × Res) × List Ev) (s : Nat) :
    pass2Svc T B ups a ar acc s =
      (setSt (fun c st => if c ∈ ups.map (·.1) ∧ c.aid = a ∧ T.svc c = s
                          then ov (pyOr (svcRes T B a s) ar) st else st) acc.1,
       acc.2 ++ svcEvs T ups a s) := by
  have hlog : (if T.svcCb a s then acc.2 ++ [Ev.svc a s (svcGroup T ups a s)] else acc.2)
      = acc.2 ++ svcEvs T ups a s := by
    unfold svcEvs; by_cases h : T.svcCb a s <;> simp [h]
  unfold pass2Svc
  simp only [hlog]
  have hres : (if T.svcCb a s then some (cbResult (B.svcRaises a s)) else none) = svcRes T B a s := rfl
  rw [hres]
  cases hp : pyOr (svcRes T B a s) ar with
  | none =>
    simp only [ov]
    rw [show (fun (c : CharId) (st : Int) => if c ∈ ups.map (·.1) ∧ c.aid = a ∧ T.svc c = s then st else st)
        = (fun _ st => st) from by funext c st; simp, setSt_id]
  | some x =>
    by_cases hx : x = 0
    · simp only [hx, ov, if_true]
      rw [show (fun (c : CharId) (st : Int) => if c ∈ ups.map (·.1) ∧ c.aid = a ∧ T.svc c = s then st else st)
        = (fun _ st => st) from by funext c st; simp, setSt_id]
    · simp only [hx, ov, if_false]
      congr 1
      unfold setStatus setSt
      apply List.map_congr_left
      intro cr _
      have hm := mem_svcGroup_keys T ups a s cr.1
      by_cases hc : cr.1 ∈ ups.map (·.1) ∧ cr.1.aid = a ∧ T.svc cr.1 = s
      · have h1 := hm.2 hc
        simp only [h1, hc, if_true, and_self]
      · have h1 : ¬ cr.1 ∈ (svcGroup T ups a s).map (·.1) := fun h => hc (hm.1 h)
        simp only [h1, hc, if_false]


theorem pass2Svcs_eq (T : Topo) (B : Behav) (ups : List Upd) (a : Nat) (ar : Option Int)
    (ss : List Nat) (acc : List (CharId × Res) × List Ev) :
    pass2Svcs T B ups a ar acc ss =
      (setSt (fun c st => if c ∈ ups.map (·.1) ∧ c.aid = a ∧ T.svc c ∈ ss
                          then ov (pyOr (svcRes T B a (T.svc c)) ar) st else st) acc.1,
       acc.2 ++ ss.flatMap (svcEvs T ups a)) := by
  induction ss generalizing acc with
  | nil =>
    simp only [pass2Svcs, List.not_mem_nil, and_false, if_false, List.flatMap_nil, List.append_nil]
    rw [setSt_id]
  | cons s ss ih =>
    simp only [pass2Svcs, ih, pass2Svc_eq, setSt_setSt, List.flatMap_cons, List.append_assoc]
    congr 1
    apply setSt_congr
    intro c st
    by_cases hk : c ∈ ups.map (·.1) <;> by_cases ha : c.aid = a <;> by_cases hs : T.svc c = s <;>
      by_cases hss : T.svc c ∈ ss <;> simp [hk, ha, hs, hss, ov_idem]
    all_goals (subst hs; simp_all [ov_idem])


/-- `char_set_result or acc_set_result` for the service and accessory of a characteristic -/
def override (T : Topo) (B : Behav) (c : CharId) : Option Int :=
  pyOr (svcRes T B c.aid (T.svc c)) (accRes T B c.aid)

/-- callback invocations of the pass for accessory `a`, in order -/
def passEvs (T : Topo) (ups : List Upd) (a : Nat) : List Ev :=
  accEvs T ups a ++ (svcsOf T ups a).flatMap (svcEvs T ups a)

theorem mem_svcsOf (T : Topo) (ups : List Upd) (a s : Nat) :
    s ∈ svcsOf T ups a ↔ ∃ u ∈ ups, u.1.aid = a ∧ T.svc u.1 = s := by
  simp only [svcsOf, mem_firsts, List.mem_map, List.mem_filter, decide_eq_true_eq]
  constructor
  · rintro ⟨u, ⟨hu, h1⟩, h2⟩; exact ⟨u, hu, h1, h2⟩
  · rintro ⟨u, hu, h1, h2⟩; exact ⟨u, ⟨hu, h1⟩, h2⟩

theorem mem_accsOf (ups : List Upd) (a : Nat) : a ∈ accsOf ups ↔ ∃ u ∈ ups, u.1.aid = a := by
  simp [accsOf, mem_firsts]

theorem pass2Acc_eq (T : Topo) (B : Behav) (ups : List Upd)
    (acc : List (CharId × Res) × List Ev) (a : Nat) :
    pass2Acc T B ups acc a =
      (setSt (fun c st => if c ∈ ups.map (·.1) ∧ c.aid = a then ov (override T B c) st else st) acc.1,
       acc.2 ++ passEvs T ups a) := by
  have hlog : (if T.accCb a then acc.2 ++ [Ev.acc a ((svcsOf T ups a).map (fun s => (s, svcGroup T ups a s)))] else acc.2)
      = acc.2 ++ accEvs T ups a := by
    unfold accEvs; by_cases h : T.accCb a <;> simp [h]
  unfold pass2Acc
  simp only [hlog, pass2Svcs_eq, passEvs, List.append_assoc]
  congr 1
  apply setSt_congr
  intro c st
  by_cases hk : c ∈ ups.map (·.1) <;> by_cases ha : c.aid = a <;> simp [hk, ha]
  · have : T.svc c ∈ svcsOf T ups a := by
      rw [mem_svcsOf]
      obtain ⟨u, hu, rfl⟩ := List.mem_map.1 hk
      exact ⟨u, hu, ha, rfl⟩
    subst ha
    simp [this, override, accRes]

theorem pass2Accs_eq (T : Topo) (B : Behav) (ups : List Upd) (as : List Nat)
    (acc : List (CharId × Res) × List Ev) :
    pass2Accs T B ups acc as =
      (setSt (fun c st => if c ∈ ups.map (·.1) ∧ c.aid ∈ as then ov (override T B c) st else st) acc.1,
       acc.2 ++ as.flatMap (passEvs T ups)) := by
  induction as generalizing acc with
  | nil =>
    simp only [pass2Accs, List.not_mem_nil, and_false, if_false, List.flatMap_nil, List.append_nil]
    rw [setSt_id]
  | cons a as ih =>
    simp only [pass2Accs, ih, pass2Acc_eq, setSt_setSt, List.flatMap_cons, List.append_assoc]
    congr 1
    apply setSt_congr
    intro c st
    by_cases hk : c ∈ ups.map (·.1) <;> by_cases ha : c.aid = a <;>
      by_cases hss : c.aid ∈ as <;> simp [hk, ha, hss, ov_idem]
    all_goals (subst ha; simp_all [ov_idem])

/-- closed form of the callback pass -/
theorem pass2_eq (T : Topo) (B : Behav) (ups : List Upd) (results : List (CharId × Res)) (log : List Ev) :
    pass2 T B ups results log =
      (setSt (fun c st => if c ∈ ups.map (·.1) then ov (override T B c) st else st) results,
       log ++ (accsOf ups).flatMap (passEvs T ups)) := by
  unfold pass2
  rw [pass2Accs_eq]
  congr 1
  apply setSt_congr
  intro c st
  by_cases hk : c ∈ ups.map (·.1) <;> simp [hk]
  have : c.aid ∈ accsOf ups := by
    rw [mem_accsOf]
    obtain ⟨u, hu, rfl⟩ := List.mem_map.1 hk
    exact ⟨u, hu, rfl⟩
  simp [this]


/-! ### result assembly and the closed form of a request -/

theorem mem_assemble (results : List (CharId × Res)) (x : CharId × Res) :
    x ∈ assemble results ↔ x ∈ results := by
  simp only [assemble, List.mem_flatMap, mem_firsts, List.mem_map, List.mem_filter, decide_eq_true_eq]
  constructor
  · rintro ⟨a, _, hx, _⟩; exact hx
  · intro hx; exact ⟨x.1.aid, ⟨x, hx, rfl⟩, hx, rfl⟩

/-- the entry is the last one of the request that names its characteristic: the one whose result
    `results[aid][iid]` holds when the loop is over -/
def LastEntry (expired : Bool) (qs : List Query) (q : Query) : Prop :=
  LastBy (fun q : Query => q.id) (qs.filter (answered expired)) q

/-- the answer for one entry: a function of the entry, of the callbacks of its own service and
    accessory, and of the expiry decision only -/
def entryRes (fixed expired : Bool) (T : Topo) (B : Behav) (q : Query) : Res :=
  { res0 fixed expired T q with
    status := if T.known q.id && !(fixed && expired)
              then ov (override T B q.id) (res0 fixed expired T q).status
              else (res0 fixed expired T q).status }

/-- the updates collected by the per-query loop -/
def upsOf (fixed nu expired : Bool) (T : Topo) (qs : List Query) : List Upd :=
  upsertAll [] ((qs.filter (collected fixed expired T)).map (fun q => (q.id, upValue fixed nu expired T q)))

theorem setChars_updates (fixed nu : Bool) (T : Topo) (expired : Bool) (vals : CharId → Val) (qs : List Query) :
    (loop1 fixed nu expired T ⟨⟨vals, []⟩, [], []⟩ qs).updates = upsOf fixed nu expired T qs := by
  simp [loop1_updates, upsOf]

theorem nodup_upsOf (fixed nu expired : Bool) (T : Topo) (qs : List Query) :
    ((upsOf fixed nu expired T qs).map Prod.fst).Nodup :=
  nodup_keys_upsertAll _ _ (by simp)

theorem mem_upsOf_keys (fixed nu expired : Bool) (T : Topo) (qs : List Query) (c : CharId) :
    c ∈ (upsOf fixed nu expired T qs).map (·.1) ↔
      ∃ q ∈ qs, collected fixed expired T q = true ∧ q.id = c := by
  unfold upsOf
  rw [keys_upsertAll]
  simp only [List.map_nil, List.not_mem_nil, false_or, List.mem_map, List.mem_filter]
  constructor
  · rintro ⟨u, ⟨q, ⟨hq, hc⟩, rfl⟩, rfl⟩; exact ⟨q, hq, hc, rfl⟩
  · rintro ⟨q, hq, hc, rfl⟩; exact ⟨_, ⟨q, ⟨hq, hc⟩, rfl⟩, rfl⟩

/-- the collected updates hold, for every characteristic, the value recorded by the last entry for it -/
theorem mem_upsOf (fixed nu expired : Bool) (T : Topo) (qs : List Query) (u : Upd) :
    u ∈ upsOf fixed nu expired T qs ↔
      ∃ q, LastBy (fun q : Query => q.id) (qs.filter (collected fixed expired T)) q ∧ u = (q.id, upValue fixed nu expired T q) := by
  unfold upsOf
  rw [mem_upsertAll_map (fun q : Query => q.id) (upValue fixed nu expired T) _ [] (by simp)]
  simp

theorem mem_chars (fixed nu : Bool) (T : Topo) (B : Behav) (expired : Bool) (vals : CharId → Val)
    (qs : List Query) (x : CharId × Res) :
    x ∈ (setChars fixed nu T B expired vals qs).chars ↔
      ∃ q, LastEntry expired qs q ∧ x = (q.id, entryRes fixed expired T B q) := by
  have key : ∀ q ∈ qs, answered expired q = true →
      (q.id, ({ res0 fixed expired T q with
        status := if q.id ∈ (upsOf fixed nu expired T qs).map (·.1)
                  then ov (override T B q.id) (res0 fixed expired T q).status
                  else (res0 fixed expired T q).status } : Res)) = (q.id, entryRes fixed expired T B q) := by
    intro q hq ha
    unfold entryRes
    by_cases hc : (T.known q.id && !(fixed && expired)) = true
    · have : q.id ∈ (upsOf fixed nu expired T qs).map (·.1) := by
        rw [mem_upsOf_keys]; exact ⟨q, hq, by unfold collected; rw [ha, hc]; rfl, rfl⟩
      simp only [this, hc, if_true]
    · have : ¬ q.id ∈ (upsOf fixed nu expired T qs).map (·.1) := by
        rw [mem_upsOf_keys]
        rintro ⟨q', _, hc', hid⟩
        apply hc
        simp only [collected, Bool.and_eq_true] at hc'
        rw [← hid]; simp [hc'.2]
      simp only [this, hc, if_false, Bool.false_eq_true]
  unfold setChars
  rw [mem_assemble, pass2_eq, setChars_updates, loop1_results]
  simp only [setSt]
  constructor
  · intro hx
    obtain ⟨cr, hcr, rfl⟩ := List.mem_map.1 hx
    rcases (mem_upsertAll_map (fun q : Query => q.id) (res0 fixed expired T) _ [] (by simp) cr).1 hcr with ⟨q, hl, rfl⟩ | ⟨h, _⟩
    · have hm := List.mem_filter.1 hl.mem
      exact ⟨q, hl, key q hm.1 hm.2⟩
    · cases h
  · rintro ⟨q, hl, rfl⟩
    have hm := List.mem_filter.1 hl.mem
    exact List.mem_map.2 ⟨(q.id, res0 fixed expired T q),
      (mem_upsertAll_map (fun q : Query => q.id) (res0 fixed expired T) _ [] (by simp) _).2 (Or.inl ⟨q, hl, rfl⟩), key q hm.1 hm.2⟩

theorem setChars_vals (fixed nu : Bool) (T : Topo) (B : Behav) (expired : Bool) (vals : CharId → Val)
    (qs : List Query) :
    (setChars fixed nu T B expired vals qs).vals =
      storeAll vals (qs.filter (fun q => answered expired q && runs fixed expired T q)) := by
  simp [setChars, loop1_vals]

theorem setChars_log (fixed nu : Bool) (T : Topo) (B : Behav) (expired : Bool) (vals : CharId → Val)
    (qs : List Query) :
    (setChars fixed nu T B expired vals qs).log =
      (qs.filter (fun q => answered expired q && runs fixed expired T q)).filterMap called ++
        (accsOf (upsOf fixed nu expired T qs)).flatMap (passEvs T (upsOf fixed nu expired T qs)) := by
  simp [setChars, pass2_eq, loop1_log, setChars_updates]

theorem setChars_body (fixed nu : Bool) (T : Topo) (B : Behav) (expired : Bool) (vals : CharId → Val)
    (qs : List Query) :
    (setChars fixed nu T B expired vals qs).body =
      if nonempty (setChars fixed nu T B expired vals qs).chars
      then some (setChars fixed nu T B expired vals qs).chars else none := rfl

/-- the keys of the answer: one result per characteristic named by an answered entry -/
theorem keys_chars_pre (fixed nu : Bool) (T : Topo) (B : Behav) (expired : Bool) (vals : CharId → Val)
    (qs : List Query) :
    ∃ results : List (CharId × Res), (setChars fixed nu T B expired vals qs).chars = assemble results ∧
      (results.map Prod.fst).Nodup := by
  refine ⟨_, rfl, ?_⟩
  rw [pass2_eq]
  simp only
  rw [setSt_keys, loop1_results]
  exact nodup_keys_upsertAll _ _ (by simp)


/-! ### reading the callback log -/

/-- arguments of the invocations of the setter_callback of characteristic `c`, in order -/
def charCalls (log : List Ev) (c : CharId) : List Val :=
  log.filterMap (fun e => match e with
    | .char c' v => if c' = c then some v else none
    | _ => none)

/-- arguments of the invocations of the setter_callback of service `s` of accessory `a` -/
def svcCalls (log : List Ev) (a s : Nat) : List (List Upd) :=
  log.filterMap (fun e => match e with
    | .svc a' s' args => if a' = a ∧ s' = s then some args else none
    | _ => none)

/-- arguments of the invocations of the setter_callback of accessory `a` -/
def accCalls (log : List Ev) (a : Nat) : List (List (Nat × List Upd)) :=
  log.filterMap (fun e => match e with
    | .acc a' args => if a' = a then some args else none
    | _ => none)

/-- the entries of a batch address pairwise distinct characteristics -/
def Distinct (qs : List Query) : Prop := (qs.map (·.id)).Nodup

theorem Distinct.filter {qs : List Query} (h : Distinct qs) (p : Query → Bool) :
    Distinct (qs.filter p) :=
  List.Nodup.sublist ((List.filter_sublist (l := qs) (p := p)).map _) h

theorem storeAll_not_mem (qs : List Query) (vals : CharId → Val) (c : CharId)
    (h : ∀ p ∈ qs, p.id ≠ c) : storeAll vals qs c = vals c := by
  induction qs generalizing vals with
  | nil => rfl
  | cons p ps ih =>
    simp only [storeAll]
    rw [ih _ (fun p' hp' => h p' (List.mem_cons_of_mem _ hp'))]
    have hp : p.id ≠ c := h p (List.mem_cons_self ..)
    unfold store
    cases p.valid with
    | none => rfl
    | some n => simp [Ne.symm hp]

theorem storeAll_of_mem (qs : List Query) (vals : CharId → Val) (q : Query) (n : Val)
    (hd : Distinct qs) (hq : q ∈ qs) (hv : q.valid = some n) : storeAll vals qs q.id = kept q n := by
  induction qs generalizing vals with
  | nil => cases hq
  | cons p ps ih =>
    simp only [Distinct, List.map_cons, List.nodup_cons, List.mem_map, not_exists, not_and] at hd
    simp only [storeAll]
    rcases List.mem_cons.1 hq with rfl | hq'
    · rw [storeAll_not_mem _ _ _ (fun p' hp' => hd.1 p' hp')]
      simp [store, hv]
    · exact ih _ hd.2 hq'

/-- value handed to the characteristic's own callback, if it is invoked -/
def calledVal (q : Query) : Option Val :=
  match q.valid, q.cb with
  | some n, .returns _ => some n
  | some n, .raises => some n
  | _, _ => none

theorem charCalls_append (l1 l2 : List Ev) (c : CharId) :
    charCalls (l1 ++ l2) c = charCalls l1 c ++ charCalls l2 c := by
  simp [charCalls, List.filterMap_append]

theorem svcCalls_append (l1 l2 : List Ev) (a s : Nat) :
    svcCalls (l1 ++ l2) a s = svcCalls l1 a s ++ svcCalls l2 a s := by
  simp [svcCalls, List.filterMap_append]

theorem accCalls_append (l1 l2 : List Ev) (a : Nat) :
    accCalls (l1 ++ l2) a = accCalls l1 a ++ accCalls l2 a := by
  simp [accCalls, List.filterMap_append]

theorem charCalls_called (q : Query) (c : CharId) :
    charCalls (called q).toList c = if q.id = c then (calledVal q).toList else [] := by
  unfold called calledVal charCalls
  cases q.valid with
  | none => simp
  | some n => cases q.cb <;> by_cases h : q.id = c <;> simp [h]

theorem charCalls_loop_not_mem (qs : List Query) (c : CharId) (h : ∀ p ∈ qs, p.id ≠ c) :
    charCalls (qs.filterMap called) c = [] := by
  induction qs with
  | nil => rfl
  | cons p ps ih =>
    have : (p :: ps).filterMap called = (called p).toList ++ ps.filterMap called := by
      simp only [List.filterMap_cons]; cases called p <;> simp
    rw [this, charCalls_append, charCalls_called, ih (fun p' hp' => h p' (List.mem_cons_of_mem _ hp'))]
    simp [h p (List.mem_cons_self ..)]

theorem charCalls_loop_of_mem (qs : List Query) (q : Query) (hd : Distinct qs) (hq : q ∈ qs) :
    charCalls (qs.filterMap called) q.id = (calledVal q).toList := by
  induction qs with
  | nil => cases hq
  | cons p ps ih =>
    have : (p :: ps).filterMap called = (called p).toList ++ ps.filterMap called := by
      simp only [List.filterMap_cons]; cases called p <;> simp
    simp only [Distinct, List.map_cons, List.nodup_cons, List.mem_map, not_exists, not_and] at hd
    rw [this, charCalls_append, charCalls_called]
    rcases List.mem_cons.1 hq with rfl | hq'
    · rw [charCalls_loop_not_mem _ _ (fun p' hp' => hd.1 p' hp')]; simp
    · have hne : p.id ≠ q.id := fun h => hd.1 q hq' h.symm
      rw [ih hd.2 hq']; simp [hne]


theorem nodup_svcsOf (T : Topo) (ups : List Upd) (a : Nat) : (svcsOf T ups a).Nodup := nodup_firsts _
theorem nodup_accsOf (ups : List Upd) : (accsOf ups).Nodup := nodup_firsts _

theorem filterMap_flatMap_nodup {α β γ : Type} [DecidableEq α] (l : List α) (f : α → List β) (g : β → Option γ) (a : α)
    (hn : l.Nodup) (hz : ∀ b ∈ l, b ≠ a → (f b).filterMap g = []) :
    (l.flatMap f).filterMap g = if a ∈ l then (f a).filterMap g else [] := by
  induction l with
  | nil => simp
  | cons b t ih =>
    simp only [List.nodup_cons] at hn
    have iht := ih hn.2 (fun b' hb' => hz b' (List.mem_cons_of_mem _ hb'))
    simp only [List.flatMap_cons, List.filterMap_append, iht, List.mem_cons]
    by_cases hba : b = a
    · subst hba; simp [hn.1]
    · rw [hz b (List.mem_cons_self ..) hba]
      have : (a = b) = False := by simp; exact fun h => hba h.symm
      simp [this]

theorem upperCalls_loop (qs : List Query) (a s : Nat) :
    svcCalls (qs.filterMap called) a s = [] ∧ accCalls (qs.filterMap called) a = [] := by
  constructor
  · unfold svcCalls
    rw [List.filterMap_eq_nil_iff]
    intro e he
    obtain ⟨q, _, hq⟩ := List.mem_filterMap.1 he
    unfold called at hq
    cases hv : q.valid <;> cases hc : q.cb <;> simp [hv, hc] at hq <;> subst hq <;> rfl
  · unfold accCalls
    rw [List.filterMap_eq_nil_iff]
    intro e he
    obtain ⟨q, _, hq⟩ := List.mem_filterMap.1 he
    unfold called at hq
    cases hv : q.valid <;> cases hc : q.cb <;> simp [hv, hc] at hq <;> subst hq <;> rfl

theorem charCalls_pass (T : Topo) (ups : List Upd) (as : List Nat) (c : CharId) :
    charCalls (as.flatMap (passEvs T ups)) c = [] := by
  unfold charCalls
  rw [List.filterMap_eq_nil_iff]
  intro e he
  obtain ⟨a, _, hea⟩ := List.mem_flatMap.1 he
  unfold passEvs accEvs at hea
  rcases List.mem_append.1 hea with h | h
  · by_cases hc : T.accCb a <;> simp [hc] at h; subst h; rfl
  · obtain ⟨s, _, hs⟩ := List.mem_flatMap.1 h
    unfold svcEvs at hs
    by_cases hc : T.svcCb a s <;> simp [hc] at hs; subst hs; rfl

theorem svcCalls_svcEvs (T : Topo) (ups : List Upd) (a' s' a s : Nat) :
    svcCalls (svcEvs T ups a' s') a s =
      if a' = a ∧ s' = s ∧ T.svcCb a s = true then [svcGroup T ups a s] else [] := by
  unfold svcEvs svcCalls
  by_cases hc : T.svcCb a' s' <;> by_cases ha : a' = a <;> by_cases hs : s' = s <;> simp_all

theorem svcCalls_passEvs (T : Topo) (ups : List Upd) (a' a s : Nat) :
    svcCalls (passEvs T ups a') a s =
      if a' = a ∧ s ∈ svcsOf T ups a ∧ T.svcCb a s = true then [svcGroup T ups a s] else [] := by
  unfold passEvs
  rw [svcCalls_append]
  have h1 : svcCalls (accEvs T ups a') a s = [] := by
    unfold accEvs svcCalls; by_cases hc : T.accCb a' <;> simp [hc]
  rw [h1, List.nil_append]
  unfold svcCalls
  rw [filterMap_flatMap_nodup _ _ _ s (nodup_svcsOf T ups a')]
  · have := svcCalls_svcEvs T ups a' s a s
    unfold svcCalls at this
    rw [this]
    by_cases ha : a' = a
    · subst ha; by_cases hs : s ∈ svcsOf T ups a' <;> simp [hs]
    · simp [ha]
  · intro s' _ hne
    have := svcCalls_svcEvs T ups a' s' a s
    unfold svcCalls at this
    rw [this]; simp [hne]

/-- the service callback of `(a, s)` is invoked once if the request reaches the service, never otherwise -/
theorem svcCalls_pass (T : Topo) (ups : List Upd) (a s : Nat) :
    svcCalls ((accsOf ups).flatMap (passEvs T ups)) a s =
      if a ∈ accsOf ups ∧ s ∈ svcsOf T ups a ∧ T.svcCb a s = true then [svcGroup T ups a s] else [] := by
  unfold svcCalls
  rw [filterMap_flatMap_nodup _ _ _ a (nodup_accsOf ups)]
  · have := svcCalls_passEvs T ups a a s
    unfold svcCalls at this
    rw [this]
    by_cases ha : a ∈ accsOf ups <;> simp [ha]
  · intro a' _ hne
    have := svcCalls_passEvs T ups a' a s
    unfold svcCalls at this
    rw [this]; simp [hne]

theorem accCalls_passEvs (T : Topo) (ups : List Upd) (a' a : Nat) :
    accCalls (passEvs T ups a') a =
      if a' = a ∧ T.accCb a = true
      then [(svcsOf T ups a).map (fun s => (s, svcGroup T ups a s))] else [] := by
  unfold passEvs
  rw [accCalls_append]
  have h2 : accCalls ((svcsOf T ups a').flatMap (svcEvs T ups a')) a = [] := by
    unfold accCalls
    rw [List.filterMap_eq_nil_iff]
    intro e he
    obtain ⟨s, _, hs⟩ := List.mem_flatMap.1 he
    unfold svcEvs at hs
    by_cases hc : T.svcCb a' s <;> simp [hc] at hs; subst hs; rfl
  rw [h2, List.append_nil]
  unfold accEvs accCalls
  by_cases hc : T.accCb a' <;> by_cases ha : a' = a <;> simp_all

/-- the accessory callback of `a` is invoked once if the request reaches the accessory -/
theorem accCalls_pass (T : Topo) (ups : List Upd) (a : Nat) :
    accCalls ((accsOf ups).flatMap (passEvs T ups)) a =
      if a ∈ accsOf ups ∧ T.accCb a = true
      then [(svcsOf T ups a).map (fun s => (s, svcGroup T ups a s))] else [] := by
  unfold accCalls
  rw [filterMap_flatMap_nodup _ _ _ a (nodup_accsOf ups)]
  · have := accCalls_passEvs T ups a a
    unfold accCalls at this
    rw [this]
    by_cases ha : a ∈ accsOf ups <;> simp [ha]
  · intro a' _ hne
    have := accCalls_passEvs T ups a' a
    unfold accCalls at this
    rw [this]; simp [hne]


/-! ### small facts used by the property theorems -/

theorem distinct_inj {qs : List Query} (hd : Distinct qs) {q q' : Query} (hq : q ∈ qs) (hq' : q' ∈ qs)
    (hid : q'.id = q.id) : q' = q := by
  induction qs with
  | nil => cases hq
  | cons p ps ih =>
    simp only [Distinct, List.map_cons, List.nodup_cons, List.mem_map, not_exists, not_and] at hd
    rcases List.mem_cons.1 hq with rfl | h1 <;> rcases List.mem_cons.1 hq' with rfl | h2
    · rfl
    · exact absurd hid (hd.1 q' h2)
    · exact absurd hid.symm (hd.1 q h1)
    · exact ih hd.2 h1 h2

theorem ov_eq_zero {r : Option Int} {s : Int} (h : ov r s = 0) : s = 0 ∧ (r = none ∨ r = some 0) := by
  unfold ov at h
  cases r with
  | none => exact ⟨h, Or.inl rfl⟩
  | some x =>
    by_cases hx : x = 0
    · simp [hx] at h; exact ⟨h, Or.inr (by rw [hx])⟩
    · simp [hx] at h

theorem pyOr_ok {a b : Option Int} (h : pyOr a b = none ∨ pyOr a b = some 0) :
    (a = none ∨ a = some 0) ∧ (b = none ∨ b = some 0) := by
  unfold pyOr at h
  cases a with
  | none => exact ⟨Or.inl rfl, h⟩
  | some x =>
    by_cases hx : x = 0
    · subst hx; simp at h; exact ⟨Or.inr rfl, h⟩
    · simp [hx] at h

theorem cbResult_ok {b : Bool} (h : some (cbResult b) = none ∨ some (cbResult b) = some 0) : b = false := by
  cases b with
  | false => rfl
  | true => simp [cbResult, FAIL] at h

/-- a refused timed write (repaired code): nothing runs, nothing is collected -/
theorem expired_facts (nu : Bool) (T : Topo) (B : Behav) (vals : CharId → Val) (qs : List Query) :
    (setChars true nu T B true vals qs).vals = vals ∧ (setChars true nu T B true vals qs).log = [] ∧
    ∀ x, x ∈ (setChars true nu T B true vals qs).chars ↔
      ∃ q ∈ qs, x = (q.id, ⟨if T.known q.id then INVALID else NOEXIST, none⟩) := by
  have hres : ∀ q : Query, entryRes true true T B q = ⟨if T.known q.id then INVALID else NOEXIST, none⟩ := by
    intro q
    by_cases hk : T.known q.id <;> simp [entryRes, res0, runs, hk]
  have hfil : qs.filter (answered true) = qs := by
    rw [List.filter_eq_self]; intro q _; simp [answered]
  refine ⟨?_, ?_, ?_⟩
  · rw [setChars_vals]
    have : qs.filter (fun q => answered true q && runs true true T q) = [] := by
      rw [List.filter_eq_nil_iff]; intro q _; simp [runs]
    rw [this]; rfl
  · rw [setChars_log]
    have h1 : qs.filter (fun q => answered true q && runs true true T q) = [] := by
      rw [List.filter_eq_nil_iff]; intro q _; simp [runs]
    have h2 : qs.filter (collected true true T) = [] := by
      rw [List.filter_eq_nil_iff]; intro q _; simp [collected]
    simp [h1, upsOf, h2, upsertAll, accsOf, firsts]
  · intro x
    rw [mem_chars]
    unfold LastEntry
    rw [hfil]
    constructor
    · rintro ⟨q, hl, rfl⟩; exact ⟨q, hl.mem, by rw [hres]⟩
    · rintro ⟨q, hq, rfl⟩
      obtain ⟨b, hb, hk⟩ := lastBy_exists (fun q : Query => q.id) qs q hq
      refine ⟨b, hb, ?_⟩
      have hk' : b.id = q.id := hk
      rw [hres, hk']

theorem storeAll_unchanged (qs : List Query) (vals : CharId → Val) (c : CharId)
    (h : ∀ p ∈ qs, p.id = c → p.valid = none) : storeAll vals qs c = vals c := by
  induction qs generalizing vals with
  | nil => rfl
  | cons p ps ih =>
    simp only [storeAll]
    rw [ih _ (fun p' hp' => h p' (List.mem_cons_of_mem _ hp'))]
    unfold store
    cases hv : p.valid with
    | none => rfl
    | some n =>
      have : p.id ≠ c := fun hid => by have := h p (List.mem_cons_self ..) hid; simp [hv] at this
      simp [Ne.symm this]

/-- a write-response value is due for the entry -/
def WrDue (fixed expired : Bool) (T : Topo) (q : Query) : Prop :=
  runs fixed expired T q = true ∧ q.wr = true ∧ ∃ n r, q.valid = some n ∧ q.cb = CharCb.returns (some r)

theorem res0_value_none (fixed expired : Bool) (T : Topo) (q : Query) :
    (res0 fixed expired T q).value = none ↔ ¬ WrDue fixed expired T q := by
  unfold res0 WrDue charOutcome
  by_cases hk : T.known q.id = true
  · by_cases hr : runs fixed expired T q = true <;> by_cases hw : q.wr = true <;> simp [hk, hr, hw]
    cases hv : q.valid with
    | none => simp
    | some n =>
      cases hc : q.cb with
      | absent => simp
      | raises => simp
      | returns r => cases r <;> simp
  · have hr : runs fixed expired T q = false := by simp [runs, hk]
    simp [hk, hr]

theorem lastEntry_of_distinct {qs : List Query} (hd : Distinct qs) (expired : Bool) (q : Query) :
    LastEntry expired qs q ↔ q ∈ qs ∧ answered expired q = true := by
  unfold LastEntry
  rw [lastBy_of_nodup _ _ (hd.filter _), List.mem_filter]

theorem collected_filter (fixed expired : Bool) (T : Topo) (qs : List Query) :
    qs.filter (collected fixed expired T) =
      (qs.filter (answered expired)).filter (fun q => T.known q.id && !(fixed && expired)) := by
  rw [List.filter_filter]; congr 1; funext q; unfold collected; exact Bool.and_comm _ _

/-- the last entry for an existing characteristic of an executed request is also the last collected one -/
theorem lastEntry_collected (fixed expired : Bool) (T : Topo) (qs : List Query) (q : Query)
    (hl : LastEntry expired qs q) (hk : T.known q.id = true) (hfe : (fixed && expired) = false) :
    LastBy (fun q : Query => q.id) (qs.filter (collected fixed expired T)) q := by
  rw [collected_filter]
  exact LastBy.filter hl _ (by simp [hk, hfe])

/-- an answered entry's characteristic has a last entry -/
theorem lastEntry_exists (expired : Bool) (qs : List Query) (q : Query) (hq : q ∈ qs)
    (ha : answered expired q = true) : ∃ b, LastEntry expired qs b ∧ b.id = q.id :=
  lastBy_exists (fun q : Query => q.id) _ q (List.mem_filter.2 ⟨hq, ha⟩)

/-- split of the running entries around the last entry of a characteristic -/
theorem running_split (fixed expired : Bool) (T : Topo) (qs : List Query) (q : Query)
    (hl : LastEntry expired qs q) (hr : runs fixed expired T q = true) :
    ∃ l1 l2, qs.filter (fun q => answered expired q && runs fixed expired T q) = l1 ++ q :: l2 ∧
      (∀ z ∈ l2, z.id ≠ q.id) ∧ (Distinct qs → ∀ z ∈ l1, z.id ≠ q.id) := by
  obtain ⟨l1, l2, he, hno⟩ := (lastBy_split _ _ _).1 hl
  have hff : qs.filter (fun q => answered expired q && runs fixed expired T q) =
      (qs.filter (answered expired)).filter (runs fixed expired T) := by
    rw [List.filter_filter]; congr 1; funext q; exact Bool.and_comm _ _
  refine ⟨l1.filter (runs fixed expired T), l2.filter (runs fixed expired T), ?_, ?_, ?_⟩
  · rw [hff, he, List.filter_append, List.filter_cons]; simp [hr]
  · intro z hz; exact hno z (List.mem_filter.1 hz).1
  · intro hd z hz hid
    have hd' : Distinct (l1 ++ q :: l2) := he ▸ hd.filter (answered expired)
    unfold Distinct at hd'
    rw [List.map_append, List.nodup_append] at hd'
    exact hd'.2.2 _ (List.mem_map.2 ⟨z, (List.mem_filter.1 hz).1, rfl⟩) _
      (List.mem_map.2 ⟨q, List.mem_cons_self .., rfl⟩) hid

theorem storeAll_append (l1 l2 : List Query) (vals : CharId → Val) :
    storeAll vals (l1 ++ l2) = storeAll (storeAll vals l1) l2 := by
  induction l1 generalizing vals with
  | nil => rfl
  | cons p ps ih => simp only [List.cons_append, storeAll, ih]

/-- everything the request does to / says about one entry, as a function of that entry alone
    (plus the callbacks of its own service and accessory and the expiry decision) -/
theorem entry_closed_form (nu : Bool) (T : Topo) (B : Behav) (expired : Bool) (vals : CharId → Val)
    (qs : List Query) (hd : Distinct qs) (q : Query) (hq : q ∈ qs) :
    (∀ r, (q.id, r) ∈ (setChars true nu T B expired vals qs).chars ↔
        (answered expired q = true ∧ r = entryRes true expired T B q)) ∧
    (setChars true nu T B expired vals qs).vals q.id =
        (if (answered expired q && runs true expired T q) = true
         then (match q.valid with | some n => kept q n | none => vals q.id) else vals q.id) ∧
    charCalls (setChars true nu T B expired vals qs).log q.id =
        (if (answered expired q && runs true expired T q) = true then (calledVal q).toList else []) := by
  refine ⟨?_, ?_, ?_⟩
  · intro r
    rw [mem_chars]
    constructor
    · rintro ⟨q', hl, hx⟩
      obtain ⟨hq', ha'⟩ := (lastEntry_of_distinct hd expired q').1 hl
      have hid : q'.id = q.id := (congrArg Prod.fst hx).symm
      have := distinct_inj hd hq hq' hid
      subst this
      exact ⟨ha', congrArg Prod.snd hx⟩
    · rintro ⟨ha, rfl⟩; exact ⟨q, (lastEntry_of_distinct hd expired q).2 ⟨hq, ha⟩, rfl⟩
  · rw [setChars_vals]
    by_cases hf : (answered expired q && runs true expired T q) = true
    · have hmem : q ∈ qs.filter (fun q => answered expired q && runs true expired T q) :=
        List.mem_filter.2 ⟨hq, hf⟩
      simp only [hf, if_true]
      cases hv : q.valid with
      | some n => exact storeAll_of_mem _ _ _ _ (hd.filter _) hmem hv
      | none =>
        apply storeAll_unchanged
        intro p hp hid
        have := distinct_inj hd hq (List.mem_filter.1 hp).1 hid
        subst this; exact hv
    · simp only [hf, if_false]
      apply storeAll_not_mem
      intro p hp hid
      have := distinct_inj hd hq (List.mem_filter.1 hp).1 hid
      subst this; exact hf (List.mem_filter.1 hp).2
  · rw [setChars_log, charCalls_append, charCalls_pass, List.append_nil]
    by_cases hf : (answered expired q && runs true expired T q) = true
    · simp only [hf, if_true]
      exact charCalls_loop_of_mem _ _ (hd.filter _) (List.mem_filter.2 ⟨hq, hf⟩)
    · simp only [hf, if_false]
      apply charCalls_loop_not_mem
      intro p hp hid
      have := distinct_inj hd hq (List.mem_filter.1 hp).1 hid
      subst this; exact hf (List.mem_filter.1 hp).2

/-- the callbacks of the service and the accessory of a characteristic that the request reaches
    (an entry with a value names it, and it exists) are invoked exactly once -/
theorem upper_calls (nu : Bool) (T : Topo) (B : Behav) (vals : CharId → Val) (qs : List Query) (q : Query)
    (hq : q ∈ qs) (ha : q.hasValue = true) (hk : T.known q.id = true) :
    svcCalls (setChars true nu T B false vals qs).log q.id.aid (T.svc q.id) =
        (if T.svcCb q.id.aid (T.svc q.id) = true
         then [svcGroup T (upsOf true nu false T qs) q.id.aid (T.svc q.id)] else []) ∧
    accCalls (setChars true nu T B false vals qs).log q.id.aid =
        (if T.accCb q.id.aid = true
         then [(svcsOf T (upsOf true nu false T qs) q.id.aid).map
                (fun s => (s, svcGroup T (upsOf true nu false T qs) q.id.aid s))] else []) := by
  have hkey : q.id ∈ (upsOf true nu false T qs).map (·.1) := by
    rw [mem_upsOf_keys]; exact ⟨q, hq, by simp [collected, answered, ha, hk], rfl⟩
  obtain ⟨u, hu, hid⟩ := List.mem_map.1 hkey
  have hacc : q.id.aid ∈ accsOf (upsOf true nu false T qs) := (mem_accsOf _ _).2 ⟨u, hu, by rw [hid]⟩
  have hsvc : T.svc q.id ∈ svcsOf T (upsOf true nu false T qs) q.id.aid :=
    (mem_svcsOf _ _ _ _).2 ⟨u, hu, by rw [hid], by rw [hid]⟩
  refine ⟨?_, ?_⟩
  · rw [setChars_log, svcCalls_append, (upperCalls_loop _ _ _).1, List.nil_append, svcCalls_pass]
    simp [hacc, hsvc]
  · rw [setChars_log, accCalls_append, (upperCalls_loop _ _ 0).2, List.nil_append, accCalls_pass]
    simp [hacc]

/-- the results of one characteristic inside the assembled answer -/
theorem filter_flatMap_nodup {α β : Type} [DecidableEq α] (l : List α) (f : α → List β) (p : β → Bool) (a : α)
    (hn : l.Nodup) (hz : ∀ b ∈ l, b ≠ a → (f b).filter p = []) :
    (l.flatMap f).filter p = if a ∈ l then (f a).filter p else [] := by
  induction l with
  | nil => simp
  | cons b t ih =>
    simp only [List.nodup_cons] at hn
    have iht := ih hn.2 (fun b' hb' => hz b' (List.mem_cons_of_mem _ hb'))
    simp only [List.flatMap_cons, List.filter_append, iht, List.mem_cons]
    by_cases hba : b = a
    · subst hba; simp [hn.1]
    · rw [hz b (List.mem_cons_self ..) hba]
      have : (a = b) = False := by simp; exact fun h => hba h.symm
      simp [this]

theorem filter_key_assemble (results : List (CharId × Res)) (c : CharId) :
    (assemble results).filter (fun x => x.1 = c) = results.filter (fun x => x.1 = c) := by
  unfold assemble
  rw [filter_flatMap_nodup _ _ _ c.aid (nodup_firsts _)]
  · by_cases hm : c.aid ∈ firsts (results.map (fun cr => cr.1.aid))
    · simp only [hm, if_true, List.filter_filter]
      congr 1; funext x
      by_cases hx : x.1 = c <;> simp [hx]
    · simp only [hm, if_false]
      symm
      rw [List.filter_eq_nil_iff]
      intro x hx hc
      simp only [decide_eq_true_eq] at hc
      exact hm ((mem_firsts _ _).2 (List.mem_map.2 ⟨x, hx, by rw [hc]⟩))
  · intro b _ hne
    rw [List.filter_filter, List.filter_eq_nil_iff]
    intro x _ hc
    simp only [Bool.and_eq_true, decide_eq_true_eq] at hc
    exact hne (by rw [← hc.2, hc.1])

theorem filter_key_of_nodup_keys {κ α : Type} [DecidableEq κ] (l : List (κ × α))
    (h : (l.map Prod.fst).Nodup) (k : κ) (v : α) (hm : (k, v) ∈ l) :
    l.filter (fun x => x.1 = k) = [(k, v)] := by
  induction l with
  | nil => cases hm
  | cons y t ih =>
    simp only [List.map_cons, List.nodup_cons, List.mem_map, not_exists, not_and] at h
    rcases List.mem_cons.1 hm with rfl | hm'
    · have : t.filter (fun x => x.1 = k) = [] := by
        rw [List.filter_eq_nil_iff]; intro x hx hc
        simp only [decide_eq_true_eq] at hc
        exact h.1 x hx hc
      simp [List.filter_cons, this]
    · have hne : ¬ y.1 = k := fun e => h.1 (k, v) hm' e.symm
      simp [List.filter_cons, hne, ih h.2 hm']

/-! ### histories: prepare / advance / write / lose -/

/-- the op changes `prepared_writes[c][p]` -/
def Touches (c : Conn) (p : Pid) : Op → Prop
  | .prepare c' ttl pid => c' = c ∧ ttl.isSome = true ∧ pid = some p
  | .write c' b => c' = c ∧ b.pid = some p
  | .lose c' => c' = c
  | .advance _ => False

/-- Connection `c` holds a usable prepare for `p` with expiry `e` after the history `hrev`
    (most recent op first): some well-formed `prepare` of `p` by `c` at time `e - ttl`, and since
    then no write of `c` carrying `p`, no loss of `c`, and no newer prepare of `p` by `c`. -/
def LivePrep (fixed nu : Bool) (T : Topo) (s0 : State) (hrev : List Op) (c : Conn) (p : Pid) (e : Nat) : Prop :=
  ∃ later earlier ttl, hrev = later ++ Op.prepare c (some ttl) (some p) :: earlier ∧
    (∀ op ∈ later, ¬ Touches c p op) ∧ e = (runRev fixed nu T s0 earlier).now + ttl

theorem livePrep_cons (fixed nu : Bool) (T : Topo) (s0 : State) (op : Op) (h : List Op) (c : Conn) (p : Pid) (e : Nat) :
    LivePrep fixed nu T s0 (op :: h) c p e ↔
      (∃ ttl, op = Op.prepare c (some ttl) (some p) ∧ e = (runRev fixed nu T s0 h).now + ttl) ∨
      (¬ Touches c p op ∧ LivePrep fixed nu T s0 h c p e) := by
  constructor
  · rintro ⟨later, earlier, ttl, heq, hno, he⟩
    cases later with
    | nil =>
      simp only [List.nil_append, List.cons.injEq] at heq
      obtain ⟨h1, h2⟩ := heq
      subst h1 h2
      exact Or.inl ⟨ttl, rfl, he⟩
    | cons o later' =>
      simp only [List.cons_append, List.cons.injEq] at heq
      obtain ⟨h1, h2⟩ := heq
      subst h1 h2
      exact Or.inr ⟨hno _ (List.mem_cons_self ..),
        later', earlier, ttl, rfl, fun o' ho' => hno o' (List.mem_cons_of_mem _ ho'), he⟩
  · rintro (⟨ttl, rfl, he⟩ | ⟨hnt, later, earlier, ttl, rfl, hno, he⟩)
    · exact ⟨[], h, ttl, rfl, by simp, he⟩
    · refine ⟨op :: later, earlier, ttl, rfl, ?_, he⟩
      intro o ho
      rcases List.mem_cons.1 ho with rfl | ho'
      · exact hnt
      · exact hno o ho'

theorem step_prep_untouched (fixed nu : Bool) (T : Topo) (s : State) (op : Op) (c : Conn) (p : Pid)
    (h : ¬ Touches c p op) : (step fixed nu T s op).prep c p = s.prep c p := by
  cases op with
  | prepare c' ttl pid =>
    cases ttl with
    | none => cases pid <;> rfl
    | some t =>
      cases pid with
      | none => rfl
      | some p' =>
        simp only [Touches, Option.isSome_some, Option.some.injEq, true_and] at h
        have : ¬ (c = c' ∧ p = p') := fun ⟨h1, h2⟩ => h ⟨h1.symm, h2.symm⟩
        simp [step, prepare, this]
  | advance dt => rfl
  | write c' b =>
    simp only [step, write, popPid]
    cases hb : b.pid with
    | none => rfl
    | some p' =>
      simp only [Touches, hb, Option.some.injEq] at h
      have : ¬ (c = c' ∧ p = p') := fun ⟨h1, h2⟩ => h ⟨h1.symm, h2.symm⟩
      simp [this]
  | lose c' =>
    simp only [Touches] at h
    have : ¬ c = c' := fun h1 => h h1.symm
    simp [step, lose, this]

theorem step_prep_touched (fixed nu : Bool) (T : Topo) (s : State) (op : Op) (c : Conn) (p : Pid)
    (h : Touches c p op) :
    (step fixed nu T s op).prep c p =
      match op with
      | .prepare _ (some ttl) (some _) => some (s.now + ttl)
      | _ => none := by
  cases op with
  | prepare c' ttl pid =>
    simp only [Touches] at h
    obtain ⟨rfl, h2, rfl⟩ := h
    cases ttl with
    | none => simp at h2
    | some t => simp [step, prepare]
  | advance dt => simp [Touches] at h
  | write c' b =>
    simp only [Touches] at h
    simp [step, write, popPid, h.2, h.1]
  | lose c' =>
    simp only [Touches] at h
    simp [step, lose, h]

/-- the invariant on `prepared_writes`: the table holds exactly the live prepares -/
theorem prep_iff_live (fixed nu : Bool) (T : Topo) (s0 : State) (h0 : ∀ c p, s0.prep c p = none)
    (hrev : List Op) (c : Conn) (p : Pid) (e : Nat) :
    (runRev fixed nu T s0 hrev).prep c p = some e ↔ LivePrep fixed nu T s0 hrev c p e := by
  induction hrev generalizing e with
  | nil =>
    simp only [runRev, h0, LivePrep]
    constructor
    · intro h; cases h
    · rintro ⟨later, earlier, ttl, heq, _⟩; cases later <;> simp at heq
  | cons op h ih =>
    rw [livePrep_cons, runRev]
    by_cases ht : Touches c p op
    · rw [step_prep_touched _ _ _ _ _ _ _ ht]
      cases op with
      | prepare c' ttl pid =>
        simp only [Touches] at ht
        obtain ⟨rfl, h2, rfl⟩ := ht
        cases ttl with
        | none => simp at h2
        | some t =>
          simp only [Option.some.injEq]
          constructor
          · intro he; exact Or.inl ⟨t, rfl, he.symm⟩
          · rintro (⟨ttl, heq, he⟩ | ⟨hnt, _⟩)
            · simp only [Op.prepare.injEq, Option.some.injEq, true_and, and_true] at heq
              subst heq; exact he.symm
            · exact absurd (show Touches c' p (Op.prepare c' (some t) (some p)) from ⟨rfl, rfl, rfl⟩) hnt
      | advance dt => simp [Touches] at ht
      | write c' b =>
        simp only [ht, not_true_eq_false, false_and, or_false]
        constructor
        · intro h; cases h
        · rintro ⟨ttl, heq, _⟩; cases heq
      | lose c' =>
        simp only [ht, not_true_eq_false, false_and, or_false]
        constructor
        · intro h; cases h
        · rintro ⟨ttl, heq, _⟩; cases heq
    · rw [step_prep_untouched _ _ _ _ _ _ _ ht, ih]
      constructor
      · intro hl; exact Or.inr ⟨ht, hl⟩
      · rintro (⟨ttl, rfl, _⟩ | ⟨_, hl⟩)
        · exact absurd (show Touches c p (Op.prepare c (some ttl) (some p)) from ⟨rfl, rfl, rfl⟩) ht
        · exact hl


/-! ### insertion-ordered dicts: why `firsts` + `filter` denote them -/

/-- `d[k]... = x` on a `defaultdict(list)`-like insertion-ordered dict: append to the group of `k`,
    creating it at the end -/
def insGroup {κ α : Type} [DecidableEq κ] (k : κ) (x : α) : List (κ × List α) → List (κ × List α)
  | [] => [(k, [x])]
  | (k', g) :: t => if k' = k then (k', g ++ [x]) :: t else (k', g) :: insGroup k x t

/-- keys in first-insertion order, each with the sub-list of its elements -/
def groupsOf {κ α : Type} [DecidableEq κ] (key : α → κ) (l : List α) : List (κ × List α) :=
  (firsts (l.map key)).map (fun k => (k, l.filter (fun x => key x = k)))

theorem firsts_snoc {κ : Type} [DecidableEq κ] (l : List κ) (k : κ) :
    firsts (l ++ [k]) = if k ∈ l then firsts l else firsts l ++ [k] := by
  induction l with
  | nil => simp [firsts]
  | cons a t ih =>
    simp only [List.cons_append, firsts, ih, List.mem_cons]
    by_cases hkt : k ∈ t
    · simp [hkt]
    · by_cases hka : k = a
      · subst hka; simp [hkt, List.filter_append]
      · simp [hkt, hka, List.filter_append]

theorem insGroup_map {κ α : Type} [DecidableEq κ] (key : α → κ) (l0 : List α) (x : α) (M : List κ)
    (hn : M.Nodup) :
    insGroup (key x) x (M.map (fun k => (k, l0.filter (fun y => key y = k)))) =
      (M.map (fun k => (k, (l0 ++ [x]).filter (fun y => key y = k)))) ++
        (if key x ∈ M then [] else [(key x, [x])]) := by
  induction M with
  | nil => simp [insGroup]
  | cons a t ih =>
    simp only [List.nodup_cons] at hn
    simp only [List.map_cons, insGroup, List.mem_cons]
    by_cases ha : a = key x
    · subst ha
      have : ∀ k ∈ t, (l0 ++ [x]).filter (fun y => key y = k) = l0.filter (fun y => key y = k) := by
        intro k hk
        have : key x ≠ k := fun h => hn.1 (h ▸ hk)
        simp [List.filter_append, this]
      have hm : t.map (fun k => (k, (l0 ++ [x]).filter (fun y => key y = k)))
          = t.map (fun k => (k, l0.filter (fun y => key y = k))) :=
        List.map_congr_left (fun k hk => by rw [this k hk])
      simp [hm, List.filter_append]
      intro a ha h; exact hn.1 (h ▸ ha)
    · have hne : key x ≠ a := fun h => ha h.symm
      simp only [ha, if_false, ih hn.2, hne, false_or]
      simp [List.filter_append, hne]

/-- Building the dict by insertion gives exactly `firsts` (keys) + `filter` (groups): the way
    `Writes.lean` denotes `results[aid]`, `updates[acc]`, `updates[acc][service]`. -/
theorem insertion_order_groups {κ α : Type} [DecidableEq κ] (key : α → κ) (l0 l : List α) :
    l.foldl (fun m x => insGroup (key x) x m) (groupsOf key l0) = groupsOf key (l0 ++ l) := by
  induction l generalizing l0 with
  | nil => simp
  | cons x l ih =>
    have step : insGroup (key x) x (groupsOf key l0) = groupsOf key (l0 ++ [x]) := by
      unfold groupsOf
      rw [insGroup_map key l0 x _ (nodup_firsts _), List.map_append, List.map_cons, List.map_nil,
        firsts_snoc]
      by_cases h : key x ∈ firsts (l0.map key)
      · have h' : key x ∈ l0.map key := (mem_firsts _ _).1 h
        simp [h, h']
      · have h' : ¬ key x ∈ l0.map key := fun hh => h ((mem_firsts _ _).2 hh)
        simp [h, h', List.filter_append]
        intro y hy hk; exact absurd (List.mem_map.2 ⟨y, hy, hk⟩) h'
    rw [List.foldl_cons, step, ih, List.append_assoc]; rfl

end Hap.Writes
