/-
  C01 — Pair-setup admits only a party that knows the setup code.
  Property theorems only; lemmas live in Proofs/PairSetupGate.lean (gate, core Lean),
  Proofs/PairSetup.lean and Proofs/Srp.lean (algebra).
  The models mirror the repaired code (design/fixes/C08.patch then design/fixes/C01.patch).

  Authorised outputs: O1 = an M4 carrying the server proof (`isO1`), O2 = an M6 carrying the encrypted
  accessory identity (`isO2`, the only answer that sets `pairing_changed`), O3 = a change of the
  pairing table.  "The peer demonstrated knowledge of the code for this very exchange" = `goodM3`:
  on the SRP session created by the most recent served M1, an M3 whose proof equals the proof
  expected for its own `A`, with `A mod N ≠ 0`.  That only a party knowing the code can produce such a
  proof for `A ≢ 0` is the SRP-6a assumption (DESIGN 2.2); it enters `C01_symbolic` as the shape of a
  free term algebra (Proofs/PairSetupSym.lean), not as an axiom.
-/
import Proofs.PairSetup
import Proofs.PairSetupOrigin
import Proofs.PairSetupSym
import Proofs.PairSetupHybrid
import Proofs.PairSetupMitm
import Proofs.PairSetupHybridMitm
import HapModel.Gen.SrpGroup
namespace Hap.C01
open Hap Hap.Tlv Hap.Srp Hap.PairSetup

/-- Algebraic root cause: `A ≡ 0 (mod N)` forces the accessory's premaster secret to 0 whatever the
    verifier (the setup code), `u` and `b > 0` are — so `K`, `M`, `HAMK` depend on public data only. -/
theorem C01_srp_degenerate (N A v u b : Nat) (hb : 0 < b) (hA : A % N = 0) :
    _root_.Srp.srvS N A v u b = 0 :=
  _root_.Srp.srp_degenerate N A v u b hb hA

/-- … for the executable model (Python's `pow`): `S = 0`. -/
theorem C01_premaster_degenerate (G : Group) (A v u b : Nat) (hb : 0 < b) (hA : A % G.N = 0) :
    premaster G A v u b = 0 :=
  premaster_degenerate G A v u b hb hA

/-- **Gate, every history.**  For every request sequence `rs` (any order, omissions, repetitions,
    crafted values), from any state in which the verifier has no recorded success: every O1 is the answer
    to a good M3 (the demonstration happens in that very request), and every O2 / O3 happens at a point
    where, in the exchange opened by the latest served M1, a good M3 had been received and no accepted
    M5 has consumed that exchange since (`e.demo`, a ghost computed from the history independently of the
    code's own record).  `C01_gate_events` is the same over histories that also contain bystander activity
    and the owner unpairing the accessory. -/
theorem C01_gate (cfg : Cfg) (ps0 : PS) (h0 : verifiedNow ps0 = false) (rs : List Req) :
    ∀ e ∈ trace cfg ps0 false rs,
      (isO1 e.out = true → goodM3 cfg e.pre e.req = true) ∧
      ((isO2 e.out = true ∨ e.post.paired ≠ e.pre.paired) → e.demo = true) :=
  gate_trace cfg rs ps0 false (by simp [h0])

/-- **Gate, every history of events** — pair-setup requests on any connection, bystander activity, and
    the owner unpairing the accessory (last admin removed) or changing the setup code at any point.  The ghost `e.demo` is: a good M3
    was received since the latest served M1 AND no accepted M5 has consumed that exchange since
    (single use).  Every O2 / O3 needs it; every O1 answers a good M3. -/
theorem C01_gate_events (cfg : Cfg) (ps0 : PS) (h0 : verifiedNow ps0 = false) (evs : List Ev) :
    ∀ e ∈ traceEv cfg ps0 false evs,
      (isO1 e.out = true → goodM3 cfg e.pre e.req = true) ∧
      ((isO2 e.out = true ∨ e.post.paired ≠ e.pre.paired) → e.demo = true) :=
  gate_traceEv cfg evs ps0 false (by simp [h0])

/-- **Before the single-use repair** (handler with the C08 + C01 repairs only, `stepKeep`: the verified
    verifier stayed on the driver after a pairing): honest M1, M3, M5; the owner removes the pairing; the
    SAME M5 bytes sent again — by anybody, no M1, no M3 — are accepted: M6 is issued and the removed
    controller is admin again.  Hence `C01_gate_events` is false for that handler. -/
theorem C01_replayed_m5_legacy :
    let cfg : Cfg := { G := { N := 23, g := 5, nLen := 8 }, c := toyCrypto }
    let ps0 : PS := { pincode := [2], mac := [9], ltpk := [7], paired := [], verifier := none }
    let srv := Srp.mk cfg.c.H cfg.G SRP_USER ps0.pincode [3] 6
    let cl := client cfg.c.H cfg.G SRP_USER ps0.pincode [3] srv.Bb 4
    let csig := [8] ++ (cfg.c.hkdf cl.K P4_SALT P4_INFO ++ [1] ++ [8])
    let m5 : Req := ⟨ctrlM5 cfg.c cl.K (ctrlSub [1] [8] csig), [], []⟩
    let r1 := stepKeep cfg ps0 ⟨ctrlM1, [3], [6]⟩
    let r2 := stepKeep cfg r1.1 ⟨ctrlM3 cl.Ab cl.M, [], []⟩
    let r3 := stepKeep cfg r2.1 m5
    let unpaired : PS := { r3.1 with paired := [] }
    let r4 := stepKeep cfg unpaired m5
    r3.1.paired = [([1], [8], 1)] ∧ isO2 r4.2.1 = true ∧ r4.1.paired = [([1], [8], 1)] := by
  decide +kernel

/-- One step, any state: how the code's own record (`verified` of the current verifier) evolves.
    It is set only by a good M3, cleared by every served M1, and M6 / a pairing need it. -/
theorem C01_gate_step (cfg : Cfg) (ps : PS) (r : Req) :
    (isO1 (step cfg ps r).2.1 = true → goodM3 cfg ps r = true ∧ verifiedNow (step cfg ps r).1 = true) ∧
    ((isO2 (step cfg ps r).2.1 = true ∨ (step cfg ps r).1.paired ≠ ps.paired) → verifiedNow ps = true) ∧
    (verifiedNow (step cfg ps r).1 = true →
        goodM3 cfg ps r = true ∨ (verifiedNow ps = true ∧ isM2 (step cfg ps r).2.1 = false)) ∧
    (isM2 (step cfg ps r).2.1 = true → verifiedNow (step cfg ps r).1 = false) := by
  cases step_shape cfg ps r with
  | noop hs h1 h2 hm hg =>
    rw [hs]
    exact ⟨by simp [h1], by simp [h2], fun h => Or.inr ⟨h, hm⟩, by simp [hm]⟩
  | m1 srv hs hv hm h1 h2 hg =>
    rw [hs]
    exact ⟨by simp [h1], by simp [h2], by simp [verifiedNow, hv], by simp [verifiedNow, hv]⟩
  | m3 srv hs hv h1 h2 hm =>
    rw [hs]
    refine ⟨?_, by simp [h2], ?_, by simp [hm]⟩
    · intro h; rw [h1] at h; exact ⟨h, by simp [verifiedNow, hv, h]⟩
    · intro h; left; simpa [verifiedNow, hv] using h
  | m5 hver hs h2 h1 hm hg =>
    refine ⟨by simp [h1], fun _ => hver, fun _ => Or.inr ⟨hver, hm⟩, by simp [hm]⟩

/-- **No code, no pairing.**  If no request of the history is a good M3 (the peer never demonstrates
    knowledge of the code), then no M4 proof, no M6 identity and no pairing is ever produced. -/
theorem C01_no_demonstration_no_output (cfg : Cfg) (ps0 : PS) (h0 : verifiedNow ps0 = false) (rs : List Req)
    (hno : ∀ e ∈ trace cfg ps0 false rs, goodM3 cfg e.pre e.req = false) :
    ∀ e ∈ trace cfg ps0 false rs,
      isO1 e.out = false ∧ isO2 e.out = false ∧ e.post.paired = e.pre.paired := by
  intro e he
  have hg := C01_gate cfg ps0 h0 rs e he
  have hd := ghost_false cfg rs ps0 hno e he
  have hn := hno e he
  refine ⟨?_, ?_, ?_⟩
  · cases h : isO1 e.out
    · rfl
    · have := hg.1 h; rw [hn] at this; exact absurd this (by decide)
  · cases h : isO2 e.out
    · rfl
    · have := hg.2 (Or.inl h); rw [hd] at this; exact absurd this (by decide)
  · by_cases h : e.post.paired = e.pre.paired
    · exact h
    · have := hg.2 (Or.inr h); rw [hd] at this; exact absurd this (by decide)

/-- **Degenerate `A` is refused**: for every `A` with `A ≡ 0 (mod N)` (any byte spelling: empty,
    zero-padded, `k·N`) and every proof `M`, the M3 is answered M4/authentication-error, no success is
    recorded and the pairing table is unchanged. -/
theorem C01_reject_kN (cfg : Cfg) (ps : PS) (srv : Server) (A M salt bRand : Bytes)
    (hp : ps.paired = []) (hv : ps.verifier = some srv) (hA : bytesToNat A % srv.G.N = 0) :
    (step cfg ps ⟨ctrlM3 A M, salt, bRand⟩).2.1 = .m4AuthErr ∧
    verifiedNow (step cfg ps ⟨ctrlM3 A M, salt, bRand⟩).1 = false ∧
    (step cfg ps ⟨ctrlM3 A M, salt, bRand⟩).1.paired = ps.paired := by
  rw [step_M3_degenerate cfg ps srv A M salt bRand hp hv hA]
  simp [verifiedNow, setA]

/-- the minimal spelling of `k·N` is such an `A` -/
theorem C01_kN_degenerate (N k : Nat) : bytesToNat (natToBytes (k * N)) % N = 0 := by
  rw [b2l_l2b]; exact Nat.mul_mod_left k N

/-- M5 straight after a fresh M1 (or with no M3 at all, or after a failed M3) is refused:
    from any state whose current verifier has no recorded success, an M5 changes nothing and emits
    nothing authorised. -/
theorem C01_m5_needs_m3 (cfg : Cfg) (ps : PS) (r : Req) (h : verifiedNow ps = false) :
    isO2 (step cfg ps r).2.1 = false ∧ (step cfg ps r).1.paired = ps.paired := by
  have hs := (C01_gate_step cfg ps r).2.1
  constructor
  · cases h2 : isO2 (step cfg ps r).2.1
    · rfl
    · have := hs (Or.inl h2); rw [h] at this; exact absurd this (by decide)
  · by_cases hp : (step cfg ps r).1.paired = ps.paired
    · exact hp
    · have := hs (Or.inr hp); rw [h] at this; exact absurd this (by decide)

/-- **The exchange is single use**: the step that emits M6 / records the pairing discards the verifier,
    so from the resulting state no M5 (replayed or new) is accepted until a new M1 and a new good M3 —
    also after the accessory has been unpaired again. -/
theorem C01_exchange_single_use (cfg : Cfg) (ps : PS) (r r' : Req) (h : isO2 (step cfg ps r).2.1 = true) :
    (step cfg ps r).1.verifier = none ∧
    isO2 (step cfg { (step cfg ps r).1 with paired := [] } r').2.1 = false ∧
    (step cfg { (step cfg ps r).1 with paired := [] } r').1.paired = [] := by
  have hv : (step cfg ps r).1.verifier = none := by
    cases step_shape cfg ps r with
    | noop hs h1 h2 => rw [h2] at h; exact absurd h (by decide)
    | m1 srv hs hv hm h1 h2 => rw [h2] at h; exact absurd h (by decide)
    | m3 srv hs hv h1 h2 => rw [h2] at h; exact absurd h (by decide)
    | m5 hver hs => exact hs
  have hn : verifiedNow { (step cfg ps r).1 with paired := [] } = false := by simp [verifiedNow, hv]
  have := C01_m5_needs_m3 cfg { (step cfg ps r).1 with paired := [] } r' hn
  exact ⟨hv, this.1, this.2⟩

/-! ### the gate tied to the SETUP CODE and to the DATA (Proofs/PairSetupOrigin.lean)

  `C01_gate` speaks of "the proof expected by the verifier in the state".  The theorems below pin that
  verifier down: along every history that starts on a driver without a verifier (a fresh
  `AccessoryDriver`), the verifier in force is the one `setup_srp_verifier` built from the setup code
  configured when the latest M1 was served and from that M1's own salt and secret (`Exch`); the expected
  proof is therefore the closed-form SRP-6a proof for THAT code (`sessOf`, `C01_expected_proof_closed_form`). -/

/-- **Gate, every history, in terms of the setup code.**  For every history of events (pair-setup
    requests on any connection in any order, bystander activity, the owner unpairing the accessory or
    changing the setup code) on a driver that starts without a verifier:
    * every M4 that carries the accessory's proof answers an M3 whose `A ≢ 0 (mod N)` and whose proof is
      the SRP-6a proof computed from the setup code that was configured when the current exchange was
      opened, that exchange's salt and secret `b`, and this very `A`; the proof issued is that
      session's `HAMK`;
    * every M6 / recorded pairing happens in an exchange in which such an M3 was received (`demoA`, the `A`
      of the latest one), and the accepted M5 is sealed under the session key of THAT demonstration:
      `AcceptedM5 … (sessOf cfg x A).Kb`. -/
theorem C01_gate_code (cfg : Cfg) (ps0 : PS) (h0 : ps0.verifier = none) (evs : List Ev) :
    ∀ e ∈ xtrace cfg ps0 Ghost.init evs,
      (isO1 e.out = true →
        ∃ x A M, e.g.exch = some x ∧ reqA e.req = some A ∧ reqM e.req = some M ∧
          M = (sessOf cfg x A).M ∧ bytesToNat A % cfg.G.N ≠ 0 ∧ e.out = .m4 (sessOf cfg x A).HAMK) ∧
      ((isO2 e.out = true ∨ e.post.paired ≠ e.pre.paired) →
        ∃ x A, e.g.exch = some x ∧ e.g.demoA = some A ∧ bytesToNat A % cfg.G.N ≠ 0 ∧
          AcceptedM5 cfg (sessOf cfg x A).Kb e.pre e.req e.post) :=
  gate_code_trace cfg ps0 Ghost.init (ginv_init cfg ps0 h0) evs

/-- The accessory issues its SRP proof EXACTLY for good M3s — in any state, for any request bytes (the
    predicate the differential run evaluates independently with the reference server formulas and compares
    with the real answers, op by op). -/
theorem C01_proof_iff_good_m3 (cfg : Cfg) (ps : PS) (r : Req) :
    isO1 (step cfg ps r).2.1 = goodM3 cfg ps r :=
  (goodM3_eq_isO1 cfg ps r).symm

/-- The ghost of `C01_gate_code` is a specification, not a restatement: an exchange is opened only by a
    served M1 — with the code configured at that moment and that request's randomness — and lives until
    the next served M1 or accepted M5; the demonstrating `A` is set only by a good M3 of the open exchange
    and dies with the exchange. -/
theorem C01_ghost_step (cfg : Cfg) (ps : PS) (g : Ghost) (r : Req) :
    (∀ x, (gNext cfg ps g r).exch = some x →
      (isM2 (step cfg ps r).2.1 = true ∧ x = ⟨ps.pincode, r.salt, bytesToNat r.bRand⟩) ∨
      (isM2 (step cfg ps r).2.1 = false ∧ isO2 (step cfg ps r).2.1 = false ∧ g.exch = some x)) ∧
    (∀ A, (gNext cfg ps g r).demoA = some A →
      isM2 (step cfg ps r).2.1 = false ∧ isO2 (step cfg ps r).2.1 = false ∧
      ((goodM3 cfg ps r = true ∧ reqA r = some A) ∨ (goodM3 cfg ps r = false ∧ g.demoA = some A))) :=
  ghost_step cfg ps g r

/-- the expected proof of an exchange in closed form (any hash): `x = H(salt ‖ H("Pair-Setup:" code))`,
    `v = g^x`, `B = (k v + g^b) mod N`, `u = H(PAD A ‖ PAD B)`, `S = (A v^u)^b`, `K = H(S)`,
    `M = H(H(N) xor H(g) ‖ H(I) ‖ salt ‖ A ‖ B ‖ K)`, `HAMK = H(A ‖ M ‖ K)` -/
theorem C01_expected_proof_closed_form (cfg : Cfg) (x : Exch) (A : Bytes) :
    let H := cfg.c.H
    let G := cfg.G
    let v := powMod G.g (privKey H x.salt SRP_USER x.code) G.N
    let Bb := natToBytes ((multK H G * v + powMod G.g x.b G.N) % G.N)
    let S := premaster G (bytesToNat A) v (scramble H G A Bb) x.b
    (sessOf cfg x A).Kb = H (natToBytes S) ∧
    (sessOf cfg x A).M = proofM H G SRP_USER x.salt A Bb (H (natToBytes S)) ∧
    (sessOf cfg x A).HAMK = H (A ++ (sessOf cfg x A).M ++ H (natToBytes S)) ∧
    (srvOf cfg x).Bb = Bb ∧ (srvOf cfg x).s = x.salt ∧ (srvOf cfg x).G = G :=
  sessOf_closed cfg x A

/-- **Pairing origin** (honest controller in the picture, any interleaving with other connections).
    Whenever a pairing is recorded, the accepted M5 opens under the session key of the M3 that
    demonstrated knowledge of the code in this very exchange, and the recorded identifier and long-term
    key are the ones inside it, signed with that key over `HKDF(K) ‖ id ‖ key` (`AcceptedM5`).  In
    particular, if that demonstration was made by the reference controller with secret `a` (RFC 5054
    client, the exchange's code), the M5 opens under THAT controller's own session key `K = H(S)` — the key
    of a session whose secret is known, by the SRP-6a assumption, only to the accessory and to a party
    holding the code.  A man in the middle who relays the honest M3 but does not know the code cannot
    seal an M5 of his own under that key (AEAD, DESIGN 2.2), so the key recorded is the honest
    controller's; what this theorem contributes is the part that is about the CODE: which key the M5 must
    open under, for every history. -/
theorem C01_pairing_origin (cfg : Cfg) (ps0 : PS) (h0 : ps0.verifier = none) (evs : List Ev)
    (hN : 0 < cfg.G.N) :
    ∀ e ∈ xtrace cfg ps0 Ghost.init evs, e.post.paired ≠ e.pre.paired →
      ∃ x A, e.g.exch = some x ∧ e.g.demoA = some A ∧
        AcceptedM5 cfg (sessOf cfg x A).Kb e.pre e.req e.post ∧
        ∀ a, A = (client cfg.c.H cfg.G SRP_USER x.code x.salt (srvOf cfg x).Bb a).Ab →
          AcceptedM5 cfg (client cfg.c.H cfg.G SRP_USER x.code x.salt (srvOf cfg x).Bb a).K
            e.pre e.req e.post := by
  intro e he hch
  obtain ⟨x, A, hx, hA, _, hacc⟩ := (C01_gate_code cfg ps0 h0 evs e he).2 (Or.inr hch)
  refine ⟨x, A, hx, hA, hacc, ?_⟩
  intro a ha
  obtain ⟨_, _, hK, _, _⟩ := sess_agree cfg.c.H cfg.G SRP_USER x.code x.salt a x.b hN
  have : (sessOf cfg x A).Kb
      = (client cfg.c.H cfg.G SRP_USER x.code x.salt (srvOf cfg x).Bb a).K := by
    rw [ha]; exact hK
  rw [← this]; exact hacc

/-- … and under an ideal AEAD (authenticity as a hypothesis record: whatever opens under `k` is a
    sealing under `k`), the accepted ciphertext IS the sealing, under the demonstration's key, of a
    sub-TLV carrying exactly the identifier and key that get recorded. -/
theorem C01_pairing_origin_sealed (cfg : Cfg) (ps0 : PS) (h0 : ps0.verifier = none) (evs : List Ev)
    (hauth : AeadAuth cfg.c) :
    ∀ e ∈ xtrace cfg ps0 Ghost.init evs, e.post.paired ≠ e.pre.paired →
      ∃ x A t sub d ident ltpk u, e.g.exch = some x ∧ e.g.demoA = some A ∧
        Tlv.decode e.req.body [] = some t ∧
        lookup t T_ENCRYPTED_DATA
          = some (cfg.c.aeadEnc (cfg.c.hkdf (sessOf cfg x A).Kb P3_SALT P3_INFO) NONCE5 sub) ∧
        Tlv.decode sub [] = some d ∧ lookup d T_USERNAME = some ident ∧ lookup d T_PUBLIC_KEY = some ltpk ∧
        cfg.c.uuidOf ident = some u ∧ e.post.paired = [(u, ltpk, PERM_ADMIN)] := by
  intro e he hch
  obtain ⟨x, A, hx, hA, _, t, ed, sub, d, ident, ltpk, sig, u, hd, _, hed, hdec, hdd, hu, hk, _, _, huu, hpost⟩ :=
    (C01_gate_code cfg ps0 h0 evs e he).2 (Or.inr hch)
  refine ⟨x, A, t, sub, d, ident, ltpk, u, hx, hA, hd, ?_, hdd, hu, hk, huu, by rw [hpost]⟩
  rw [hed, hauth _ _ _ _ hdec]


/-- **The shipped code is forgeable** (closed-form schema, any hash, code, salt, `b > 0`, any `k`):
    after M1, the M3 with `A = k·N` and the proof computed from PUBLIC data only (salt and `B` from M2,
    `S = 0`) is answered with the server proof (O1 without the code). -/
theorem C01_legacy_counterexample (cfg : Cfg) (ps0 : PS) (salt bRand s2 b2 : Bytes) (k : Nat)
    (hp : ps0.paired = []) (hb : 0 < bytesToNat bRand) :
    let srv := Srp.mk cfg.c.H cfg.G SRP_USER ps0.pincode salt (bytesToNat bRand)
    let A := natToBytes (k * cfg.G.N)
    let M := proofM cfg.c.H cfg.G SRP_USER salt A srv.Bb (natToBytes (hInt cfg.c.H []))
    let ps1 := (stepLegacy cfg ps0 ⟨ctrlM1, salt, bRand⟩).1
    isO1 (stepLegacy cfg ps1 ⟨ctrlM3 A M, s2, b2⟩).2.1 = true := by
  intro srv A M ps1
  have e1 : ps1 = { ps0 with verifier := some srv } := by
    show (stepLegacy cfg ps0 ⟨ctrlM1, salt, bRand⟩).1 = _
    rw [stepLegacy_M1 cfg ps0 salt bRand hp]
  have e2 := stepLegacy_M3 cfg { ps0 with verifier := some srv } srv A M s2 b2 hp rfl
  rw [e1, e2]
  obtain ⟨hamk, hh⟩ := legacy_forge cfg.c.H srv A hb (C01_kN_degenerate cfg.G.N k)
  have : verifyLegacy (setALegacy cfg.c.H srv A) M = some hamk := hh
  simp [this, isO1]

/-- … and concretely the whole attack on the shipped handler (toy group, transparent crypto):
    M1, M3 with `A = N` and the public-data proof, M5 sealed under the key of `K(S = 0)` ⇒ the attacker's
    key is recorded as admin although the code (`[2]`) was never used. -/
theorem C01_legacy_pairs_without_code :
    let cfg : Cfg := { G := { N := 23, g := 5, nLen := 8 }, c := toyCrypto }
    let ps0 : PS := { pincode := [2], mac := [9], ltpk := [7], paired := [], verifier := none }
    let r1 := stepLegacy cfg ps0 ⟨ctrlM1, [3], [6]⟩
    let B := match r1.2.1 with | .m2 _ B => B | _ => []
    let A : Bytes := [23]
    let K0 := natToBytes (hInt cfg.c.H [])
    let M := proofM cfg.c.H cfg.G SRP_USER [3] A B K0
    let r2 := stepLegacy cfg r1.1 ⟨ctrlM3 A M, [], []⟩
    let csig := [8] ++ (cfg.c.hkdf K0 P4_SALT P4_INFO ++ [1] ++ [8])
    let r3 := stepLegacy cfg r2.1 ⟨ctrlM5 cfg.c K0 (ctrlSub [1] [8] csig), [], []⟩
    isO1 r2.2.1 = true ∧ isO2 r3.2.1 = true ∧ r3.1.paired = [([1], [8], 1)] := by
  decide +kernel

/-- the same three requests against the repaired handler pair nobody -/
theorem C01_repaired_refuses_the_attack :
    let cfg : Cfg := { G := { N := 23, g := 5, nLen := 8 }, c := toyCrypto }
    let ps0 : PS := { pincode := [2], mac := [9], ltpk := [7], paired := [], verifier := none }
    let r1 := step cfg ps0 ⟨ctrlM1, [3], [6]⟩
    let B := match r1.2.1 with | .m2 _ B => B | _ => []
    let A : Bytes := [23]
    let K0 := cfg.c.H []
    let M := proofM cfg.c.H cfg.G SRP_USER [3] A B K0
    let r2 := step cfg r1.1 ⟨ctrlM3 A M, [], []⟩
    let csig := [8] ++ (cfg.c.hkdf K0 P4_SALT P4_INFO ++ [1] ++ [8])
    let r3 := step cfg r2.1 ⟨ctrlM5 cfg.c K0 (ctrlSub [1] [8] csig), [], []⟩
    r2.2.1 = .m4AuthErr ∧ r3.2.1 = .m6AuthErr ∧ r3.1.paired = [] := by
  decide +kernel

/-- the group the accessory really uses has `N > 1` (so `A = N`, `A = 0`, `A = 2N` … are the
    degenerate values and honest `A = g^a` never is: `gcd(g, N) = 1`) -/
theorem C01_hap_group : 1 < Gen.hapGroup.N ∧ Nat.Coprime Gen.hapGroup.g Gen.hapGroup.N := by
  refine ⟨by decide +kernel, by decide +kernel⟩

/-- **Dolev–Yao secrecy** (symbolic model of the repaired accessory, attacker alone): if the attacker's
    initial knowledge is safe — it contains neither the setup code nor honest secrets nor session
    secrets in an extractable position — then no state reachable by sending derivable messages in any
    order has a successful M3 (O1), an accepted M5 (O2) or a recorded pairing (O3), and the knowledge
    stays safe (the code is never learnt).  SRP hardness is the shape of the algebra: the session
    secret for `A ≠ zero` is an opaque constructor derivable only with the code. -/
theorem C01_symbolic (s0 s : PairSetupSym.SState) (h0 : ∀ t, s0.kn t → PairSetupSym.safe t)
    (hv0 : s0.verified = false) (hp0 : s0.paired = none) (hr : PairSetupSym.Reach true s0 s) :
    (∀ t, s.kn t → PairSetupSym.safe t) ∧ s.verified = false ∧ s.paired = none :=
  PairSetupSym.sym_secure s0 s h0 hv0 hp0 hr

/-! ### the Dolev–Yao attacker against the EXECUTABLE accessory (Proofs/PairSetupHybrid.lean)

  `C01_symbolic` above is about a separate symbolic accessory.  The theorems below put the same attacker
  in front of `PairSetup.step` itself — the model the differential run ties to pyhap. -/

/-- **Format faithfulness.**  Under the interpretation that gives every term the bytes the executable
    model computes for it (`interp`: `bval` ↦ the `B` of `setup_srp_verifier`, `skey` ↦ the premaster secret
    of `set_A`, `hsh` ↦ the configured hash, `pair` ↦ concatenation), the symbolic expected proof denotes
    exactly the proof `verify` compares with, and the symbolic accessory proof the `HAMK` it returns. -/
theorem C01_symbolic_format (I : PairSetupHybrid.Interp) (hpub : PairSetupHybrid.PubConst I)
    (salt b A : PairSetupSym.Tm) (hA : A ≠ PairSetupSym.Tm.zero) :
    PairSetupHybrid.interp I (PairSetupSym.expM salt b A)
      = (sessOf I.cfg (PairSetupHybrid.exchOf I (salt, b)) (PairSetupHybrid.interp I A)).M ∧
    PairSetupHybrid.interp I (PairSetupSym.hamk salt b A)
      = (sessOf I.cfg (PairSetupHybrid.exchOf I (salt, b)) (PairSetupHybrid.interp I A)).HAMK :=
  PairSetupHybrid.interp_expM I hpub salt b A hA

/-- **Dolev–Yao secrecy for the executable accessory.**  The accessory is `PairSetup.step` on bytes; the
    attacker sends ANY request bytes in any order (M1, M5, unknown sequence numbers, garbage, M3 lacking a
    field …), except that the `A` and proof items of a complete M3 denote terms it can derive from its
    knowledge (it does not guess a 64-byte proof); the owner may unpair the accessory at any point; every
    answer is learnt.  Hardness is ONE explicit hypothesis, `NoForge`: for `A ≢ 0 (mod N)` no term computable
    without the setup code, honest secrets and session secrets denotes the proof expected in an exchange
    made from a public salt atom and a secret atom `b` (DESIGN 2.2:
    SRP-6a is a PAKE for such `A`; for `A ≡ 0` the executable model refuses by itself, `C01_reject_kN`).
    Then, from a driver without verifier and safe initial knowledge, along EVERY run: the knowledge stays
    safe (the code is never learnt) and no served request is answered with the accessory's proof, with
    M6, or by recording a pairing. -/
theorem C01_symbolic_exec (I : PairSetupHybrid.Interp) (hpub : PairSetupHybrid.PubConst I)
    (hnf : PairSetupHybrid.NoForge I) (ps0 : PS) (kn0 : PairSetupSym.Tm → Prop)
    (hv : ps0.verifier = none) (hc : ps0.pincode = I.code) (hk : ∀ t, kn0 t → PairSetupSym.safe t)
    (s : PairSetupHybrid.HState) (es : List XEvent)
    (hr : PairSetupHybrid.HReach I ⟨ps0, Ghost.init, kn0, none, 0⟩ s es) :
    (∀ t, s.kn t → PairSetupSym.safe t) ∧ verifiedNow s.ps = false ∧
    ∀ x ∈ es, isO1 x.out = false ∧ isO2 x.out = false ∧ x.post.paired = x.pre.paired ∧
      x.post = (step I.cfg x.pre x.req).1 ∧ x.out = (step I.cfg x.pre x.req).2.1 := by
  obtain ⟨hi, hall⟩ := PairSetupHybrid.hybrid_secure I hpub hnf _ s es
    (PairSetupHybrid.hinit I ps0 kn0 hv hc hk) hr
  exact ⟨hi.safe, hi.unverified, hall⟩

/-- `NoForge` must exclude `A ≡ 0 (mod N)`: for a public value that is a multiple of `N` (here the atom
    `nonce 5` denoting `N = 23`) a term built from public values only denotes the expected proof — the
    defect of the shipped code, seen as a collision. -/
theorem C01_noforge_needs_nondegenerate :
    let I : PairSetupHybrid.Interp :=
      { cfg := { G := { N := 23, g := 5, nLen := 8 }, c := toyCrypto }, code := [2],
        nonceB := fun n => if n = 0 then xorBytes (toyCrypto.H (natToBytes 23)) (toyCrypto.H (natToBytes 5)) ++ toyCrypto.H SRP_USER
                           else if n = 5 then [23] else [3], secB := fun _ => [6] }
    let salt := PairSetupSym.Tm.nonce 4
    let b := PairSetupSym.Tm.sec 0
    let At := PairSetupSym.Tm.nonce 5
    let Mt := PairSetupSym.Tm.hsh (.pair (.nonce 0) (.pair salt (.pair At (.pair (.bval salt b) (.hsh .zero)))))
    PairSetupSym.safe Mt ∧ At ≠ PairSetupSym.Tm.zero ∧
    PairSetupHybrid.interp I Mt = PairSetupHybrid.interp I (PairSetupSym.expM salt b At) := by
  refine ⟨by simp [PairSetupSym.safe], by simp, by decide +kernel⟩

/-- **Pairing origin, symbolically, with the attacker as man in the middle** (honest controller in the
    picture; terms, derivability and message formats as in `C01_symbolic`, whose expected-proof term
    denotes the executable model's proof by `C01_symbolic_format`).  The honest controller knows the code;
    for any exchange whose `B` it is handed it emits its M3 `(g^a, M)` and, at any time, its M5 ciphertext;
    the attacker sees everything, delivers / drops / re-orders / replays at will, and sends derivable
    messages of its own; it does not know the code.  In EVERY reachable state:
    (a) a recorded success (the accessory has issued its proof) means the `A` in force is the public value
        of an honest controller session run against the CURRENT exchange — relaying the honest M3 is the
        only way to obtain O1, and an honest M3 replayed into a later exchange (other salt, other `b`) is
        refused;
    (b) a recorded pairing carries the identifier and the long-term key that an honest controller put into
        its own M5 — the attacker cannot substitute its key;
    (c) the setup code is still not derivable. -/
theorem C01_mitm_pairing_origin (s : PairSetupMitm.MState) (hr : PairSetupMitm.MReach PairSetupMitm.init s) :
    (s.verified = true →
      ∃ x, s.hon x ∧ s.sess = some (x.salt, x.b) ∧ s.lastA = some (PairSetupSym.Tm.gexp x.a)) ∧
    (∀ i p, s.paired = some (i, p) → ∃ x, s.hon x ∧ i = x.id ∧ p = PairSetupSym.Tm.pk x.sk) ∧
    ¬ PairSetupSym.Der s.kn PairSetupSym.Tm.code :=
  PairSetupMitm.mitm_secure s hr

/-- **End to end: executable accessory + Dolev–Yao attacker in the middle + honest controller.**
    The accessory is `PairSetup.step` on bytes (the model tied to pyhap).  The attacker sends arbitrary
    request bytes in any order; only the `A` / proof items of a complete M3 denote terms derivable from what
    it has seen — the accessory's M2 and M4, and everything the honest controller (which knows the code)
    emits: `A = g^a`, its proof, its M5 ciphertext, for any exchange whose `B` it was handed.  Hardness is
    the one hypothesis `NoForgeE` (a term computable from public values and honest blobs that denotes the
    proof expected for `A ≢ 0` in an exchange made from a public salt atom and a secret atom IS that term).
    Then along EVERY run, for every served request:
    * O1 (the accessory's proof) is issued only for the `A = g^a` of an honest controller session run
      against the exchange open at that moment (relay), never for an attacker's own `A` and never for an
      honest M3 replayed into another exchange;
    * O2 / O3 answer an M5 that opens under the session key of the REFERENCE CONTROLLER (`Srp.client`, the
      exchange's code and salt, secret `a`) of such a session — its own `K = H(S)` — and record exactly the
      identifier and long-term key inside that M5 (`AcceptedM5`).
    What is left to cryptography: sealing under `K` needs `K` (AEAD), `K` needs the code or `b` (SRP-6a). -/
theorem C01_end_to_end (I : PairSetupHybrid.Interp) (hpub : PairSetupHybrid.PubConst I)
    (hnf : PairSetupHybridMitm.NoForgeE I) (hN : 0 < I.cfg.G.N) (ps0 : PS)
    (hv : ps0.verifier = none) (hc : ps0.pincode = I.code)
    (s : PairSetupHybridMitm.XState) (es : List XEvent)
    (hr : PairSetupHybridMitm.XReach I
      ⟨ps0, Ghost.init, fun t => ∃ n, t = PairSetupSym.Tm.nonce n, fun _ => False, fun _ => False, none, 0⟩ s es) :
    ∀ x ∈ es,
      x.post = (step I.cfg x.pre x.req).1 ∧ x.out = (step I.cfg x.pre x.req).2.1 ∧
      (isO1 x.out = true → ∃ h : PairSetupMitm.HSess, s.hon h ∧
          x.g.exch = some ⟨I.code, PairSetupHybrid.interp I h.salt, bytesToNat (PairSetupHybrid.interp I h.b)⟩ ∧
          reqA x.req = some (natToBytes (powMod I.cfg.G.g (bytesToNat (PairSetupHybrid.interp I h.a)) I.cfg.G.N))) ∧
      ((isO2 x.out = true ∨ x.post.paired ≠ x.pre.paired) → ∃ h : PairSetupMitm.HSess, s.hon h ∧
          x.g.exch = some ⟨I.code, PairSetupHybrid.interp I h.salt, bytesToNat (PairSetupHybrid.interp I h.b)⟩ ∧
          AcceptedM5 I.cfg
            (client I.cfg.c.H I.cfg.G SRP_USER I.code (PairSetupHybrid.interp I h.salt)
              (srvOf I.cfg ⟨I.code, PairSetupHybrid.interp I h.salt, bytesToNat (PairSetupHybrid.interp I h.b)⟩).Bb
              (bytesToNat (PairSetupHybrid.interp I h.a))).K
            x.pre x.req x.post) := by
  obtain ⟨_, _, hall⟩ := PairSetupHybridMitm.xhybrid_secure I hpub hnf _ s es
    (PairSetupHybridMitm.xinit I ps0 hv hc) hr
  intro x hx
  obtain ⟨h1, h2, h3, h4⟩ := hall x hx
  refine ⟨h1, h2, ?_, ?_⟩
  · intro ho
    obtain ⟨h, hh, r1, r2⟩ := h3 ho
    exact ⟨h, hh, r1, r2⟩
  · intro ho
    obtain ⟨h, hh, r1, r2⟩ := h4 ho
    refine ⟨h, hh, r1, ?_⟩
    obtain ⟨_, _, hK, _, _⟩ := sess_agree I.cfg.c.H I.cfg.G SRP_USER I.code (PairSetupHybrid.interp I h.salt)
      (bytesToNat (PairSetupHybrid.interp I h.a)) (bytesToNat (PairSetupHybrid.interp I h.b)) hN
    have e : (sessOf I.cfg (PairSetupHybrid.exchOf I (h.salt, h.b))
        (PairSetupHybrid.interp I (PairSetupSym.Tm.gexp h.a))).Kb
        = (client I.cfg.c.H I.cfg.G SRP_USER I.code (PairSetupHybrid.interp I h.salt)
            (srvOf I.cfg ⟨I.code, PairSetupHybrid.interp I h.salt, bytesToNat (PairSetupHybrid.interp I h.b)⟩).Bb
            (bytesToNat (PairSetupHybrid.interp I h.a))).K := hK
    rw [← e]; exact r2

/-- the same symbolic accessory without the `A ≠ zero` test (the shipped code): an attacker knowing only
    public values gets its own key paired (`A = zero`, proof from public data, M5 under `H(zero)`). -/
theorem C01_symbolic_legacy_attack :
    ∃ s, PairSetupSym.Reach false PairSetupSym.init s ∧
      s.paired = some (PairSetupSym.Tm.nonce 7, PairSetupSym.Tm.pk (PairSetupSym.Tm.nonce 9)) :=
  PairSetupSym.sym_legacy_attack

/-! ### non-vacuity -/

/-- pair, unpair, replayed M5 (and replayed M3 + M5) on the repaired handler: refused, nobody is paired;
    the trace has the legitimate O2/O3 with the ghost set and nothing afterwards -/
example :
    let cfg : Cfg := { G := { N := 23, g := 5, nLen := 8 }, c := toyCrypto }
    let ps0 : PS := { pincode := [2], mac := [9], ltpk := [7], paired := [], verifier := none }
    let srv := Srp.mk cfg.c.H cfg.G SRP_USER ps0.pincode [3] 6
    let cl := client cfg.c.H cfg.G SRP_USER ps0.pincode [3] srv.Bb 4
    let csig := [8] ++ (cfg.c.hkdf cl.K P4_SALT P4_INFO ++ [1] ++ [8])
    let m3 : Req := ⟨ctrlM3 cl.Ab cl.M, [], []⟩
    let m5 : Req := ⟨ctrlM5 cfg.c cl.K (ctrlSub [1] [8] csig), [], []⟩
    let evs : List Ev := [.req ⟨ctrlM1, [3], [6]⟩, .req m3, .req m5, .unpair, .req m5, .connLost, .req m3, .req m5]
    ((traceEv cfg ps0 false evs).map fun e => (e.out, e.demo, e.post.paired.length))
      = [(.m2 [3] srv.Bb, false, 0), (.m4 cl.HAMK, false, 0), ((runEv cfg ps0 evs).2.getD 2 .silent, true, 1),
         (.m6AuthErr, false, 0), (.err500, false, 0), (.m6AuthErr, false, 0)]
    ∧ (runEv cfg ps0 evs).1.paired = [] := by
  decide +kernel

/-- the premises of `C01_symbolic` hold for the attacker that knows all public values -/
example : (∀ t, PairSetupSym.init.kn t → PairSetupSym.safe t) ∧ PairSetupSym.init.verified = false ∧
    PairSetupSym.init.paired = none := ⟨PairSetupSym.init_safe, rfl, rfl⟩

/-- the gate's premises are reachable and its conclusion is not vacuous: an honest exchange on the
    toy instance produces O1, O2 and O3, each with the ghost set -/
example :
    let cfg : Cfg := { G := { N := 23, g := 5, nLen := 8 }, c := toyCrypto }
    let ps0 : PS := { pincode := [2], mac := [9], ltpk := [7], paired := [], verifier := none }
    let srv := Srp.mk cfg.c.H cfg.G SRP_USER ps0.pincode [3] 6
    let cl := client cfg.c.H cfg.G SRP_USER ps0.pincode [3] srv.Bb 4
    let csig := [8] ++ (cfg.c.hkdf cl.K P4_SALT P4_INFO ++ [1] ++ [8])
    let tr := trace cfg ps0 false [⟨ctrlM1, [3], [6]⟩, ⟨ctrlM3 cl.Ab cl.M, [], []⟩,
                  ⟨ctrlM5 cfg.c cl.K (ctrlSub [1] [8] csig), [], []⟩]
    (tr.map fun e => (isO1 e.out, isO2 e.out, e.demo, decide (e.post.paired ≠ e.pre.paired)))
      = [(false, false, false, false), (true, false, false, false), (false, true, true, true)] := by
  decide +kernel

/-- `C01_gate_code` / `C01_pairing_origin` are not vacuous: on the toy instance the honest exchange has the
    ghost exchange `(code [2], salt [3], b 6)` from M1 on, the demonstrating `A` is the controller's from
    M3 on, and the M5 records the pairing; a man in the middle (any connection) who lets the honest M1/M3
    through and then sends an M5 of his own sealed under the public key `K(S = 0)` is refused, and the
    honest M5 still goes through afterwards -/
example :
    let cfg : Cfg := { G := { N := 23, g := 5, nLen := 8 }, c := toyCrypto }
    let ps0 : PS := { pincode := [2], mac := [9], ltpk := [7], paired := [], verifier := none }
    let srv := Srp.mk cfg.c.H cfg.G SRP_USER ps0.pincode [3] 6
    let cl := client cfg.c.H cfg.G SRP_USER ps0.pincode [3] srv.Bb 4
    let csig := [8] ++ (cfg.c.hkdf cl.K P4_SALT P4_INFO ++ [1] ++ [8])
    let K0 := cfg.c.H []
    let msig := [6] ++ (cfg.c.hkdf K0 P4_SALT P4_INFO ++ [5] ++ [6])
    let evs : List Ev := [.req ⟨ctrlM1, [3], [6]⟩, .req ⟨ctrlM3 cl.Ab cl.M, [], []⟩, .connLost,
      .req ⟨ctrlM5 cfg.c K0 (ctrlSub [5] [6] msig), [], []⟩,
      .req ⟨ctrlM5 cfg.c cl.K (ctrlSub [1] [8] csig), [], []⟩]
    ((xtrace cfg ps0 Ghost.init evs).map fun e =>
        (e.g.exch, e.g.demoA, isO1 e.out, isO2 e.out, e.post.paired.length))
      = [(none, none, false, false, 0),
         (some ⟨[2], [3], 6⟩, none, true, false, 0),
         (some ⟨[2], [3], 6⟩, some cl.Ab, false, false, 0),
         (some ⟨[2], [3], 6⟩, some cl.Ab, false, true, 1)] := by
  decide +kernel

/-- the toy AEAD is authentic (`AeadAuth` is satisfiable) -/
example : AeadAuth toyCrypto := by
  intro k n ct p h
  simp only [toyCrypto] at h ⊢
  split at h
  · next hk =>
    simp only [Option.some.injEq] at h
    have := List.take_append_drop (ct.length - k.length) ct
    rw [hk, h] at this
    exact this.symm
  · exact absurd h (by simp)

/-- the hybrid system is not empty and `PubConst` is satisfiable: on the toy instance the attacker sends an
    M1 (any bytes that are not a complete M3), learns `(salt, B)`, then a complete M3 whose `A` and proof
    denote derivable terms (`g^a` for a known `a`, a hash of public values) — a run of two served
    requests exists, the first answered M2, the second refused -/
example :
    let I : PairSetupHybrid.Interp :=
      { cfg := { G := { N := 23, g := 5, nLen := 8 }, c := toyCrypto }, code := [2],
        nonceB := fun n => if n = 0 then xorBytes (toyCrypto.H (natToBytes 23)) (toyCrypto.H (natToBytes 5)) ++ toyCrypto.H SRP_USER
                           else [3], secB := fun _ => [6] }
    let ps0 : PS := { pincode := [2], mac := [9], ltpk := [7], paired := [], verifier := none }
    PairSetupHybrid.PubConst I ∧
    ∃ s es, PairSetupHybrid.HReach I ⟨ps0, Ghost.init, PairSetupSym.init.kn, none, 0⟩ s es ∧
      es.map (fun x => x.out) = [.m4AuthErr, .m2 [3] (Srp.mk toyCrypto.H I.cfg.G SRP_USER [2] [3] 6).Bb] := by
  intro I ps0
  refine ⟨rfl, ?_⟩
  let s0 : PairSetupHybrid.HState := ⟨ps0, Ghost.init, PairSetupSym.init.kn, none, 0⟩
  let r1 : Req := ⟨ctrlM1, [3], [6]⟩
  have st1 := PairSetupHybrid.HStep.req (I := I) s0 r1 none
    (PairSetupHybrid.Sendable.other r1 (by decide +kernel)) (by decide +kernel) (by decide +kernel)
  let s1 : PairSetupHybrid.HState :=
    { ps := (step I.cfg s0.ps r1).1, g := gNext I.cfg s0.ps s0.g r1,
      kn := PairSetupHybrid.learnAns s0 none (step I.cfg s0.ps r1).2.1,
      cur := PairSetupHybrid.curNext s0 (step I.cfg s0.ps r1).2.1, n := s0.n + 1 }
  let At := PairSetupSym.Tm.gexp (.nonce 7)
  let Mt := PairSetupSym.Tm.hsh (.nonce 8)
  let r2 : Req := ⟨ctrlM3 (PairSetupHybrid.interp I At) (PairSetupHybrid.interp I Mt), [3], [6]⟩
  have dn : ∀ k, PairSetupSym.Der s1.kn (.nonce k) := by
    intro k
    have : (step I.cfg s0.ps r1).2.1 = .m2 [3] (Srp.mk toyCrypto.H I.cfg.G SRP_USER [2] [3] 6).Bb := by
      decide +kernel
    show PairSetupSym.Der (PairSetupHybrid.learnAns s0 none (step I.cfg s0.ps r1).2.1) _
    rw [this]
    exact PairSetupSym.Der.ax (Or.inl ⟨k, rfl⟩)
  have st2 := PairSetupHybrid.HStep.req (I := I) s1 r2 (some (At, Mt))
    (PairSetupHybrid.Sendable.sym r2 At Mt (PairSetupSym.Der.gexp (dn 7))
      (PairSetupSym.Der.hsh (dn 8)) (by decide +kernel) (by decide +kernel))
    (by decide +kernel) (by decide +kernel)
  refine ⟨_, _, PairSetupHybrid.HReach.step _ (PairSetupHybrid.HReach.step _ PairSetupHybrid.HReach.refl st1) st2, ?_⟩
  decide +kernel

/-- `C01_mitm_pairing_origin` is not vacuous: with the attacker merely relaying, the honest controller's
    exchange reaches a recorded success and then a recorded pairing with ITS identifier and key -/
example : ∃ s, PairSetupMitm.MReach PairSetupMitm.init s ∧ s.verified = true ∧
    s.paired = some (PairSetupSym.Tm.nonce 50, PairSetupSym.Tm.pk (PairSetupSym.Tm.sec 101)) :=
  PairSetupMitm.mitm_honest_run

/-- `C01_end_to_end` is not vacuous: on the toy instance the attacker opens an exchange, hands its `B` to the
    honest controller, relays the controller's M3 — and the executable accessory answers with its proof
    (O1 does occur, for the honest `A`) -/
example :
    let I : PairSetupHybrid.Interp :=
      { cfg := { G := { N := 23, g := 5, nLen := 8 }, c := toyCrypto }, code := [2],
        nonceB := fun n => if n = 0 then xorBytes (toyCrypto.H (natToBytes 23)) (toyCrypto.H (natToBytes 5)) ++ toyCrypto.H SRP_USER
                           else [3], secB := fun n => if n = 100 then [4] else [6] }
    let ps0 : PS := { pincode := [2], mac := [9], ltpk := [7], paired := [], verifier := none }
    ∃ s es, PairSetupHybridMitm.XReach I
        ⟨ps0, Ghost.init, fun t => ∃ n, t = PairSetupSym.Tm.nonce n, fun _ => False, fun _ => False, none, 0⟩ s es ∧
      es.map (fun x => isO1 x.out) = [true, false] := by
  intro I ps0
  let s0 : PairSetupHybridMitm.XState :=
    ⟨ps0, Ghost.init, fun t => ∃ n, t = PairSetupSym.Tm.nonce n, fun _ => False, fun _ => False, none, 0⟩
  let r1 : Req := ⟨ctrlM1, [3], [6]⟩
  have st1 := PairSetupHybridMitm.XStep.req (I := I) s0 r1 none
    (PairSetupHybridMitm.XSendable.other r1 (by decide +kernel)) (by decide +kernel) (by decide +kernel)
  let s1 : PairSetupHybridMitm.XState :=
    { s0 with ps := (step I.cfg s0.ps r1).1, g := gNext I.cfg s0.ps s0.g r1,
              kn := PairSetupHybridMitm.learnOpt s0.kn (PairSetupHybridMitm.ansTerm s0 none (step I.cfg s0.ps r1).2.1),
              em := PairSetupHybridMitm.learnOpt s0.em (PairSetupHybridMitm.blobOf s0 none (step I.cfg s0.ps r1).2.1),
              cur := PairSetupHybridMitm.xcurNext s0 (step I.cfg s0.ps r1).2.1, n := s0.n + 1 }
  have ho1 : (step I.cfg s0.ps r1).2.1 = .m2 [3] (Srp.mk toyCrypto.H I.cfg.G SRP_USER [2] [3] 6).Bb := by
    decide +kernel
  let salt := PairSetupSym.Tm.nonce 4
  let b := PairSetupSym.Tm.sec 0
  have dB : PairSetupSym.Der s1.kn (PairSetupSym.Tm.bval salt b) := by
    show PairSetupSym.Der (PairSetupHybridMitm.learnOpt s0.kn
      (PairSetupHybridMitm.ansTerm s0 none (step I.cfg s0.ps r1).2.1)) _
    rw [ho1]
    exact PairSetupSym.Der.snd (PairSetupSym.Der.ax (Or.inr rfl))
  let x : PairSetupMitm.HSess := ⟨salt, b, .sec 100, .nonce 50, .sec 101⟩
  have st2 := PairSetupHybridMitm.XStep.hm3 (I := I) s1 x dB
  let s2 : PairSetupHybridMitm.XState :=
    { s1 with kn := PairSetupSym.learn (PairSetupSym.learn s1.kn (.gexp x.a)) (PairSetupSym.expM x.salt x.b (.gexp x.a)),
              em := PairSetupSym.learn s1.em (PairSetupSym.expM x.salt x.b (.gexp x.a)),
              hon := fun y => s1.hon y ∨ y = x }
  let At := PairSetupSym.Tm.gexp x.a
  let Mt := PairSetupSym.expM x.salt x.b At
  let r2 : Req := ⟨ctrlM3 (PairSetupHybrid.interp I At) (PairSetupHybrid.interp I Mt), [3], [6]⟩
  have st3 := PairSetupHybridMitm.XStep.req (I := I) s2 r2 (some (At, Mt))
    (PairSetupHybridMitm.XSendable.sym r2 At Mt (PairSetupSym.Der.ax (Or.inl (Or.inr rfl)))
      (PairSetupSym.Der.ax (Or.inr rfl)) (by decide +kernel) (by decide +kernel))
    (by decide +kernel) (by decide +kernel)
  refine ⟨_, _, PairSetupHybridMitm.XReach.step _ (PairSetupHybridMitm.XReach.step _
    (PairSetupHybridMitm.XReach.step _ PairSetupHybridMitm.XReach.refl st1) st2) st3, ?_⟩
  decide +kernel

end Hap.C01
