/-
  C02 — Secure sessions are granted only to currently paired controllers.

  Model: HapModel/PairVerify.lean (handle_pair_verify / _pair_verify_one / _pair_verify_two per
  connection, the pairing map, cipher installation).  The theorems hold for EVERY value of the
  crypto parameters `C`; statements that need "cannot forge" take the hypothesis records
  `IdealSig` / `IdealAEAD` / `IdealDH` / `FreshKeys` (Proofs/PairVerify.lean), which are satisfied
  by the concrete instance `Sym.crypto` (Proofs/PairVerifySym.lean) — no axioms.

  "Upgrade" := the handler hands a shared key to the protocol (which installs the transport
  cipher) and marks the connection verified (`upgrades`).
-/
import Proofs.PairVerifyOrigin
import Proofs.PairVerifyDY
import Proofs.HandlerConsts
namespace Hap.PV
open Hap Hap.Tlv

/-- The pair-verify labels, nonces and TLV constants found in pyhap/hap_handler.py *now*
    (regenerated on every run) are the ones the HAP specification prescribes and the reference
    controller uses independently. -/
theorem C02_protocol_constants :
    Hap.Gen.Handler.h_PVERIFY_1_SALT = Hap.Gen.Handler.ascii "Pair-Verify-Encrypt-Salt" ∧
    Hap.Gen.Handler.h_PVERIFY_1_INFO = Hap.Gen.Handler.ascii "Pair-Verify-Encrypt-Info" ∧
    Hap.Gen.Handler.h_PVERIFY_1_NONCE = [0, 0, 0, 0] ++ Hap.Gen.Handler.ascii "PV-Msg02" ∧
    Hap.Gen.Handler.h_PVERIFY_2_NONCE = [0, 0, 0, 0] ++ Hap.Gen.Handler.ascii "PV-Msg03" ∧
    Hap.Gen.Handler.tag_USERNAME = [1] ∧ Hap.Gen.Handler.tag_PUBLIC_KEY = [3] ∧
    Hap.Gen.Handler.tag_ENCRYPTED_DATA = [5] ∧ Hap.Gen.Handler.tag_SEQUENCE_NUM = [6] ∧
    Hap.Gen.Handler.tag_ERROR_CODE = [7] ∧ Hap.Gen.Handler.tag_PROOF = [10] ∧
    Hap.Gen.Handler.err_AUTHENTICATION = [2] :=
  ⟨Hap.Gen.Handler.pair_verify_labels.1, Hap.Gen.Handler.pair_verify_labels.2.1,
   Hap.Gen.Handler.pair_verify_labels.2.2.1, Hap.Gen.Handler.pair_verify_labels.2.2.2,
   by decide, by decide, by decide, by decide, by decide, by decide, by decide⟩


/-- **The iff.** For every history `ops` of pair / unpair / pair-verify / GET steps over any
    number of connections (from the initial system), a further request `body` on connection `c`
    upgrades **iff** (`Accepts`): `body` is a state-3 TLV whose encrypted data opens under the
    pre-session key of the context `c` currently holds (its own latest answered first step, see
    `C02_ctx_own` / `C02_ctx_fresh`), the sub-TLV has an identifier and a proof, the identifier
    parses to a UUID `u`, `u` is paired *now* with key `k`, `k` is a usable key, and `proof`
    verifies under `k` over `cepk ‖ identifier bytes ‖ sepk` of that context. -/
theorem C02_iff (C : Crypto) (ops : List Op) (c : Nat) (body : Bytes) :
    upgrades (step C (run C {} ops) (.verify c body)).2 = true ↔
      Accepts C (run C {} ops).pairings ((run C {} ops).conns c) body := by
  rw [upgrades_step]; exact handler_shared_iff C _ _ _ body

/-- The same characterisation in an arbitrary system state (no reachability needed). -/
theorem C02_iff_state (C : Crypto) (s : Sys) (c : Nat) (body : Bytes) :
    upgrades (step C s (.verify c body)).2 = true ↔ Accepts C s.pairings (s.conns c) body := by
  rw [upgrades_step]; exact handler_shared_iff C _ _ _ body

/-- What an upgrade does: the connection is verified *as the parsed identifier*, the context is
    consumed, and the transport cipher is keyed with the context's shared secret (when that is a
    non-empty byte string, as every X25519 output is). -/
theorem C02_upgrade_effect (C : Crypto) (s : Sys) (c : Nat) (body : Bytes)
    (h : upgrades (step C s (.verify c body)).2 = true) :
    ∃ cl u, claimOf C (s.conns c) body = some cl ∧ C.parseUuid cl.uname = some u ∧
      let c' := (step C s (.verify c body)).1.conns c
      c'.verified = true ∧ c'.client = some u ∧ c'.enc = none ∧
      (cl.ctx.sharedKey ≠ [] → c'.cipher = some cl.ctx.sharedKey) := by
  rw [C02_iff_state] at h
  obtain ⟨cl, proof, u, k, hcl, hpr, hu, hk, hok, hv⟩ := h
  refine ⟨cl, u, hcl, hu, ?_⟩
  have e := handler_accept_effect C s.pairings s.clock (s.conns c) body cl proof u k hcl hpr hu hk hok hv
  simp only [step, setConn_same, e, installCipher]
  split <;> simp_all

/-- **Only setter.** The privilege flag of a connection becomes true only in the accepting
    branch of that connection's own pair-verify request. -/
theorem C02_only_setter (C : Crypto) (s : Sys) (op : Op) (c : Nat)
    (h : ((step C s op).1.conns c).verified = true) :
    (s.conns c).verified = true ∨
      ∃ body, op = .verify c body ∧ Accepts C s.pairings (s.conns c) body := by
  by_cases hop : ∃ body, op = .verify c body
  · obtain ⟨body, rfl⟩ := hop
    simp only [step, setConn_same] at h
    rw [(installCipher_fields _ _).2.1] at h
    rcases handler_verified C s.pairings s.clock (s.conns c) body h with h1 | h2
    · exact Or.inl h1
    · exact Or.inr ⟨body, rfl, (handler_shared_iff C _ _ _ body).1 h2⟩
  · left
    rw [step_conn_other C s op c (fun body e => hop ⟨body, e⟩)] at h
    exact h

/-- A refused request never sets the flag and, in the final-step branch, changes nothing at all
    on the connection (a failed M3 keeps the context: a retry is possible, but needs a valid
    proof again). -/
theorem C02_refused_no_privilege (C : Crypto) (s : Sys) (c : Nat) (body : Bytes)
    (h : upgrades (step C s (.verify c body)).2 = false) :
    ((step C s (.verify c body)).1.conns c).verified = (s.conns c).verified := by
  rw [upgrades_step] at h
  have hv := handler_verified C s.pairings s.clock (s.conns c) body
  simp only [step, setConn_same]
  rw [(installCipher_fields _ _).2.1]
  cases hb : (s.conns c).verified
  · cases ha : (handlePairVerify C s.pairings s.clock (s.conns c) body).1.verified
    · rfl
    · rcases hv ha with h1 | h2
      · simp [hb] at h1
      · simp [h] at h2
  · revert hb
    unfold handlePairVerify verifyOne verifyTwo
    repeat' split
    all_goals simp_all

/-- **Identity is what was proven.** A refused pair-verify request — also one sent on an already
    verified connection and naming somebody else (e.g. an admin) with a bogus proof — leaves
    `client_uuid` and the privilege flag untouched: the connection stays authorised as the
    controller that proved itself, so a following `POST /pairings` is judged for *that* controller. -/
theorem C02_refused_keeps_identity (C : Crypto) (s : Sys) (c : Nat) (body : Bytes)
    (h : upgrades (step C s (.verify c body)).2 = false) :
    ((step C s (.verify c body)).1.conns c).client = (s.conns c).client ∧
    ((step C s (.verify c body)).1.conns c).verified = (s.conns c).verified := by
  rw [upgrades_step] at h
  have hn : (handlePairVerify C s.pairings s.clock (s.conns c) body).2.shared = none := by
    cases hs : (handlePairVerify C s.pairings s.clock (s.conns c) body).2.shared with
    | none => rfl
    | some k => simp [hs] at h
  have := handler_refused_identity C s.pairings s.clock (s.conns c) body hn
  simp only [step, setConn_same]
  rw [(installCipher_fields _ _).2.2, (installCipher_fields _ _).2.1]
  exact this

/-- list-pairings is served only on a verified connection whose recorded controller is an admin
    now; together with `C02_refused_keeps_identity` / `C02_upgrade_effect` that controller is the
    one whose proof was accepted. -/
theorem C02_list_only_proven_admin (C : Crypto) (s : Sys) (c n : Nat)
    (h : (step C s (.list c)).2 = some ⟨.listed n, none⟩) :
    (s.conns c).verified = true ∧ ∃ me, (s.conns c).client = some me ∧ isAdmin s.pairings me = true := by
  simp only [step, Option.some.injEq, Out.mk.injEq, and_true] at h
  split at h
  · simp at h
  · next me hme =>
    split at h
    · simp [authErr] at h
    · next hc =>
      simp only [not_or, Bool.not_eq_false] at hc
      exact ⟨hc.1, me, hme, hc.2⟩

/-- **Own context (non-interference).** Whatever happens on other connections or to the pairing
    map leaves the handler state of `c` — in particular its context — untouched: the context used
    by the iff is the one `c`'s own first step created. -/
theorem C02_ctx_own (C : Crypto) (s : Sys) (ops : List Op) (c : Nat)
    (h : ∀ op ∈ ops, ∀ body, op ≠ .verify c body) : (run C s ops).conns c = s.conns c := by
  induction ops generalizing s with
  | nil => simp [run]
  | cons op rest ih =>
    simp only [run]
    rw [ih _ (fun o ho => h o (List.mem_cons_of_mem _ ho))]
    exact step_conn_other C s op c (h op List.mem_cons_self)

/-- **Fresh ephemerals.** After every history: each context carries the number of the step that
    created it as the name of the accessory key pair (so names are never reused), different
    connections hold different key pairs, and each context is consistent
    (shared = X25519(own private, presented public), pre-session key = HKDF(shared)). -/
theorem C02_ctx_fresh (C : Crypto) (ops : List Op) : Good C (run C {} ops) :=
  good_run C {} ops (good_init C)

/-- a first step that is answered creates a context named by the current step number -/
theorem C02_first_step_names (C : Crypto) (s : Sys) (c : Nat) (body : Bytes) (ctx : Ctx)
    (h : ((step C s (.verify c body)).1.conns c).enc = some ctx) :
    (s.conns c).enc = some ctx ∨ ctx.priv = s.clock := by
  simp only [step, setConn_same] at h
  rw [(installCipher_fields _ _).1] at h
  rcases handler_enc C s.pairings s.clock (s.conns c) body with h1 | ⟨_, _, _, h2, _⟩ | ⟨h3, _⟩
  · left; rw [← h1]; exact h
  · right; rw [h2] at h; simp at h; rw [← h]
  · rw [h3] at h; simp at h

/-! ### Corollaries: who is refused -/

/-- Unknown identifier → refused. -/
theorem C02_unknown_id_refused (C : Crypto) (s : Sys) (c : Nat) (body : Bytes) (cl : Claim) (u : Uuid)
    (hcl : claimOf C (s.conns c) body = some cl) (hu : C.parseUuid cl.uname = some u)
    (hnot : getKey s.pairings u = none) :
    upgrades (step C s (.verify c body)).2 = false := by
  rw [Bool.eq_false_iff]; intro h
  rw [C02_iff_state] at h
  obtain ⟨cl', _, u', k, hcl', _, hu', hk, _⟩ := h
  rw [hcl] at hcl'; cases hcl'
  rw [hu] at hu'; cases hu'
  rw [hnot] at hk; cases hk

/-- Identifier that is not a UUID, or no proof at all → refused. -/
theorem C02_malformed_claim_refused (C : Crypto) (s : Sys) (c : Nat) (body : Bytes)
    (h : claimOf C (s.conns c) body = none ∨
         ∃ cl, claimOf C (s.conns c) body = some cl ∧ (cl.proof = none ∨ C.parseUuid cl.uname = none)) :
    upgrades (step C s (.verify c body)).2 = false := by
  rw [Bool.eq_false_iff]; intro hu
  rw [C02_iff_state] at hu
  obtain ⟨cl', pr, u', k, hcl', hpr, hu', _⟩ := hu
  rcases h with h | ⟨cl, hcl, h | h⟩
  · rw [h] at hcl'; cases hcl'
  · rw [hcl] at hcl'; cases hcl'; rw [h] at hpr; cases hpr
  · rw [hcl] at hcl'; cases hcl'; rw [h] at hu'; cases hu'

/-- Proof made with any other key than the registered one → refused (`IdealSig`). -/
theorem C02_other_key_refused (C : Crypto) (I : IdealSig C) (s : Sys) (c : Nat) (body : Bytes)
    (cl : Claim) (u : Uuid) (k sk m : Bytes)
    (hcl : claimOf C (s.conns c) body = some cl) (hu : C.parseUuid cl.uname = some u)
    (hk : getKey s.pairings u = some k) (hproof : cl.proof = some (C.sign sk m))
    (hother : k ≠ C.pkOf sk) :
    upgrades (step C s (.verify c body)).2 = false := by
  rw [Bool.eq_false_iff]; intro h
  rw [C02_iff_state] at h
  obtain ⟨cl', pr, u', k', hcl', hpr, hu', hk', _, hv⟩ := h
  rw [hcl] at hcl'; cases hcl'
  rw [hu] at hu'; cases hu'
  rw [hk] at hk'; cases hk'
  rw [hproof] at hpr; cases hpr
  exact hother (I.key_bound _ _ _ _ hv)

/-- Proof produced for another exchange → refused: in every reachable state, a signature — even
    one made with the registered key — over material that ends in the ephemeral public key of a
    *different* accessory key pair `n'` (any other exchange, on any connection, earlier or later:
    names are step numbers, `C02_ctx_fresh`) does not verify for this connection's context.
    (`IdealSig` + `FreshKeys`; `bound` covers the key pairs generated so far.) -/
theorem C02_other_exchange_refused (C : Crypto) (I : IdealSig C) {bound len : Nat}
    (F : FreshKeys C bound len) (ops : List Op) (c : Nat) (body : Bytes)
    (cl : Claim) (sk p : Bytes) (n' : Nat)
    (hb : ops.length ≤ bound) (hn' : n' < bound)
    (hcl : claimOf C ((run C {} ops).conns c) body = some cl)
    (hproof : cl.proof = some (C.sign sk (p ++ C.pubOf n')))
    (hother : n' ≠ cl.ctx.priv) :
    upgrades (step C (run C {} ops) (.verify c body)).2 = false := by
  rw [Bool.eq_false_iff]; intro h
  rw [C02_iff_state] at h
  obtain ⟨cl', pr, u', k', hcl', hpr, _, _, _, hv⟩ := h
  rw [hcl] at hcl'; cases hcl'
  rw [hproof] at hpr; cases hpr
  have hm := I.msg_bound _ _ _ _ hv
  have hctx := claimOf_ctx C _ body cl hcl
  have hlt := (C02_ctx_fresh C ops).lt c cl.ctx hctx
  rw [run_clock] at hlt
  simp at hlt
  unfold materialOf at hm
  exact fresh_inj C F cl.ctx.priv n' (by omega) hn' (Ne.symm hother) _ _ hm

/-- Final step without its first step → refused, nothing changes; this is the situation of a
    fresh connection and of a connection right after a completed verify (`C02_upgrade_effect`
    shows the context is consumed). -/
theorem C02_no_first_step_refused (C : Crypto) (s : Sys) (c : Nat) (body : Bytes)
    (h : (s.conns c).enc = none) (h3 : ∀ objs, decode body [] = some objs → lookupTag objs T_SEQUENCE_NUM ≠ some [1]) :
    upgrades (step C s (.verify c body)).2 = false ∧
      (step C s (.verify c body)).1.conns c = s.conns c := by
  have hup : upgrades (step C s (.verify c body)).2 = false := by
    rw [Bool.eq_false_iff]; intro hu
    rw [C02_iff_state] at hu
    obtain ⟨cl', _, _, _, hcl', _⟩ := hu
    unfold claimOf at hcl'
    repeat' split at hcl'
    all_goals simp_all
  refine ⟨hup, ?_⟩
  rw [upgrades_step] at hup
  simp only [step, setConn_same]
  revert hup
  unfold handlePairVerify verifyOne verifyTwo installCipher
  repeat' split
  all_goals simp_all

/-- A connection on which no pair-verify request was ever made has no context (history form of
    "final step without its first step"). -/
theorem C02_fresh_connection_no_ctx (C : Crypto) (ops : List Op) (c : Nat)
    (h : ∀ op ∈ ops, ∀ body, op ≠ .verify c body) : ((run C {} ops).conns c).enc = none := by
  rw [C02_ctx_own C {} ops c h]

/-- Removed identifier → refused, for every later history that does not register it again:
    after `unpair u` (directly or because the last admin went away) followed by any steps other
    than `pair u ..`, a final message claiming `u` is refused whatever proof it carries. -/
theorem C02_removed_id_refused (C : Crypto) (s : Sys) (u : Uuid) (ops : List Op) (c : Nat)
    (body : Bytes) (cl : Claim)
    (hops : ∀ op ∈ ops, ∀ k a, op ≠ .pair u k a)
    (hcl : claimOf C ((run C (step C s (.unpair u)).1 ops).conns c) body = some cl)
    (hu : C.parseUuid cl.uname = some u) :
    upgrades (step C (run C (step C s (.unpair u)).1 ops) (.verify c body)).2 = false := by
  apply C02_unknown_id_refused C _ c body cl u hcl hu
  have h0 : getKey (step C s (.unpair u)).1.pairings u = none := by
    simp only [step]
    split
    · exact getKey_removePairing _ _
    · next h => simpa using h
  generalize (step C s (.unpair u)).1 = t at h0 ⊢
  clear hcl
  induction ops generalizing t with
  | nil => simpa [run]
  | cons op rest ih =>
    simp only [run]
    apply ih (fun o ho => hops o (List.mem_cons_of_mem _ ho))
    have hop := hops op List.mem_cons_self
    cases op with
    | pair v k a =>
      have : v ≠ u := by intro e; subst e; exact hop k a rfl
      simp only [step]; rw [getKey_addPairing_ne _ _ _ _ _ this]; exact h0
    | unpair v =>
      simp only [step]
      split
      · exact getKey_removePairing_none _ _ _ h0
      · exact h0
    | verify d b => simpa [step] using h0
    | get d => simpa [step] using h0
    | list d => simpa [step] using h0

/-- Re-keyed final message → refused (`IdealAEAD`): data sealed under any key other than the
    pre-session key of this connection's own context (another connection's, a stale exchange's,
    the raw shared secret, a random key) or under another nonce does not open. -/
theorem C02_rekeyed_refused (C : Crypto) (A : IdealAEAD C) (s : Sys) (c : Nat) (objs : Items)
    (body k' n' pt : Bytes) (ctx : Ctx)
    (hbody : decode body [] = some objs)
    (henc : lookupTag objs T_ENCRYPTED_DATA = some (C.aeadEnc k' n' pt))
    (hctx : (s.conns c).enc = some ctx) (hother : k' ≠ ctx.preKey ∨ n' ≠ NONCE3) :
    upgrades (step C s (.verify c body)).2 = false := by
  apply C02_malformed_claim_refused
  cases hcl : claimOf C (s.conns c) body with
  | none => exact Or.inl rfl
  | some cl =>
    exfalso
    obtain ⟨objs', enc, dec, h1, h2, h3⟩ := claimOf_opens C _ body cl hcl
    have hc := claimOf_ctx C _ body cl hcl
    rw [hctx] at hc; cases hc
    rw [hbody] at h1; cases h1
    rw [henc] at h2; cases h2
    have := A.key_bound _ _ _ _ _ _ h3
    rcases hother with h | h
    · exact h this.1.symm
    · exact h this.2.1.symm

/-- **Completeness.** In every reachable state, an honest controller succeeds: it started the
    exchange with its ephemeral key pair `a` on connection `c`, derives the pre-session key from
    its own DH computation, and sends its identifier `ident` with a signature under the secret
    key `sk` whose public key is registered *now* for the UUID `ident` parses to
    (`IdealDH`, `IdealAEAD`, `IdealSig`). -/
theorem C02_complete (C : Crypto) (D : IdealDH C) (A : IdealAEAD C) (I : IdealSig C)
    (ops : List Op) (c a : Nat) (ctx : Ctx) (ident sk shared : Bytes) (u : Uuid)
    (hctx : ((run C {} ops).conns c).enc = some ctx) (hcp : ctx.clientPublic = C.pubOf a)
    (hsh : C.dh a (C.pubOf ctx.priv) = some shared)
    (hu : C.parseUuid ident = some u)
    (hreg : getKey (run C {} ops).pairings u = some (C.pkOf sk)) (hok : C.keyOk (C.pkOf sk) = true) :
    upgrades (step C (run C {} ops) (.verify c
      (encode [(T_SEQUENCE_NUM, [3]),
               (T_ENCRYPTED_DATA, C.aeadEnc (C.hkdf shared) NONCE3
                  (encode [(T_USERNAME, ident),
                           (T_PROOF, C.sign sk (C.pubOf a ++ ident ++ C.pubOf ctx.priv))]))]))).2 = true := by
  rw [C02_iff_state]
  have g := (C02_ctx_fresh C ops).consistent c ctx hctx
  have hshared : ctx.sharedKey = shared := by
    have := g.1
    rw [hcp, ← D.symm, hsh] at this
    exact (Option.some.inj this).symm
  refine ⟨⟨ctx, ident, some (C.sign sk (C.pubOf a ++ ident ++ C.pubOf ctx.priv))⟩, _, u, _, ?_, rfl, hu, hreg, hok, ?_⟩
  · have e2 : ∀ X : Bytes, decode (encode [(T_USERNAME, ident), (T_PROOF, X)]) [] =
        some [(T_USERNAME, ident), (T_PROOF, X)] := by
      intro X; rw [decode_encode_acc, merge_pair _ _ _ _ user_ne_proof]
    unfold claimOf
    rw [decode_encode_acc, merge_pair _ _ _ _ seq_ne_enc]
    simp [lookup_pair_fst, lookup_pair_snd _ _ _ _ seq_ne_enc, hctx, g.2, hshared, A.correct, e2,
      lookup_pair_snd _ _ _ _ user_ne_proof]
  · simp only [materialOf, hcp]
    exact I.complete _ _

/-! ### Deepening round: every body, every history -/

/-- **Only the key holder's signature on THIS exchange upgrades** (`StrongSig`).  For EVERY byte
    string `body` in EVERY state: if the request upgrades, then its proof field *is* the signature
    made with the secret key `sk` whose public key is registered *now* for the claimed identifier,
    over `cepk ‖ identifier ‖ sepk` of the context this connection holds.  (The shape-restricted
    corollaries above assume the proof is some `C.sign sk m`; this one covers junk proofs too.) -/
theorem C02_upgrade_needs_signature (C : Crypto) (S : StrongSig C) (s : Sys) (c : Nat) (body : Bytes)
    (h : upgrades (step C s (.verify c body)).2 = true) :
    ∃ cl u sk, claimOf C (s.conns c) body = some cl ∧ C.parseUuid cl.uname = some u ∧
      getKey s.pairings u = some (C.pkOf sk) ∧
      cl.proof = some (C.sign sk (materialOf C cl.ctx cl.uname)) := by
  rw [C02_iff_state] at h
  obtain ⟨cl, proof, u, k, hcl, hpr, hu, hk, _, hv⟩ := h
  obtain ⟨sk, rfl, rfl⟩ := S.only_sigs _ _ _ hv
  exact ⟨cl, u, sk, hcl, hu, hk, hpr⟩

/-- ... and the encrypted data *is* the sealing of that sub-TLV under the pre-session key derived
    from both ephemeral keys of this exchange (`StrongAEAD`; in reachable states
    `preKey = hkdf (X25519 (own private, presented public))`, `C02_ctx_fresh`). -/
theorem C02_upgrade_needs_sealing (C : Crypto) (A : StrongAEAD C) (s : Sys) (c : Nat) (body : Bytes)
    (h : upgrades (step C s (.verify c body)).2 = true) :
    ∃ cl objs pt, claimOf C (s.conns c) body = some cl ∧ decode body [] = some objs ∧
      lookupTag objs T_ENCRYPTED_DATA = some (C.aeadEnc cl.ctx.preKey NONCE3 pt) := by
  rw [C02_iff_state] at h
  obtain ⟨cl, _, _, _, hcl, _⟩ := h
  obtain ⟨objs, enc, dec, h1, h2, h3⟩ := claimOf_opens C _ body cl hcl
  exact ⟨cl, objs, dec, hcl, h1, by rw [h2, A.only_sealed _ _ _ _ h3]⟩

/-- **A proof is good for one session.**  For every history: once a final message carrying the proof
    `p` has upgraded a connection, no later request carrying the same proof `p` — on any connection,
    re-encrypted under whatever key, after any number of further pairing changes and exchanges —
    upgrades again.  ("Proofs replayed from another exchange are refused", derived rather than
    assumed: the replayed proof names the consumed exchange's accessory key, which no later context
    carries.)  `StrongSig` + `FreshKeys` for the key pairs generated in the history. -/
theorem C02_proof_single_use (C : Crypto) (S : StrongSig C) {bound len : Nat} (F : FreshKeys C bound len)
    (ops1 ops2 : List Op) (c1 c2 : Nat) (body1 body2 : Bytes) (cl2 : Claim) (p : Bytes)
    (hb : ops1.length + 1 + ops2.length < bound)
    (h1 : upgrades (step C (run C {} ops1) (.verify c1 body1)).2 = true)
    (hp1 : ∃ cl1, claimOf C ((run C {} ops1).conns c1) body1 = some cl1 ∧ cl1.proof = some p)
    (hcl2 : claimOf C ((run C (step C (run C {} ops1) (.verify c1 body1)).1 ops2).conns c2) body2 = some cl2)
    (hp2 : cl2.proof = some p) :
    upgrades (step C (run C (step C (run C {} ops1) (.verify c1 body1)).1 ops2) (.verify c2 body2)).2 = false := by
  rw [Bool.eq_false_iff]; intro h2
  obtain ⟨cl1, hcl1, hpr1⟩ := hp1
  obtain ⟨cl1', _, sk1, hcl1', _, _, hs1⟩ := C02_upgrade_needs_signature C S _ c1 body1 h1
  rw [hcl1] at hcl1'; cases hcl1'
  obtain ⟨cl2', _, sk2, hcl2', _, _, hs2⟩ := C02_upgrade_needs_signature C S _ c2 body2 h2
  rw [hcl2] at hcl2'; cases hcl2'
  rw [hpr1] at hs1; rw [hp2] at hs2
  have hsig : C.sign sk1 (materialOf C cl1.ctx cl1.uname) = C.sign sk2 (materialOf C cl2.ctx cl2.uname) := by
    rw [← Option.some.inj hs1, ← Option.some.inj hs2]
  have hmat := (S.sign_inj hsig).2
  -- the state after the first upgrade holds no context named like the consumed one
  have g1 := C02_ctx_fresh C ops1
  have hctx1 := claimOf_ctx C _ body1 cl1 hcl1
  have hlt1 := g1.lt c1 cl1.ctx hctx1
  have hclk1 : (run C {} ops1).clock = ops1.length := by rw [run_clock]; simp
  have hno : NoCtx cl1.ctx.priv (step C (run C {} ops1) (.verify c1 body1)).1 := by
    intro a ctx ha
    by_cases hac : a = c1
    · subst hac
      obtain ⟨_, _, _, _, _, _, henc, _⟩ := C02_upgrade_effect C _ a body1 h1
      rw [henc] at ha; cases ha
    · have ha' : ((run C {} ops1).conns a).enc = some ctx := by
        rw [← step_conn_other C _ (.verify c1 body1) a (fun b e => hac (by cases e; rfl))]; exact ha
      exact fun e => g1.distinct a c1 ctx cl1.ctx hac ha' hctx1 e
  have hno2 := noCtx_run C cl1.ctx.priv _ ops2 hno (by rw [step_clock]; omega)
  have hctx2 := claimOf_ctx C _ body2 cl2 hcl2
  have hne : cl2.ctx.priv ≠ cl1.ctx.priv := hno2 c2 cl2.ctx hctx2
  -- both names are below the bound, so the materials differ
  have g2 : Good C (run C (step C (run C {} ops1) (.verify c1 body1)).1 ops2) :=
    good_run C _ ops2 (good_step C _ _ g1)
  have hlt2 := g2.lt c2 cl2.ctx hctx2
  rw [run_clock, step_clock, hclk1] at hlt2
  unfold materialOf at hmat
  exact fresh_inj C F cl1.ctx.priv cl2.ctx.priv (by omega) (by omega) (Ne.symm hne) _ _ hmat

/-- **Unpaired identifier → refused, for every later history** that does not register it again
    (generalises `C02_removed_id_refused`: whatever made `v` unpaired — never paired, removed, or
    swept away by the last-admin rule). -/
theorem C02_unpaired_id_refused (C : Crypto) (t : Sys) (v : Uuid) (ops : List Op) (c : Nat)
    (body : Bytes) (cl : Claim)
    (h0 : getKey t.pairings v = none) (hops : ∀ op ∈ ops, ∀ k a, op ≠ .pair v k a)
    (hcl : claimOf C ((run C t ops).conns c) body = some cl) (hu : C.parseUuid cl.uname = some v) :
    upgrades (step C (run C t ops) (.verify c body)).2 = false :=
  C02_unknown_id_refused C _ c body cl v hcl hu (pv_run_getKey_none C t ops v h0 hops)

/-- **Last-admin sweep.**  When the removed controller `a` held the only admin pairing(s), EVERY
    previously paired identifier `v` is refused afterwards, whatever proof it presents, for every
    later history that does not register `v` again. -/
theorem C02_swept_id_refused (C : Crypto) (s : Sys) (a v : Uuid) (ops : List Op) (c : Nat)
    (body : Bytes) (cl : Claim)
    (hpaired : (getKey s.pairings a).isSome = true)
    (honly : ∀ e ∈ s.pairings, e.admin = true → e.uuid = a)
    (hops : ∀ op ∈ ops, ∀ k ad, op ≠ .pair v k ad)
    (hcl : claimOf C ((run C (step C s (.unpair a)).1 ops).conns c) body = some cl)
    (hu : C.parseUuid cl.uname = some v) :
    upgrades (step C (run C (step C s (.unpair a)).1 ops) (.verify c body)).2 = false := by
  apply C02_unpaired_id_refused C _ v ops c body cl _ hops hcl hu
  simp [step, hpaired, removePairing_last_admin _ _ honly, getKey]

/-- **The first step is answered.**  On a paired accessory a first message with a usable ephemeral
    key is answered with M2 (the accessory's fresh public key named by the step number, its
    identifier and its signature over `sepk ‖ id ‖ cepk`, sealed under the pre-session key) and the
    connection holds exactly this exchange's context; identity and privilege are untouched. -/
theorem C02_first_step_answered (C : Crypto) (s : Sys) (c : Nat) (cpub shared : Bytes)
    (hp : isPaired s.pairings = true) (hdh : C.dh s.clock cpub = some shared) :
    let r := step C s (.verify c (encode [(T_SEQUENCE_NUM, [1]), (T_PUBLIC_KEY, cpub)]))
    r.2 = some ⟨.pairing (m2Body C s.clock cpub shared), none⟩ ∧
    (r.1.conns c).enc = some ⟨cpub, s.clock, shared, C.hkdf shared⟩ ∧
    (r.1.conns c).verified = (s.conns c).verified ∧ (r.1.conns c).client = (s.conns c).client := by
  simp [step, handler_first_step C s.pairings s.clock (s.conns c) cpub shared hp hdh, installCipher]

/-- **Completeness of the whole exchange, under every interleaving.**  After ANY history `ops`, an
    honest controller that sends its first message on connection `c` (ephemeral key pair `a`) and —
    after ANY steps `mid` on other connections and ANY pairing changes — its final message for the
    identifier `ident`, signed with the secret key whose public key is registered for it at that
    moment, is upgraded.  (`IdealDH`, `IdealAEAD`, `IdealSig`.) -/
theorem C02_complete_exchange (C : Crypto) (D : IdealDH C) (A : IdealAEAD C) (I : IdealSig C)
    (ops mid : List Op) (c a : Nat) (ident sk shared : Bytes) (u : Uuid)
    (hp : isPaired (run C {} ops).pairings = true)
    (hsh : C.dh a (C.pubOf ops.length) = some shared)
    (hmid : ∀ op ∈ mid, ∀ b, op ≠ .verify c b)
    (hu : C.parseUuid ident = some u)
    (hreg : getKey (run C {} (ops ++ [.verify c (encode [(T_SEQUENCE_NUM, [1]), (T_PUBLIC_KEY, C.pubOf a)])] ++ mid)).pairings u
              = some (C.pkOf sk))
    (hok : C.keyOk (C.pkOf sk) = true) :
    upgrades (step C (run C {} (ops ++ [.verify c (encode [(T_SEQUENCE_NUM, [1]), (T_PUBLIC_KEY, C.pubOf a)])] ++ mid))
      (.verify c
        (encode [(T_SEQUENCE_NUM, [3]),
                 (T_ENCRYPTED_DATA, C.aeadEnc (C.hkdf shared) NONCE3
                    (encode [(T_USERNAME, ident),
                             (T_PROOF, C.sign sk (C.pubOf a ++ ident ++ C.pubOf ops.length))]))]))).2 = true := by
  have hclk : (run C {} ops).clock = ops.length := by rw [run_clock]; simp
  have hdh : C.dh (run C {} ops).clock (C.pubOf a) = some shared := by rw [hclk, D.symm]; exact hsh
  have h1 := (C02_first_step_answered C (run C {} ops) c (C.pubOf a) shared hp hdh).2.1
  have hctx : ((run C {} (ops ++ [.verify c (encode [(T_SEQUENCE_NUM, [1]), (T_PUBLIC_KEY, C.pubOf a)])] ++ mid)).conns c).enc
      = some ⟨C.pubOf a, ops.length, shared, C.hkdf shared⟩ := by
    rw [run_append, run_append, C02_ctx_own C _ mid c hmid]
    simp only [run]
    rw [h1, hclk]
  exact C02_complete C D A I _ c a ⟨C.pubOf a, ops.length, shared, C.hkdf shared⟩ ident sk shared u hctx rfl hsh hu hreg hok

/-- **Session ⇒ the key holder signed this very exchange** (agreement, Dolev–Yao rule for signatures
    as a restriction on runs: `Obeys`).  In every run of the world — pairing changes, requests with
    ARBITRARY bytes on any connection, honest key holders signing messages — in which honest-key
    signatures are presented to the accessory only if their holder issued them: when a request
    upgrades connection `c` as controller `u`, the key registered for `u` now is `pkOf sk` for the
    secret key `sk` the proof was made with, and if `sk` is an honest key then its holder has
    signed exactly `cepk ‖ identifier ‖ sepk` of the context `c` holds — the ephemeral keys of
    THIS exchange (`sepk` is named by the step that created the context and never reused,
    `C02_ctx_fresh`; by `C02_proof_single_use` that signature buys no second session). -/
theorem C02_session_origin (C : Crypto) (S : StrongSig C) (Honest : Bytes → Prop)
    (ops : List WOp) (c : Nat) (body : Bytes)
    (hob : Obeys C Honest {} (ops ++ [.sys (.verify c body)]))
    (h : upgrades (step C (wrun C {} ops).sys (.verify c body)).2 = true) :
    ∃ cl u sk, claimOf C ((wrun C {} ops).sys.conns c) body = some cl ∧ C.parseUuid cl.uname = some u ∧
      getKey (wrun C {} ops).sys.pairings u = some (C.pkOf sk) ∧
      cl.proof = some (C.sign sk (materialOf C cl.ctx cl.uname)) ∧
      (Honest sk → (sk, materialOf C cl.ctx cl.uname) ∈ (wrun C {} ops).log) := by
  obtain ⟨cl, u, sk, hcl, hu, hk, hpr⟩ := C02_upgrade_needs_signature C S _ c body h
  refine ⟨cl, u, sk, hcl, hu, hk, hpr, fun hh => ?_⟩
  have := obeys_append C Honest {} ops _ hob
  simp only [Obeys] at this
  exact this.1 cl sk _ hcl hpr hh

/-- **Why an attacker obeys the rule** (term level, classic Dolev–Yao closure; `Proofs/PairVerifyDY`):
    for messages of a free term algebra and an attacker that can pair / project, sign with keys it
    derives, read signed messages, seal / open with keys it derives, derive keys and run
    Diffie–Hellman with its own secrets — if the honest long-term secret `n` occurs in the observed
    traffic `K` only as a signing key, under `pk` or inside a Diffie–Hellman value (which is how
    pair-setup and pair-verify use it), then the secret is not derivable and every signature under
    it that occurs ANYWHERE in ANY message the attacker can build occurs in an observed message,
    i.e. was issued by the key holder.  This is `Obeys` of `C02_session_origin`, for terms. -/
theorem C02_dy_signature_rule (K : DY.Tm → Prop) (n : Nat) (hK : ∀ k, K k → DY.Hid n k) :
    ¬ DY.Der K (.sec n) ∧
    ∀ t, DY.Der K t → ∀ m, DY.Occ (.sig (.sec n) m) t → ∃ k, K k ∧ DY.Occ (.sig (.sec n) m) k :=
  ⟨DY.secret_underivable K n hK, fun _ h m hs => DY.sig_from_observed K n hK h m hs⟩

/-! ### Non-vacuity: the hypothesis records are inhabited, and a concrete exchange runs -/

example : IdealSig Sym.crypto ∧ IdealAEAD Sym.crypto ∧ IdealDH Sym.crypto ∧ FreshKeys Sym.crypto 256 32 :=
  ⟨Sym.idealSig, Sym.idealAEAD, Sym.idealDH, Sym.freshKeys⟩

example : StrongSig Sym.crypto ∧ StrongAEAD Sym.crypto := ⟨Sym.strongSig, Sym.strongAEAD⟩

namespace Demo
open Sym

def uA : Uuid := List.replicate 16 0xA1
def skA : Bytes := [9, 9, 9]
def skB : Bytes := [8, 8]
/-- controller ephemeral key pair 200; the accessory's pair is named by the step number (1) -/
def m1 : Bytes := encode [(T_SEQUENCE_NUM, [1]), (T_PUBLIC_KEY, crypto.pubOf 200)]
def shared1 : Bytes := [UInt8.ofNat 200 ^^^ UInt8.ofNat 1]
def m3 (sk : Bytes) (n : Nat) : Bytes :=
  encode [(T_SEQUENCE_NUM, [3]),
          (T_ENCRYPTED_DATA, crypto.aeadEnc (crypto.hkdf shared1) NONCE3
            (encode [(T_USERNAME, uA), (T_PROOF, crypto.sign sk (crypto.pubOf 200 ++ uA ++ crypto.pubOf n))]))]
def hist : List Op := [.pair uA (crypto.pkOf skA) true, .verify 0 m1]

/-- honest final message: upgrade -/
example : upgrades (step crypto (run crypto {} hist) (.verify 0 (m3 skA 1))).2 = true := by decide +kernel
/-- signed with another key: refused -/
example : upgrades (step crypto (run crypto {} hist) (.verify 0 (m3 skB 1))).2 = false := by decide +kernel
/-- proof bound to another exchange's accessory key: refused -/
example : upgrades (step crypto (run crypto {} hist) (.verify 0 (m3 skA 7))).2 = false := by decide +kernel
/-- sent on a connection without a first step: refused -/
example : upgrades (step crypto (run crypto {} hist) (.verify 1 (m3 skA 1))).2 = false := by decide +kernel
/-- pairing removed between the steps: refused -/
example : upgrades (step crypto (run crypto {} (hist ++ [.unpair uA])) (.verify 0 (m3 skA 1))).2 = false := by
  decide +kernel
/-- after the upgrade the same message is refused and the session stays as it was -/
example : upgrades (step crypto (run crypto {} (hist ++ [.verify 0 (m3 skA 1)])) (.verify 0 (m3 skA 1))).2 = false := by
  decide +kernel
example : ((run crypto {} (hist ++ [.verify 0 (m3 skA 1)])).conns 0).verified = true ∧
    ((run crypto {} (hist ++ [.verify 0 (m3 skA 1)])).conns 0).client = some uA ∧
    ((run crypto {} (hist ++ [.verify 0 (m3 skA 1)])).conns 0).cipher = some shared1 := by decide +kernel


/-! hypotheses of the deepening-round theorems on concrete runs -/

/-- a second exchange on connection 1 (controller key pair 201, accessory key pair named 3) -/
def m1b : Bytes := encode [(T_SEQUENCE_NUM, [1]), (T_PUBLIC_KEY, crypto.pubOf 201)]
/-- the proof that upgraded connection 0 -/
def proofA : Bytes := crypto.sign skA (crypto.pubOf 200 ++ uA ++ crypto.pubOf 1)
/-- the same proof, re-encrypted by somebody who completed a first step of their own -/
def replayed : Bytes :=
  encode [(T_SEQUENCE_NUM, [3]),
          (T_ENCRYPTED_DATA, crypto.aeadEnc (crypto.hkdf [UInt8.ofNat 201 ^^^ UInt8.ofNat 3]) NONCE3
            (encode [(T_USERNAME, uA), (T_PROOF, proofA)]))]
def hist2 : List Op := hist ++ [.verify 0 (m3 skA 1), .verify 1 m1b]

/-- `C02_proof_single_use`: the re-encrypted replay reaches the signature check (its claim exists and
    carries the consumed proof) and is refused -/
example : (claimOf crypto ((run crypto {} hist2).conns 1) replayed).map (·.proof) = some (some proofA) ∧
    (claimOf crypto ((run crypto {} hist).conns 0) (m3 skA 1)).map (·.proof) = some (some proofA) ∧
    upgrades (step crypto (run crypto {} hist2) (.verify 1 replayed)).2 = false := by decide +kernel

/-- `C02_complete_exchange` with an interleaved exchange on another connection and a pairing change
    in between -/
example : upgrades (step crypto (run crypto {} (hist ++ [.verify 1 m1b, .pair (List.replicate 16 0xB2) (crypto.pkOf skB) false]))
    (.verify 0 (m3 skA 1))).2 = true := by decide +kernel

/-- `C02_swept_id_refused`: B's honest final message after the only admin A was removed -/
example :
    let uB : Uuid := List.replicate 16 0xB2
    let h : List Op := [.pair uA (crypto.pkOf skA) true, .pair uB (crypto.pkOf skB) false, .verify 0 m1, .unpair uA,
                        .pair (List.replicate 16 0xC3) (crypto.pkOf skA) true]
    upgrades (step crypto (run crypto {} h) (.verify 0
      (encode [(T_SEQUENCE_NUM, [3]),
        (T_ENCRYPTED_DATA, crypto.aeadEnc (crypto.hkdf [UInt8.ofNat 200 ^^^ UInt8.ofNat 2]) NONCE3
          (encode [(T_USERNAME, uB), (T_PROOF, crypto.sign skB (crypto.pubOf 200 ++ uB ++ crypto.pubOf 2))]))]))).2 = false := by
  decide +kernel

/-- ... and the same final message is accepted when A is not removed (a GET keeps the step count) -/
example :
    let uB : Uuid := List.replicate 16 0xB2
    let h : List Op := [.pair uA (crypto.pkOf skA) true, .pair uB (crypto.pkOf skB) false, .verify 0 m1, .get 9,
                        .pair (List.replicate 16 0xC3) (crypto.pkOf skA) true]
    upgrades (step crypto (run crypto {} h) (.verify 0
      (encode [(T_SEQUENCE_NUM, [3]),
        (T_ENCRYPTED_DATA, crypto.aeadEnc (crypto.hkdf [UInt8.ofNat 200 ^^^ UInt8.ofNat 2]) NONCE3
          (encode [(T_USERNAME, uB), (T_PROOF, crypto.sign skB (crypto.pubOf 200 ++ uB ++ crypto.pubOf 2))]))]))).2 = true := by
  decide +kernel

/-- `C02_session_origin`: a world run that obeys the rule (the holder of `skA` signs its final-message
    material, the network delivers it) and ends in an upgrade -/
def whist : List WOp :=
  [.sys (.pair uA (crypto.pkOf skA) true), .sys (.verify 0 m1), .sign skA (crypto.pubOf 200 ++ uA ++ crypto.pubOf 1)]

example : Obeys crypto (fun sk => sk = skA) {} (whist ++ [.sys (.verify 0 (m3 skA 1))]) ∧
    upgrades (step crypto (wrun crypto {} whist).sys (.verify 0 (m3 skA 1))).2 = true := by
  refine ⟨?_, by decide +kernel⟩
  simp only [whist, List.cons_append, List.nil_append, Obeys, and_true, true_and]
  constructor
  · intro cl sk m hcl
    have h0 : claimOf crypto ((wrun crypto {} [.sys (.pair uA (crypto.pkOf skA) true)]).sys.conns 0) m1 = none := by
      decide +kernel
    have hcl' : claimOf crypto ((wrun crypto {} [.sys (.pair uA (crypto.pkOf skA) true)]).sys.conns 0) m1 = some cl := hcl
    rw [h0] at hcl'; cases hcl'
  · intro cl sk m hcl hpr _
    have h0 : (claimOf crypto ((wrun crypto {} whist).sys.conns 0) (m3 skA 1)).map (·.proof) = some (some proofA) := by
      decide +kernel
    have hcl' : claimOf crypto ((wrun crypto {} whist).sys.conns 0) (m3 skA 1) = some cl := hcl
    rw [hcl'] at h0
    simp only [Option.map_some, Option.some.injEq] at h0
    rw [hpr] at h0
    have := Sym.strongSig.sign_inj (Option.some.inj h0)
    rw [this.1, this.2]
    exact List.mem_singleton.2 rfl

end Demo

/-! the observed traffic of one honest pair-verify exchange satisfies the hypothesis of
    `C02_dy_signature_rule`, and the only signature under the controller's secret the attacker can
    ever present is the one over this exchange's material -/
namespace DYDemo
open DY DY.Demo

example (t : Tm) (h : Der (· ∈ obs) t) (m : Tm) (hs : Occ (.sig (.sec 1) m) t) : m = material := by
  obtain ⟨k, hk, hsub⟩ := (C02_dy_signature_rule (· ∈ obs) 1 obs_hid).2 t h m hs
  simp only [obs, List.mem_cons, List.not_mem_nil, or_false] at hk
  rcases hk with rfl | rfl | rfl | rfl <;> simp [Occ, material, idA] at hsub
  exact hsub

/-- the attacker can relay the observed final message (and nothing forces it to know its content) -/
example : Der (· ∈ obs) (.aead (.kdf (.dh (.sec 10) (.sec 20))) (.cat idA (.sig (.sec 1) material))) :=
  .known (by simp [obs])

end DYDemo

end Hap.PV
