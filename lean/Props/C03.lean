/-
  C03 — Unverified connections can neither read nor change anything.
  Property theorems only; lemmas live in Proofs/Dispatch.lean, the model in HapModel/Dispatch.lean,
  the routing table with the guard shapes is regenerated from pyhap/hap_handler.py on every run
  (HapModel/Gen/Routes.lean).
-/
import Proofs.Dispatch
import Proofs.DispatchPool
import Proofs.Pump
import HapModel.Gen.Routes
namespace Hap.Http

variable {σ : Type}

/-- Every route in `HAPServerHandler.HANDLERS` *as it is now* is one of the two exempt routes or
    starts with a recognised privilege guard. A new or un-guarded route makes this fail to build;
    `./check C03` then names the offending rows. -/
theorem C03_table : ∀ r ∈ Gen.routes, r.exempt = true ∨ r.guard ≠ .none := by decide

/-- The privilege flag has exactly one kind of non-`False` writer in pyhap: code of the request
    handler that is reached (through the intra-class call graph) from the `/pair-verify` handler and
    from no other route; and the only route whose handler can reach an assignment to the flag at all
    is `/pair-verify`. Writer sites are named by the routes that reach them — public things only —
    so a renamed private method changes nothing, while a new writer or a writer reachable from
    another route makes this fail to build. -/
theorem C03_only_setter_table :
    (∀ x ∈ Gen.verifiedWriters, x.2 ≠ "False" → x.1 = "routes: POST /pair-verify") ∧
    (∀ r ∈ Gen.routes, r.setsVerified = true → r.path = PAIR_VERIFY) := by decide

/-- Non-interference, one request. For every routing table in which all non-exempt routes are
    guarded, every `urlparse` / `is_admin` / handler-body behaviour `P`, every world with the
    connection unverified, and every request (any method, target, headers, body — also undecodable
    ones and unknown routes) that does not resolve to `/pair-setup` or `/pair-verify`:
    the world — values, topics, prepared writes, pairings, snapshot-callback count and everything
    else a handler could touch — is exactly what it was, and the answer is a refusal (status not
    2xx or a pairing-TLV authentication error, nothing deferred, no session key). -/
theorem C03_noninterference (routes : List Route) (ht : TableGuarded routes) (P : Params σ)
    (w : World σ) (req : Option Req) (body : Bytes) (hv : w.verified = false)
    (hx : hitsExempt routes P (req, body) = false) :
    (dispatch routes P w req body).1 = w ∧ (dispatch routes P w req body).2.refusal = true :=
  dispatch_unverified routes P w req body hv (nonexempt_guarded ht hx)

/-- The same for the table extracted from the source. -/
theorem C03_noninterference_gen (P : Params σ) (w : World σ) (req : Option Req) (body : Bytes)
    (hv : w.verified = false) (hx : hitsExempt Gen.routes P (req, body) = false) :
    (dispatch Gen.routes P w req body).1 = w ∧ (dispatch Gen.routes P w req body).2.refusal = true :=
  C03_noninterference Gen.routes C03_table P w req body hv hx

/-- Nothing of the world leaks into a refusal: two arbitrary worlds (different values, pairings,
    snapshots, even different handler bodies and admin tables) that are both unverified and agree
    on "a controller id is set" get byte-identical answers to the same non-exempt request. -/
theorem C03_response_independent (routes : List Route) (ht : TableGuarded routes)
    (P : Params σ) (P' : Params σ') (hup : P.urlparse = P'.urlparse)
    (w : World σ) (w' : World σ') (req : Option Req) (body : Bytes)
    (hv : w.verified = false) (hv' : w'.verified = false)
    (hu : w.clientUuid.isNone = w'.clientUuid.isNone)
    (hx : hitsExempt routes P (req, body) = false) :
    (dispatch routes P w req body).2 = (dispatch routes P' w' req body).2 := by
  have hres : resolve routes P' req body = resolve routes P req body := by
    unfold resolve; rw [hup]
  unfold dispatch protectedRegion
  rw [hres]
  cases h : resolve routes P req body with
  | error e => rfl
  | ok rc =>
    obtain ⟨r, ctx⟩ := rc
    have hg := nonexempt_guarded ht hx r ctx h
    obtain ⟨resp, e, hgr, _⟩ := guard_refuses P r.guard w hg hv
    have hgr' := guardRefusal_unverified_indep P P' r.guard w w' hv hv' hu hg
    simp [runHandler, ← hgr', hgr]

/-- Histories: as long as the connection has not completed pair-verify (the flag is false before
    every request), the non-exempt requests of the history are no-ops — the final world is the one
    produced by the pair-setup / pair-verify requests alone — and each of them is refused. Covers
    fresh, mid-setup, after a failed verify, after verify step 1. -/
theorem C03_history (routes : List Route) (ht : TableGuarded routes) (P : Params σ)
    (reqs : List (Option Req × Bytes)) (w : World σ) (h : StaysUnverified routes P w reqs) :
    (runReqs routes P w reqs).1 = (runReqs routes P w (reqs.filter (hitsExempt routes P))).1 ∧
    ∀ p ∈ List.zip reqs (runReqs routes P w reqs).2,
      hitsExempt routes P p.1 = false → p.2.refusal = true :=
  ⟨runReqs_filter routes ht P reqs w h, runReqs_refusals routes ht P reqs w h⟩

/-- The flag changes only through a route whose handler contains an assignment to it — by
    `C03_only_setter_table` that is `/pair-verify` — and only if that handler's body was entered. -/
theorem C03_only_setter (P : Params σ) (w : World σ) (req : Option Req) (body : Bytes)
    (h : (dispatch Gen.routes P w req body).1.verified ≠ w.verified) :
    ∃ r ctx, resolve Gen.routes P req body = .ok (r, ctx) ∧ r.path = PAIR_VERIFY := by
  obtain ⟨r, ctx, hres, hs, _⟩ := dispatch_verified_change Gen.routes P w req body h
  exact ⟨r, ctx, hres, C03_only_setter_table.2 r (resolve_mem hres) hs⟩

/-- In the one function that raises the flag (the pair-verify M3 step) the assignment is the last
    fallible step: a top-level statement with nothing after it that can raise. So an exception
    anywhere in the M3 handler (saving the state, building M4, handing over the session key) leaves
    the flag false: "privileged" and "pair-verify completed" are atomic with respect to exceptions,
    which is what the model's `runHandler` assumes when it takes the flag from the body's result.
    (Also exercised by the harness: faults injected into the M3 handler, then a plaintext sweep.) -/
theorem C03_setter_atomic_table : ∀ x ∈ Gen.verifiedSetterLast, x.2 = true := by decide

/-! ### several connections on one accessory -/

/-- Frame property: a request on ANOTHER connection (pairing administration and the session
    teardown it triggers included) never raises this connection's flag — at most it clears it. -/
theorem C03_frame (routes : List Route) (P : Params σ) (lower : σ → Nat → Bool) (p : Pool σ)
    (i j : Nat) (req : Option Req) (body : Bytes) (hij : j ≠ i)
    (h : (stepConn routes P lower p i req body).1.verified j = true) : p.verified j = true :=
  stepConn_frame routes P lower p i j req body hij h

/-- Non-interference inside a pool: a non-exempt request on an unverified connection leaves the
    whole pool — shared state, its own fields, every other connection's fields — unchanged and is
    refused. -/
theorem C03_pool_noninterference (routes : List Route) (ht : TableGuarded routes) (P : Params σ)
    (lower : σ → Nat → Bool) (p : Pool σ) (i : Nat) (req : Option Req) (body : Bytes)
    (hv : p.verified i = false) (hx : hitsExempt routes P (req, body) = false) :
    (stepConn routes P lower p i req body).1 = p ∧
    (stepConn routes P lower p i req body).2.refusal = true :=
  stepConn_unverified routes ht P lower p i req body hv hx

/-- Cross-connection histories: for every interleaving of requests of any number of connections —
    whatever the others do, verified admins adding / removing / listing pairings included — a
    connection that starts unverified and itself sends only non-exempt requests is unverified at
    the end and every one of its requests was refused. -/
theorem C03_pool_history (routes : List Route) (ht : TableGuarded routes) (P : Params σ)
    (lower : σ → Nat → Bool) (j : Nat) (steps : List (Nat × Option Req × Bytes)) (p : Pool σ)
    (hv : p.verified j = false) (hs : ∀ s ∈ steps, s.1 = j → hitsExempt routes P s.2 = false) :
    (runPool routes P lower p steps).1.verified j = false ∧
    ∀ x ∈ (runPool routes P lower p steps).2, x.1 = j → x.2.refusal = true :=
  runPool_stays_unverified routes ht P lower j steps p hv hs

/-- The same at every point of every interleaved history, for connections that DID talk to the
    exempt routes before (fresh, mid pair-setup, after a failed verify, after verify step 1 — and
    while other connections do anything): whenever connection `i` is unverified at the moment its
    non-exempt request is dispatched, the step leaves the whole pool unchanged and is a refusal. -/
theorem C03_pool_always (routes : List Route) (ht : TableGuarded routes) (P : Params σ)
    (lower : σ → Nat → Bool) (steps : List (Nat × Option Req × Bytes)) (p : Pool σ) :
    PoolAlways routes P lower p steps :=
  poolAlways routes ht P lower steps p

/-! ### through the protocol object: what `_process_response` does with the refusal -/

/-- One request as the connection's event pump handles it (`_process_one_event` on EndOfMessage:
    `dispatch`, then `_process_response` with its deferred-task, session-key, session-teardown and
    advertisement-refresh steps), for every h11 behaviour: on an unverified connection a request
    that is not for an exempt route leaves the world untouched, parks no delayed response, installs
    no session key, tears no session down, schedules no advertisement refresh; it writes at most
    the one refusal (or h11 refuses to frame it and the pump closes). -/
theorem C03_pump_request {H : Type} (I : H11 H) (routes : List Route) (ht : TableGuarded routes) (P : Params σ)
    (td : Teardown σ) (c : Conn H σ) (h' : H) (hev : I.nextEvent c.h = (h', .endOfMessage))
    (hv : c.w.verified = false) (hx : hitsExempt routes P (c.request, c.body.flatten) = false) :
    let c' := (processOneEvent I (dispOk routes P) td c).1
    c'.w = c.w ∧ c'.pending = c.pending ∧ c'.encrypted = c.encrypted ∧ c'.finishPair = c.finishPair ∧
    c'.closing = c.closing ∧
    (c'.out = c.out ∨ ∃ b, c'.out = c.out ++ [.write b]) := by
  obtain ⟨hw, href⟩ := dispatch_unverified routes P c.w c.request c.body.flatten hv (nonexempt_guarded ht hx)
  simp only [Resp.refusal, Bool.and_eq_true, Bool.not_eq_true'] at href
  obtain ⟨⟨⟨⟨_, htask⟩, hkey⟩, hrem⟩, hchg⟩ := href
  simp only [processOneEvent, hev, dispOk]
  generalize dispatch routes P c.w c.request c.body.flatten = x at hw htask hkey hrem hchg
  obtain ⟨w', r⟩ := x
  simp only [] at hw htask hkey hrem hchg
  subst hw
  exact respond_plain I td _ r c.eoms htask hkey hrem hchg

/-! ### the table before the repair: `POST /resource` had no guard -/

/-- `handle_resource` as shipped: no privilege test. -/
def legacyResource : Route :=
  { name := "POST /resource", method := asc "POST", path := asc "/resource",
    handler := "handle_resource", guard := .none, setsVerified := false }

/-- a handler body that serves the snapshot: counts the callback, answers 200 with the bytes -/
def snapshotBody : Params Nat :=
  { urlparse := fun p => .ok p, isAdmin := fun _ _ => false,
    body := fun _ w _ => ({ w with st := w.st + 1 }, { status := 200, body := asc "JPEG", task := true }, none) }

def resourceReq : Option Req := some { method := asc "POST", target := asc "/resource", headers := [] }

/-- With the unguarded route an unverified `POST /resource` enters the body: the snapshot callback
    runs and the answer is not a refusal. Replayed on the implementation by the harness. -/
theorem C03_legacy_counterexample :
    let w : World Nat := { st := 0, verified := false, clientUuid := none }
    (dispatch [legacyResource] snapshotBody w resourceReq []).1.st = 1 ∧
    (dispatch [legacyResource] snapshotBody w resourceReq []).2.refusal = false := by decide

/-! ### non-vacuity -/

/-- the hypotheses of `C03_noninterference_gen` are satisfiable on a non-trivial request: an
    unverified `POST /resource` against the extracted table does not hit an exempt route, … -/
example : hitsExempt Gen.routes snapshotBody (resourceReq, []) = false := by decide
/-- … is answered 401 / -70401 and leaves the snapshot counter alone, -/
example :
    dispatch Gen.routes snapshotBody { st := 0, verified := false, clientUuid := none } resourceReq []
      = ({ st := 0, verified := false, clientUuid := none },
         { status := 401, headers := [CT_JSON], body := JSON_INSUFFICIENT }) := by decide
/-- … whereas the same request on a verified connection reaches the body. -/
example :
    (dispatch Gen.routes snapshotBody { st := 0, verified := true, clientUuid := some 1 } resourceReq []).1.st = 1 := by
  decide
/-- `POST /pairings` without a controller id: the `assert` refuses with 500. -/
example :
    (dispatch Gen.routes snapshotBody { st := 0, verified := false, clientUuid := none }
      (some { method := asc "POST", target := asc "/pairings", headers := [] }) []).2.status = 500 := by decide
/-- an undecodable header is refused (500) as well -/
example :
    (dispatch Gen.routes snapshotBody { st := 0, verified := false, clientUuid := none }
      (some { method := asc "GET", target := asc "/accessories", headers := [(asc "x", [0xff])] }) []).2.status = 500 := by
  decide
/-- a history with a pair-verify attempt in the middle that does not complete -/
example : StaysUnverified Gen.routes snapshotBody { st := 0, verified := false, clientUuid := none }
    [(resourceReq, []), (some { method := asc "POST", target := asc "/pair-verify", headers := [] }, []),
     (resourceReq, [])] := by
  simp only [StaysUnverified]; decide

/-- a pool history: connection 1 (verified admin) removes a pairing between two requests of the
    unverified connection 0 -/
example :
    let p : Pool Nat := { st := 0, verified := fun j => j == 1, uuid := fun j => if j == 1 then some 1 else none }
    ((runPool Gen.routes snapshotBody (fun _ _ => true) p
        [(0, resourceReq, []), (1, some { method := asc "POST", target := asc "/pairings", headers := [] }, []),
         (0, resourceReq, [])]).1.verified 0) = false := by decide

/-- `C03_pump_request` is not vacuous: an unverified `POST /resource` arriving through the pump
    (scripted h11) is answered by exactly one write, the snapshot counter stays 0, nothing is parked,
    no key installed; the same request on a verified connection parks a delayed response instead. -/
example :
    let c : Conn (List Ev) Nat :=
      { h := [.endOfMessage], w := { st := 0, verified := false, clientUuid := none }, request := resourceReq }
    let c' := (processOneEvent scriptedH11 (dispOk Gen.routes snapshotBody) (fun w => (w, false)) c).1
    c'.out.length = 1 ∧ c'.w.st = 0 ∧ c'.pending = none ∧ c'.encrypted = false := by decide
example :
    let c : Conn (List Ev) Nat :=
      { h := [.endOfMessage], w := { st := 0, verified := true, clientUuid := some 1 }, request := resourceReq }
    let c' := (processOneEvent scriptedH11 (dispOk Gen.routes snapshotBody) (fun w => (w, false)) c).1
    c'.out = [] ∧ c'.w.st = 1 ∧ c'.pending.isSome = true := by decide

end Hap.Http
