/-
  C04 — Inbound encrypted transport delivers exactly the authentic byte stream.
  Model: HapModel/Frame.lean (`drain` = the while loop of HAPCrypto.decrypt, `Rx.recv` =
  HAPServerProtocol.data_received on a secured connection). Lemmas: Proofs/Frame.lean.
-/
import Proofs.Frame
import Proofs.Nonce
import HapModel.Gen.Crypto
namespace Hap.Frame
open Hap

/-- The numeric constants and key-derivation labels found in pyhap/hap_crypto.py *now* (regenerated
    on every run) are the ones the model and all theorems below are about. (How the code USES them —
    loop guard, nonce and length packing, which label keys which direction — is deliberately not
    pinned by source text, which would alarm on harmless rewrites: it is tied by the differential
    runs, incl. 19-byte tail frames and the reference codec with real ChaCha20-Poly1305.) -/
theorem C04_consts :
    Gen.Crypto.maxBlockLength = MAXBLK ∧ Gen.Crypto.lengthLength = LENLEN ∧
    Gen.Crypto.tagLength = TAG ∧ Gen.Crypto.minPayloadLength = 1 ∧
    Gen.Crypto.minBlockLength = MINBLK ∧
    Gen.Crypto.lengthLength + Gen.Crypto.tagLength + Gen.Crypto.minPayloadLength = MINBLK ∧
    Gen.Crypto.cipherSalt = "Control-Salt" ∧
    Gen.Crypto.inCipherInfo = "Control-Write-Encryption-Key" := by decide

/-- Exactness and chunk independence: for every list of payloads of 1..1024 bytes sealed by a
    correct AEAD under counters 0,1,2,…, followed by any incomplete tail `t`, and EVERY way
    `cs` of splitting that byte stream into reads (byte-at-a-time included), the bytes handed to
    the HTTP layer are exactly the concatenated payloads, the counter equals the number of
    frames, the tail stays buffered, and the connection stays open. -/
theorem C04_authentic (A : Aead) (hA : Correct A) (ps : List Bytes)
    (hps : ∀ p ∈ ps, 1 ≤ p.length ∧ p.length ≤ MAXBLK) (t : Bytes) (ht : Incomplete t)
    (cs : List Bytes) (hcs : cs.flatten = wires A 0 ps ++ t) :
    Rx.run A {} cs = ({ buf := t, cnt := ps.length, closed := false }, ps.flatten) := by
  have h := drain_wires A hA ps hps t ht 0 []
  simp only [Nat.zero_add, List.nil_append] at h
  have hinc : Incomplete ([] : Bytes) := Or.inl (by simp [MINBLK])
  have := run_flatten A cs {} rfl hinc (b := t) (c := ps.length) (out := ps.flatten)
    (by simpa [hcs] using h)
  simpa using this

/-- Promptness: whenever the reads so far end strictly inside frame `n` (after `j` of its bytes,
    `j = 0` included), payloads `0 … n-1` have all been handed over already — i.e. each payload
    is available as soon as the last byte of its frame has arrived. -/
theorem C04_prompt (A : Aead) (hA : Correct A) (ps : List Bytes)
    (hps : ∀ p ∈ ps, 1 ≤ p.length ∧ p.length ≤ MAXBLK) (n : Nat) (hn : n < ps.length)
    (j : Nat) (hj : j < (wire A n ps[n]).length)
    (cs : List Bytes) (hcs : cs.flatten = wires A 0 (ps.take n) ++ (wire A n ps[n]).take j) :
    Rx.run A {} cs =
      ({ buf := (wire A n ps[n]).take j, cnt := n, closed := false }, (ps.take n).flatten) := by
  have hp := hps ps[n] (List.getElem_mem hn)
  have hinc := prefix_incomplete A n ps[n] hp.2 _ j hj rfl
  have := C04_authentic A hA (ps.take n) (fun p hp => hps p (List.mem_of_mem_take hp)) _ hinc cs hcs
  rw [this, List.length_take, Nat.min_eq_left (Nat.le_of_lt hn)]

/-- Safety against an arbitrary adversary: if only what the sender sealed opens, and only at its
    own counter (`Ideal`), then for EVERY byte stream in EVERY chunking the bytes handed to the
    HTTP layer are, at all times, exactly the first `cnt` authentic payloads in order. Modified,
    replayed, reordered, dropped, re-keyed and re-countered frames are all instances. -/
theorem C04_tamper (A : Aead) (ps : List Bytes) (hI : Ideal A ps) (cs : List Bytes) :
    (Rx.run A {} cs).2 = (ps.take (Rx.run A {} cs).1.cnt).flatten ∧
    (Rx.run A {} cs).1.cnt ≤ ps.length := by
  have := run_ideal A ps hI cs {} (Nat.zero_le _)
  refine ⟨?_, this.1⟩
  simpa using this.2.2

/-- Fail closed: a read on which the cipher rejects a frame hands over nothing — not even
    earlier frames of the same read — and closes the connection. -/
theorem C04_fail_closed (A : Aead) (r : Rx) (chunk : Bytes) (hopen : r.closed = false)
    (h : drain A (r.buf ++ chunk) r.cnt [] = none) :
    r.recv A chunk = ({ r with closed := true }, []) := by
  simp [Rx.recv, hopen, h]

/-- After the close nothing is ever handed over again. -/
theorem C04_closed_silent (A : Aead) (r : Rx) (h : r.closed = true) (cs : List Bytes) :
    Rx.run A r cs = (r, []) := run_closed A cs r h

/-- The upgrade boundary. If the HTTP parser holds nothing when the session is installed, the secured
    connection behaves exactly as `C04_authentic` says. If it still holds plaintext that was received
    before the session existed (e.g. appended to the segment of the pair-verify request by someone on
    the path), the connection is closed and NOTHING is ever handed to the HTTP layer of the secured
    connection — neither the leftover nor anything sent later — whatever arrives in whatever chunking. -/
theorem C04_upgrade (A : Aead) (leftover : Bytes) (cs : List Bytes) :
    (leftover = [] → Rx.run A (upgrade leftover) cs = Rx.run A {} cs) ∧
    (leftover ≠ [] → Rx.run A (upgrade leftover) cs = ({ closed := true }, [])) := by
  constructor
  · intro h; simp [upgrade, h]
  · intro h; simp only [upgrade, h, if_false]; exact run_closed A cs _ rfl

/-- Re-keying (pair-verify completed again inside a secured session). Whatever happened in the first
    session, once the new key is installed an open connection behaves exactly like a freshly secured
    one under the NEW cipher — so `C04_authentic`, `C04_prompt` and `C04_tamper` apply verbatim with
    the new key and counter 0 (next two theorems) — and a closed connection stays closed and silent. -/
theorem C04_rekey (A2 : Aead) (r : Rx) (cs : List Bytes) :
    (r.closed = false → Rx.run A2 r.rekey cs = Rx.run A2 {} cs) ∧
    (r.closed = true → Rx.run A2 r.rekey cs = (r, [])) := by
  constructor
  · intro h; simp [Rx.rekey, h]
  · intro h; simp only [Rx.rekey, h, if_true]; exact run_closed A2 cs r h

/-- Two authentic sessions on one connection: every chunking of the frames of session 1 (sealed under
    the first key from counter 0) and, after the re-key, every chunking of the frames of session 2
    (sealed under the second key, AGAIN from counter 0) plus any incomplete tail, hands over exactly
    the payloads of each session, in order, and leaves the connection open. -/
theorem C04_rekey_authentic (A1 A2 : Aead) (h1 : Correct A1) (h2 : Correct A2) (ps1 ps2 : List Bytes)
    (hps1 : ∀ p ∈ ps1, 1 ≤ p.length ∧ p.length ≤ MAXBLK)
    (hps2 : ∀ p ∈ ps2, 1 ≤ p.length ∧ p.length ≤ MAXBLK) (t : Bytes) (ht : Incomplete t)
    (cs1 cs2 : List Bytes) (hcs1 : cs1.flatten = wires A1 0 ps1)
    (hcs2 : cs2.flatten = wires A2 0 ps2 ++ t) :
    Rx.run2 A1 A2 {} cs1 cs2 =
      ({ buf := t, cnt := ps2.length, closed := false }, ps1.flatten, ps2.flatten) := by
  have hinc : Incomplete ([] : Bytes) := Or.inl (by simp [MINBLK])
  have e1 := C04_authentic A1 h1 ps1 hps1 [] hinc cs1 (by simpa using hcs1)
  have e2 := C04_authentic A2 h2 ps2 hps2 t ht cs2 hcs2
  simp [Rx.run2, e1, Rx.rekey, e2]

/-- After a re-key only the NEW session counts: if only what the sender sealed under the new key opens
    (`Ideal A2 ps2`), then whatever the first session was and for EVERY byte stream in EVERY chunking
    — frames still produced under the superseded key, or under the new key with the old counter, are
    instances — the bytes handed over after the re-key are exactly the first `cnt` payloads of the
    new session, in order. -/
theorem C04_rekey_tamper (A2 : Aead) (ps2 : List Bytes) (hI : Ideal A2 ps2) (r : Rx)
    (hopen : r.closed = false) (cs : List Bytes) :
    (Rx.run A2 r.rekey cs).2 = (ps2.take (Rx.run A2 r.rekey cs).1.cnt).flatten ∧
    (Rx.run A2 r.rekey cs).1.cnt ≤ ps2.length := by
  rw [(C04_rekey A2 r cs).1 hopen]; exact C04_tamper A2 ps2 hI cs

/-- Connections do not interfere. For every pool of connections, every assignment of ciphers and EVERY
    interleaving of reads across connections (a schedule), what connection `i` ends up with and what is
    handed to ITS HTTP layer is exactly what it would get from its own reads alone — so all theorems
    above hold per connection whatever the other connections receive, tampered streams included. (True
    by construction of the model's pool; that the code keeps buffer, counter and ciphers per instance
    is tied by the interleaved differential stream, incl. instances created while another is mid-frame.) -/
theorem C04_pool_independent (A : Nat → Aead) (p : Pool) (s : List (Nat × Bytes)) (i : Nat) :
    (Pool.run A p s).1 i = (Rx.run (A i) (p i) (proj i s)).1 ∧
    (proj i (Pool.run A p s).2).flatten = (Rx.run (A i) (p i) (proj i s)).2 := by
  induction s generalizing p with
  | nil => simp [Pool.run, proj, Rx.run]
  | cons x s ih =>
    obtain ⟨j, c⟩ := x
    have h := ih (p.set j ((p j).recv (A j) c).1)
    by_cases hj : j = i
    · subst hj
      simp only [Pool.run, proj, List.filter_cons, beq_self_eq_true, if_true, List.map_cons, Rx.run,
        List.flatten_cons] at h ⊢
      simp only [Pool.set, if_true] at h
      exact ⟨h.1, by rw [h.2]⟩
    · have hne : (j == i) = false := by simpa using hj
      simp only [Pool.run, proj, List.filter_cons, hne, Bool.false_eq_true, if_false] at h ⊢
      have hp : (p.set j ((p j).recv (A j) c).1) i = p i := by simp [Pool.set, Ne.symm hj]
      rw [hp] at h
      exact h


/-- Byte level of the receive side. With the cipher object seen as the code sees it (`decrypt(nonce,
    data, aad)` over byte strings, `BAead`), frame number `n` of a direction is opened under the 12-byte
    nonce `PACK_NONCE(n)` = 4 zero bytes ‖ LE64 `n`; `PACK_NONCE` is defined exactly for `n < 2^64`
    (`struct.error` beyond); the frame number can be read back from the nonce, so two different frame
    numbers of one session never share a nonce. Every theorem above applies verbatim to `B.toAead`. -/
theorem C04_nonce (B : BAead) (n : Nat) (aad ct : Bytes) :
    B.toAead.dec n aad ct = B.dec (nonceBytes n) aad ct ∧
    (nonceBytes n).length = 12 ∧ (nonceBytes n).take 4 = [0, 0, 0, 0] ∧
    (n < NONCE_LIMIT → packNonce n = some (nonceBytes n) ∧ rdLe ((nonceBytes n).drop 4) = n) ∧
    (NONCE_LIMIT ≤ n → packNonce n = none) ∧
    (∀ m, n < NONCE_LIMIT → m < NONCE_LIMIT → nonceBytes n = nonceBytes m → n = m) := by
  refine ⟨rfl, nonceBytes_length n, by simp [nonceBytes, leBytes], ?_, ?_, ?_⟩
  · intro h; exact ⟨by simp [packNonce, h], nonce_roundtrip n h⟩
  · intro h; simp [packNonce, Nat.not_lt.mpr h]
  · intro m hn hm e; exact nonceBytes_inj n m hn hm e

/-- The nonce may be kept as 12 bytes and bumped in place once per frame instead of being packed afresh:
    with a carry that runs as far as needed, the bytes used for frame `n` are `PACK_NONCE(n)` for EVERY `n`
    — the frame number leaving the lowest byte (256), the second (65536), the third … is nothing special.
    (So `C04_nonce` and everything above applies to such an implementation verbatim.) -/
theorem C04_nonce_in_place (n : Nat) :
    bumped n = nonceBytes n ∧ bumpNonce (nonceBytes n) = nonceBytes (n + 1) :=
  ⟨bumped_eq n, bumpNonce_nonceBytes n⟩

/-- … whereas an in-place increment whose carry stops after ONE higher byte is the format only for the first
    65536 frames of a session: it takes the nonce of frame 65535 back to the nonce of frame 0 (the authentic
    frame 65536 no longer opens, a replay of frame 0 does). -/
theorem C04_one_carry_counterexample :
    incLeOneCarry (leBytes 8 65535) = leBytes 8 0 ∧ leBytes 8 65536 ≠ leBytes 8 0 ∧
    incLe (leBytes 8 65535) = leBytes 8 65536 ∧ incLeOneCarry (leBytes 8 255) = leBytes 8 256 := by decide

/-- The receive side does not know about responses. For EVERY sequence of reads interleaved in any way with a
    delayed response (camera snapshot) becoming pending and being completed, what each read hands to the HTTP
    layer, and the receive state left behind, are exactly those of the reads alone — so exactness, promptness
    (`C04_prompt`: handed over by the read that carries the last byte of the frame) and fail-closed hold
    verbatim while a response is pending. (True by construction of `PConn.step`; that `data_received` does not
    park ciphertext while `self.response` is set is tied by the stream `pending-response`.) -/
theorem C04_pending_independent (A : Aead) (c : PConn) (evs : List Ev) :
    PConn.trace A c evs = Rx.trace A c.rx (readsOf evs) ∧
    (PConn.run A c evs).rx = (Rx.run A c.rx (readsOf evs)).1 := by
  induction evs generalizing c with
  | nil => simp [PConn.trace, PConn.run, readsOf, Rx.trace, Rx.run]
  | cons e es ih =>
    cases e with
    | read chunk =>
      have h := ih (c.step A (.read chunk)).1
      simp only [PConn.step] at h
      simp only [PConn.trace, PConn.run, PConn.step, readsOf, Rx.trace, Rx.run]
      exact ⟨by rw [h.1], by rw [h.2]⟩
    | pending b =>
      have h := ih (c.step A (.pending b)).1
      simp only [PConn.step] at h
      simp only [PConn.trace, PConn.run, PConn.step, readsOf]
      exact h

/-- The loop as it was before the repair (`>` instead of `>=`) does not deliver a complete
    19-byte frame (1-byte payload) that sits at the end of the buffer; the repaired loop does. -/
theorem C04_legacy_counterexample :
    drainLegacy (mockAead 7) (wire (mockAead 7) 0 [65]) 0 [] = some (wire (mockAead 7) 0 [65], 0, []) ∧
    drain (mockAead 7) (wire (mockAead 7) 0 [65]) 0 [] = some ([], 1, [65]) := by
  decide +kernel

/-! non-vacuity -/
example : packNonce 65536 = some [0, 0, 0, 0, 0, 0, 1, 0, 0, 0, 0, 0] ∧ bumpNonce (nonceBytes 65535) = nonceBytes 65536 := by decide
/-- pending flag, concrete: a frame split over two reads with a snapshot becoming pending in between -/
example :
    let w := wire (mockAead 3) 0 [1, 2]
    PConn.trace (mockAead 3) {} [.read (w.take 5), .pending true, .read (w.drop 5), .pending false] = [[], [1, 2]] := by
  decide +kernel
example : packNonce 258 = some [0, 0, 0, 0, 2, 1, 0, 0, 0, 0, 0, 0] ∧ packNonce NONCE_LIMIT = none := by decide
example : Correct (mockAead 3) := mock_correct 3
example : Ideal (tableAead [[1, 2], [3]]) [[1, 2], [3]] ∧
    (tableAead [[1, 2], [3]]).dec 1 (le16 1) ((tableAead [[1, 2], [3]]).enc 1 (le16 1) [3]) = some [3] :=
  ⟨table_ideal _, by decide⟩
example : (Rx.run (mockAead 3) {} [(wire (mockAead 3) 0 [1, 2]).take 5,
      (wire (mockAead 3) 0 [1, 2]).drop 5 ++ wire (mockAead 3) 1 [9]]).2 = [1, 2, 9] := by
  decide +kernel

/-- re-key, concrete: two sessions (mock keys 3 then 5); a frame still sealed under the superseded key
    (with the counter the old session had reached) closes the connection and hands over nothing. -/
example :
    let ok := Rx.run2 (mockAead 3) (mockAead 5) {} [wire (mockAead 3) 0 [1, 2]] [wire (mockAead 5) 0 [7]]
    let stale := Rx.run2 (mockAead 3) (mockAead 5) {} [wire (mockAead 3) 0 [1, 2]] [wire (mockAead 3) 1 [7]]
    (ok.1.closed, ok.1.cnt, ok.2.1, ok.2.2) = (false, 1, [1, 2], [7]) ∧
    (stale.1.closed, stale.2.1, stale.2.2) = (true, [1, 2], []) := by
  decide +kernel

/-- pool, concrete: two connections (mock keys 3 and 5), reads interleaved mid-frame -/
example :
    let w3 := wire (mockAead 3) 0 [1, 2]
    let w5 := wire (mockAead 5) 0 [9]
    let r := Pool.run (fun i => mockAead (if i = 0 then 3 else 5)) (fun _ => {})
      [(0, w3.take 7), (1, w5.take 3), (0, w3.drop 7), (1, w5.drop 3)]
    (r.2, (r.1 0).cnt, (r.1 1).cnt) = ([(0, []), (1, []), (0, [1, 2]), (1, [9])], 1, 1) := by
  decide +kernel

end Hap.Frame
