/-
  C05 — Everything written after the upgrade is a well-formed encrypted frame stream.
  Model: HapModel/Frame.lean (`encrypt`, `Tx.write`, `Tx.step` = write-then-install).
-/
import Proofs.Frame
import Proofs.Nonce
import Proofs.Event
import HapModel.Gen.Crypto
namespace Hap.Frame
open Hap

/-- The send-side constants found in pyhap/hap_crypto.py *now* (regenerated on every run):
    block size, length and tag sizes, the key-derivation salt and the accessory-to-controller label.
    (Their use — chunking expression, packing, which label keys the out-cipher — is tied by the
    differential runs and the reference controller, not by source text.) -/
theorem C05_consts :
    Gen.Crypto.maxBlockLength = MAXBLK ∧
    Gen.Crypto.lengthLength = LENLEN ∧ Gen.Crypto.tagLength = TAG ∧
    Gen.Crypto.cipherSalt = "Control-Salt" ∧
    Gen.Crypto.outCipherInfo = "Control-Read-Encryption-Key" := by decide

/-- `HAPCrypto.encrypt` cuts every message into blocks of 1..1024 bytes, all but the last of
    exactly 1024, whose concatenation is the message; the wire bytes are those blocks framed
    under consecutive counters starting at the current out-counter, which then advances by the
    number of blocks (no counter reused or skipped). -/
theorem C05_encrypt_shape (A : Aead) (c : Nat) (data : Bytes) :
    (encrypt A c data).1 = wires A c (blocks data) ∧
    (encrypt A c data).2 = c + (blocks data).length ∧
    (blocks data).flatten = data ∧
    (∀ b ∈ blocks data, 1 ≤ b.length ∧ b.length ≤ MAXBLK) ∧
    (∀ b ∈ (blocks data).dropLast, b.length = MAXBLK) :=
  ⟨rfl, rfl, blocks_shape data⟩

/-- A message of exactly `k · 1024` bytes becomes exactly `k` frames (no empty trailing frame). -/
theorem C05_no_empty_frame (k : Nat) (data : Bytes) (h : data.length = k * MAXBLK) :
    (blocks data).length = k := blocks_length_mul k data h

/-- Session stream = one well-formed frame sequence, decryptable to the message sequence:
    after the install, whatever messages (responses, events, delayed responses) are written in
    whatever order, the transport bytes are exactly the frames of their blocks under counters
    0,1,2,… of the session key, every block has 1..1024 bytes, and a receiver following the
    frame format (the C04 model with a correct AEAD) recovers exactly the concatenation of the
    messages in the order they were produced, for every fragmentation of the stream into reads. -/
theorem C05_frames (K : Nat → Aead) (k : Nat) (hK : Correct (K k)) (ms : List Msg)
    (cs : List Bytes) (hcs : cs.flatten = sessionBytes K k 0 ms) :
    sessionBytes K k 0 ms = wires (K k) 0 (ms.flatMap fun m => blocks m.data) ∧
    (∀ b ∈ (ms.flatMap fun m => blocks m.data), 1 ≤ b.length ∧ b.length ≤ MAXBLK) ∧
    (Rx.run (K k) {} cs).2 = (ms.map Msg.data).flatten ∧ (Rx.run (K k) {} cs).1.closed = false := by
  have hb : ∀ b ∈ (ms.flatMap fun m => blocks m.data), 1 ≤ b.length ∧ b.length ≤ MAXBLK := by
    intro b hb
    obtain ⟨m, _, hm⟩ := List.mem_flatMap.mp hb
    exact (blocks_shape m.data).2.1 b hm
  have hinc : Incomplete ([] : Bytes) := Or.inl (by simp [MINBLK])
  have hrun := C04_run K k hK ms cs hcs hb hinc
  refine ⟨sessionBytes_eq K k 0 ms, hb, ?_, ?_⟩
  · rw [hrun]; exact flatMap_blocks_flatten ms
  · rw [hrun]
where
  C04_run (K : Nat → Aead) (k : Nat) (hK : Correct (K k)) (ms : List Msg) (cs : List Bytes)
      (hcs : cs.flatten = sessionBytes K k 0 ms)
      (hb : ∀ b ∈ (ms.flatMap fun m => blocks m.data), 1 ≤ b.length ∧ b.length ≤ MAXBLK)
      (hinc : Incomplete ([] : Bytes)) :
      Rx.run (K k) {} cs = ({ buf := [], cnt := (ms.flatMap fun m => blocks m.data).length, closed := false },
        (ms.flatMap fun m => blocks m.data).flatten) := by
    have h := drain_wires (K k) hK (ms.flatMap fun m => blocks m.data) hb [] hinc 0 []
    simp only [Nat.zero_add, List.nil_append, List.append_nil] at h
    exact run_flatten (K k) cs {} rfl hinc (by simpa [hcs, sessionBytes_eq] using h)


/-- Byte level of one frame. With the cipher object seen as the code sees it (`encrypt(nonce, data,
    aad)` over byte strings), frame number `i` carrying a block `p` of at most 1024 bytes is, on the wire,
    `PACK_LENGTH(len p)` (2 bytes, little-endian, never `struct.error`) followed by
    `encrypt(PACK_NONCE(i), p, aad = PACK_LENGTH(len p))`, and its total size is `2 + len p + 16`. -/
theorem C05_wire_bytes (B : BAead) (i : Nat) (p : Bytes) (hp : p.length ≤ MAXBLK) :
    ∃ lb, packLength p.length = some lb ∧ lb.length = 2 ∧ rdLe lb = p.length ∧
      wire B.toAead i p = lb ++ B.enc (nonceBytes i) lb p ∧
      (wire B.toAead i p).length = 2 + p.length + TAG := by
  have h16 : p.length < 65536 := by simp [MAXBLK] at hp; omega
  refine ⟨le16 p.length, packLength_eq_le16 _ h16, by simp [le16], ?_, rfl, wire_length _ i p⟩
  have := rdLe_leBytes 2 p.length (by simpa using h16)
  have e : leBytes 2 p.length = le16 p.length := by
    have h1 := packLength_eq_le16 _ h16
    simp only [packLength, h16, if_true, Option.some.injEq] at h1
    exact h1
  rw [← e]; exact this

/-- No nonce is ever reused under one session key: in the stream of a session (frames numbered
    0, 1, 2, … by `C05_frames`), two frames with different numbers below 2^64 are sealed under different
    nonces, and `PACK_NONCE` refuses (`struct.error`) rather than wraps at 2^64. -/
theorem C05_nonce_unique (i j : Nat) (hi : i < NONCE_LIMIT) (hj : j < NONCE_LIMIT) (hne : i ≠ j) :
    packNonce i = some (nonceBytes i) ∧ packNonce j = some (nonceBytes j) ∧
    nonceBytes i ≠ nonceBytes j ∧ packNonce NONCE_LIMIT = none := by
  refine ⟨by simp [packNonce, hi], by simp [packNonce, hj], fun e => hne (nonceBytes_inj i j hi hj e), by simp [packNonce]⟩

/-- … and the same holds for an implementation that keeps the 12 nonce bytes and bumps them in place once per
    frame (carry as far as needed) instead of packing the counter afresh: the bytes used for frame `i` are
    `PACK_NONCE(i)`, so two different frames of a session (below 2^64) never share a nonce — whichever byte
    of the nonce the frame number has reached (256, 65536, 2^24, …). -/
theorem C05_nonce_in_place_unique (i j : Nat) (hi : i < NONCE_LIMIT) (hj : j < NONCE_LIMIT) (hne : i ≠ j) :
    bumped i = nonceBytes i ∧ bumped i ≠ bumped j := by
  refine ⟨bumped_eq i, ?_⟩
  rw [bumped_eq, bumped_eq]
  exact fun e => hne (nonceBytes_inj i j hi hj e)

/-- The pair-verify completion response is the last plaintext ever written: on a connection
    that starts unsecured, for EVERY sequence of writes (responses, events, delayed responses in
    any order), write number `j` goes out in plaintext iff no earlier response carried a
    session key. Hence the key-carrying response itself is plaintext, every later write is
    framed, and the cipher is never uninstalled. -/
theorem C05_last_plaintext (K : Nat → Aead) (ms : List Msg) (j : Nat) (hj : j < ms.length)
    (hlen : j < (Tx.run K {} ms).length) :
    ((Tx.run K {} ms)[j]).isPlain = (ms.take j).all (fun m => !m.carriesKey) := by
  have := run_plain_aux K ms {} j hj
  simpa using this

/-- One write = one whole message: the `j`-th thing that reaches the transport carries exactly
    the `j`-th message (as plaintext, or as the frames of its blocks) — a response and an event
    are never interleaved inside one another. -/
theorem C05_atomic_messages (K : Nat → Aead) (ms : List Msg) (t : Tx) :
    (Tx.run K t ms).length = ms.length ∧
    ∀ j (hj : j < ms.length) (hj' : j < (Tx.run K t ms).length),
      match (Tx.run K t ms)[j] with
      | .plain d => d = ms[j].data
      | .frames _ _ blks _ => blks.flatten = ms[j].data := by
  induction ms generalizing t with
  | nil => simp [Tx.run]
  | cons m ms ih =>
    obtain ⟨h1, h2⟩ := ih (t.step K m).1
    refine ⟨by simp [Tx.run, h1], ?_⟩
    intro j hj hj'
    cases j with
    | zero =>
      simp only [Tx.run, List.getElem_cons_zero]
      exact write_payload K t m.data
    | succ j =>
      simp only [Tx.run, List.getElem_cons_succ]
      exact h2 j (by simpa using hj) (by simpa [Tx.run] using hj')

/-- An EVENT message is self-delimiting: the declared Content-Length is the byte length of the
    body, so a reader that follows the announced length recovers exactly the body and is left at
    the first byte of whatever was written next (the following response or event) — for every
    body (any bytes, multi-byte UTF-8 included) and every continuation of the stream. -/
theorem C05_event_wellformed (body rest : Bytes) :
    Hap.Event.readEvent (Hap.Event.createEvent body ++ rest) = some (body, rest) :=
  Hap.Event.readEvent_createEvent body rest

/-! non-vacuity -/
example : bumped 3 = [0, 0, 0, 0, 3, 0, 0, 0, 0, 0, 0, 0] ∧ bumpNonce (nonceBytes 65535) = nonceBytes 65536 := by decide
example : Hap.Event.decimal 1024 = [49, 48, 50, 52] := by decide
example : (Tx.run mockAead {} [.response [1] false, .response [2] true, .event [3], .delayed [4]]).map Out.isPlain
    = [true, true, false, false] := by decide +kernel
example : (blocks (List.replicate 2049 0)).map List.length = [1024, 1024, 1] := by decide +kernel

end Hap.Frame
