/-
  C06 — Pairing administration is admin-only, exact, and never leaves orphans.
-/
import HapModel.PairState
namespace Hap.PairState

/-- a verified session of a controller that is admin in `s` right now -/
def Conn.adminNow (s : PState) (c : Conn) : Prop :=
  c.enc = true ∧ ∃ u, c.cu = some u ∧ isAdmin s u = true

/-- Guard: a `POST /pairings` on a connection that is not a verified session of a current admin
    changes nothing, schedules no save and is answered with an error — whatever the body. -/
theorem C06_guard (parse : Bytes → Option Uuid) (s : PState) (r : Req) (h : ¬ r.conn.adminNow s) :
    ∃ resp, handlePairings parse s r = (s, resp, false) ∧ resp.isError = true := by
  unfold handlePairings
  cases hcu : r.conn.cu with
  | none => exact ⟨err500, rfl, by decide⟩
  | some cu =>
    by_cases hg : (!r.conn.enc || !isAdmin s cu) = true
    · simp only [hg, if_true]; exact ⟨authErr, rfl, by decide⟩
    · exfalso; apply h
      simp only [Bool.or_eq_true, Bool.not_eq_true', not_or, Bool.not_eq_false] at hg
      exact ⟨hg.1, cu, hcu, hg.2⟩

end Hap.PairState
