/-
  C06 — Pairing administration is admin-only, exact, and never leaves orphans.
  Property theorems only; lemmas live in Proofs/PairState.lean and Proofs/PairList.lean.
  The model (HapModel/PairState.lean) mirrors pyhap with the repair of design/fixes/C06.patch;
  `parse` stands for `uuid.UUID(bytes.decode("utf-8"))` and is universally quantified.
-/
import Proofs.PairState
namespace Hap.PairState

/-- a verified session of a controller that is admin in `s` right now -/
def Conn.adminNow (s : PState) (c : Conn) : Prop :=
  c.enc = true ∧ ∃ u, c.cu = some u ∧ isAdmin s u = true

/-- Guard: a `POST /pairings` on a connection that is not a verified session of a controller
    holding the admin permission *now* changes nothing, schedules no save and is answered with
    an error — whatever the body (add, remove, list or garbage). -/
theorem C06_guard (parse : Bytes → Option Uuid) (s : PState) (r : Req) (h : ¬ r.conn.adminNow s) :
    ∃ resp, handlePairings parse s r = (s, resp, false) ∧ resp.isError = true := by
  unfold handlePairings
  cases hcu : r.conn.cu with
  | none => exact ⟨err500, rfl, by decide⟩
  | some cu =>
    by_cases hg : (!r.conn.enc || !isAdmin s cu) = true
    · simp only [hg, if_true]; exact ⟨authErr, rfl, by decide⟩
    · exfalso; apply h
      simp only [Bool.or_eq_true, Bool.not_eq_true', not_or, Bool.not_eq_false] at hg
      exact ⟨hg.1, cu, hcu, hg.2⟩

theorem okResp_not_error (pc : Bool) : (okResp pc).isError = false := by
  cases pc <;> decide

/-- what one operation can do to aligned maps: nothing; register one controller (success
    answer, save scheduled); or remove one paired controller (success answer, save scheduled) -/
theorem step_cases (parse : Bytes → Option Uuid) (s : PState) (op : Op) (h : Aligned s) :
    (∃ resp, step parse s op = (s, resp, false)) ∨
    (∃ idb key perms s', addPairedClient parse s idb key perms = some s' ∧
      step parse s op = (s', okResp, true)) ∨
    (∃ u pc, ahas s.paired u = true ∧ (removePairedClient s u).2 = true ∧
      step parse s op = ((removePairedClient s u).1, okResp pc, true)) := by
  cases op with
  | setup idb key =>
    simp only [step]
    cases e : addPairedClient parse s idb key [1] with
    | none => left; exact ⟨_, rfl⟩
    | some s' => right; left; exact ⟨idb, key, [1], s', e, rfl⟩
  | req r =>
    show (∃ resp, handlePairings parse s r = _) ∨ (∃ idb key perms s', _ ∧ handlePairings parse s r = _) ∨
      (∃ u pc, _ ∧ _ ∧ handlePairings parse s r = _)
    unfold handlePairings
    split
    · left; exact ⟨_, rfl⟩
    · split
      · left; exact ⟨_, rfl⟩
      · split
        · left; exact ⟨_, rfl⟩
        · next objs _ =>
          split
          · left; exact ⟨_, rfl⟩
          · left; exact ⟨_, rfl⟩
          · split
            · rcases handleAdd_cases parse s objs with e | ⟨idb, key, perms, s', e1, e2⟩
              · left; exact ⟨_, e⟩
              · right; left; exact ⟨idb, key, perms, s', e1, e2⟩
            · split
              · rcases handleRemove_cases parse s objs h with e | ⟨pc, e⟩ | ⟨u, pc, e1, e2, e3⟩
                · left; exact ⟨_, e⟩
                · left; exact ⟨_, e⟩
                · right; right; exact ⟨u, pc, e1, e2, e3⟩
              · split
                · left; exact ⟨_, rfl⟩
                · left; exact ⟨_, rfl⟩

/-- Error atomicity: an operation answered with an error (HTTP status ≥ 400 or a TLV error
    item) leaves all three maps exactly as they were and schedules no save. Covers permission
    items of length 0, 2, …, identifiers that are not UTF-8 / not a UUID, missing items, unknown
    request types, undecodable bodies, refused connections. -/
theorem C06_error_atomic (parse : Bytes → Option Uuid) (s : PState) (op : Op) (h : Aligned s)
    (herr : (step parse s op).2.1.isError = true) :
    (step parse s op).1 = s ∧ (step parse s op).2.2 = false := by
  rcases step_cases parse s op h with ⟨resp, e⟩ | ⟨_, _, _, s', _, e⟩ | ⟨u, pc, _, _, e⟩
  · rw [e]; exact ⟨rfl, rfl⟩
  · rw [e] at herr; simp [okResp_not_error] at herr
  · rw [e] at herr; simp [okResp_not_error] at herr

/-- Alignment is invariant: every operation maps aligned maps to aligned maps. -/
theorem C06_aligned (parse : Bytes → Option Uuid) (s : PState) (op : Op) (h : Aligned s) :
    Aligned (step parse s op).1 := by
  rcases step_cases parse s op h with ⟨resp, e⟩ | ⟨idb, key, perms, s', e1, e⟩ | ⟨u, pc, _, _, e⟩
  · rw [e]; exact h
  · rw [e]; exact addPairedClient_aligned parse s s' idb key perms h e1
  · rw [e]; exact removePairedClient_aligned s u h

/-- … hence after every history from the empty state (or any aligned state) the key lists of
    `paired_clients` and `client_properties` are equal: no half-registered controller. -/
theorem C06_aligned_run (parse : Bytes → Option Uuid) (ops : List Op) (s : PState) (h : Aligned s) :
    Aligned (run parse s ops) := by
  induction ops generalizing s with
  | nil => exact h
  | cons op rest ih => exact ih _ (C06_aligned parse s op h)

/-- Last admin: whenever an operation makes some paired controller unpaired, the result still has
    a paired admin or has no pairing (and no permission entry) at all. -/
theorem C06_last_admin (parse : Bytes → Option Uuid) (s : PState) (op : Op) (h : Aligned s)
    (u : Uuid) (hbefore : u ∈ akeys s.paired) (hafter : u ∉ akeys (step parse s op).1.paired) :
    let s' := (step parse s op).1
    (∃ e ∈ s'.paired, isAdmin s' e.1 = true) ∨ (s'.paired = [] ∧ s'.props = []) := by
  rcases step_cases parse s op h with ⟨resp, e⟩ | ⟨idb, key, perms, s', e1, e⟩ | ⟨v, pc, _, hok, e⟩
  · rw [e] at hafter; exact absurd hbefore hafter
  · exfalso
    rw [e] at hafter
    unfold addPairedClient at e1
    split at e1
    · cases e1
    · split at e1
      · cases e1
        simp only [akeys_aset] at hafter
        split at hafter
        · exact hafter hbefore
        · exact hafter (List.mem_append_left _ hbefore)
      · cases e1
  · rw [e]; exact removePairedClient_last_admin s v hok

/-! ### the code as shipped (before design/fixes/C06.patch) -/

private def demoParse (b : Bytes) : Option Uuid :=
  if b = [65] then some ⟨7, by decide⟩ else if b = [66] then some ⟨8, by decide⟩ else none

private def demoState : PState :=
  { paired := [(⟨7, by decide⟩, [1, 2, 3])], props := [(⟨7, by decide⟩, 1)], u2b := [(⟨7, by decide⟩, [65])] }

private def demoLegacyOut : Out :=
  handleAddLegacy demoParse demoState [(tReq, [3]), (tUser, [66]), (tPub, [9, 9]), (tPerm, [1, 0])]

/-- The unrepaired add path breaks error atomicity: an add-pairing whose permissions item has two
    bytes is answered 500 but leaves controller `8` in `paired_clients` without properties
    (it could then pair-verify). Same input as the replay found on the implementation. -/
theorem C06_legacy_counterexample :
    (demoLegacyOut).2.1.isError = true ∧ (demoLegacyOut).1.paired ≠ demoState.paired ∧
      ¬ Aligned (demoLegacyOut).1 := by
  decide

/-! ### non-vacuity -/

example : Aligned demoState := by decide
example : (Conn.mk true (some ⟨7, by decide⟩)).adminNow demoState := ⟨rfl, _, rfl, by decide⟩
/-- the repaired model refuses the same request and changes nothing -/
example : handleAdd demoParse demoState [(tReq, [3]), (tUser, [66]), (tPub, [9, 9]), (tPerm, [1, 0])]
    = (demoState, err500, false) := by decide
/-- an admin adds a user, then removing the admin (the last one) clears everything -/
example :
    let add : Op := .req ⟨⟨true, some ⟨7, by decide⟩⟩, Tlv.encode [(tReq, [3]), (tUser, [66]), (tPub, [9]), (tPerm, [0])]⟩
    let rem : Op := .req ⟨⟨true, some ⟨7, by decide⟩⟩, Tlv.encode [(tReq, [4]), (tUser, [65])]⟩
    (run demoParse demoState [add]).paired.length = 2 ∧
    (run demoParse demoState [add, rem]).paired = [] ∧ (run demoParse demoState [add, rem]).props = [] := by
  decide +kernel

end Hap.PairState
