/-
  C06 — Pairing administration is admin-only, exact, and never leaves orphans.
  Property theorems only; lemmas live in Proofs/PairState.lean and Proofs/PairList.lean.
  The model (HapModel/PairState.lean) mirrors pyhap with the repair of design/fixes/C06.patch;
  `parse` stands for `uuid.UUID(bytes.decode("utf-8"))` and is universally quantified.
-/
import Proofs.PairStateList
import Proofs.PairStateHist
import Proofs.HandlerConsts
namespace Hap.PairState

/-- The pairings-protocol TLV constants found in pyhap/hap_handler.py and pyhap/const.py *now*
    (regenerated on every run) are the HAP specification's. -/
theorem C06_protocol_constants :
    Hap.Gen.Handler.tag_REQUEST_TYPE = [0] ∧ Hap.Gen.Handler.tag_USERNAME = [1] ∧
    Hap.Gen.Handler.tag_PUBLIC_KEY = [3] ∧ Hap.Gen.Handler.tag_SEQUENCE_NUM = [6] ∧
    Hap.Gen.Handler.tag_ERROR_CODE = [7] ∧ Hap.Gen.Handler.tag_PERMISSIONS = [11] ∧
    Hap.Gen.Handler.tag_SEPARATOR = [255] ∧ Hap.Gen.Handler.st_M2 = [2] ∧
    Hap.Gen.Handler.err_AUTHENTICATION = [2] ∧
    Hap.Gen.Handler.perm_USER = [0] ∧ Hap.Gen.Handler.perm_ADMIN = [1] := by decide


/-- a verified session of a controller that is admin in `s` right now -/
def Conn.adminNow (s : PState) (c : Conn) : Prop :=
  c.enc = true ∧ ∃ u, c.cu = some u ∧ isAdmin s u = true

/-- Guard: a `POST /pairings` on a connection that is not a verified session of a controller
    holding the admin permission *now* changes nothing, schedules no save and is answered with
    an error — whatever the body (add, remove, list or garbage). -/
theorem C06_guard (parse : Bytes → Option Uuid) (s : PState) (r : Req) (h : ¬ r.conn.adminNow s) :
    ∃ resp, handlePairings parse s r = (s, resp, false) ∧ resp.isError = true := by
  unfold handlePairings
  cases hcu : r.conn.cu with
  | none => exact ⟨err500, rfl, by decide⟩
  | some cu =>
    by_cases hg : (!r.conn.enc || !isAdmin s cu) = true
    · simp only [hg, if_true]; exact ⟨authErr, rfl, by decide⟩
    · exfalso; apply h
      simp only [Bool.or_eq_true, Bool.not_eq_true', not_or, Bool.not_eq_false] at hg
      exact ⟨hg.1, cu, hcu, hg.2⟩

/-- Error atomicity: an operation answered with an error (HTTP status ≥ 400 or a TLV error
    item) leaves all three maps exactly as they were and schedules no save. Covers permission
    items of length 0, 2, …, identifiers that are not UTF-8 / not a UUID, missing items, unknown
    request types, undecodable bodies, refused connections. -/
theorem C06_error_atomic (parse : Bytes → Option Uuid) (s : PState) (op : Op) (h : Aligned s)
    (herr : (step parse s op).2.1.isError = true) :
    (step parse s op).1 = s ∧ (step parse s op).2.2 = false := by
  rcases step_cases parse s op h with ⟨resp, e⟩ | ⟨_, _, _, s', _, e⟩ | ⟨u, pc, _, _, e⟩
  · rw [e]; exact ⟨rfl, rfl⟩
  · rw [e] at herr; simp [okResp_not_error] at herr
  · rw [e] at herr; simp [okResp_not_error] at herr

/-- Alignment is invariant: every operation maps aligned maps to aligned maps. -/
theorem C06_aligned (parse : Bytes → Option Uuid) (s : PState) (op : Op) (h : Aligned s) :
    Aligned (step parse s op).1 := by
  rcases step_cases parse s op h with ⟨resp, e⟩ | ⟨idb, key, perms, s', e1, e⟩ | ⟨u, pc, _, _, e⟩
  · rw [e]; exact h
  · rw [e]; exact addPairedClient_aligned parse s s' idb key perms h e1
  · rw [e]; exact removePairedClient_aligned s u h

/-- … hence after every history from the empty state (or any aligned state) the key lists of
    `paired_clients` and `client_properties` are equal: no half-registered controller. -/
theorem C06_aligned_run (parse : Bytes → Option Uuid) (ops : List Op) (s : PState) (h : Aligned s) :
    Aligned (run parse s ops) := by
  induction ops generalizing s with
  | nil => exact h
  | cons op rest ih => exact ih _ (C06_aligned parse s op h)

/-- Last admin: whenever an operation makes some paired controller unpaired, the result still has
    a paired admin or has no pairing (and no permission entry) at all. -/
theorem C06_last_admin (parse : Bytes → Option Uuid) (s : PState) (op : Op) (h : Aligned s)
    (u : Uuid) (hbefore : u ∈ akeys s.paired) (hafter : u ∉ akeys (step parse s op).1.paired) :
    let s' := (step parse s op).1
    (∃ e ∈ s'.paired, isAdmin s' e.1 = true) ∨ (s'.paired = [] ∧ s'.props = []) := by
  rcases step_cases parse s op h with ⟨resp, e⟩ | ⟨idb, key, perms, s', e1, e⟩ | ⟨v, pc, _, hok, e⟩
  · rw [e] at hafter; exact absurd hbefore hafter
  · exfalso
    rw [e] at hafter
    unfold addPairedClient at e1
    split at e1
    · cases e1
    · split at e1
      · cases e1
        simp only [akeys_aset] at hafter
        split at hafter
        · exact hafter hbefore
        · exact hafter (List.mem_append_left _ hbefore)
      · cases e1
  · rw [e]; exact removePairedClient_last_admin s v hok

/-- a body that the TLV rules read as a list-pairings request -/
def IsListReq (body : Bytes) : Prop :=
  ∃ objs rest, Tlv.decode body [] = some objs ∧ aget objs tReq = some (5 :: rest)

/-- List exactness over histories. Start in the empty state — or in any state `s0` whose maps
    represent an observer's pairing list `a0` (`Rel`, e.g. the state a restart reloaded) — and run
    any history (pair-setup completions and arbitrary `POST /pairings` requests on arbitrary
    connections). Let `a` be the pairing list an observer derives *from the answers alone*
    (`observe`: success answers to add / remove and finished pair-setups; errors change nothing;
    removing the last admin empties it). Then a list request on a verified admin session changes
    nothing and its answer, decoded with the independent TLV8 list decoder, is exactly `a`: every
    current pairing, in registration order, with the identifier bytes it was registered with, its
    key and its admin flag. (`parse [] = none`: the empty string is not a UUID.) -/
theorem C06_list_exact (parse : Bytes → Option Uuid) (hparse : parse [] = none)
    (s0 : PState) (a0 : Abs) (h0 : Rel parse s0 a0) (ops : List Op)
    (c : Conn) (body : Bytes) (hbody : IsListReq body) (hc : c.adminNow (run parse s0 ops)) :
    ∃ items, handlePairings parse (run parse s0 ops) ⟨c, body⟩
        = (run parse s0 ops, .tlv items false, false) ∧
      decodePairings (Tlv.encode items) = some (runBoth parse s0 a0 ops).2.listing := by
  have hrel := rel_run parse ops s0 a0 h0
  rw [runBoth_fst] at hrel
  obtain ⟨henc, u, hcu, hadm⟩ := hc
  obtain ⟨objs, rest, hd, hrt⟩ := hbody
  refine ⟨listItems (run parse s0 ops), ?_, ?_⟩
  · simp [handlePairings, hcu, henc, hadm, hd, hrt]
  · rw [decodePairings_list, rel_listing parse hparse _ _ hrel]

/-- … in particular for every history from the empty state. -/
theorem C06_list_exact_from_empty (parse : Bytes → Option Uuid) (hparse : parse [] = none)
    (ops : List Op) (c : Conn) (body : Bytes) (hbody : IsListReq body)
    (hc : c.adminNow (run parse PState.empty ops)) :
    ∃ items, handlePairings parse (run parse PState.empty ops) ⟨c, body⟩
        = (run parse PState.empty ops, .tlv items false, false) ∧
      decodePairings (Tlv.encode items) = some (runBoth parse PState.empty [] ops).2.listing :=
  C06_list_exact parse hparse _ _ (rel_empty parse) ops c body hbody hc

/-- The admin test itself follows the answers: a controller is admin in the reached state iff the
    observer's list holds it with an odd permission byte. -/
theorem C06_admin_follows_answers (parse : Bytes → Option Uuid) (ops : List Op) (u : Uuid) :
    isAdmin (run parse PState.empty ops) u =
      (runBoth parse PState.empty [] ops).2.any (fun e => e.u = u ∧ e.perm % 2 = 1) := by
  have hrel := rel_run parse ops PState.empty [] (rel_empty parse)
  rw [runBoth_fst] at hrel
  exact rel_isAdmin parse _ _ hrel u

/-- The same at the level of one state: whatever the three maps hold, the list answer decodes to
    exactly the entries of `paired_clients`, in order, with the recorded identifier bytes, key and
    admin flag of each. -/
theorem C06_list_exact_state (s : PState) :
    decodePairings (Tlv.encode (listItems s)) =
      some (s.paired.map fun e => (regBytes s e.1, e.2, isAdmin s e.1)) :=
  decodePairings_list s

/-- The maps always represent the observer's list: after every history the set of pairings held
    by the accessory (keys, permissions, recorded identifier bytes) is the one the answers imply. -/
theorem C06_maps_follow_answers (parse : Bytes → Option Uuid) (ops : List Op) :
    Rel parse (run parse PState.empty ops) (runBoth parse PState.empty [] ops).2 := by
  have hrel := rel_run parse ops PState.empty [] (rel_empty parse)
  rwa [runBoth_fst] at hrel

/-! ### real sessions: who a connection is -/

/-- Session identity. Whatever the history did before, the session facts of connection `c`
    (`is_encrypted`, `client_uuid`) change in a step only if that step is a pair-verify exchange on
    `c` whose outer layer opens, whose identifier parses to a controller `u` that is paired right
    now with key `k`, and whose proof was made with the private key belonging to `k` — and then
    they become "verified as `u`". In particular a failed exchange (bogus / foreign / missing proof,
    wrong outer key, unknown or unparsable identifier) on an already verified connection leaves its
    identity as it was. -/
theorem C06_session_identity (parse : Bytes → Option Uuid) (s : PState) (ss : Sessions) (op : SOp)
    (c : Nat) (h : (sstep parse s ss op).2.1 c ≠ ss c) :
    ∃ v u idb k, op = .verify c v ∧ v.outerOk = true ∧ v.idb = some idb ∧ parse idb = some u ∧
      aget s.paired u = some k ∧ v.signer = some k ∧
      (sstep parse s ss op).2.1 c = ⟨true, some u⟩ := by
  cases op with
  | setup idb key => exact absurd rfl h
  | req c' body => exact absurd rfl h
  | verify c' v =>
    simp only [sstep] at h ⊢
    cases hv : verifiesAs parse s v with
    | none => rw [hv] at h; exact absurd rfl h
    | some p =>
      obtain ⟨u, idb⟩ := p
      rw [hv] at h
      simp only at h ⊢
      by_cases hc : c = c'
      · subst hc
        obtain ⟨ho, k, h1, h2, h3, h4⟩ := verifiesAs_some parse s v u idb hv
        exact ⟨v, u, idb, k, rfl, ho, h1, h2, h3, h4, by simp⟩
      · simp [hc] at h

/-- Only admin requests change pairings: a pair-verify exchange — successful or not, by an admin
    or by a plain user, with whatever spelling of its identifier — leaves `paired_clients` and
    `client_properties` exactly as they were and never alters identifier bytes that are recorded
    (so list-pairings keeps returning the bytes each controller was REGISTERED with). The one thing
    it may do is the documented back-fill: record the presented bytes for the controller it has
    just proved, when NO bytes were stored for it (state imported from an older file). -/
theorem C06_verify_preserves_pairings (parse : Bytes → Option Uuid) (s : PState) (ss : Sessions)
    (c : Nat) (v : VerifyAttempt) :
    let s' := (sstep parse s ss (.verify c v)).1
    s'.paired = s.paired ∧ s'.props = s.props ∧
    (∀ u b, aget s.u2b u = some b → aget s'.u2b u = some b) ∧
    (s' = s ∨ ∃ u idb, verifiesAs parse s v = some (u, idb) ∧ aget s.u2b u = none ∧
      s'.u2b = aset s.u2b u idb) := by
  simp only [sstep]
  cases hv : verifiesAs parse s v with
  | none => exact ⟨rfl, rfl, fun _ _ hb => hb, Or.inl rfl⟩
  | some p =>
    obtain ⟨u, idb⟩ := p
    obtain ⟨h1, h2, h3, h4⟩ := backfill_spec s u idb
    refine ⟨h1, h2, h3, ?_⟩
    rcases h4 with h4 | ⟨h5, h6⟩
    · exact Or.inl h4
    · exact Or.inr ⟨u, idb, rfl, h5, h6⟩

/-- Guard with real sessions: a `POST /pairings` on a connection whose session facts are not
    "verified as a controller that is admin now" changes neither the pairing maps nor any session,
    schedules no save and is answered with an error. Together with `C06_session_identity`: only
    the controller that last proved its identity on the connection can be served, and only while
    it is admin. -/
theorem C06_session_guard (parse : Bytes → Option Uuid) (s : PState) (ss : Sessions) (c : Nat)
    (body : Bytes) (h : ¬ (ss c).adminNow s) :
    ∃ resp, sstep parse s ss (.req c body) = (s, ss, some (resp, false)) ∧ resp.isError = true := by
  obtain ⟨resp, e, herr⟩ := C06_guard parse s ⟨ss c, body⟩ h
  exact ⟨resp, by simp only [sstep, e], herr⟩

/-! ### the code as shipped (before design/fixes/C06.patch) -/

private def demoParse (b : Bytes) : Option Uuid :=
  if b = [65] then some ⟨7, by decide⟩ else if b = [66] then some ⟨8, by decide⟩ else none

private def demoState : PState :=
  { paired := [(⟨7, by decide⟩, [1, 2, 3])], props := [(⟨7, by decide⟩, 1)], u2b := [(⟨7, by decide⟩, [65])] }

private def demoLegacyOut : Out :=
  handleAddLegacy demoParse demoState [(tReq, [3]), (tUser, [66]), (tPub, [9, 9]), (tPerm, [1, 0])]

/-- The unrepaired add path breaks error atomicity: an add-pairing whose permissions item has two
    bytes is answered 500 but leaves controller `8` in `paired_clients` without properties
    (it could then pair-verify). Same input as the replay found on the implementation. -/
theorem C06_legacy_counterexample :
    (demoLegacyOut).2.1.isError = true ∧ (demoLegacyOut).1.paired ≠ demoState.paired ∧
      ¬ Aligned (demoLegacyOut).1 := by
  decide

/-! ### non-vacuity -/

example : Aligned demoState := by decide
example : (Conn.mk true (some ⟨7, by decide⟩)).adminNow demoState := ⟨rfl, _, rfl, by decide⟩
/-- connections the guard refuses: unverified, and a verified non-admin controller -/
example : ¬ (Conn.mk false none).adminNow demoState := fun h => absurd h.1 (by decide)
example : ¬ (Conn.mk true (some ⟨8, by decide⟩)).adminNow demoState := by
  rintro ⟨_, u, hu, ha⟩
  cases hu
  exact absurd ha (by decide)
/-- a verified non-admin session stays what it is after a failed exchange naming the admin -/
example :
    let ss : Sessions := fun c => if c = 1 then ⟨true, some ⟨8, by decide⟩⟩ else ⟨false, none⟩
    (sstep demoParse demoState ss (.verify 1 ⟨true, some [65], none⟩)).2.1 1 = ⟨true, some ⟨8, by decide⟩⟩ ∧
    (sstep demoParse demoState ss (.verify 1 ⟨true, some [65], some [1, 2, 3]⟩)).2.1 1 = ⟨true, some ⟨7, by decide⟩⟩ := by
  decide
/-- the repaired model refuses the same request and changes nothing -/
example : handleAdd demoParse demoState [(tReq, [3]), (tUser, [66]), (tPub, [9, 9]), (tPerm, [1, 0])]
    = (demoState, err500, false) := by decide
example : IsListReq (Tlv.encode [(tReq, [5])]) := ⟨[(tReq, [5])], [], by decide +kernel, by decide⟩
/-- a history with a non-empty observer list and an admin session to ask from -/
example :
    (runBoth demoParse PState.empty [] [.setup [65] [1, 2, 3]]).2.listing = [([65], [1, 2, 3], true)] ∧
    (Conn.mk true (some ⟨7, by decide⟩)).adminNow (run demoParse PState.empty [.setup [65] [1, 2, 3]]) :=
  ⟨by decide, rfl, _, rfl, by decide⟩
example : demoParse [] = none := by decide
/-- an admin adds a user, then removing the admin (the last one) clears everything -/
example :
    let add : Op := .req ⟨⟨true, some ⟨7, by decide⟩⟩, Tlv.encode [(tReq, [3]), (tUser, [66]), (tPub, [9]), (tPerm, [0])]⟩
    let rem : Op := .req ⟨⟨true, some ⟨7, by decide⟩⟩, Tlv.encode [(tReq, [4]), (tUser, [65])]⟩
    (run demoParse demoState [add]).paired.length = 2 ∧
    (run demoParse demoState [add, rem]).paired = [] ∧ (run demoParse demoState [add, rem]).props = [] := by
  decide +kernel

end Hap.PairState
