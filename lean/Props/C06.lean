/-
  C06 — Pairing administration is admin-only, exact, and never leaves orphans.
  Property theorems only; lemmas live in Proofs/PairState.lean and Proofs/PairList.lean.
  The model (HapModel/PairState.lean) mirrors pyhap with the repair of design/fixes/C06.patch;
  `parse` stands for `uuid.UUID(bytes.decode("utf-8"))` and is universally quantified.
-/
import Proofs.PairStateList
import Proofs.PairStateHist
import Proofs.PairStateFull
import Proofs.PairStateSim
import Proofs.HandlerConsts
namespace Hap.PairState
open Hap.Encoder

/-- The pairings-protocol TLV constants found in pyhap/hap_handler.py and pyhap/const.py *now*
    (regenerated on every run) are the HAP specification's. -/
theorem C06_protocol_constants :
    Hap.Gen.Handler.tag_REQUEST_TYPE = [0] ∧ Hap.Gen.Handler.tag_USERNAME = [1] ∧
    Hap.Gen.Handler.tag_PUBLIC_KEY = [3] ∧ Hap.Gen.Handler.tag_SEQUENCE_NUM = [6] ∧
    Hap.Gen.Handler.tag_ERROR_CODE = [7] ∧ Hap.Gen.Handler.tag_PERMISSIONS = [11] ∧
    Hap.Gen.Handler.tag_SEPARATOR = [255] ∧ Hap.Gen.Handler.st_M2 = [2] ∧
    Hap.Gen.Handler.err_AUTHENTICATION = [2] ∧
    Hap.Gen.Handler.perm_USER = [0] ∧ Hap.Gen.Handler.perm_ADMIN = [1] := by decide


/-- a verified session of a controller that is admin in `s` right now -/
def Conn.adminNow (s : PState) (c : Conn) : Prop :=
  c.enc = true ∧ ∃ u, c.cu = some u ∧ isAdmin s u = true

/-- Guard: a `POST /pairings` on a connection that is not a verified session of a controller
    holding the admin permission *now* changes nothing, schedules no save and is answered with
    an error — whatever the body (add, remove, list or garbage). -/
theorem C06_guard (parse : Bytes → Option Uuid) (s : PState) (r : Req) (h : ¬ r.conn.adminNow s) :
    ∃ resp, handlePairings parse s r = (s, resp, false) ∧ resp.isError = true := by
  unfold handlePairings
  cases hcu : r.conn.cu with
  | none => exact ⟨err500, rfl, by decide⟩
  | some cu =>
    by_cases hg : (!r.conn.enc || !isAdmin s cu) = true
    · simp only [hg, if_true]; exact ⟨authErr, rfl, by decide⟩
    · exfalso; apply h
      simp only [Bool.or_eq_true, Bool.not_eq_true', not_or, Bool.not_eq_false] at hg
      exact ⟨hg.1, cu, hcu, hg.2⟩

/-- Error atomicity: an operation answered with an error (HTTP status ≥ 400 or a TLV error
    item) leaves all three maps exactly as they were and schedules no save. Covers permission
    items of length 0, 2, …, identifiers that are not UTF-8 / not a UUID, missing items, unknown
    request types, undecodable bodies, refused connections. -/
theorem C06_error_atomic (parse : Bytes → Option Uuid) (s : PState) (op : Op) (h : Aligned s)
    (herr : (step parse s op).2.1.isError = true) :
    (step parse s op).1 = s ∧ (step parse s op).2.2 = false := by
  rcases step_cases parse s op h with ⟨resp, e⟩ | ⟨_, _, _, s', _, e⟩ | ⟨u, pc, _, _, e⟩
  · rw [e]; exact ⟨rfl, rfl⟩
  · rw [e] at herr; simp [okResp_not_error] at herr
  · rw [e] at herr; simp [okResp_not_error] at herr

/-- Alignment is invariant: every operation maps aligned maps to aligned maps. -/
theorem C06_aligned (parse : Bytes → Option Uuid) (s : PState) (op : Op) (h : Aligned s) :
    Aligned (step parse s op).1 := by
  rcases step_cases parse s op h with ⟨resp, e⟩ | ⟨idb, key, perms, s', e1, e⟩ | ⟨u, pc, _, _, e⟩
  · rw [e]; exact h
  · rw [e]; exact addPairedClient_aligned parse s s' idb key perms h e1
  · rw [e]; exact removePairedClient_aligned s u h

/-- … hence after every history from the empty state (or any aligned state) the key lists of
    `paired_clients` and `client_properties` are equal: no half-registered controller. -/
theorem C06_aligned_run (parse : Bytes → Option Uuid) (ops : List Op) (s : PState) (h : Aligned s) :
    Aligned (run parse s ops) := by
  induction ops generalizing s with
  | nil => exact h
  | cons op rest ih => exact ih _ (C06_aligned parse s op h)

/-- Last admin: whenever an operation makes some paired controller unpaired, the result still has
    a paired admin or has no pairing (and no permission entry) at all. -/
theorem C06_last_admin (parse : Bytes → Option Uuid) (s : PState) (op : Op) (h : Aligned s)
    (u : Uuid) (hbefore : u ∈ akeys s.paired) (hafter : u ∉ akeys (step parse s op).1.paired) :
    let s' := (step parse s op).1
    (∃ e ∈ s'.paired, isAdmin s' e.1 = true) ∨ (s'.paired = [] ∧ s'.props = []) := by
  rcases step_cases parse s op h with ⟨resp, e⟩ | ⟨idb, key, perms, s', e1, e⟩ | ⟨v, pc, _, hok, e⟩
  · rw [e] at hafter; exact absurd hbefore hafter
  · exfalso
    rw [e] at hafter
    unfold addPairedClient at e1
    split at e1
    · cases e1
    · split at e1
      · cases e1
        simp only [akeys_aset] at hafter
        split at hafter
        · exact hafter hbefore
        · exact hafter (List.mem_append_left _ hbefore)
      · cases e1
  · rw [e]; exact removePairedClient_last_admin s v hok

/-- a body that the TLV rules read as a list-pairings request -/
def IsListReq (body : Bytes) : Prop :=
  ∃ objs rest, Tlv.decode body [] = some objs ∧ aget objs tReq = some (5 :: rest)

/-- List exactness over histories. Start in the empty state — or in any state `s0` whose maps
    represent an observer's pairing list `a0` (`Rel`, e.g. the state a restart reloaded) — and run
    any history (pair-setup completions and arbitrary `POST /pairings` requests on arbitrary
    connections). Let `a` be the pairing list an observer derives *from the answers alone*
    (`observe`: success answers to add / remove and finished pair-setups; errors change nothing;
    removing the last admin empties it). Then a list request on a verified admin session changes
    nothing and its answer, decoded with the independent TLV8 list decoder, is exactly `a`: every
    current pairing, in registration order, with the identifier bytes it was registered with, its
    key and its admin flag. (`parse [] = none`: the empty string is not a UUID.) -/
theorem C06_list_exact (parse : Bytes → Option Uuid) (hparse : parse [] = none)
    (s0 : PState) (a0 : Abs) (h0 : Rel parse s0 a0) (ops : List Op)
    (c : Conn) (body : Bytes) (hbody : IsListReq body) (hc : c.adminNow (run parse s0 ops)) :
    ∃ items, handlePairings parse (run parse s0 ops) ⟨c, body⟩
        = (run parse s0 ops, .tlv items false, false) ∧
      decodePairings (Tlv.encode items) = some (runBoth parse s0 a0 ops).2.listing := by
  have hrel := rel_run parse ops s0 a0 h0
  rw [runBoth_fst] at hrel
  obtain ⟨henc, u, hcu, hadm⟩ := hc
  obtain ⟨objs, rest, hd, hrt⟩ := hbody
  refine ⟨listItems (run parse s0 ops), ?_, ?_⟩
  · simp [handlePairings, hcu, henc, hadm, hd, hrt]
  · rw [decodePairings_list, rel_listing parse hparse _ _ hrel]

/-- … in particular for every history from the empty state. -/
theorem C06_list_exact_from_empty (parse : Bytes → Option Uuid) (hparse : parse [] = none)
    (ops : List Op) (c : Conn) (body : Bytes) (hbody : IsListReq body)
    (hc : c.adminNow (run parse PState.empty ops)) :
    ∃ items, handlePairings parse (run parse PState.empty ops) ⟨c, body⟩
        = (run parse PState.empty ops, .tlv items false, false) ∧
      decodePairings (Tlv.encode items) = some (runBoth parse PState.empty [] ops).2.listing :=
  C06_list_exact parse hparse _ _ (rel_empty parse) ops c body hbody hc

/-- The admin test itself follows the answers: a controller is admin in the reached state iff the
    observer's list holds it with an odd permission byte. -/
theorem C06_admin_follows_answers (parse : Bytes → Option Uuid) (ops : List Op) (u : Uuid) :
    isAdmin (run parse PState.empty ops) u =
      (runBoth parse PState.empty [] ops).2.any (fun e => e.u = u ∧ e.perm % 2 = 1) := by
  have hrel := rel_run parse ops PState.empty [] (rel_empty parse)
  rw [runBoth_fst] at hrel
  exact rel_isAdmin parse _ _ hrel u

/-- The same at the level of one state: whatever the three maps hold, the list answer decodes to
    exactly the entries of `paired_clients`, in order, with the recorded identifier bytes, key and
    admin flag of each. -/
theorem C06_list_exact_state (s : PState) :
    decodePairings (Tlv.encode (listItems s)) =
      some (s.paired.map fun e => (regBytes s e.1, e.2, isAdmin s e.1)) :=
  decodePairings_list s

/-- The maps always represent the observer's list: after every history the set of pairings held
    by the accessory (keys, permissions, recorded identifier bytes) is the one the answers imply. -/
theorem C06_maps_follow_answers (parse : Bytes → Option Uuid) (ops : List Op) :
    Rel parse (run parse PState.empty ops) (runBoth parse PState.empty [] ops).2 := by
  have hrel := rel_run parse ops PState.empty [] (rel_empty parse)
  rwa [runBoth_fst] at hrel

/-! ### real sessions: who a connection is -/

/-- Session identity. Whatever the history did before, the session facts of connection `c`
    (`is_encrypted`, `client_uuid`) change in a step only if that step is a pair-verify exchange on
    `c` whose outer layer opens, whose identifier parses to a controller `u` that is paired right
    now with key `k`, and whose proof was made with the private key belonging to `k` — and then
    they become "verified as `u`". In particular a failed exchange (bogus / foreign / missing proof,
    wrong outer key, unknown or unparsable identifier) on an already verified connection leaves its
    identity as it was. -/
theorem C06_session_identity (parse : Bytes → Option Uuid) (s : PState) (ss : Sessions) (op : SOp)
    (c : Nat) (h : (sstep parse s ss op).2.1 c ≠ ss c) :
    ∃ v u idb k, op = .verify c v ∧ v.outerOk = true ∧ v.idb = some idb ∧ parse idb = some u ∧
      aget s.paired u = some k ∧ v.signer = some k ∧
      (sstep parse s ss op).2.1 c = ⟨true, some u⟩ := by
  cases op with
  | setup idb key => exact absurd rfl h
  | req c' body => exact absurd rfl h
  | verify c' v =>
    simp only [sstep] at h ⊢
    cases hv : verifiesAs parse s v with
    | none => rw [hv] at h; exact absurd rfl h
    | some p =>
      obtain ⟨u, idb⟩ := p
      rw [hv] at h
      simp only at h ⊢
      by_cases hc : c = c'
      · subst hc
        obtain ⟨ho, k, h1, h2, h3, h4⟩ := verifiesAs_some parse s v u idb hv
        exact ⟨v, u, idb, k, rfl, ho, h1, h2, h3, h4, by simp⟩
      · simp [hc] at h

/-- Only admin requests change pairings: a pair-verify exchange — successful or not, by an admin
    or by a plain user, with whatever spelling of its identifier — leaves `paired_clients` and
    `client_properties` exactly as they were and never alters identifier bytes that are recorded
    (so list-pairings keeps returning the bytes each controller was REGISTERED with). The one thing
    it may do is the documented back-fill: record the presented bytes for the controller it has
    just proved, when NO bytes were stored for it (state imported from an older file). -/
theorem C06_verify_preserves_pairings (parse : Bytes → Option Uuid) (s : PState) (ss : Sessions)
    (c : Nat) (v : VerifyAttempt) :
    let s' := (sstep parse s ss (.verify c v)).1
    s'.paired = s.paired ∧ s'.props = s.props ∧
    (∀ u b, aget s.u2b u = some b → aget s'.u2b u = some b) ∧
    (s' = s ∨ ∃ u idb, verifiesAs parse s v = some (u, idb) ∧ aget s.u2b u = none ∧
      s'.u2b = aset s.u2b u idb) := by
  simp only [sstep]
  cases hv : verifiesAs parse s v with
  | none => exact ⟨rfl, rfl, fun _ _ hb => hb, Or.inl rfl⟩
  | some p =>
    obtain ⟨u, idb⟩ := p
    obtain ⟨h1, h2, h3, h4⟩ := backfill_spec s u idb
    refine ⟨h1, h2, h3, ?_⟩
    rcases h4 with h4 | ⟨h5, h6⟩
    · exact Or.inl h4
    · exact Or.inr ⟨u, idb, rfl, h5, h6⟩

/-- Guard with real sessions: a `POST /pairings` on a connection whose session facts are not
    "verified as a controller that is admin now" changes neither the pairing maps nor any session,
    schedules no save and is answered with an error. Together with `C06_session_identity`: only
    the controller that last proved its identity on the connection can be served, and only while
    it is admin. -/
theorem C06_session_guard (parse : Bytes → Option Uuid) (s : PState) (ss : Sessions) (c : Nat)
    (body : Bytes) (h : ¬ (ss c).adminNow s) :
    ∃ resp, sstep parse s ss (.req c body) = (s, ss, some (resp, false)) ∧ resp.isError = true := by
  obtain ⟨resp, e, herr⟩ := C06_guard parse s ⟨ss c, body⟩ h
  exact ⟨resp, by simp only [sstep, e], herr⟩

private def demoParse (b : Bytes) : Option Uuid :=
  if b = [65] then some ⟨7, by decide⟩ else if b = [66] then some ⟨8, by decide⟩ else none

private def demoState : PState :=
  { paired := [(⟨7, by decide⟩, [1, 2, 3])], props := [(⟨7, by decide⟩, 1)], u2b := [(⟨7, by decide⟩, [65])] }

private def demoLegacyOut : Out :=
  handleAddLegacy demoParse demoState [(tReq, [3]), (tUser, [66]), (tPub, [9, 9]), (tPerm, [1, 0])]


/-! ### whole-life histories: the full alphabet, real sessions, restarts, legacy start states

  `HOp` = pair-setup completion | pair-verify exchange on a connection | `POST /pairings` on a connection |
  configuration-number increment | database-hash update (what `async_start` does) | restart (fresh process on the
  file) | stop (`async_stop` of the running driver object, which may be started again).  `HRel parse w a who` ties the
  accessory `w` (three maps, handler fields of every connection, persisted identity) to what an observer
  of the ANSWERS holds: the pairing list `a` (identifier bytes `none` = never seen: a controller imported
  from a state file that does not record them) and, per connection, the controller `who c` that last
  proved its identity there. -/

/-- The invariant holds along EVERY whole-life history (any operations in any order, failing ones
    included, any identifier spellings, restarts anywhere) from every start that satisfies it: after the
    history the three maps represent exactly the pairing list the answers imply, every connection's
    `is_encrypted` / `client_uuid` are exactly "verified as its last prover", and the state is one the
    state file round-trips. (The member-name tables of the state file, regenerated from the source,
    agree: checked here by `decide`.) -/
theorem C06_history_invariant (parse : Bytes → Option Uuid) (ops : List HOp) (w : World) (a : Abs) (who : Who)
    (h : HRel parse w a who) :
    HRel parse (hrunBoth parse w a who ops).1 (hrunBoth parse w a who ops).2.1 (hrunBoth parse w a who ops).2.2 :=
  hrel_run parse (by decide) ops w a who h

/-- Start states: a brand-new accessory with any identity … -/
theorem C06_start_fresh (parse : Bytes → Option Uuid) (mac : String) (cv : Int) (ah : Option String) (priv pub : Bytes)
    (h1 : priv.length = 32) (h2 : pub.length = 32) :
    HRel parse ⟨⟨mac, cv, ah, priv, pub, PState.empty⟩, Sessions.fresh⟩ [] (fun _ => none) :=
  hrel_fresh parse mac cv ah priv pub h1 h2

/-- … and whatever `load_into` produced from a state file whose `paired_clients` and `client_properties`
    name the same controllers and whose recorded identifier bytes (if any) name their controller: it
    represents the pairing list read off its maps (`absOf`), with identifier bytes unknown where the file
    records none. -/
theorem C06_start_loaded (parse : Bytes → Option Uuid) (d : Doc) (acc : AccState) (hl : load d = some acc)
    (hal : Aligned acc.ps)
    (hid : ∀ u b, u ∈ akeys acc.ps.paired → aget acc.ps.u2b u = some b → parse b = some u) :
    HRel parse ⟨acc, Sessions.fresh⟩ (absOf acc.ps) (fun _ => none) :=
  let wf := load_wf d acc hl
  ⟨rel_absOf parse acc.ps hal wf.paired hid, fun _ => rfl, wf.u2b, wf.priv, wf.pub⟩

/-- In particular every file of the oldest generation (neither permissions nor identifier bytes stored) that
    loads at all: no side condition, every controller an admin, every identifier unknown. -/
theorem C06_start_legacy (parse : Bytes → Option Uuid) (d : Doc) (acc : AccState) (hl : load d = some acc)
    (h1 : d.clientProperties = none) (h2 : d.clientUuidToBytes = none) :
    HRel parse ⟨acc, Sessions.fresh⟩ (absOf acc.ps) (fun _ => none) ∧
      ∀ e ∈ absOf acc.ps, e.idb = none ∧ e.perm = 1 := by
  obtain ⟨hal, hone, _⟩ := load_legacy_spec d acc h1 hl
  have hu : acc.ps.u2b = [] := (load_legacy_no_ids d acc h1 h2 hl).2
  refine ⟨C06_start_loaded parse d acc hl hal (by intro u b _ hb; rw [hu] at hb; cases hb), ?_⟩
  intro e he
  simp only [absOf, List.mem_map] at he
  obtain ⟨x, hx, rfl⟩ := he
  refine ⟨by simp [hu, aget], ?_⟩
  have hk : x.1 ∈ akeys acc.ps.props := by
    rw [← hal]; exact List.mem_map.mpr ⟨x, hx, rfl⟩
  obtain ⟨v, g1, g2⟩ := aget_of_mem_keys _ _ hk
  have : v = 1 := hone _ g2
  simp [g1, this]

/-- Served only to an admin's verified session, in the observer's terms: in every state the invariant
    describes (hence after every whole-life history), a `POST /pairings` on a connection whose last
    prover is not an admin of the CURRENT pairing list — nobody proved anything there since the last
    restart, or the prover has been removed or demoted since — is answered with an error, changes nothing
    in the world (maps, identity, every connection) and schedules no save, whatever its body. -/
theorem C06_history_guard (parse : Bytes → Option Uuid) (w : World) (a : Abs) (who : Who)
    (h : HRel parse w a who) (c : Nat) (body : Bytes) (hna : ¬ a.adminConn who c) :
    ∃ resp, hstep parse w (.s (.req c body)) = (w, .resp resp false) ∧ resp.isError = true := by
  have hg : ¬ (w.ss c).adminNow w.acc.ps := fun hc => hna ((adminNow_iff h c).mp hc)
  obtain ⟨resp, e, herr⟩ := C06_guard parse w.acc.ps ⟨w.ss c, body⟩ hg
  refine ⟨resp, ?_, herr⟩
  simp only [hstep, e]

/-- A connection becomes "proved as `u`" only through an exchange whose identifier names a controller of the
    current pairing list and whose proof was made with the private key belonging to the key REGISTERED for
    it (the list entry's key) — the C02 fact, over the observer's list. -/
theorem C06_history_prover (parse : Bytes → Option Uuid) (w : World) (a : Abs) (who : Who)
    (h : HRel parse w a who) (c : Nat) (v : VerifyAttempt) (wr : Bool)
    (hv : (hstep parse w (.s (.verify c v))).2 = .verified true wr) :
    ∃ idb e, v.outerOk = true ∧ v.idb = some idb ∧ e ∈ a ∧ parse idb = some e.u ∧ v.signer = some e.key ∧
      (hobserve parse a who (.s (.verify c v)) (.verified true wr)).2 c = some e.u := by
  simp only [hstep] at hv
  cases hva : verifiesAs parse w.acc.ps v with
  | none => rw [hva] at hv; cases hv
  | some p =>
    obtain ⟨u, idb⟩ := p
    obtain ⟨ho, k, h1, h2, h3, h4⟩ := verifiesAs_some parse _ v u idb hva
    obtain ⟨e, he, heu, hek⟩ := rel_key h.rel u k h3
    refine ⟨idb, e, ho, h1, he, by rw [heu]; exact h2, by rw [hek]; exact h4, ?_⟩
    simp [hobserve, h1, h2, heu]

/-- List exactness over whole-life histories: in every state the invariant describes, a list request on
    a connection whose last prover is an admin of the current list changes nothing and its answer, decoded
    with the independent TLV8 list decoder, is exactly the observer's list — every current pairing, in
    registration order, with its key, its admin flag and the identifier bytes it was registered with (for
    a controller imported without recorded bytes and not yet back-filled: the upper-cased canonical text
    `str(uuid).upper()`, `idFallback`). -/
theorem C06_history_list_exact (parse : Bytes → Option Uuid) (hparse : parse [] = none) (w : World) (a : Abs)
    (who : Who) (h : HRel parse w a who) (c : Nat) (body : Bytes) (hbody : IsListReq body)
    (hc : a.adminConn who c) :
    ∃ items, hstep parse w (.s (.req c body)) = (w, .resp (.tlv items false) false) ∧
      decodePairings (Tlv.encode items) = some a.listing := by
  obtain ⟨henc, u, hcu, hadm⟩ := (adminNow_iff h c).mpr hc
  obtain ⟨objs, rest, hd, hrt⟩ := hbody
  refine ⟨listItems w.acc.ps, ?_, ?_⟩
  · simp [hstep, handlePairings, hcu, henc, hadm, hd, hrt]
  · rw [decodePairings_list, rel_listing parse hparse _ _ h.rel]

/-- Error atomicity over the full alphabet: in every state the invariant describes, an operation answered
    with an error — a `POST /pairings` or pair-setup completion with HTTP status ≥ 400 or a TLV error item,
    or a pair-verify exchange that is refused — leaves the ENTIRE world as it was (all three maps, the
    identity, every connection's session facts) and schedules no save. -/
theorem C06_history_error_atomic (parse : Bytes → Option Uuid) (w : World) (a : Abs) (who : Who)
    (h : HRel parse w a who) (op : HOp) :
    (∀ r wr, (hstep parse w op).2 = .resp r wr → r.isError = true → (hstep parse w op).1 = w ∧ wr = false) ∧
    (∀ wr, (hstep parse w op).2 = .verified false wr → (hstep parse w op).1 = w ∧ wr = false) := by
  have hal := rel_aligned h.rel
  cases op with
  | s sop =>
    cases sop with
    | setup idb key =>
      refine ⟨?_, fun wr he => (by simp [hstep] at he)⟩
      intro r wr he herr
      simp only [hstep, HAns.resp.injEq] at he
      obtain ⟨rfl, rfl⟩ := he
      obtain ⟨e1, e2⟩ := C06_error_atomic parse w.acc.ps (.setup idb key) hal herr
      refine ⟨?_, e2⟩
      simp only [hstep, e1]
    | req c body =>
      refine ⟨?_, fun wr he => (by simp [hstep] at he)⟩
      intro r wr he herr
      simp only [hstep, HAns.resp.injEq] at he
      obtain ⟨rfl, rfl⟩ := he
      obtain ⟨e1, e2⟩ := C06_error_atomic parse w.acc.ps (.req ⟨w.ss c, body⟩) hal herr
      refine ⟨?_, e2⟩
      simp only [step] at e1
      simp only [hstep, e1]
    | verify c v =>
      simp only [hstep]
      cases verifiesAs parse w.acc.ps v with
      | none =>
        refine ⟨fun r wr he => ?_, fun wr he => ?_⟩
        · simp at he
        · simp only [HAns.verified.injEq, true_and] at he
          exact ⟨rfl, he.symm⟩
      | some p =>
        refine ⟨fun r wr he => ?_, fun wr he => ?_⟩
        · simp at he
        · simp at he
  | config => refine ⟨fun r wr he => ?_, fun wr he => ?_⟩ <;> simp [hstep] at he
  | hsh hh => refine ⟨fun r wr he => ?_, fun wr he => ?_⟩ <;> simp [hstep] at he
  | restart =>
    simp only [hstep]
    split <;> refine ⟨fun r wr he => ?_, fun wr he => ?_⟩ <;> simp at he
  | stop => refine ⟨fun r wr he => ?_, fun wr he => ?_⟩ <;> simp [hstep] at he

/-- Last admin over the full alphabet: whenever an operation of a whole-life history makes some paired
    controller unpaired, the result still has a paired admin or no pairing and no permission entry at all.
    (Exchanges, configuration / hash changes and restarts never unpair anybody.) -/
theorem C06_history_last_admin (parse : Bytes → Option Uuid) (w : World) (a : Abs) (who : Who)
    (h : HRel parse w a who) (op : HOp) (u : Uuid) (hbefore : u ∈ akeys w.acc.ps.paired)
    (hafter : u ∉ akeys (hstep parse w op).1.acc.ps.paired) :
    let s' := (hstep parse w op).1.acc.ps
    (∃ e ∈ s'.paired, isAdmin s' e.1 = true) ∨ (s'.paired = [] ∧ s'.props = []) := by
  have hal := rel_aligned h.rel
  cases op with
  | s sop =>
    cases sop with
    | setup idb key => exact C06_last_admin parse w.acc.ps (.setup idb key) hal u hbefore hafter
    | req c body => exact C06_last_admin parse w.acc.ps (.req ⟨w.ss c, body⟩) hal u hbefore hafter
    | verify c v =>
      exfalso; apply hafter
      have := (C06_verify_preserves_pairings parse w.acc.ps w.ss c v).1
      rw [(hstep_s parse w (.verify c v)).1, this]; exact hbefore
  | config => exact absurd hbefore hafter
  | hsh hh =>
    exfalso; apply hafter
    simp only [hstep, setAccessoriesHash]
    split <;> exact hbefore
  | restart =>
    exfalso; apply hafter
    simp only [hstep, restart_identity (by decide) w.acc h.wf]; exact hbefore
  | stop => exact absurd hbefore hafter

/-- Never leaves orphans, over all three maps: after every whole-life history `paired_clients` and
    `client_properties` hold exactly the same controllers (each once) — no key without permissions, no
    permissions without a key — and every entry of `uuid_to_bytes` belongs to a paired controller or is
    INERT: a controller that is not paired is not admin, cannot be proved by any pair-verify exchange and
    does not appear in the list answer, whatever bytes are still recorded for it. -/
theorem C06_no_orphans (parse : Bytes → Option Uuid) (ops : List HOp) (w : World) (a : Abs) (who : Who)
    (h : HRel parse w a who) :
    let s := (hrun parse w ops).acc.ps
    akeys s.paired = akeys s.props ∧ KeysNodup s ∧
    ∀ u, u ∉ akeys s.paired →
      isAdmin s u = false ∧ (∀ v idb, verifiesAs parse s v ≠ some (u, idb)) ∧
      ∀ e ∈ (s.paired.map fun e => (e.1, regBytes s e.1, e.2, isAdmin s e.1)), e.1 ≠ u := by
  have hr := C06_history_invariant parse ops w a who h
  rw [hrunBoth_fst] at hr
  refine ⟨rel_aligned hr.rel, rel_keysNodup hr.rel hr.u2b, ?_⟩
  intro u hu
  refine ⟨?_, ?_, ?_⟩
  · have hp : u ∉ akeys (hrun parse w ops).acc.ps.props := by rw [← rel_aligned hr.rel]; exact hu
    simp [isAdmin, aget_none_of_not_mem _ _ hp]
  · intro v idb hv
    obtain ⟨_, k, _, _, h3, _⟩ := verifiesAs_some parse _ v u idb hv
    rw [aget_none_of_not_mem _ _ hu] at h3; cases h3
  · intro e he heq
    simp only [List.mem_map] at he
    obtain ⟨x, hx, rfl⟩ := he
    exact hu (heq ▸ List.mem_map.mpr ⟨x, hx, rfl⟩)


/-- Orphaned identifier bytes are unobservable over whole lives: take two accessories that satisfy the
    invariant and differ at most in `uuid_to_bytes` entries of controllers that are NOT paired (`SimW`: same
    `paired_clients`, same `client_properties`, same bytes for every paired controller, same identity and
    sessions). Then EVERY whole-life history gets exactly the same answers from both — every `POST /pairings`
    answer incl. every list, every pair-verify outcome, every save flag, every restart. So the entries the
    last-admin sweep leaves behind (`C06_stale_id_bytes_witness`) are not pairings in any observable sense. -/
theorem C06_stale_ids_unobservable (parse : Bytes → Option Uuid) (ops : List HOp) (w v : World) (a a' : Abs)
    (who who' : Who) (hw : HRel parse w a who) (hv : HRel parse v a' who') (h : SimW w v) :
    hanswers parse w ops = hanswers parse v ops :=
  simW_run parse (by decide) ops w v a a' who who' hw hv h

/-- … one step at a time: same answer, and the two accessories stay related. -/
theorem C06_stale_ids_unobservable_step (parse : Bytes → Option Uuid) (w v : World) (h : SimW w v)
    (hw : Encoder.WF w.acc) (hv : Encoder.WF v.acc) (op : HOp) :
    SimW (hstep parse w op).1 (hstep parse v op).1 ∧ (hstep parse w op).2 = (hstep parse v op).2 :=
  simW_hstep parse (by decide) h hw hv op

/-- Such inert entries do exist: removing the last admin sweeps `paired_clients` and `client_properties`
    but leaves the swept controllers' identifier bytes recorded (reported as a note, see DESIGN §3 C06). -/
theorem C06_stale_id_bytes_witness :
    let add : Op := .req ⟨⟨true, some ⟨7, by decide⟩⟩, Tlv.encode [(tReq, [3]), (tUser, [66]), (tPub, [9]), (tPerm, [0])]⟩
    let rem : Op := .req ⟨⟨true, some ⟨7, by decide⟩⟩, Tlv.encode [(tReq, [4]), (tUser, [65])]⟩
    (run demoParse demoState [add, rem]).paired = [] ∧
    (run demoParse demoState [add, rem]).u2b = [(⟨8, by decide⟩, [66])] := by
  decide +kernel

/-! ### the code as shipped (before design/fixes/C06.patch) -/


/-- The unrepaired add path breaks error atomicity: an add-pairing whose permissions item has two
    bytes is answered 500 but leaves controller `8` in `paired_clients` without properties
    (it could then pair-verify). Same input as the replay found on the implementation. -/
theorem C06_legacy_counterexample :
    (demoLegacyOut).2.1.isError = true ∧ (demoLegacyOut).1.paired ≠ demoState.paired ∧
      ¬ Aligned (demoLegacyOut).1 := by
  decide

/-! ### non-vacuity -/

example : Aligned demoState := by decide
example : (Conn.mk true (some ⟨7, by decide⟩)).adminNow demoState := ⟨rfl, _, rfl, by decide⟩
/-- connections the guard refuses: unverified, and a verified non-admin controller -/
example : ¬ (Conn.mk false none).adminNow demoState := fun h => absurd h.1 (by decide)
example : ¬ (Conn.mk true (some ⟨8, by decide⟩)).adminNow demoState := by
  rintro ⟨_, u, hu, ha⟩
  cases hu
  exact absurd ha (by decide)
/-- a verified non-admin session stays what it is after a failed exchange naming the admin -/
example :
    let ss : Sessions := fun c => if c = 1 then ⟨true, some ⟨8, by decide⟩⟩ else ⟨false, none⟩
    (sstep demoParse demoState ss (.verify 1 ⟨true, some [65], none⟩)).2.1 1 = ⟨true, some ⟨8, by decide⟩⟩ ∧
    (sstep demoParse demoState ss (.verify 1 ⟨true, some [65], some [1, 2, 3]⟩)).2.1 1 = ⟨true, some ⟨7, by decide⟩⟩ := by
  decide
/-- the repaired model refuses the same request and changes nothing -/
example : handleAdd demoParse demoState [(tReq, [3]), (tUser, [66]), (tPub, [9, 9]), (tPerm, [1, 0])]
    = (demoState, err500, false) := by decide
example : IsListReq (Tlv.encode [(tReq, [5])]) := ⟨[(tReq, [5])], [], by decide +kernel, by decide⟩
/-- a history with a non-empty observer list and an admin session to ask from -/
example :
    (runBoth demoParse PState.empty [] [.setup [65] [1, 2, 3]]).2.listing = [([65], [1, 2, 3], true)] ∧
    (Conn.mk true (some ⟨7, by decide⟩)).adminNow (run demoParse PState.empty [.setup [65] [1, 2, 3]]) :=
  ⟨by decide, rfl, _, rfl, by decide⟩
example : demoParse [] = none := by decide
/-- an admin adds a user, then removing the admin (the last one) clears everything -/
example :
    let add : Op := .req ⟨⟨true, some ⟨7, by decide⟩⟩, Tlv.encode [(tReq, [3]), (tUser, [66]), (tPub, [9]), (tPerm, [0])]⟩
    let rem : Op := .req ⟨⟨true, some ⟨7, by decide⟩⟩, Tlv.encode [(tReq, [4]), (tUser, [65])]⟩
    (run demoParse demoState [add]).paired.length = 2 ∧
    (run demoParse demoState [add, rem]).paired = [] ∧ (run demoParse demoState [add, rem]).props = [] := by
  decide +kernel

/-! ### non-vacuity of the whole-life theorems -/

private def demoKey32 : Bytes := List.replicate 32 7
private def demoWorld : World := ⟨⟨"AA:BB", 65535, none, demoKey32, demoKey32, PState.empty⟩, Sessions.fresh⟩
private def demoAddBody : Bytes := Tlv.encode [(tReq, [3]), (tUser, [66]), (tPub, [9]), (tPerm, [0])]
private def demoLife : List HOp :=
  [.s (.setup [65] [1, 2, 3]), .s (.verify 0 ⟨true, some [65], some [1, 2, 3]⟩), .s (.req 0 demoAddBody),
   .hsh (some "h"), .stop, .hsh (some "h"), .restart, .s (.verify 3 ⟨true, some [66], some [9]⟩), .s (.verify 4 ⟨true, some [65], some [1, 2, 3]⟩)]

example : HRel demoParse demoWorld [] (fun _ => none) :=
  C06_start_fresh demoParse _ _ _ _ _ (by decide) (by decide)
/-- a whole life with a restart in it: two pairings, the configuration number wrapped to 1, the admin
    proved on connection 4 and the plain user on connection 3 after the restart, nobody on connection 0 -/
example :
    let r := hrunBoth demoParse demoWorld [] (fun _ => none) demoLife
    r.2.1.listing = [([65], [1, 2, 3], true), ([66], [9], false)] ∧ r.1.acc.configVersion = 1 ∧
    r.2.1.adminConn r.2.2 4 ∧ ¬ r.2.1.adminConn r.2.2 3 ∧ ¬ r.2.1.adminConn r.2.2 0 := by
  refine ⟨by decide +kernel, by decide +kernel, ⟨⟨7, by decide⟩, by decide +kernel, by decide +kernel⟩, ?_, ?_⟩
  · rintro ⟨u, hu, ha⟩
    have : u = ⟨8, by decide⟩ := by
      have h3 : (hrunBoth demoParse demoWorld [] (fun _ => none) demoLife).2.2 3 = some ⟨8, by decide⟩ := by decide +kernel
      rw [h3] at hu; exact (Option.some.inj hu).symm
    subst this
    revert ha; decide +kernel
  · rintro ⟨u, hu, _⟩
    have h0 : (hrunBoth demoParse demoWorld [] (fun _ => none) demoLife).2.2 0 = none := by decide +kernel
    rw [h0] at hu; cases hu
/-- two different accessories related by `SimW`: the second carries identifier bytes of an unpaired controller -/
example : SimW demoWorld ⟨{ demoWorld.acc with ps := { PState.empty with u2b := [(⟨8, by decide⟩, [66])] } }, Sessions.fresh⟩ ∧
    demoWorld.acc.ps ≠ { PState.empty with u2b := [(⟨8, by decide⟩, [66])] } :=
  ⟨⟨⟨rfl, rfl, fun _ hu => by simp [demoWorld, PState.empty, akeys] at hu⟩, rfl, rfl, rfl, rfl, rfl, rfl⟩, by decide⟩
/-- a state file of the oldest generation that loads: one controller, admin, identifier unknown -/
private def demoLegacyDoc : Doc :=
  { mac := "m", configVersion := 2, pairedClients := [("00000000-0000-0000-0000-000000000007", "0a")],
    clientProperties := none, accessoriesHash := none, clientUuidToBytes := none,
    privateKey := toHex demoKey32, publicKey := toHex demoKey32 }
example : (load demoLegacyDoc).map (fun acc => absOf acc.ps) = some [⟨⟨7, by decide⟩, none, [10], 1⟩] := by decide +kernel

end Hap.PairState
