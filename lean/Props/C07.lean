/-
  C07 — TLV8 encoding is specification-conforming and round-trips for all values.
  Property theorems only; helper lemmas live in Proofs/Tlv.lean.
-/
import Proofs.Tlv
namespace Hap.Tlv

/-- The encoder emits exactly what the independently written TLV8 specification encoder
    emits, for every list of items. -/
theorem C07_encode_spec (items : Items) : encode items = specEncode items :=
  encode_eq_spec items

/-- Shape of the specification encoding of one value: the fragments concatenate to the value,
    none is empty or longer than 255 bytes, and all but the last are exactly 255 long
    (so: consecutive 255-byte fragments followed by at most one shorter non-empty one). -/
theorem C07_fragment_shape (v : Bytes) :
    (chunks FRAG v).flatten = v ∧
    (∀ c ∈ chunks FRAG v, 1 ≤ c.length ∧ c.length ≤ FRAG) ∧
    (∀ c ∈ (chunks FRAG v).dropLast, c.length = FRAG) :=
  chunks_shape v

/-- Uniqueness ("THE unique TLV8 byte string"): whatever fragments `cs` someone proposes for a
    non-empty value — none empty, none longer than 255, all but the last exactly 255 — they are the
    fragments the encoder emits, so the byte string the encoder emits for `(tag, cs.flatten)` is the only
    one with the TLV8 shape that carries this value. -/
theorem C07_unique (tag : UInt8) (cs : List Bytes) (hne : cs ≠ [])
    (h1 : ∀ c ∈ cs, 1 ≤ c.length ∧ c.length ≤ FRAG)
    (h2 : ∀ c ∈ cs.dropLast, c.length = FRAG) :
    encode [(tag, cs.flatten)] = cs.flatMap fun c => tag :: UInt8.ofNat c.length :: c := by
  rw [encode_eq_spec]
  have hv : cs.flatten ≠ [] := by
    intro e
    obtain ⟨c, rest, rfl⟩ := List.exists_cons_of_ne_nil hne
    have := h1 c (by simp)
    have h0 : ((c :: rest).flatten).length = 0 := by rw [e]; rfl
    rw [List.flatten_cons, List.length_append] at h0
    omega
  simp [specEncode, specEncodeItem, hv, chunks_unique cs h1 h2]

/-- Round trip for every item list: decoding the encoding gives the values merged by type in
    first-occurrence order (what a dict-returning decoder can return at best). -/
theorem C07_roundtrip (items : Items) : decode (encode items) [] = some (merge [] items) :=
  decode_encode_acc items []

/-- Any well-formed record sequence (records of ≤ 255 bytes, arbitrary tags) is decoded without
    error and without assigning a byte to the wrong item. -/
theorem C07_wellformed (rs : Items) (h : ∀ r ∈ rs, r.2.length ≤ FRAG) :
    decode (wireRecords rs) [] = some (merge [] rs) :=
  decode_wireRecords rs [] h

/-- Totality: on arbitrary bytes the decoder returns a result or an error (it is a total,
    terminating Lean function; the termination proof is part of its definition). -/
theorem C07_decode_total (data : Bytes) : (∃ r, decode data [] = some r) ∨ decode data [] = none := by
  cases h : decode data [] with
  | none => exact Or.inr rfl
  | some r => exact Or.inl ⟨r, rfl⟩

/-- The encoder as it was before the repair violates the round trip at length 510
    (`data[-0:]` is the whole value). Witness replayed on the implementation by the harness. -/
theorem C07_legacy_counterexample :
    decode (encodeLegacy [(5, List.replicate 510 0)]) [] ≠ some (merge [] [(5, List.replicate 510 0)]) := by
  decide +kernel

/-! non-vacuity: concrete instances -/
example : encode [(1, [7, 8]), (1, [9]), (2, [])] = [1, 2, 7, 8, 1, 1, 9, 2, 0] := by decide
example : decode (encode [(1, [7, 8]), (1, [9]), (2, [])]) [] = some [(1, [7, 8, 9]), (2, [])] := by
  decide +kernel
example : (encode [(5, List.replicate 510 1)]).length = 514 := by decide +kernel
example : encode [(9, [[1, 2], [3]].flatten)] ≠ [[1, 2], [3]].flatMap (fun c => (9 : UInt8) :: UInt8.ofNat c.length :: c) := by
  decide  -- a fragmentation that breaks the shape rule (first fragment not full) is NOT what the encoder emits

end Hap.Tlv
