/-
  C07 — TLV8 encoding is specification-conforming and round-trips for all values.
  Property theorems only; helper lemmas live in Proofs/Tlv.lean.
-/
import Proofs.Tlv
namespace Hap.Tlv

/-- The encoder emits exactly what the independently written TLV8 specification encoder
    emits, for every list of items. -/
theorem C07_encode_spec (items : Items) : encode items = specEncode items :=
  encode_eq_spec items

/-- Shape of the specification encoding of one value: the fragments concatenate to the value,
    none is empty or longer than 255 bytes, and all but the last are exactly 255 long
    (so: consecutive 255-byte fragments followed by at most one shorter non-empty one). -/
theorem C07_fragment_shape (v : Bytes) :
    (chunks FRAG v).flatten = v ∧
    (∀ c ∈ chunks FRAG v, 1 ≤ c.length ∧ c.length ≤ FRAG) ∧
    (∀ c ∈ (chunks FRAG v).dropLast, c.length = FRAG) :=
  chunks_shape v

/-- Round trip for every item list: decoding the encoding gives the values merged by type in
    first-occurrence order (what a dict-returning decoder can return at best). -/
theorem C07_roundtrip (items : Items) : decode (encode items) [] = some (merge [] items) :=
  decode_encode_acc items []

/-- Any well-formed record sequence (records of ≤ 255 bytes, arbitrary tags) is decoded without
    error and without assigning a byte to the wrong item. -/
theorem C07_wellformed (rs : Items) (h : ∀ r ∈ rs, r.2.length ≤ FRAG) :
    decode (wireRecords rs) [] = some (merge [] rs) :=
  decode_wireRecords rs [] h

/-- Totality: on arbitrary bytes the decoder returns a result or an error (it is a total,
    terminating Lean function; the termination proof is part of its definition). -/
theorem C07_decode_total (data : Bytes) : (∃ r, decode data [] = some r) ∨ decode data [] = none := by
  cases h : decode data [] with
  | none => exact Or.inr rfl
  | some r => exact Or.inl ⟨r, rfl⟩

/-- The encoder as it was before the repair violates the round trip at length 510
    (`data[-0:]` is the whole value). Witness replayed on the implementation by the harness. -/
theorem C07_legacy_counterexample :
    decode (encodeLegacy [(5, List.replicate 510 0)]) [] ≠ some (merge [] [(5, List.replicate 510 0)]) := by
  decide +kernel

/-! non-vacuity: concrete instances -/
example : encode [(1, [7, 8]), (1, [9]), (2, [])] = [1, 2, 7, 8, 1, 1, 9, 2, 0] := by decide
example : decode (encode [(1, [7, 8]), (1, [9]), (2, [])]) [] = some [(1, [7, 8, 9]), (2, [])] := by
  decide +kernel
example : (encode [(5, List.replicate 510 1)]).length = 514 := by decide +kernel

end Hap.Tlv
