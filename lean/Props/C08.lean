/-
  C08 — A controller that knows the setup code always completes pair-setup.
  Property theorems only; lemmas live in Proofs/Srp.lean, Proofs/SrpBytes.lean, Proofs/PairSetup.lean.
  The models mirror the repaired code (design/fixes/C08.patch): `Kb` is the SHA-512 digest itself and
  HKDF is fed those 64 bytes.
-/
import Proofs.PairSetup
import Proofs.HandlerConsts
import HapModel.Gen.SrpGroup
namespace Hap.C08
open Hap Hap.Tlv Hap.Srp Hap.PairSetup

/-- The pair-setup HKDF labels, AEAD nonces and TLV constants found in pyhap/hap_handler.py *now*
    (regenerated on every run) are the HAP specification's — the ones the reference controller uses. -/
theorem C08_protocol_constants :
    Hap.Gen.Handler.h_PAIRING_3_SALT = Hap.Gen.Handler.ascii "Pair-Setup-Encrypt-Salt" ∧
    Hap.Gen.Handler.h_PAIRING_3_INFO = Hap.Gen.Handler.ascii "Pair-Setup-Encrypt-Info" ∧
    Hap.Gen.Handler.h_PAIRING_3_NONCE = [0, 0, 0, 0] ++ Hap.Gen.Handler.ascii "PS-Msg05" ∧
    Hap.Gen.Handler.h_PAIRING_4_SALT = Hap.Gen.Handler.ascii "Pair-Setup-Controller-Sign-Salt" ∧
    Hap.Gen.Handler.h_PAIRING_4_INFO = Hap.Gen.Handler.ascii "Pair-Setup-Controller-Sign-Info" ∧
    Hap.Gen.Handler.h_PAIRING_5_SALT = Hap.Gen.Handler.ascii "Pair-Setup-Accessory-Sign-Salt" ∧
    Hap.Gen.Handler.h_PAIRING_5_INFO = Hap.Gen.Handler.ascii "Pair-Setup-Accessory-Sign-Info" ∧
    Hap.Gen.Handler.h_PAIRING_5_NONCE = [0, 0, 0, 0] ++ Hap.Gen.Handler.ascii "PS-Msg06" ∧
    Hap.Gen.Handler.tag_SALT = [2] ∧ Hap.Gen.Handler.tag_PUBLIC_KEY = [3] ∧
    Hap.Gen.Handler.tag_PASSWORD_PROOF = [4] ∧ Hap.Gen.Handler.tag_ENCRYPTED_DATA = [5] ∧
    Hap.Gen.Handler.tag_SEQUENCE_NUM = [6] ∧ Hap.Gen.Handler.tag_ERROR_CODE = [7] ∧
    Hap.Gen.Handler.tag_PROOF = [10] :=
  ⟨Hap.Gen.Handler.pair_setup_labels.1, Hap.Gen.Handler.pair_setup_labels.2.1,
   Hap.Gen.Handler.pair_setup_labels.2.2.1, Hap.Gen.Handler.pair_setup_labels.2.2.2.1,
   Hap.Gen.Handler.pair_setup_labels.2.2.2.2.1, Hap.Gen.Handler.pair_setup_labels.2.2.2.2.2.1,
   Hap.Gen.Handler.pair_setup_labels.2.2.2.2.2.2.1, Hap.Gen.Handler.pair_setup_labels.2.2.2.2.2.2.2,
   by decide, by decide, by decide, by decide, by decide, by decide, by decide⟩


/-- SRP-6a algebra: the accessory's premaster secret `(A·v^u)^b` equals the RFC 5054 client's
    `(B − k·g^x)^(a+u·x)` (computed on Python ints, the difference may be negative), for every modulus
    `N > 0`, every `g, k, x, a, b, u`.  Neither primality of `N` nor `g` being a generator is needed. -/
theorem C08_srp_agree (N g k x a b u : Nat) (hN : 0 < N) :
    _root_.Srp.srvS N (g ^ a % N) (g ^ x % N) u b
      = _root_.Srp.cliS N g ((k * (g ^ x % N) + g ^ b % N) % N) k x a u :=
  _root_.Srp.srp_agree N g k x a b u hN

/-- The executable square-and-multiply of the model is Python's `pow(b, e, n)`. -/
theorem C08_powMod (b e n : Nat) : powMod b e n = b ^ e % n := powMod_eq b e n

/-- `long_to_bytes(bytes_to_long(d))` removes exactly the leading zero bytes of `d`. -/
theorem C08_l2b_b2l (d : Bytes) : natToBytes (bytesToNat d) = d.dropWhile (· = 0) := l2b_b2l d

/-- `bytes_to_long(long_to_bytes(n)) = n` (what makes sending `A`, `B` in minimal form lossless). -/
theorem C08_b2l_l2b (n : Nat) : bytesToNat (natToBytes n) = n := b2l_l2b n

/-! ### byte-level facts at full generality: padding, minimal form, the integer session key -/

/-- `_padN` never changes the value and never truncates: `bytes_to_long(PAD(d)) = bytes_to_long(d)`,
    `len(PAD(d)) = max(N_len/8, len(d))` — for every byte string. -/
theorem C08_pad_value_length (G : Group) (d : Bytes) :
    bytesToNat (padN G d) = bytesToNat d ∧ (padN G d).length = max (G.nLen / 8) d.length :=
  ⟨bytesToNat_rjust _ d, rjust_length _ d⟩

/-- `long_to_bytes` emits the minimal form (no leading zero byte), a value below `256^w` fits in `w`
    bytes (so `PAD` of `A`, `B < N < 256^384` has exactly 384 bytes, however many leading zero bytes the
    value has), and `PAD` is injective on minimal forms (the `u = H(PAD A ‖ PAD B)` both sides hash is
    determined by the VALUES `A`, `B`). -/
theorem C08_minimal_form (n m w : Nat) :
    (natToBytes n).head? ≠ some 0 ∧
    (n < 256 ^ w → (natToBytes n).length ≤ w ∧ (rjust w (natToBytes n)).length = w) ∧
    (rjust w (natToBytes m) = rjust w (natToBytes n) → m = n) := by
  refine ⟨natToBytes_minimal n, ?_, rjust_natToBytes_inj w m n⟩
  intro h
  have hl := natToBytes_length_le n w h
  exact ⟨hl, by rw [rjust_length]; omega⟩

/-- The functions of `hsrp.Server` that have no caller of their own in the model, under their own names:
    the constructor's `v`, `B` are `_get_verifier()`, `_derive_B()`; M2 carries
    `long_to_bytes(get_challenge()[1]) = Bb`; after `set_A`, `HAMK = _get_HAMK()`,
    `get_session_key_bytes()` is the digest `H(Sb)` itself, `get_session_key() = _get_K()` is its integer
    value.  (Each is also called on the real object and compared in the numeric stream.) -/
theorem C08_hsrp_named (H : Bytes → Bytes) (G : Group) (I p s Ab : Bytes) (b : Nat) :
    let srv := Srp.mk H G I p s b
    srv.v = getVerifier H G s I p ∧ srv.B = deriveB G (multK H G) (getVerifier H G s I p) b ∧
    natToBytes srv.getChallenge.2 = srv.Bb ∧ srv.getChallenge.1 = s ∧
    (mkSess H srv Ab).HAMK = getHAMK H Ab (mkSess H srv Ab).M (mkSess H srv Ab).Kb ∧
    (setA H srv Ab).sessionKeyBytes = some (H (mkSess H srv Ab).Sb) ∧
    (setA H srv Ab).sessionKey = some (getK H (mkSess H srv Ab).Sb) :=
  ⟨rfl, rfl, rfl, rfl, rfl, rfl, rfl⟩

/-- The integer session key loses exactly the leading zero bytes of the digest — for every hash, code,
    salt, secrets and `A`: `long_to_bytes(get_session_key()) = get_session_key_bytes().lstrip(0)`.  Hence the
    handler must feed `get_session_key_bytes()` to HKDF (it does: `C08_complete`). -/
theorem C08_integer_session_key (H : Bytes → Bytes) (srv : Server) (Ab : Bytes) :
    natToBytes (mkSess H srv Ab).K = (mkSess H srv Ab).Kb.dropWhile (· = 0) :=
  sessionKey_bytes H srv Ab

/-- Why the shipped code fails: its `Kb = long_to_bytes(int(H(Sb)))` equals the digest `H(Sb)` that the
    controller uses **iff** the digest does not begin with a zero byte. -/
theorem C08_legacy_Kb_iff (H : Bytes → Bytes) (srv : Server) (Ab : Bytes) :
    (mkSessLegacy H srv Ab).Kb = H (mkSessLegacy H srv Ab).Sb
      ↔ (H (mkSessLegacy H srv Ab).Sb).head? ≠ some 0 :=
  legacy_Kb_eq_digest_iff H srv Ab

/-- The shipped code rejects a correct controller: a concrete hash whose digest starts with a zero
    byte (`H d = 0 :: d`), toy group `N = 23, g = 5`; the reference client's proof is refused. -/
theorem C08_legacy_counterexample :
    let H : Bytes → Bytes := fun d => 0 :: d
    let G : Group := { N := 23, g := 5, nLen := 8 }
    let srv := Srp.mk H G [1] [2] [3] 6
    let cl := client H G [1] [2] [3] srv.Bb 4
    verifyLegacy (setALegacy H srv cl.Ab) cl.M = none := by
  decide +kernel

/-- Byte-level agreement of the SRP exchange for the repaired `hsrp.Server`, for EVERY hash function,
    setup code, salt and secrets `a`, `b` (hence also when `A`, `B`, `S` or `H(S)` begin with zero bytes):
    the session computed from the reference client's `A` holds the client's `K`, `M` and `HAMK`. -/
theorem C08_srp_session_agrees (H : Bytes → Bytes) (G : Group) (I p s : Bytes) (a b : Nat) (hN : 0 < G.N) :
    let srv := Srp.mk H G I p s b
    let cl := client H G I p s srv.Bb a
    (mkSess H srv cl.Ab).Kb = cl.K ∧ (mkSess H srv cl.Ab).M = cl.M ∧ (mkSess H srv cl.Ab).HAMK = cl.HAMK := by
  intro srv cl
  obtain ⟨_, _, h1, h2, h3⟩ := sess_agree H G I p s a b hN
  exact ⟨h1, h2, h3⟩

/-- `verify(client M)` succeeds, returns the proof the controller expects and records success
    (group: `N > 1`, `g` coprime to `N`; see `C08_hap_group`). -/
theorem C08_srp_verify (H : Bytes → Bytes) (G : Group) (I p s : Bytes) (a b : Nat)
    (hN : 1 < G.N) (hg : Nat.Coprime G.g G.N) :
    let srv := Srp.mk H G I p s b
    let cl := client H G I p s srv.Bb a
    verify (setA H srv cl.Ab) cl.M = ({ setA H srv cl.Ab with verified := true }, some cl.HAMK) :=
  exchange_agree H G I p s a b hN hg

/-- The group the accessory really uses (regenerated from the source on every run) satisfies the
    hypotheses of the theorems: `N > 1` and `gcd(g, N) = 1`; the model's user name is the code's. -/
theorem C08_hap_group :
    1 < Gen.hapGroup.N ∧ Nat.Coprime Gen.hapGroup.g Gen.hapGroup.N ∧ Gen.hapUser = SRP_USER := by
  refine ⟨by decide +kernel, by decide +kernel, by decide +kernel⟩

/-- **Completeness of pair-setup** (repaired handler): for every hash, HKDF, AEAD with
    `dec (enc p) = p`, signature scheme in which the accessory's own signatures verify, every setup code
    (`ps0.pincode`), salt, accessory secret (`bRand`), controller secret `a`, controller identifier that
    parses as a UUID and controller key whose signature over `HKDF(K) ‖ id ‖ LTPK` verifies:
    the three requests of the reference controller are answered M2(salt, B), M4 carrying exactly the
    `HAMK` the controller expects, and M6 whose payload opens under the controller's key and is
    `TLV(mac, accessory LTPK, sig)` with `sig` a valid accessory signature over
    `HKDF(K) ‖ mac ‖ LTPK`; afterwards the controller is the one recorded pairing, admin, with exactly the
    key it presented. -/
theorem C08_complete (cfg : Cfg) (ps0 : PS) (salt bRand : Bytes) (a : Nat)
    (ident cltpk csig u s2 b2 s3 b3 : Bytes)
    (hp : ps0.paired = []) (hN : 1 < cfg.G.N) (hg : Nat.Coprime cfg.G.g cfg.G.N)
    (ok : CryptoOK cfg.c ps0.ltpk) (huuid : cfg.c.uuidOf ident = some u) :
    let srv := Srp.mk cfg.c.H cfg.G SRP_USER ps0.pincode salt (bytesToNat bRand)
    let cl := client cfg.c.H cfg.G SRP_USER ps0.pincode salt srv.Bb a
    let key := cfg.c.hkdf cl.K P3_SALT P3_INFO
    let sig := cfg.c.sign (cfg.c.hkdf cl.K P5_SALT P5_INFO ++ ps0.mac ++ ps0.ltpk)
    let reqs : List Req := [⟨ctrlM1, salt, bRand⟩, ⟨ctrlM3 cl.Ab cl.M, s2, b2⟩,
                            ⟨ctrlM5 cfg.c cl.K (ctrlSub ident cltpk csig), s3, b3⟩]
    cfg.c.sigVerify cltpk csig (cfg.c.hkdf cl.K P4_SALT P4_INFO ++ ident ++ cltpk) = some true →
    (run cfg ps0 reqs).2 = [.m2 salt srv.Bb, .m4 cl.HAMK, .m6 (cfg.c.aeadEnc key NONCE6 (accSub ps0 sig))] ∧
    cfg.c.aeadDec key NONCE6 (cfg.c.aeadEnc key NONCE6 (accSub ps0 sig)) = some (accSub ps0 sig) ∧
    cfg.c.sigVerify ps0.ltpk sig (cfg.c.hkdf cl.K P5_SALT P5_INFO ++ ps0.mac ++ ps0.ltpk) = some true ∧
    (run cfg ps0 reqs).1.paired = [(u, cltpk, PERM_ADMIN)] := by
  intro srv cl key sig reqs hsig
  obtain ⟨_, _, hK, _, _⟩ := sess_agree cfg.c.H cfg.G SRP_USER ps0.pincode salt a (bytesToNat bRand) (by omega)
  have hver := exchange_agree cfg.c.H cfg.G SRP_USER ps0.pincode salt a (bytesToNat bRand) hN hg
  -- M1
  have e1 := step_M1 cfg ps0 salt bRand hp
  -- M3
  let ps1 : PS := { ps0 with verifier := some srv }
  have e2 := step_M3 cfg ps1 srv cl.Ab cl.M s2 b2 hp rfl
  rw [show verify (setA cfg.c.H srv cl.Ab) cl.M = _ from hver] at e2
  -- M5
  let srv2 : Server := { setA cfg.c.H srv cl.Ab with verified := true }
  let ps2 : PS := { ps1 with verifier := some srv2 }
  have hK' : (mkSess cfg.c.H srv cl.Ab).Kb = cl.K := hK
  have e3 := step_M5 cfg ps2 srv2 (mkSess cfg.c.H srv cl.Ab) ident cltpk csig u s3 b3 hp rfl rfl rfl ok huuid
    (by rw [hK']; exact hsig)
  rw [hK'] at e3
  refine ⟨?_, ok.aead _ _ _, ok.accSig _, ?_⟩
  · simp only [reqs, run]
    rw [e1]; simp only []
    rw [e2]; simp only []
    rw [e3.2]
    rfl
  · simp only [reqs, run]
    rw [e1]; simp only []
    rw [e2]; simp only []
    rw [e3.1]

/-- **M6 is over the advertised identifier.**  In the setting of `C08_complete` the identifier sent in M6
    and covered by the accessory's signature is the identifier the accessory advertises
    (`advertisedId`, the `id` of its Bonjour TXT record): the M6 plaintext is
    `TLV(advertised id, accessory LTPK, sig)` and `sig` verifies over `HKDF(K) ‖ advertised id ‖ LTPK`. -/
theorem C08_m6_over_advertised_id (cfg : Cfg) (ps0 : PS) (K : Bytes) (ok : CryptoOK cfg.c ps0.ltpk) :
    let sig := cfg.c.sign (cfg.c.hkdf K P5_SALT P5_INFO ++ ps0.mac ++ ps0.ltpk)
    accSub ps0 sig = Tlv.encode [(T_USERNAME, advertisedId ps0), (T_PUBLIC_KEY, ps0.ltpk), (T_PROOF, sig)] ∧
    cfg.c.sigVerify ps0.ltpk sig (cfg.c.hkdf K P5_SALT P5_INFO ++ advertisedId ps0 ++ ps0.ltpk) = some true :=
  ⟨rfl, ok.accSig _⟩

/-- **Nothing that happened before matters.**  A served M1 always installs a fresh, unverified verifier
    built from this request's own randomness and the current setup code — whatever verifier was there
    (a failed attempt, an abandoned or even a verified exchange) or none.  (`C08_complete` is stated for an
    arbitrary unpaired `ps0`, i.e. for an arbitrary previous verifier.) -/
theorem C08_m1_fresh (cfg : Cfg) (ps : PS) (r : Req) (t : Items) (hp : ps.paired = [])
    (hd : Tlv.decode r.body [] = some t) (hs : lookup t T_SEQUENCE_NUM = some [1]) :
    (step cfg ps r).1.verifier
        = some (Srp.mk cfg.c.H cfg.G SRP_USER ps.pincode r.salt (bytesToNat r.bRand)) ∧
    verifiedNow (step cfg ps r).1 = false ∧
    (step cfg ps r).2.1
        = .m2 r.salt (Srp.mk cfg.c.H cfg.G SRP_USER ps.pincode r.salt (bytesToNat r.bRand)).Bb :=
  m1_fresh cfg ps r t hp hd hs

/-- No pair-setup request, served or refused, changes the setup code, the accessory identifier or its
    long-term key (so "the correct code" is the same before and after any history). -/
theorem C08_identity_stable (cfg : Cfg) (ps : PS) (r : Req) :
    (step cfg ps r).1.pincode = ps.pincode ∧ (step cfg ps r).1.mac = ps.mac ∧
    (step cfg ps r).1.ltpk = ps.ltpk :=
  step_identity cfg ps r

/-- **Bystanders are invisible.**  Connections being made and lost and other (refused) requests on other
    connections leave the pair-setup state unchanged: a history of events (in which the owner neither
    unpairs the accessory nor changes the setup code) behaves exactly like the sequence of its pair-setup requests. -/
theorem C08_bystanders_invisible (cfg : Cfg) (ps : PS) (evs : List Ev) (hu : ∀ e ∈ evs, e.isOwner = false) :
    runEv cfg ps evs = run cfg ps (reqsOf evs) :=
  runEv_eq_run cfg evs ps hu

/-- **Completeness under interleaving and after any history**: `C08_complete` for any event list whose
    pair-setup requests are exactly the controller's three (bystander connections coming and going and
    refused requests anywhere in between), started in ANY unpaired state `ps0` (any earlier failed,
    abandoned or completed-but-unrecorded exchange).  A bystander's own pair-setup request is excluded:
    any connection may replace the single SRP session with its M1 (DESIGN §9). -/
theorem C08_complete_interleaved (cfg : Cfg) (ps0 : PS) (salt bRand : Bytes) (a : Nat)
    (ident cltpk csig u s2 b2 s3 b3 : Bytes) (evs : List Ev) (hu : ∀ e ∈ evs, e.isOwner = false)
    (hp : ps0.paired = []) (hN : 1 < cfg.G.N) (hg : Nat.Coprime cfg.G.g cfg.G.N)
    (ok : CryptoOK cfg.c ps0.ltpk) (huuid : cfg.c.uuidOf ident = some u) :
    let srv := Srp.mk cfg.c.H cfg.G SRP_USER ps0.pincode salt (bytesToNat bRand)
    let cl := client cfg.c.H cfg.G SRP_USER ps0.pincode salt srv.Bb a
    let key := cfg.c.hkdf cl.K P3_SALT P3_INFO
    let sig := cfg.c.sign (cfg.c.hkdf cl.K P5_SALT P5_INFO ++ ps0.mac ++ ps0.ltpk)
    reqsOf evs = [⟨ctrlM1, salt, bRand⟩, ⟨ctrlM3 cl.Ab cl.M, s2, b2⟩,
                  ⟨ctrlM5 cfg.c cl.K (ctrlSub ident cltpk csig), s3, b3⟩] →
    cfg.c.sigVerify cltpk csig (cfg.c.hkdf cl.K P4_SALT P4_INFO ++ ident ++ cltpk) = some true →
    (runEv cfg ps0 evs).2 = [.m2 salt srv.Bb, .m4 cl.HAMK, .m6 (cfg.c.aeadEnc key NONCE6 (accSub ps0 sig))] ∧
    (runEv cfg ps0 evs).1.paired = [(u, cltpk, PERM_ADMIN)] := by
  intro srv cl key sig hevs hsig
  rw [runEv_eq_run cfg evs ps0 hu, hevs]
  have h := C08_complete cfg ps0 salt bRand a ident cltpk csig u s2 b2 s3 b3 hp hN hg ok huuid hsig
  exact ⟨h.1, h.2.2.2⟩

/-! ### non-vacuity: the hypotheses are satisfiable and the statement is about a non-trivial run -/

example : CryptoOK toyCrypto [7] := toyCrypto_ok

/-- a concrete complete run on a toy group, with a digest that starts with a zero byte -/
example :
    let cfg : Cfg := { G := { N := 23, g := 5, nLen := 8 }, c := toyCrypto }
    let ps0 : PS := { pincode := [2], mac := [9], ltpk := [7], paired := [], verifier := none }
    let srv := Srp.mk cfg.c.H cfg.G SRP_USER ps0.pincode [3] 6
    let cl := client cfg.c.H cfg.G SRP_USER ps0.pincode [3] srv.Bb 4
    let csig := [8] ++ (cfg.c.hkdf cl.K P4_SALT P4_INFO ++ [1] ++ [8])
    (run cfg ps0 [⟨ctrlM1, [3], [6]⟩, ⟨ctrlM3 cl.Ab cl.M, [], []⟩,
                  ⟨ctrlM5 cfg.c cl.K (ctrlSub [1] [8] csig), [], []⟩]).1.paired = [([1], [8], 1)] := by
  decide +kernel

end Hap.C08
