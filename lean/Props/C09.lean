/-
  C09 — Characteristic values always satisfy their declared constraints.
  Property theorems only; the model is HapModel/Char.lean (the code at HEAD = with the C09 repair),
  helper lemmas live in Proofs/Char.lean.

  Reading.  `conf cfg p v` is the demand of the property on a value `v` under the declared
  property set `p`: a string no longer than `maxLen` (64 when not declared), a boolean, an `int`
  within `[minValue, maxValue]` for integer formats, a number within the bounds for `float`, and
  one of the declared valid values unless the application opted in to invalid controller values;
  `null` is the specified value of the always-null type.  `confStrict` is the same without the
  opt-in exemption (demanded of application-side values), `confB` the same without the
  valid-values clause.  `consistent p` says that `p` admits conforming values at all (finite
  bounds with `min ≤ max`, integral for integer formats, valid values on numeric formats only and
  inside the bounds, `maxLen ≤ 256`, a numeric `minStep`).
  Alphabet: `set_value`, `client_update_value` (setter callback absent / returning / raising),
  `override_properties` (every key that matters, `Permissions` included), `Service.configure_char`,
  reads through `get_value()` / `to_HAP()` (getter callback absent / answering / raising).
  All theorems hold for every value of the two external parameters `E : Ext` (the float
  step-rounding expression and `str(float)`); `StepExnOk E` is the one assumption on them: on
  numeric operands the rounding expression raises nothing but `ValueError` / `OverflowError`.
  `L : Variant` with `L.sound` ranges over the code at HEAD (`repaired`) and HEAD with the
  candidate repair of `get_value` (`strict`).
-/
import Proofs.Char
namespace Hap.Char
open Gen

/-- Construction: every consistent property set yields a conforming initial value
    (`__init__` does not raise); it conforms strictly (a declared valid value). -/
theorem C09_init (E : Ext) (cfg : Cfg) (p : Props) (hc : consistent p = true) :
    ∃ st, init E cfg p = .ok st ∧ st.props = p ∧ conf cfg p st.value = true ∧
      confStrict cfg p st.value = true := by
  obtain ⟨st, h1, h2, h3⟩ := init_ok E cfg hc
  exact ⟨st, h1, h2, conf_of_strict h3, h3⟩

/-- The property set in force after an operation is `propsAfter`: a function of the set before
    and of the operation only — not of the stored value, the configuration, the variant of the
    code or the external parameters.  Hence `consistentAlong p ops` ("every property set along
    the history is consistent") is a condition on the *inputs* of a history. -/
theorem C09_props_static (E : Ext) (L : Variant) (cfg : Cfg) (st : St) (op : Op) :
    (step E L cfg st op).st.props = propsAfter st.props op :=
  step_props E L cfg st op

/-- **Invariant.**  From a conforming state, after any sequence of `set_value` /
    `client_update_value` (setter callback absent, returning or raising) / `override_properties` /
    `Service.configure_char` / read (`get_value()` or `to_HAP()`, getter callback absent, raising,
    or answering) operations with arbitrary arguments, every property set along the way being
    consistent and every getter answer being acceptable (`readsOkAlong`; no such condition for the
    variant that checks getter answers), the stored value conforms to the property set then in
    force, and every notified value and every setter-callback argument conformed to the property
    set in force when it was emitted. -/
theorem C09_inv (E : Ext) (hE : StepExnOk E) (L : Variant) (hL : L.sound = true) (cfg : Cfg) (st : St)
    (ops : List Op) (hall : consistentAlong st.props ops = true)
    (hr : L.getterChecks = true ∨ readsOkAlong E cfg st.props ops = true)
    (hg : conf cfg st.props st.value = true) :
    conf cfg (runSt E L cfg st ops).props (runSt E L cfg st ops).value = true ∧
    ∀ pe ∈ runLog E L cfg st ops, conf cfg pe.1 pe.2.val = true :=
  run_ok hE hL ops st hall hr hg

/-- **Invariant with arbitrary getter callbacks.**  Whatever the getter callbacks answer, the
    stored value always conforms in format, type, range and length (`confB`: everything but
    membership in the declared valid values), and every notified value and every setter-callback
    argument conforms fully. -/
theorem C09_inv_base (E : Ext) (hE : StepExnOk E) (L : Variant) (hL : L.sound = true) (cfg : Cfg) (st : St)
    (ops : List Op) (hall : consistentAlong st.props ops = true)
    (hg : confB cfg st.props st.value = true) :
    confB cfg (runSt E L cfg st ops).props (runSt E L cfg st ops).value = true ∧
    ∀ pe ∈ runLog E L cfg st ops, conf cfg pe.1 pe.2.val = true :=
  run_base hE hL ops st hall hg

/-- The invariant for the code at HEAD *with arbitrary getter answers and full conformance* —
    kept as a definition: it does not hold (`C09_getter_counterexample`).  `C09_inv` is the part
    that holds (acceptable answers), `C09_inv_base` what holds for arbitrary ones, and `C09_inv` at
    the variant `strict` shows that the candidate repair of `get_value` closes the gap. -/
def C09_statement_with_getters : Prop :=
  ∀ (E : Ext), StepExnOk E → ∀ (cfg : Cfg) (st : St) (ops : List Op),
    consistentAlong st.props ops = true → conf cfg st.props st.value = true →
    conf cfg (runSt E repaired cfg st ops).props (runSt E repaired cfg st ops).value = true

/-- **Every reachable state, every prefix, generated property sets.**  For every consistent
    property set and configuration: construction succeeds, and after *every prefix* of every
    history (conditions as in `C09_inv`) the stored value conforms; everything emitted conformed.
    (Shipped definitions whose properties are overridden along the way are instances: their
    declared sets are consistent by `C09_shipped_consistent`.) -/
theorem C09_generated (E : Ext) (hE : StepExnOk E) (L : Variant) (hL : L.sound = true) (cfg : Cfg)
    (p : Props) (ops : List Op) (hall : consistentAlong p ops = true)
    (hr : L.getterChecks = true ∨ readsOkAlong E cfg p ops = true) :
    ∃ st0, init E cfg p = .ok st0 ∧ st0.props = p ∧
      (∀ n, conf cfg (runSt E L cfg st0 (ops.take n)).props (runSt E L cfg st0 (ops.take n)).value = true) ∧
      ∀ pe ∈ runLog E L cfg st0 ops, conf cfg pe.1 pe.2.val = true := by
  obtain ⟨st0, h0, hp, hg⟩ := init_ok E cfg (consistentAlong_head hall)
  refine ⟨st0, h0, hp, ?_, ?_⟩
  · intro n
    refine (run_ok hE hL (ops.take n) st0 ?_ ?_ ?_).1
    · rw [hp]; exact consistentAlong_take ops p n hall
    · rcases hr with hr | hr
      · exact Or.inl hr
      · right; rw [hp]; exact readsOkAlong_take E cfg ops p n hr
    · rw [hp]; exact conf_of_strict hg
  · exact (run_ok hE hL ops st0 (by rw [hp]; exact hall) (by rw [hp]; exact hr)
      (by rw [hp]; exact conf_of_strict hg)).2

/-- The reported value: `to_HAP()['value']` is the stored value whenever it is present, and what
    a read returns (`get_value()`, or `to_HAP()` with a getter callback installed) is the value
    stored *after* that read — a state covered by the invariants, the read being an operation of
    the alphabet. -/
theorem C09_reported (E : Ext) (L : Variant) (cfg : Cfg) (st : St) (v : Val) :
    (reported st = some v → v = st.value) ∧
    (∀ g h, readResult E L cfg st g h = some v → (step E L cfg st (.read g h)).st.value = v) := by
  constructor
  · intro h
    unfold reported at h
    split at h
    · cases h; rfl
    · cases h
  · intro g h hr
    simp only [step]
    unfold readResult at hr
    unfold readOp
    split
    · simp_all
    · rename_i hh
      simp only [hh] at hr
      cases hx : (getValue E L cfg st g).exn with
      | some e => simp [hx] at hr
      | none => simpa [hx] using hr

/-- **Rejected writes.**  `set_value` raises exactly when its conversion-and-validation prefix
    refuses the value, and then the whole state is unchanged and nothing is emitted.
    `client_update_value`: when that prefix refuses the value the result is *exactly* the old
    state, the exception, no callback invocation and no event; the only other way it can raise is
    the application's own setter callback raising after having been invoked with the checked
    value.  (Any variant of the code, any parameters.) -/
theorem C09_reject_write (E : Ext) (L : Variant) (cfg : Cfg) (st : St) (v : Val) (n : Bool) (cb : Cb) (e : Exn) :
    ((setValue E L cfg st v n).exn = some e ↔ setCheck E L cfg st.props v = .error e) ∧
    ((setValue E L cfg st v n).exn = some e →
      (setValue E L cfg st v n).st = st ∧ (setValue E L cfg st v n).out = []) ∧
    (clientCheck E L cfg st.props v = .error e → clientUpdate E L cfg st v cb = ⟨st, some e, []⟩) ∧
    ((clientUpdate E L cfg st v cb).exn = some e ↔
      clientCheck E L cfg st.props v = .error e ∨
      (∃ v', clientCheck E L cfg st.props v = .ok v' ∧ cb = .raises e ∧
        (clientUpdate E L cfg st v cb).out = [.callback v'])) :=
  ⟨setValue_exn E L cfg st v n e, setValue_reject, clientUpdate_rejected, clientUpdate_exn E L cfg st v cb e⟩

/-- **Rejected operations, overrides and reads included.**  Any `set_value` /
    `client_update_value` (callback not raising) / `override_properties` / read that raises leaves
    the stored value *and* the property set unchanged and emits nothing (an override can only be
    refused before anything is modified). -/
theorem C09_reject (E : Ext) (hE : StepExnOk E) (L : Variant) (hL : L.sound = true) (cfg : Cfg) (st : St)
    (op : Op) (e : Exn) (hop : plainOp op = true)
    (hc' : consistent (propsAfter st.props op) = true)
    (h : (step E L cfg st op).exn = some e) :
    (step E L cfg st op).st = st ∧ (step E L cfg st op).out = [] :=
  step_reject hE hL op hop hc' h

/-- **`configure_char`.**  It never emits; when it raises, the state is the one its override
    part left (untouched if that part was refused or absent, otherwise new properties with the
    re-validated value: the rejected `set_value` changed nothing) — and by `C09_inv` that state
    conforms. -/
theorem C09_configure (E : Ext) (L : Variant) (cfg : Cfg) (st : St) (u : Upd) (vv : List Int) (v : Val) :
    (configure E L cfg st u vv v).out = [] ∧
    ∀ e, (configure E L cfg st u vv v).exn = some e →
      (configure E L cfg st u vv v).st = (configurePre E L cfg st u vv).st :=
  ⟨configure_out E L cfg st u vv v, fun _ h => configure_reject_state h⟩

/-- An override never emits, and neither does a read. -/
theorem C09_override_silent (E : Ext) (L : Variant) (cfg : Cfg) (st : St) (u : Upd) (vv : List Int)
    (g : Getter) (h : Bool) :
    (override E L cfg st u vv).out = [] ∧ (readOp E L cfg st g h).out = [] :=
  ⟨override_out E L cfg st u vv, readOp_out E L cfg st g h⟩

/-- **The opt-in exempts controller writes only.**  Whatever `allow_invalid_client_values` is, a
    successful `set_value` stores and notifies, and an accepted `override_properties` leaves, a
    value that conforms *strictly* (a declared valid value).  Only `client_update_value` (and an
    unchecked getter answer) can bring in an undeclared value. -/
theorem C09_optin_controller_only (E : Ext) (hE : StepExnOk E) (L : Variant) (hL : L.sound = true)
    (cfg : Cfg) (st : St) :
    (∀ v n, consistent st.props = true → (setValue E L cfg st v n).exn = none →
      confStrict cfg st.props (setValue E L cfg st v n).st.value = true ∧
      ∀ e ∈ (setValue E L cfg st v n).out, confStrict cfg st.props e.val = true) ∧
    (∀ u vv, consistent (overrideProps st.props u vv) = true → overrideRefused u vv = false →
      (override E L cfg st u vv).exn = none ∧
      confStrict cfg (override E L cfg st u vv).st.props (override E L cfg st u vv).st.value = true) := by
  have hN : L.nullSkipsAll = false := by
    simp only [Variant.sound, Bool.and_eq_true, Bool.not_eq_true'] at hL; exact hL.1
  refine ⟨fun v n hc hok => setValue_strict hN hc v n hok, ?_⟩
  intro u vv hc' hr
  obtain ⟨h1, _, h3, h4⟩ := override_accepted hE hL (cfg := cfg) (st := st) u vv hr hc'
  exact ⟨h1, by rw [h3]; exact h4⟩

/-- **What is emitted is what was assigned.**  When the checks of a write pass with `v'`, every
    event of that write carries `v'`, and `v'` is what the write stores (the always-null type goes
    back to `null`): stored, notified and callback values cannot drift apart. -/
theorem C09_emitted_is_assigned (E : Ext) (L : Variant) (cfg : Cfg) (st : St) (v v' : Val) (n : Bool) (cb : Cb) :
    (setCheck E L cfg st.props v = .ok v' →
      (∀ e ∈ (setValue E L cfg st v n).out, e = .notify v') ∧
      (setValue E L cfg st v n).st.value = (if cfg.alwaysNull then .null else v')) ∧
    (clientCheck E L cfg st.props v = .ok v' →
      (∀ e ∈ (clientUpdate E L cfg st v cb).out, e.val = v') ∧
      ((clientUpdate E L cfg st v cb).st.value = v' ∨
        (cfg.alwaysNull = true ∧ (clientUpdate E L cfg st v cb).st.value = .null))) :=
  ⟨setValue_emits_assigned, clientUpdate_emits_assigned⟩

/-- The always-null type: the stored (and therefore reported) value is `null` after every
    operation, whatever its outcome — except right after a controller write whose setter callback
    raised (the reset is skipped) or a getter answer (it is stored); those two are excluded by
    `resetsNull`. -/
theorem C09_always_null_stored (E : Ext) (L : Variant) (cfg : Cfg) (ha : cfg.alwaysNull = true)
    (ops : List Op) (hq : ops.all resetsNull = true) :
    ∀ st : St, st.value = .null → (runSt E L cfg st ops).value = .null := by
  induction ops with
  | nil => intro st h; exact h
  | cons op ops ih =>
    intro st h
    simp only [List.all_cons, Bool.and_eq_true] at hq
    exact ih hq.2 _ (step_alwaysNull ha h op hq.1)

/-- Table theorem: every row of the regenerated `Gen.shipped` is a consistent property set. -/
theorem C09_shipped_consistent : ∀ d ∈ shipped, consistent d.props = true := by
  have h := shipped_all_consistent
  simpa [List.all_eq_true] using h

/-- Table theorem: the model's numeric / integer format classes are the regenerated
    `HAP_FORMAT_NUMERICS` (integer = numeric and not `float`). -/
theorem C09_format_table : ∀ f : Fmt,
    f.isNumeric = numericFormats.contains f ∧ f.isInteger = (numericFormats.contains f && f != .float) := by
  intro f; cases f <;> decide

/-- **Shipped definitions.**  For every definition in characteristics.json, every
    configuration, and every sequence of writes and reads with arbitrary arguments and arbitrary
    setter-callback behaviour (the declared property set staying in force, getter answers
    acceptable): construction succeeds, the stored value conforms after every prefix and
    everything notified or passed to the setter callback conformed. -/
theorem C09_shipped (E : Ext) (hE : StepExnOk E) (L : Variant) (hL : L.sound = true) (d : Def)
    (hd : d ∈ shipped) (allowInvalid : Bool) (ops : List Op) (hno : noOverride ops = true) :
    let cfg : Cfg := { alwaysNull := d.alwaysNull, allowInvalid := allowInvalid }
    (L.getterChecks = true ∨ readsOkAlong E cfg d.props ops = true) →
    ∃ st0, init E cfg d.props = .ok st0 ∧
      (∀ n, conf cfg (runSt E L cfg st0 (ops.take n)).props (runSt E L cfg st0 (ops.take n)).value = true) ∧
      ∀ pe ∈ runLog E L cfg st0 ops, conf cfg pe.1 pe.2.val = true := by
  intro cfg hr
  have hc := C09_shipped_consistent d hd
  obtain ⟨st0, h0, _, h1, h2⟩ :=
    C09_generated E hE L hL cfg d.props ops (consistentAlong_of_noOverride ops d.props hno hc) hr
  exact ⟨st0, h0, h1, h2⟩

/-! ### getter callbacks at HEAD -/

/-- With a getter callback installed, `get_value` at HEAD stores and returns `to_valid_value` of
    the answer without the valid-values check: on TargetHeatingCoolingState (uint8, ValidValues
    {3, 2, 1, 0}) the answer 7 is stored and reported although it is not a declared valid value
    (it does conform in format and range).  With the candidate repair the read raises and nothing
    changes.  Replayed on the implementation. -/
theorem C09_getter_counterexample (E : Ext) :
    let p : Props := { fmt := .uint8, vv := [3, 2, 1, 0] }
    let st : St := ⟨p, .int 0⟩
    conf {} p st.value = true ∧ consistent p = true ∧
    (step E repaired {} st (.read (.returns (.int 7)) false)).st.value = .int 7 ∧
    readResult E repaired {} st (.returns (.int 7)) true = some (.int 7) ∧
    conf {} p (.int 7) = false ∧ confB {} p (.int 7) = true ∧
    (step E strict {} st (.read (.returns (.int 7)) false)).exn = some .valueError ∧
    (step E strict {} st (.read (.returns (.int 7)) false)).st = st := by
  refine ⟨by decide, by decide, rfl, rfl, by decide, by decide, rfl, rfl⟩

/-- hence the invariant with arbitrary getter answers and full conformance fails at HEAD -/
theorem C09_statement_with_getters_fails : ¬ C09_statement_with_getters := by
  intro h
  have hE : StepExnOk ⟨fun _ _ => .error .valueError, fun _ => []⟩ := by
    intro v s e _ _ he; simp at he; exact Or.inl he.symm
  have := h _ hE {} ⟨{ fmt := .uint8, vv := [3, 2, 1, 0] }, .int 0⟩ [.read (.returns (.int 7)) false]
    (by decide) (by decide)
  revert this
  decide

/-! ### the code before the repair -/

/-- Legacy defect 1 (always-null type): with the early return in `valid_value_or_raise` for
    every value, `set_value(119)` on ProgrammableSwitchEvent (uint8, ValidValues {1, 2, 0})
    notifies 119, which is not a declared valid value.  Replayed on the implementation. -/
theorem C09_legacy_counterexample (E : Ext) :
    let cfg : Cfg := { alwaysNull := true }
    let p : Props := { fmt := .uint8, vv := [1, 2, 0] }
    (setValue E legacy cfg ⟨p, .null⟩ (.int 119) true).out = [.notify (.int 119)] ∧
    conf cfg p (.int 119) = false ∧
    (setValue E repaired cfg ⟨p, .null⟩ (.int 119) true).exn = some .valueError := by
  exact ⟨rfl, by decide, rfl⟩

/-- a step-rounding oracle that overflows (as Python does for `1e308 / 0.001`) -/
def overflowing : Ext := { stepRound := fun _ _ => .error .overflowError, reprF := fun _ => [] }

/-- Legacy defect 2 (override): `override_properties` caught `ValueError` only.  With a stored
    value on which re-validation overflows, the exception escaped *after* the properties had
    been replaced: the stored value stays outside the newly declared maximum.  (Identifier:
    uint32, minValue 0, minStep 1; stored 10^308; override maxValue 5, minStep 0.001.) -/
theorem C09_legacy_override_counterexample :
    let p : Props := { fmt := .uint32, minV := some (.int 0), minStep := some (.int 1) }
    let u : Upd := { maxV := some (.int 5), minStep := some (.float (.fin (mkRat 1 1000))) }
    let st : St := ⟨p, .int (10 ^ 308)⟩
    let r := override overflowing legacy {} st u []
    conf {} p st.value = true ∧ consistent r.st.props = true ∧
    r.exn = some .overflowError ∧ r.st.value = st.value ∧ conf {} r.st.props r.st.value = false ∧
    (override overflowing repaired {} st u []).st.value = .int 0 := by
  decide +kernel

/-! ### non-vacuity: a concrete parameter instance and concrete histories -/

/-- a simple total instance of the external parameters -/
def idExt : Ext :=
  { stepRound := fun v _ => match v with
      | .int i => .ok (.int i)
      | .float x => .ok (.float x)
      | _ => .error .valueError
    reprF := fun _ => ['?'] }

example : StepExnOk idExt := by
  intro v s e _ _ h
  cases v <;> simp [idExt] at h <;> simp [h]

example : StepExnOk overflowing := by
  intro v s e _ _ h; simp [overflowing] at h; simp [h]

/-- an instance that behaves like Python on a non-numeric step: `TypeError` — allowed by
    `StepExnOk`, which only speaks about numeric operands -/
def typeErrExt : Ext :=
  { stepRound := fun v s => if v.isNumeric && s.isNumeric then .error .overflowError else .error .typeError
    reprF := fun _ => [] }

example : StepExnOk typeErrExt := by
  intro v s e hv hs h; simp [typeErrExt, hv, hs] at h; exact Or.inr h.symm

example : repaired.sound = true ∧ strict.sound = true ∧ legacy.sound = false := by decide

/-- Brightness-like set: int in [0, 100], step 1 -/
def demoProps : Props := { fmt := .int, minV := some (.int 0), maxV := some (.int 100), minStep := some (.int 1) }

example : consistent demoProps = true := by decide
example : consistent { demoProps with minStep := some (.str ['x']) } = false := by decide
example : (init idExt {} demoProps).toOption = some ⟨demoProps, .int 0⟩ := by decide
-- clamping, a refused string, a raising setter callback, a getter answer, and an override that
-- invalidates the stored value
example :
    let ops := [Op.set (.int 150) true, Op.client (.str ['a']) .returns,
                Op.client (.float (.fin (mkRat 5 2))) .returns,
                Op.client (.int 7) (.raises .other), Op.read (.returns (.int 400)) true,
                Op.override { maxV := some (.int 1) } []]
    consistentAlong demoProps ops = true ∧ readsOkAlong idExt {} demoProps ops = true ∧
    runSt idExt repaired {} ⟨demoProps, .int 0⟩ ops = ⟨{ demoProps with maxV := some (.int 1) }, .int 1⟩ ∧
    (runLog idExt repaired {} ⟨demoProps, .int 0⟩ ops).map (·.2) =
      [.notify (.int 100), .callback (.int 2), .notify (.int 2), .callback (.int 7)] ∧
    runSt idExt repaired {} ⟨demoProps, .int 0⟩ (ops.take 5) = ⟨demoProps, .int 100⟩ := by
  decide +kernel
example : (step idExt repaired {} ⟨demoProps, .int 7⟩ (.client (.str ['a']) .returns)).exn = some .valueError ∧
    plainOp (.client (.str ['a']) .returns) = true := by
  decide
-- a read whose getter answer is refused (not a number) raises and changes nothing
example : (step idExt repaired {} ⟨demoProps, .int 7⟩ (.read (.returns (.str ['a'])) false)).exn = some .valueError ∧
    (step idExt repaired {} ⟨demoProps, .int 7⟩ (.read (.returns (.str ['a'])) false)).st = ⟨demoProps, .int 7⟩ := by
  decide
-- an unacceptable getter answer: `readsOkAlong` is false, the stored value is still in range
example :
    let p : Props := { fmt := .uint8, vv := [3, 2, 1, 0] }
    let ops := [Op.read (.returns (.int 7)) false, Op.set (.int 9) true, Op.set (.int 2) true]
    readsOkAlong idExt {} p ops = false ∧ consistentAlong p ops = true ∧
    (runSt idExt repaired {} ⟨p, .int 0⟩ (ops.take 2)).value = .int 7 ∧
    (runSt idExt repaired {} ⟨p, .int 0⟩ ops).value = .int 2 ∧
    (runSt idExt strict {} ⟨p, .int 0⟩ (ops.take 2)).value = .int 0 := by
  decide +kernel
-- the opt-in: a controller may write an undeclared value, the application may not
example :
    let cfg : Cfg := { allowInvalid := true }
    let p : Props := { fmt := .uint8, vv := [1, 0] }
    (step idExt repaired cfg ⟨p, .int 0⟩ (.client (.int 3) .absent)).st.value = .int 3 ∧
    conf cfg p (.int 3) = true ∧ confStrict cfg p (.int 3) = false ∧
    (step idExt repaired cfg ⟨p, .int 3⟩ (.set (.int 3) true)).exn = some .valueError ∧
    (step idExt repaired cfg ⟨p, .int 3⟩ (.override { other := true } [])).st.value = .int 0 := by
  decide +kernel
-- the always-null type with a raising setter callback keeps the written value (the reset is
-- skipped); it is a declared valid value.  Replayed on the implementation.
example :
    let cfg : Cfg := { alwaysNull := true }
    let p : Props := { fmt := .uint8, vv := [1, 2, 0] }
    (step idExt repaired cfg ⟨p, .null⟩ (.client (.int 1) (.raises .other))).st.value = .int 1 ∧
    conf cfg p (.int 1) = true ∧ resetsNull (.client (.int 1) (.raises .other)) = false ∧
    (step idExt repaired cfg ⟨p, .null⟩ (.client (.int 1) .returns)).st.value = .null := by
  decide +kernel
-- an override of `Permissions` that drops `pr`: the value is no longer reported
example :
    let r := step idExt repaired {} ⟨demoProps, .int 5⟩ (.override { readable := some false } [])
    r.exn = none ∧ reported r.st = none ∧ reported ⟨demoProps, .int 5⟩ = some (.int 5) ∧
    readResult idExt repaired {} r.st (.returns (.int 9)) true = none ∧
    readResult idExt repaired {} r.st (.returns (.int 9)) false = some (.int 9) := by
  decide +kernel
-- configure_char(properties={min 10, max 60}, value=0) on a stored 80: the falsy value is not
-- set, the override part has already brought 80 down to 60
example :
    let r := step idExt repaired {} ⟨demoProps, .int 80⟩
      (.configure { minV := some (.int 10), maxV := some (.int 60) } [] (.int 0))
    r.exn = none ∧ r.st.value = .int 60 ∧ consistent r.st.props = true := by
  decide +kernel
-- configure_char(valid_values={1,2}, value=7): set_value raises after the override part
example :
    let r := step idExt repaired {} ⟨{ fmt := .uint8, vv := [0, 1, 3] }, .int 0⟩ (.configure {} [1, 2] (.int 7))
    r.exn = some .valueError ∧ r.st = ⟨{ fmt := .uint8, vv := [1, 2] }, .int 1⟩ := by
  decide +kernel
example : conf {} demoProps (.int 101) = false ∧ conf {} demoProps (.float (.fin 5)) = false ∧
    conf {} demoProps (.int 100) = true := by decide
-- a shipped row, so that `C09_shipped` is not about an empty table
example : (shipped.find? (fun d => d.name == "Brightness")).map (·.props) = some demoProps := by
  decide +kernel

end Hap.Char
