/-
  C09 — Characteristic values always satisfy their declared constraints.
  Property theorems only; the model is HapModel/Char.lean (with the C09 repair), helper lemmas
  live in Proofs/Char.lean.

  Reading.  `conf cfg p v` is the demand of the property on a value `v` under the declared
  property set `p`: a string no longer than `maxLen` (64 when not declared), a boolean, an `int`
  within `[minValue, maxValue]` for integer formats, a number within the bounds for `float`, and
  one of the declared valid values unless the application opted in to invalid controller values;
  `null` is the specified value of the always-null type.  `consistent p` says that `p` admits
  conforming values at all (finite bounds with `min ≤ max`, integral for integer formats, valid
  values on numeric formats only and inside the bounds, `maxLen ≤ 256`).
  All theorems hold for every value of the two external parameters `E : Ext` (the float
  step-rounding expression and `str(float)`); `StepExnOk E` is the one assumption on them: the
  rounding expression raises nothing but `ValueError` / `OverflowError`.
-/
import Proofs.Char
namespace Hap.Char
open Gen

/-- Construction: every consistent property set yields a conforming initial value
    (`__init__` does not raise). -/
theorem C09_init (E : Ext) (cfg : Cfg) (p : Props) (hc : consistent p = true) :
    ∃ st, init E cfg p = .ok st ∧ st.props = p ∧ conf cfg p st.value = true :=
  init_ok E cfg hc

/-- **Invariant.**  From a conforming state, after any sequence of `set_value` /
    `client_update_value` / `override_properties` / `Service.configure_char` operations (each
    on its own instance: instances share nothing) with arbitrary arguments (every
    property set along the way being consistent), the stored value conforms to the property set
    then in force, and every notified value and every setter-callback argument conformed to the
    property set in force when it was emitted. -/
theorem C09_inv (E : Ext) (hE : StepExnOk E) (cfg : Cfg) (st : St) (ops : List Op)
    (hall : AllConsistent E repaired cfg st ops) (hg : conf cfg st.props st.value = true) :
    conf cfg (runSt E repaired cfg st ops).props (runSt E repaired cfg st ops).value = true ∧
    ∀ pe ∈ runLog E repaired cfg st ops, conf cfg pe.1 pe.2.val = true :=
  run_ok hE ops st hall hg

/-- The reported value (`to_HAP()['value']`) is the stored one whenever it is present, so it
    conforms as well. -/
theorem C09_reported (cfg : Cfg) (st : St) (v : Val) (h : reported st = some v)
    (hg : conf cfg st.props st.value = true) : conf cfg st.props v = true := by
  unfold reported at h
  split at h
  · cases h; exact hg
  · cases h

/-- **Rejected writes.**  A `set_value` / `client_update_value` that raises (whatever the
    exception, whatever the variant of the code and the parameters) leaves the whole state
    unchanged and emits neither a callback nor a notification. -/
theorem C09_reject_write (E : Ext) (L : Variant) (cfg : Cfg) (st : St) (v : Val) (n : Bool) (e : Exn) :
    ((setValue E L cfg st v n).exn = some e →
      (setValue E L cfg st v n).st = st ∧ (setValue E L cfg st v n).out = []) ∧
    ((clientUpdate E L cfg st v).exn = some e →
      (clientUpdate E L cfg st v).st = st ∧ (clientUpdate E L cfg st v).out = []) :=
  ⟨setValue_reject, clientUpdate_reject⟩

/-- **Rejected operations, overrides included.**  Any `set_value` / `client_update_value` /
    `override_properties` that raises leaves the stored value *and* the property set unchanged
    and emits nothing (for an override: it can only be refused before anything is modified). -/
theorem C09_reject (E : Ext) (hE : StepExnOk E) (cfg : Cfg) (st : St) (op : Op) (e : Exn)
    (hop : ∀ u vv v, op ≠ .configure u vv v)
    (hc' : consistent (step E repaired cfg st op).st.props = true)
    (h : (step E repaired cfg st op).exn = some e) :
    (step E repaired cfg st op).st = st ∧ (step E repaired cfg st op).out = [] :=
  step_reject hE op hop hc' h

/-- **`configure_char`.**  It never emits; when it raises, the state is the one its override
    part left (untouched if that part was refused or absent, otherwise new properties with the
    re-validated value: the rejected `set_value` changed nothing) — and by `C09_inv` that state
    conforms. -/
theorem C09_configure (E : Ext) (L : Variant) (cfg : Cfg) (st : St) (u : Upd) (vv : List Int) (v : Val) :
    (configure E L cfg st u vv v).out = [] ∧
    ∀ e, (configure E L cfg st u vv v).exn = some e →
      (configure E L cfg st u vv v).st = (configurePre E L cfg st u vv).st :=
  ⟨configure_out E L cfg st u vv v, fun _ h => configure_reject_state h⟩

/-- Every operation emits only while it succeeds, and an override never emits. -/
theorem C09_override_silent (E : Ext) (L : Variant) (cfg : Cfg) (st : St) (u : Upd) (vv : List Int) :
    (override E L cfg st u vv).out = [] :=
  override_out E L cfg st u vv

/-- The always-null type: the stored (and therefore reported) value is `null` after every
    operation, whatever its outcome. -/
theorem C09_always_null_stored (E : Ext) (L : Variant) (cfg : Cfg) (ha : cfg.alwaysNull = true)
    (ops : List Op) : ∀ st : St, st.value = .null → (runSt E L cfg st ops).value = .null := by
  induction ops with
  | nil => intro st h; exact h
  | cons op ops ih => intro st h; exact ih _ (step_alwaysNull ha h op)

/-- Table theorem: every row of the regenerated `Gen.shipped` is a consistent property set. -/
theorem C09_shipped_consistent : ∀ d ∈ shipped, consistent d.props = true := by
  have h := shipped_all_consistent
  simpa [List.all_eq_true] using h

/-- **Shipped definitions.**  For every definition in characteristics.json, every
    configuration, and every sequence of writes with arbitrary arguments (the declared property
    set staying in force), construction succeeds, the stored value conforms at the end (hence
    after every prefix) and everything notified or passed to the setter callback conformed. -/
theorem C09_shipped (E : Ext) (hE : StepExnOk E) (d : Def) (hd : d ∈ shipped)
    (allowInvalid hasSetter : Bool) (ops : List Op) (hno : noOverride ops = true) :
    let cfg : Cfg := { alwaysNull := d.alwaysNull, allowInvalid := allowInvalid, hasSetter := hasSetter }
    ∃ st0, init E cfg d.props = .ok st0 ∧
      conf cfg (runSt E repaired cfg st0 ops).props (runSt E repaired cfg st0 ops).value = true ∧
      ∀ pe ∈ runLog E repaired cfg st0 ops, conf cfg pe.1 pe.2.val = true := by
  intro cfg
  have hc := C09_shipped_consistent d hd
  obtain ⟨st0, h0, hp, hg⟩ := init_ok E cfg hc
  refine ⟨st0, h0, ?_⟩
  have hc0 : consistent st0.props = true := by rw [hp]; exact hc
  exact run_ok hE ops st0 (allConsistent_of_noOverride E repaired cfg ops st0 hno hc0) (by rw [hp]; exact hg)

/-- Shipped definitions with overrides: the same for histories that also override properties,
    as long as every overridden set is consistent. -/
theorem C09_shipped_override (E : Ext) (hE : StepExnOk E) (d : Def) (hd : d ∈ shipped)
    (allowInvalid hasSetter : Bool) (ops : List Op) :
    let cfg : Cfg := { alwaysNull := d.alwaysNull, allowInvalid := allowInvalid, hasSetter := hasSetter }
    ∃ st0, init E cfg d.props = .ok st0 ∧
      (AllConsistent E repaired cfg st0 ops →
        conf cfg (runSt E repaired cfg st0 ops).props (runSt E repaired cfg st0 ops).value = true ∧
        ∀ pe ∈ runLog E repaired cfg st0 ops, conf cfg pe.1 pe.2.val = true) := by
  intro cfg
  obtain ⟨st0, h0, hp, hg⟩ := init_ok E cfg (C09_shipped_consistent d hd)
  exact ⟨st0, h0, fun hall => run_ok hE ops st0 hall (by rw [hp]; exact hg)⟩

/-! ### the code before the repair -/

/-- Legacy defect 1 (always-null type): with the early return in `valid_value_or_raise` for
    every value, `set_value(119)` on ProgrammableSwitchEvent (uint8, ValidValues {1, 2, 0})
    notifies 119, which is not a declared valid value.  Replayed on the implementation. -/
theorem C09_legacy_counterexample (E : Ext) :
    let cfg : Cfg := { alwaysNull := true }
    let p : Props := { fmt := .uint8, vv := [1, 2, 0] }
    (setValue E legacy cfg ⟨p, .null⟩ (.int 119) true).out = [.notify (.int 119)] ∧
    conf cfg p (.int 119) = false ∧
    (setValue E repaired cfg ⟨p, .null⟩ (.int 119) true).exn = some .valueError := by
  exact ⟨rfl, by decide, rfl⟩

/-- a step-rounding oracle that overflows (as Python does for `1e308 / 0.001`) -/
def overflowing : Ext := { stepRound := fun _ _ => .error .overflowError, reprF := fun _ => [] }

/-- Legacy defect 2 (override): `override_properties` caught `ValueError` only.  With a stored
    value on which re-validation overflows, the exception escaped *after* the properties had
    been replaced: the stored value stays outside the newly declared maximum.  (Identifier:
    uint32, minValue 0, minStep 1; stored 10^308; override maxValue 5, minStep 0.001.) -/
theorem C09_legacy_override_counterexample :
    let p : Props := { fmt := .uint32, minV := some (.int 0), minStep := some (.int 1) }
    let u : Upd := { maxV := some (.int 5), minStep := some (.float (.fin (mkRat 1 1000))) }
    let st : St := ⟨p, .int (10 ^ 308)⟩
    let r := override overflowing legacy {} st u []
    conf {} p st.value = true ∧ consistent r.st.props = true ∧
    r.exn = some .overflowError ∧ r.st.value = st.value ∧ conf {} r.st.props r.st.value = false ∧
    (override overflowing repaired {} st u []).st.value = .int 0 := by
  decide +kernel

/-! ### non-vacuity: a concrete parameter instance and concrete histories -/

/-- a simple total instance of the external parameters -/
def idExt : Ext :=
  { stepRound := fun v _ => match v with
      | .int i => .ok (.int i)
      | .float x => .ok (.float x)
      | _ => .error .valueError
    reprF := fun _ => ['?'] }

example : StepExnOk idExt := by
  intro v s e h
  cases v <;> simp [idExt] at h <;> simp [h]

example : StepExnOk overflowing := by
  intro v s e h; simp [overflowing] at h; simp [h]

/-- Brightness-like set: int in [0, 100], step 1 -/
def demoProps : Props := { fmt := .int, minV := some (.int 0), maxV := some (.int 100), minStep := some (.int 1) }

example : consistent demoProps = true := by decide
example : (init idExt {} demoProps).toOption = some ⟨demoProps, .int 0⟩ := by decide
-- clamping, a refused string, and an override that invalidates the stored value
example :
    let ops := [Op.set (.int 150) true, Op.client (.str ['a']), Op.client (.float (.fin (mkRat 5 2))),
                Op.override { maxV := some (.int 1) } []]
    AllConsistent idExt repaired {} ⟨demoProps, .int 0⟩ ops ∧
    runSt idExt repaired {} ⟨demoProps, .int 0⟩ ops = ⟨{ demoProps with maxV := some (.int 1) }, .int 1⟩ ∧
    (runLog idExt repaired {} ⟨demoProps, .int 0⟩ ops).map (·.2) =
      [.notify (.int 100), .callback (.int 2), .notify (.int 2)] := by
  decide +kernel
example : (step idExt repaired {} ⟨demoProps, .int 7⟩ (.client (.str ['a']))).exn = some .valueError := by
  decide
-- configure_char(properties={min 10, max 60}, value=0) on a stored 80: the falsy value is not
-- set, the override part has already brought 80 down to 60
example :
    let r := step idExt repaired {} ⟨demoProps, .int 80⟩
      (.configure { minV := some (.int 10), maxV := some (.int 60) } [] (.int 0))
    r.exn = none ∧ r.st.value = .int 60 ∧ consistent r.st.props = true := by
  decide +kernel
-- configure_char(valid_values={1,2}, value=7): set_value raises after the override part
example :
    let r := step idExt repaired {} ⟨{ fmt := .uint8, vv := [0, 1, 3] }, .int 0⟩ (.configure {} [1, 2] (.int 7))
    r.exn = some .valueError ∧ r.st = ⟨{ fmt := .uint8, vv := [1, 2] }, .int 1⟩ := by
  decide +kernel
example : conf {} demoProps (.int 101) = false ∧ conf {} demoProps (.float (.fin 5)) = false ∧
    conf {} demoProps (.int 100) = true := by decide

end Hap.Char
