/-
  C10 — Writes do what their status says; timed writes need a live prepare.
  Property theorems only; the model is HapModel/Writes.lean (the repaired `set_characteristics`),
  helper lemmas live in Proofs/Writes.lean.

  Notation: `setChars true T B expired vals qs` is one `set_characteristics` request after the pid
  block (`expired = false`: an untimed write or a timed write with a live prepare); `T` is the
  attribute database, `B` the outcome of service / accessory callbacks, every `Query` carries the
  behaviour of its characteristic (`valid` = normalisation, `cb` = its setter callback).
  `charCalls / svcCalls / accCalls` read the callback log of the request.
-/
import Proofs.Writes
namespace Hap.Writes

/-- **Success means done.** In an executed request over distinct characteristics, an entry answered
    with status 0 was validated (`valid = some n`), the normalised value `n` is the stored value after
    the request, its own callback (if any) ran exactly once, with `n`, and did not raise, and the
    callbacks of its service and of its accessory (if any) each ran exactly once in this request,
    did not raise, and were handed this characteristic with the written value `v`. -/
theorem C10_status (T : Topo) (B : Behav) (vals : CharId → Val) (qs : List Query) (hd : Distinct qs)
    (q : Query) (hq : q ∈ qs) (r : Res)
    (hr : (q.id, r) ∈ (setChars true T B false vals qs).chars) (h0 : r.status = OK) :
    ∃ v n, q.hasValue = true ∧ q.value = some v ∧ q.valid = some n ∧
      (setChars true T B false vals qs).vals q.id = n ∧
      q.cb ≠ CharCb.raises ∧
      charCalls (setChars true T B false vals qs).log q.id = (if q.cb = CharCb.absent then [] else [n]) ∧
      (T.svcCb q.id.aid (T.svc q.id) = true →
        B.svcRaises q.id.aid (T.svc q.id) = false ∧
        ∃ args, svcCalls (setChars true T B false vals qs).log q.id.aid (T.svc q.id) = [args] ∧
          (q.id, some v) ∈ args) ∧
      (T.accCb q.id.aid = true →
        B.accRaises q.id.aid = false ∧
        ∃ args g, accCalls (setChars true T B false vals qs).log q.id.aid = [args] ∧
          (T.svc q.id, g) ∈ args ∧ (q.id, some v) ∈ g) := by
  obtain ⟨q', hq', ha', hx⟩ := (mem_chars true T B false vals qs (q.id, r)).1 hr
  have hid : q'.id = q.id := (congrArg Prod.fst hx).symm
  have hqq : q' = q := distinct_inj hd hq hq' hid
  subst hqq
  have hres : r = entryRes true false T B q' := congrArg Prod.snd hx
  -- the status
  have hst : ov (override T B q'.id) (res0 true false q').status = 0 := by
    have := h0; rw [hres] at this; simpa [entryRes, OK] using this
  obtain ⟨hs0, hov⟩ := ov_eq_zero hst
  obtain ⟨hsv, hac⟩ := pyOr_ok hov
  -- the setter ran and succeeded
  have hruns : runs true false q' = true := by
    by_cases h : runs true false q' = true
    · exact h
    · simp [res0, h, INVALID] at hs0
  have hval : ∃ v, q'.hasValue = true ∧ q'.value = some v := by
    simp only [runs, qvalue, Bool.not_true, Bool.not_false, Bool.or_true, Bool.and_true] at hruns
    by_cases h : q'.hasValue = true
    · simp only [h, if_true] at hruns
      cases hv : q'.value with
      | none => simp [hv] at hruns
      | some v => exact ⟨v, h, rfl⟩
    · simp [h] at hruns
  obtain ⟨v, hhas, hv⟩ := hval
  have hco : (charOutcome q').1 = 0 := by
    have : (res0 true false q').status = (charOutcome q').1 := by
      simp only [res0, hruns, if_true]
      by_cases h2 : ((charOutcome q').2.isSome && q'.wr) = true <;> simp [h2]
    rw [← this]; exact hs0
  have hvalid : ∃ n, q'.valid = some n ∧ q'.cb ≠ CharCb.raises := by
    unfold charOutcome at hco
    cases hvd : q'.valid with
    | none => simp [hvd, FAIL] at hco
    | some n =>
      refine ⟨n, rfl, ?_⟩
      intro hc; simp [hvd, hc, FAIL] at hco
  obtain ⟨n, hn, hcb⟩ := hvalid
  have hmemf : q' ∈ qs.filter (fun q => answered false q && runs true false q) := by
    simp [List.mem_filter, hq, ha', hruns]
  have hdf : Distinct (qs.filter (fun q => answered false q && runs true false q)) := hd.filter _
  -- membership of the entry in the collected updates
  have hups : (q'.id, some v) ∈ upsOf true false qs := by
    simp only [upsOf, Bool.and_false, Bool.false_eq_true, if_false, List.mem_map, List.mem_filter]
    exact ⟨q', ⟨hq, ha'⟩, by simp [qvalue, hhas, hv]⟩
  have hacc : q'.id.aid ∈ accsOf (upsOf true false qs) := (mem_accsOf _ _).2 ⟨_, hups, rfl⟩
  have hsvc : T.svc q'.id ∈ svcsOf T (upsOf true false qs) q'.id.aid :=
    (mem_svcsOf _ _ _ _).2 ⟨_, hups, rfl, rfl⟩
  have hgrp : (q'.id, some v) ∈ svcGroup T (upsOf true false qs) q'.id.aid (T.svc q'.id) := by
    simp [svcGroup, List.mem_filter, hups]
  refine ⟨v, n, hhas, hv, hn, ?_, hcb, ?_, ?_, ?_⟩
  · rw [setChars_vals]; exact storeAll_of_mem _ _ _ _ hdf hmemf hn
  · rw [setChars_log, charCalls_append, charCalls_pass, List.append_nil,
      charCalls_loop_of_mem _ _ hdf hmemf]
    unfold calledVal
    cases hc : q'.cb <;> simp_all
  · intro hcbs
    refine ⟨?_, svcGroup T (upsOf true false qs) q'.id.aid (T.svc q'.id), ?_, hgrp⟩
    · have : svcRes T B q'.id.aid (T.svc q'.id) = some (cbResult (B.svcRaises q'.id.aid (T.svc q'.id))) := by
        simp [svcRes, hcbs]
      rw [this] at hsv; exact cbResult_ok hsv
    · rw [setChars_log, svcCalls_append, (upperCalls_loop _ _ _).1, List.nil_append, svcCalls_pass]
      simp [hacc, hsvc, hcbs]
  · intro hcba
    refine ⟨?_, (svcsOf T (upsOf true false qs) q'.id.aid).map (fun s => (s, svcGroup T (upsOf true false qs) q'.id.aid s)),
      svcGroup T (upsOf true false qs) q'.id.aid (T.svc q'.id), ?_, ?_, hgrp⟩
    · have : accRes T B q'.id.aid = some (cbResult (B.accRaises q'.id.aid)) := by
        simp [accRes, hcba]
      rw [this] at hac; exact cbResult_ok hac
    · rw [setChars_log, accCalls_append, (upperCalls_loop _ _ 0).2, List.nil_append, accCalls_pass]
      simp [hacc, hcba]
    · exact List.mem_map.2 ⟨T.svc q'.id, hsvc, rfl⟩

end Hap.Writes
