/-
  C10 — Writes do what their status says; timed writes need a live prepare.
  Property theorems only; the model is HapModel/Writes.lean (the repaired `set_characteristics`),
  helper lemmas live in Proofs/Writes.lean.

  Notation: `setChars true true T B expired vals qs` is one `set_characteristics` request after the pid
  block (`expired = false`: an untimed write or a timed write with a live prepare); `T` is the
  attribute database, `B` the outcome of service / accessory callbacks, every `Query` carries the
  behaviour of its characteristic (`valid` = normalisation, `cb` = its setter callback).
  `charCalls / svcCalls / accCalls` read the callback log of the request.
  A batch `qs` is ANY list of entries: the same characteristic may be named more than once (then
  `LastEntry expired qs q` says that `q` is the last answered entry naming `q.id` — with pairwise
  distinct ids, `Distinct qs`, every answered entry is one, `lastEntry_of_distinct`) and an entry may name
  something that is not a characteristic (`T.known q.id = false`).
-/
import Proofs.Writes
import Proofs.HandlerConsts
namespace Hap.Writes

/-- The HAP status codes found in pyhap/const.py *now* (regenerated on every run). -/
theorem C10_status_codes :
    Hap.Gen.Handler.status_SUCCESS = OK ∧
    Hap.Gen.Handler.status_SERVICE_COMMUNICATION_FAILURE = FAIL ∧
    Hap.Gen.Handler.status_INVALID_VALUE_IN_REQUEST = INVALID ∧
    Hap.Gen.Handler.status_RESOURCE_DOES_NOT_EXIST = NOEXIST ∧
    Hap.Gen.Handler.status_INSUFFICIENT_PRIVILEGES = -70401 := by decide

/-- **Each written characteristic gets one status.** In every request (executed or refused), for every
    batch — repeated characteristics and nonexistent ids included — the answer holds exactly one
    entry for every characteristic named by an answered entry (an entry with a value; any entry when the
    timed write is refused), namely the result of the LAST entry naming it, and no entry for anything else. -/
theorem C10_one_status (T : Topo) (B : Behav) (expired : Bool) (vals : CharId → Val) (qs : List Query) :
    (∀ q, LastEntry expired qs q →
      (setChars true true T B expired vals qs).chars.filter (fun x => x.1 = q.id)
        = [(q.id, entryRes true expired T B q)]) ∧
    (∀ q ∈ qs, answered expired q = true →
      ∃ r, (setChars true true T B expired vals qs).chars.filter (fun x => x.1 = q.id) = [(q.id, r)]) ∧
    (∀ c, (∀ q ∈ qs, answered expired q = true → q.id ≠ c) →
      (setChars true true T B expired vals qs).chars.filter (fun x => x.1 = c) = []) := by
  obtain ⟨results, he, hn⟩ := keys_chars_pre true true T B expired vals qs
  have h1 : ∀ q, LastEntry expired qs q →
      (setChars true true T B expired vals qs).chars.filter (fun x => x.1 = q.id)
        = [(q.id, entryRes true expired T B q)] := by
    intro q hl
    have hm : (q.id, entryRes true expired T B q) ∈ (setChars true true T B expired vals qs).chars :=
      (mem_chars ..).2 ⟨q, hl, rfl⟩
    rw [he] at hm ⊢
    rw [filter_key_assemble]
    exact filter_key_of_nodup_keys _ hn _ _ ((mem_assemble _ _).1 hm)
  refine ⟨h1, ?_, ?_⟩
  · intro q hq ha
    obtain ⟨b, hb, hk⟩ := lastEntry_exists expired qs q hq ha
    exact ⟨entryRes true expired T B b, by rw [← hk]; exact h1 b hb⟩
  · intro c hc
    rw [List.filter_eq_nil_iff]
    intro x hx hxc
    obtain ⟨q, hl, rfl⟩ := (mem_chars ..).1 hx
    have hm := List.mem_filter.1 hl.mem
    simp only [decide_eq_true_eq] at hxc
    exact hc q hm.1 hm.2 hxc

/-- **Success means done.** In an executed request, for ANY batch: an answer entry with status 0 for
    characteristic `c` comes from the last entry `q` naming `c`; `c` exists; `q` carried a value that was
    validated (`valid = some n`); the normalised value `n` is the stored value after the request (for an
    ALWAYS_NULL event type, whose value is `None` by definition, it was stored while the callbacks ran and the
    characteristic holds `None` again afterwards); the
    characteristic's own callback (if any) did not raise and its last invocation in this request was with
    `n` — its only one when the batch names no characteristic twice; and the callbacks of its service and
    of its accessory (if any) each ran exactly once in this request, did not raise, and were handed this
    characteristic with the normalised value `n` and no other value. -/
theorem C10_status (T : Topo) (B : Behav) (vals : CharId → Val) (qs : List Query)
    (c : CharId) (r : Res)
    (hr : (c, r) ∈ (setChars true true T B false vals qs).chars) (h0 : r.status = OK) :
    ∃ q v n pre, LastEntry false qs q ∧ q.id = c ∧ T.known c = true ∧
      q.hasValue = true ∧ q.value = some v ∧ q.valid = some n ∧
      (setChars true true T B false vals qs).vals c = (if q.nulls = true then NULLV else n) ∧
      q.cb ≠ CharCb.raises ∧
      charCalls (setChars true true T B false vals qs).log c
        = pre ++ (if q.cb = CharCb.absent then [] else [n]) ∧
      (Distinct qs → pre = []) ∧
      (T.svcCb c.aid (T.svc c) = true →
        B.svcRaises c.aid (T.svc c) = false ∧
        ∃ args, svcCalls (setChars true true T B false vals qs).log c.aid (T.svc c) = [args] ∧
          (c, some n) ∈ args ∧ ∀ w, (c, w) ∈ args → w = some n) ∧
      (T.accCb c.aid = true →
        B.accRaises c.aid = false ∧
        ∃ args g, accCalls (setChars true true T B false vals qs).log c.aid = [args] ∧
          (T.svc c, g) ∈ args ∧ (c, some n) ∈ g ∧ ∀ w, (c, w) ∈ g → w = some n) := by
  obtain ⟨q, hl, hx⟩ := (mem_chars true true T B false vals qs (c, r)).1 hr
  have hid : q.id = c := (congrArg Prod.fst hx).symm
  have hres : r = entryRes true false T B q := congrArg Prod.snd hx
  subst hid
  have hk : T.known q.id = true := by
    by_cases hk : T.known q.id = true
    · exact hk
    · rw [hres] at h0; simp [entryRes, res0, hk, NOEXIST, OK] at h0
  -- the status
  have hst : ov (override T B q.id) (res0 true false T q).status = 0 := by
    have := h0; rw [hres] at this; simpa [entryRes, hk, OK] using this
  obtain ⟨hs0, hov⟩ := ov_eq_zero hst
  obtain ⟨hsv, hac⟩ := pyOr_ok hov
  -- the setter ran and succeeded
  have hruns : runs true false T q = true := by
    by_cases h : runs true false T q = true
    · exact h
    · simp [res0, hk, h, INVALID] at hs0
  have hval : ∃ v, q.hasValue = true ∧ q.value = some v := by
    simp only [runs, hk, qvalue, Bool.not_true, Bool.not_false, Bool.or_true, Bool.and_true, Bool.true_and] at hruns
    by_cases h : q.hasValue = true
    · simp only [h, if_true] at hruns
      cases hv : q.value with
      | none => simp [hv] at hruns
      | some v => exact ⟨v, h, rfl⟩
    · simp [h] at hruns
  obtain ⟨v, hhas, hv⟩ := hval
  have hco : (charOutcome q).1 = 0 := by
    have : (res0 true false T q).status = (charOutcome q).1 := by
      simp only [res0, hk, hruns, if_true, Bool.not_true, Bool.false_eq_true, if_false]
      by_cases h2 : ((charOutcome q).2.isSome && q.wr) = true <;> simp [h2]
    rw [← this]; exact hs0
  have hvalid : ∃ n, q.valid = some n ∧ q.cb ≠ CharCb.raises := by
    unfold charOutcome at hco
    cases hvd : q.valid with
    | none => simp [hvd, FAIL] at hco
    | some n =>
      refine ⟨n, rfl, ?_⟩
      intro hc; simp [hvd, hc, FAIL] at hco
  obtain ⟨n, hn, hcb⟩ := hvalid
  obtain ⟨l1, l2, hsplit, hno2, hno1⟩ := running_split true false T qs q hl hruns
  -- membership of the entry in the collected updates
  have hupv : upValue true true false T q = some n := by
    simp [upValue, hruns, hco, OK, hn]
  have hups : (q.id, some n) ∈ upsOf true true false T qs := by
    rw [mem_upsOf]
    exact ⟨q, lastEntry_collected true false T qs q hl hk rfl, by rw [hupv]⟩
  have huniq : ∀ w, (q.id, w) ∈ upsOf true true false T qs → w = some n :=
    fun w hw => value_unique_of_nodup_keys _ (nodup_upsOf ..) _ _ _ hw hups
  have hacc : q.id.aid ∈ accsOf (upsOf true true false T qs) := (mem_accsOf _ _).2 ⟨_, hups, rfl⟩
  have hsvc : T.svc q.id ∈ svcsOf T (upsOf true true false T qs) q.id.aid :=
    (mem_svcsOf _ _ _ _).2 ⟨_, hups, rfl, rfl⟩
  have hgrp : (q.id, some n) ∈ svcGroup T (upsOf true true false T qs) q.id.aid (T.svc q.id) := by
    simp [svcGroup, List.mem_filter, hups]
  have hgu : ∀ w, (q.id, w) ∈ svcGroup T (upsOf true true false T qs) q.id.aid (T.svc q.id) → w = some n :=
    fun w hw => huniq w (List.mem_filter.1 hw).1
  refine ⟨q, v, n, charCalls (l1.filterMap called) q.id, hl, rfl, hk, hhas, hv, hn, ?_, hcb, ?_, ?_, ?_, ?_⟩
  · rw [setChars_vals, hsplit, storeAll_append]
    simp only [storeAll]
    rw [storeAll_not_mem _ _ _ hno2]
    have hkept : kept q n = (if q.nulls = true then NULLV else n) := by
      unfold kept
      cases hcq : q.cb <;> cases hnl : q.nulls <;> simp_all
    simp [store, hn, hkept]
  · rw [setChars_log, charCalls_append, charCalls_pass, List.append_nil, hsplit, List.filterMap_append,
      charCalls_append]
    have hc : (q :: l2).filterMap called = (called q).toList ++ l2.filterMap called := by
      simp only [List.filterMap_cons]; cases called q <;> simp
    rw [hc, charCalls_append, charCalls_called, charCalls_loop_not_mem _ _ hno2, List.append_nil]
    unfold calledVal
    cases hcq : q.cb <;> simp_all
  · intro hd
    exact charCalls_loop_not_mem _ _ (hno1 hd)
  · intro hcbs
    refine ⟨?_, svcGroup T (upsOf true true false T qs) q.id.aid (T.svc q.id), ?_, hgrp, hgu⟩
    · have : svcRes T B q.id.aid (T.svc q.id) = some (cbResult (B.svcRaises q.id.aid (T.svc q.id))) := by
        simp [svcRes, hcbs]
      rw [this] at hsv; exact cbResult_ok hsv
    · rw [setChars_log, svcCalls_append, (upperCalls_loop _ _ _).1, List.nil_append, svcCalls_pass]
      simp [hacc, hsvc, hcbs]
  · intro hcba
    refine ⟨?_, (svcsOf T (upsOf true true false T qs) q.id.aid).map
        (fun s => (s, svcGroup T (upsOf true true false T qs) q.id.aid s)),
      svcGroup T (upsOf true true false T qs) q.id.aid (T.svc q.id), ?_, ?_, hgrp, hgu⟩
    · have : accRes T B q.id.aid = some (cbResult (B.accRaises q.id.aid)) := by
        simp [accRes, hcba]
      rw [this] at hac; exact cbResult_ok hac
    · rw [setChars_log, accCalls_append, (upperCalls_loop _ _ 0).2, List.nil_append, accCalls_pass]
      simp [hacc, hcba]
    · exact List.mem_map.2 ⟨T.svc q.id, hsvc, rfl⟩

/-- `C10_status` for a batch that names no characteristic twice, entry by entry: an entry answered 0 was
    validated, its normalised value is stored, and the characteristic, service and accessory callbacks
    each ran EXACTLY ONCE with it and did not raise. -/
theorem C10_status_distinct (T : Topo) (B : Behav) (vals : CharId → Val) (qs : List Query) (hd : Distinct qs)
    (q : Query) (hq : q ∈ qs) (r : Res)
    (hr : (q.id, r) ∈ (setChars true true T B false vals qs).chars) (h0 : r.status = OK) :
    ∃ v n, T.known q.id = true ∧ q.hasValue = true ∧ q.value = some v ∧ q.valid = some n ∧
      (setChars true true T B false vals qs).vals q.id = (if q.nulls = true then NULLV else n) ∧
      q.cb ≠ CharCb.raises ∧
      charCalls (setChars true true T B false vals qs).log q.id = (if q.cb = CharCb.absent then [] else [n]) ∧
      (T.svcCb q.id.aid (T.svc q.id) = true →
        B.svcRaises q.id.aid (T.svc q.id) = false ∧
        ∃ args, svcCalls (setChars true true T B false vals qs).log q.id.aid (T.svc q.id) = [args] ∧
          (q.id, some n) ∈ args ∧ ∀ w, (q.id, w) ∈ args → w = some n) ∧
      (T.accCb q.id.aid = true →
        B.accRaises q.id.aid = false ∧
        ∃ args g, accCalls (setChars true true T B false vals qs).log q.id.aid = [args] ∧
          (T.svc q.id, g) ∈ args ∧ (q.id, some n) ∈ g ∧ ∀ w, (q.id, w) ∈ g → w = some n) := by
  obtain ⟨q', v, n, pre, hl, hid, hk, hhas, hv, hn, hvals, hcb, hcalls, hpre, hs, ha⟩ :=
    C10_status T B vals qs q.id r hr h0
  have hq' : q' ∈ qs := (List.mem_filter.1 hl.mem).1
  have : q' = q := distinct_inj hd hq hq' hid
  subst this
  refine ⟨v, n, hk, hhas, hv, hn, hvals, hcb, ?_, hs, ha⟩
  rw [hcalls, hpre hd, List.nil_append]

/-- **A failing characteristic does not stop the others.** Whatever else the batch contains — entries
    rejected by validation, raising callbacks, nonexistent characteristics, failing services elsewhere —
    an entry (the last one naming its characteristic) whose value is acceptable, whose own callback does
    not raise and whose service and accessory callbacks do not raise is answered status 0; by `C10_status`
    it was then carried out completely. -/
theorem C10_failing_does_not_stop_others (T : Topo) (B : Behav) (vals : CharId → Val) (qs : List Query)
    (q : Query) (hl : LastEntry false qs q) (hk : T.known q.id = true)
    (v n : Val) (hhas : q.hasValue = true) (hv : q.value = some v) (hn : q.valid = some n)
    (hcb : q.cb ≠ CharCb.raises)
    (hs : T.svcCb q.id.aid (T.svc q.id) = true → B.svcRaises q.id.aid (T.svc q.id) = false)
    (ha : T.accCb q.id.aid = true → B.accRaises q.id.aid = false) :
    ∃ r, (q.id, r) ∈ (setChars true true T B false vals qs).chars ∧ r.status = OK := by
  refine ⟨entryRes true false T B q, (mem_chars ..).2 ⟨q, hl, rfl⟩, ?_⟩
  have hruns : runs true false T q = true := by simp [runs, hk, qvalue, hhas, hv]
  have hco : (charOutcome q).1 = OK := by
    unfold charOutcome
    cases hc : q.cb <;> simp_all
  have hr0 : (res0 true false T q).status = OK := by
    simp only [res0, hk, hruns, if_true, Bool.not_true, Bool.false_eq_true, if_false]
    by_cases h2 : ((charOutcome q).2.isSome && q.wr) = true <;> simp [h2, hco]
  have hov : ∀ st, ov (override T B q.id) st = st := by
    intro st
    unfold override svcRes accRes
    by_cases h1 : T.svcCb q.id.aid (T.svc q.id) = true <;> by_cases h2 : T.accCb q.id.aid = true <;>
      simp [h1, h2, hs, ha, pyOr, ov, cbResult, OK]
  simp only [entryRes, hk, Bool.and_false, Bool.not_false, Bool.and_self, if_true, hov, hr0]

/-- **Nothing else happens.** A characteristic that no running entry names keeps its value and its
    callback is not invoked; a service (an accessory) none of whose existing characteristics is named by an
    answered entry gets no callback. In a refused timed write that is every characteristic, service and accessory. -/
theorem C10_frame (T : Topo) (B : Behav) (expired : Bool) (vals : CharId → Val) (qs : List Query) :
    (∀ c, (∀ q ∈ qs, q.id = c → (answered expired q && runs true expired T q) = false) →
      (setChars true true T B expired vals qs).vals c = vals c ∧
      charCalls (setChars true true T B expired vals qs).log c = []) ∧
    (∀ a s, (∀ q ∈ qs, collected true expired T q = true → ¬ (q.id.aid = a ∧ T.svc q.id = s)) →
      svcCalls (setChars true true T B expired vals qs).log a s = []) ∧
    (∀ a, (∀ q ∈ qs, collected true expired T q = true → q.id.aid ≠ a) →
      accCalls (setChars true true T B expired vals qs).log a = []) := by
  refine ⟨?_, ?_, ?_⟩
  · intro c h
    have hno : ∀ p ∈ qs.filter (fun q => answered expired q && runs true expired T q), p.id ≠ c := by
      intro p hp hid
      have := h p (List.mem_filter.1 hp).1 hid
      rw [(List.mem_filter.1 hp).2] at this; cases this
    constructor
    · rw [setChars_vals]; exact storeAll_not_mem _ _ _ hno
    · rw [setChars_log, charCalls_append, charCalls_pass, List.append_nil]
      exact charCalls_loop_not_mem _ _ hno
  · intro a s h
    rw [setChars_log, svcCalls_append, (upperCalls_loop _ _ _).1, List.nil_append, svcCalls_pass]
    have : ¬ (a ∈ accsOf (upsOf true true expired T qs) ∧ s ∈ svcsOf T (upsOf true true expired T qs) a ∧
        T.svcCb a s = true) := by
      rintro ⟨_, hs, _⟩
      obtain ⟨u, hu, h1, h2⟩ := (mem_svcsOf _ _ _ _).1 hs
      obtain ⟨q, hq, hc, hid⟩ := (mem_upsOf_keys true true expired T qs u.1).1 (List.mem_map.2 ⟨u, hu, rfl⟩)
      exact h q hq hc ⟨by rw [hid]; exact h1, by rw [hid]; exact h2⟩
    simp only [this, if_false]
  · intro a h
    rw [setChars_log, accCalls_append, (upperCalls_loop _ _ 0).2, List.nil_append, accCalls_pass]
    have : ¬ (a ∈ accsOf (upsOf true true expired T qs) ∧ T.accCb a = true) := by
      rintro ⟨ha, _⟩
      obtain ⟨u, hu, h1⟩ := (mem_accsOf _ _).1 ha
      obtain ⟨q, hq, hc, hid⟩ := (mem_upsOf_keys true true expired T qs u.1).1 (List.mem_map.2 ⟨u, hu, rfl⟩)
      exact h q hq hc (by rw [hid]; exact h1)
    simp only [this, if_false]

/-- **Independence.** What a request says about an entry and does for it (its answer, the stored
    value, the invocations of its own callback, and how often the callbacks of its service and
    accessory run) does not depend on the other entries: two batches (each naming no characteristic twice)
    that both contain the entry `q` — with arbitrary other entries, valid or invalid, existing or not,
    with failing or healthy callbacks — and agree on the outcome of the callbacks of `q`'s own service and
    accessory treat `q` alike. -/
theorem C10_independent (T : Topo) (B B' : Behav) (expired : Bool) (vals vals' : CharId → Val)
    (qs qs' : List Query) (hd : Distinct qs) (hd' : Distinct qs') (q : Query)
    (hq : q ∈ qs) (hq' : q ∈ qs') (hv : vals q.id = vals' q.id)
    (hBs : B.svcRaises q.id.aid (T.svc q.id) = B'.svcRaises q.id.aid (T.svc q.id))
    (hBa : B.accRaises q.id.aid = B'.accRaises q.id.aid) :
    (∀ r, (q.id, r) ∈ (setChars true true T B expired vals qs).chars ↔
          (q.id, r) ∈ (setChars true true T B' expired vals' qs').chars) ∧
    (setChars true true T B expired vals qs).vals q.id = (setChars true true T B' expired vals' qs').vals q.id ∧
    charCalls (setChars true true T B expired vals qs).log q.id =
      charCalls (setChars true true T B' expired vals' qs').log q.id ∧
    (expired = false → q.hasValue = true → T.known q.id = true →
      (svcCalls (setChars true true T B expired vals qs).log q.id.aid (T.svc q.id)).length =
        (svcCalls (setChars true true T B' expired vals' qs').log q.id.aid (T.svc q.id)).length ∧
      (accCalls (setChars true true T B expired vals qs).log q.id.aid).length =
        (accCalls (setChars true true T B' expired vals' qs').log q.id.aid).length) := by
  obtain ⟨h1, h2, h3⟩ := entry_closed_form true T B expired vals qs hd q hq
  obtain ⟨h1', h2', h3'⟩ := entry_closed_form true T B' expired vals' qs' hd' q hq'
  have hres : entryRes true expired T B q = entryRes true expired T B' q := by
    simp [entryRes, override, svcRes, accRes, hBs, hBa]
  refine ⟨?_, ?_, ?_, ?_⟩
  · intro r; rw [h1, h1', hres]
  · rw [h2, h2', hv]
  · rw [h3, h3']
  · intro he hval hk
    subst he
    obtain ⟨a1, a2⟩ := upper_calls true T B vals qs q hq hval hk
    obtain ⟨b1, b2⟩ := upper_calls true T B' vals' qs' q hq' hval hk
    rw [a1, a2, b1, b2]
    constructor
    · by_cases h : T.svcCb q.id.aid (T.svc q.id) = true <;> simp [h]
    · by_cases h : T.accCb q.id.aid = true <;> simp [h]

/-- **204 exactly when everything succeeded and no write-response value is due.** For any batch: the
    handler answers 204 (the driver returned None) iff every entry of the answer has status 0 and for no
    characteristic a write-response value is due (its last entry requested one with "r", the setter ran,
    the callback returned a value); otherwise it answers 207 with the answer entries (one per written
    characteristic, `C10_one_status`). -/
theorem C10_204 (T : Topo) (B : Behav) (expired : Bool) (vals : CharId → Val) (qs : List Query) :
    (httpOfWrite (setChars true true T B expired vals qs) = 204 ↔
      (∀ x ∈ (setChars true true T B expired vals qs).chars, x.2.status = OK) ∧
      (∀ q, LastEntry expired qs q → ¬ WrDue true expired T q)) ∧
    (httpOfWrite (setChars true true T B expired vals qs) = 204 ↔
      (setChars true true T B expired vals qs).body = none) ∧
    (httpOfWrite (setChars true true T B expired vals qs) ≠ 204 →
      httpOfWrite (setChars true true T B expired vals qs) = 207 ∧
      (setChars true true T B expired vals qs).body = some (setChars true true T B expired vals qs).chars) := by
  have hb := setChars_body true true T B expired vals qs
  have hne : nonempty (setChars true true T B expired vals qs).chars = false ↔
      (∀ x ∈ (setChars true true T B expired vals qs).chars, x.2.status = OK) ∧
      (∀ q, LastEntry expired qs q → ¬ WrDue true expired T q) := by
    unfold nonempty
    rw [List.any_eq_false]
    constructor
    · intro h
      have hx : ∀ x ∈ (setChars true true T B expired vals qs).chars, x.2.status = OK ∧ x.2.value = none := by
        intro x hx
        have := h x hx
        simpa only [Bool.or_eq_true, decide_eq_true_eq, not_or, Option.isSome_iff_ne_none, ne_eq,
          Decidable.not_not] using this
      refine ⟨fun x hm => (hx x hm).1, ?_⟩
      intro q hl
      have := (hx (q.id, entryRes true expired T B q) ((mem_chars ..).2 ⟨q, hl, rfl⟩)).2
      rw [← res0_value_none]; exact this
    · rintro ⟨hs, hw⟩ x hx
      obtain ⟨q, hl, rfl⟩ := (mem_chars ..).1 hx
      have h1 := hs _ hx
      have h3 : (entryRes true expired T B q).value = none := (res0_value_none ..).2 (hw q hl)
      simp only at h1
      simp [h1, h3]
  refine ⟨?_, ?_, ?_⟩
  · rw [← hne]
    unfold httpOfWrite
    rw [hb]
    cases nonempty (setChars true true T B expired vals qs).chars <;> simp
  · unfold httpOfWrite
    cases (setChars true true T B expired vals qs).body <;> simp
  · unfold httpOfWrite
    rw [hb]
    cases nonempty (setChars true true T B expired vals qs).chars <;> simp

/-- **Timed writes need a live prepare**, over all histories. After any history `hrev` (most recent
    first) of prepare / advance / write / lose operations on any connections and pids, starting
    with an empty `prepared_writes`, a write of connection `c` that carries prepare id `p`
      * is executed (treated exactly like the same request without a pid) iff `c` holds a live
        prepare for `p` — a well-formed prepare of `p` by `c` itself, since then no write of `c`
        with `p`, no loss of `c`, no newer prepare of `p` by `c` — and `now ≤ expiry`;
      * consumes the prepare whatever the outcome, and touches no other (connection, pid) pair;
      * when it is not executed: no value changes, no callback at any level runs, and every entry of
        the request — and nothing else — is answered INVALID_VALUE_IN_REQUEST (−70410; an entry that
        names no characteristic at all: RESOURCE_DOES_NOT_EXIST), as a 207. -/
theorem C10_timed (T : Topo) (s0 : State) (h0 : ∀ c p, s0.prep c p = none) (hrev : List Op)
    (c : Conn) (p : Pid) (b : Batch) (hp : b.pid = some p) :
    let s := runRev true true T s0 hrev
    let live := ∃ e, LivePrep true true T s0 hrev c p e ∧ s.now ≤ e
    let r := write true true T s c b
    (live → r.2 = (setChars true true T b.behav false s.vals b.queries)) ∧
    (r.1.prep c p = none ∧ ∀ c' p', ¬ (c' = c ∧ p' = p) → r.1.prep c' p' = s.prep c' p') ∧
    (¬ live →
      r.1.vals = s.vals ∧ r.2.log = [] ∧
      (∀ x, x ∈ r.2.chars ↔ ∃ q ∈ b.queries, x = (q.id, ⟨if T.known q.id then INVALID else NOEXIST, none⟩)) ∧
      (b.queries ≠ [] → httpOfWrite r.2 = 207 ∧ r.2.body = some r.2.chars)) := by
  intro s live r
  have hexp : (popPid s c b.pid).1 = false ↔ live := by
    simp only [hp, popPid]
    cases hpre : s.prep c p with
    | none =>
      simp only [Bool.true_eq_false, false_iff]
      rintro ⟨e, hl, _⟩
      have := (prep_iff_live true true T s0 h0 hrev c p e).2 hl
      rw [hpre] at this; cases this
    | some e =>
      simp only [decide_eq_false_iff_not, Nat.not_lt]
      constructor
      · intro hle; exact ⟨e, (prep_iff_live true true T s0 h0 hrev c p e).1 hpre, hle⟩
      · rintro ⟨e', hl, hle⟩
        have := (prep_iff_live true true T s0 h0 hrev c p e').2 hl
        rw [hpre] at this; cases this; exact hle
  refine ⟨?_, ?_, ?_⟩
  · intro hl
    have := hexp.2 hl
    simp only [r, write, this]
  · constructor
    · simp [r, write, popPid, hp]
    · intro c' p' hne
      simp [r, write, popPid, hp, hne]
  · intro hnl
    have hx : (popPid s c b.pid).1 = true := by
      cases h : (popPid s c b.pid).1 with
      | true => rfl
      | false => exact absurd (hexp.1 h) hnl
    obtain ⟨f1, f2, f3⟩ := expired_facts true T b.behav s.vals b.queries
    have hr2 : r.2 = setChars true true T b.behav true s.vals b.queries := by simp only [r, write, hx]
    refine ⟨?_, ?_, ?_, ?_⟩
    · simp only [r, write, hx]; exact f1
    · rw [hr2]; exact f2
    · rw [hr2]; exact f3
    · intro hne
      rw [hr2]
      have h204 := C10_204 T b.behav true s.vals b.queries
      have : httpOfWrite (setChars true true T b.behav true s.vals b.queries) ≠ 204 := by
        intro h
        cases hq : b.queries with
        | nil => exact hne hq
        | cons q qs =>
          have hm := (f3 (q.id, ⟨if T.known q.id then INVALID else NOEXIST, none⟩)).2
            ⟨q, by rw [hq]; exact List.mem_cons_self .., rfl⟩
          have := (h204.1.1 h).1 _ hm
          by_cases hk : T.known q.id = true <;> simp [hk, INVALID, NOEXIST, OK] at this
      exact h204.2.2 this

/-- **Every request in every reachable state.** After any history of prepare / advance / write / lose
    operations, for any request `b` of any connection `c` — untimed or timed — an answer entry with status
    0 implies that the request was executable (it carried no prepare id, or `c` holds a live prepare for
    it), that it was processed exactly as the executed request `setChars … false` about which `C10_status`
    speaks, and that the values it stored are the driver's state afterwards. -/
theorem C10_status_every_request (T : Topo) (s0 : State) (h0 : ∀ c p, s0.prep c p = none) (hrev : List Op)
    (c : Conn) (b : Batch) (ch : CharId) (res : Res)
    (hm : (ch, res) ∈ (write true true T (runRev true true T s0 hrev) c b).2.chars) (hok : res.status = OK) :
    let s := runRev true true T s0 hrev
    (b.pid = none ∨ ∃ p e, b.pid = some p ∧ LivePrep true true T s0 hrev c p e ∧ s.now ≤ e) ∧
    (write true true T s c b).2 = setChars true true T b.behav false s.vals b.queries ∧
    (write true true T s c b).1.vals = (setChars true true T b.behav false s.vals b.queries).vals := by
  intro s
  cases hp : b.pid with
  | none =>
    refine ⟨Or.inl rfl, ?_, ?_⟩ <;> simp [s, write, popPid, hp]
  | some p =>
    have ht := C10_timed T s0 h0 hrev c p b hp
    simp only at ht
    by_cases hl : ∃ e, LivePrep true true T s0 hrev c p e ∧ (runRev true true T s0 hrev).now ≤ e
    · obtain ⟨e, hl1, hl2⟩ := hl
      have h2 := ht.1 ⟨e, hl1, hl2⟩
      refine ⟨Or.inr ⟨p, e, rfl, hl1, hl2⟩, h2, ?_⟩
      rw [← h2]; rfl
    · obtain ⟨_, _, h3, _⟩ := ht.2.2 hl
      obtain ⟨q, _, hx⟩ := (h3 (ch, res)).1 hm
      have : res = ⟨if T.known q.id then INVALID else NOEXIST, none⟩ := congrArg Prod.snd hx
      rw [this] at hok
      by_cases hk : T.known q.id = true <;> simp [hk, INVALID, NOEXIST, OK] at hok

/-- **Each prepare is usable once.** If connection `c` has sent a write carrying `p` and has not
    prepared `p` again since, a further write of `c` carrying `p` is not executed (at any time). -/
theorem C10_timed_once (T : Topo) (s0 : State)
    (later earlier : List Op) (c : Conn) (p : Pid) (b1 : Batch) (hp1 : b1.pid = some p)
    (hno : ∀ op ∈ later, ∀ ttl, op ≠ Op.prepare c (some ttl) (some p)) :
    ¬ ∃ e, LivePrep true true T s0 (later ++ Op.write c b1 :: earlier) c p e := by
  rintro ⟨e, hl⟩
  induction later generalizing e with
  | nil =>
    rcases (livePrep_cons ..).1 hl with ⟨ttl, h, _⟩ | ⟨hnt, _⟩
    · cases h
    · exact hnt ⟨rfl, hp1⟩
  | cons op later ih =>
    rw [List.cons_append] at hl
    rcases (livePrep_cons ..).1 hl with ⟨ttl, h, _⟩ | ⟨_, hl'⟩
    · exact hno op (List.mem_cons_self ..) ttl h
    · exact ih (fun o ho => hno o (List.mem_cons_of_mem _ ho)) e hl'


/-- **A new connection starts with nothing.** `Op.lose c` is the end of the connection with peer
    address `c`, whoever ended it (the peer, or the server through `HAPServerProtocol.close()` followed
    by the `connection_lost` that asyncio delivers); later operations under `c` belong to a new
    connection from the same address and port. Unless that new connection has itself prepared `p`, it
    holds no live prepare for `p` — whatever its predecessor had prepared and however long that ttl
    was — so by `C10_timed` its write carrying `p` is refused. -/
theorem C10_timed_fresh_connection (T : Topo) (s0 : State)
    (later earlier : List Op) (c : Conn) (p : Pid)
    (hno : ∀ op ∈ later, ∀ ttl, op ≠ Op.prepare c (some ttl) (some p)) :
    ¬ ∃ e, LivePrep true true T s0 (later ++ Op.lose c :: earlier) c p e := by
  rintro ⟨e, hl⟩
  induction later generalizing e with
  | nil =>
    rcases (livePrep_cons ..).1 hl with ⟨ttl, h, _⟩ | ⟨hnt, _⟩
    · cases h
    · exact hnt rfl
  | cons op later ih =>
    rw [List.cons_append] at hl
    rcases (livePrep_cons ..).1 hl with ⟨ttl, h, _⟩ | ⟨_, hl'⟩
    · exact hno op (List.mem_cons_self ..) ttl h
    · exact ih (fun o ho => hno o (List.mem_cons_of_mem _ ho)) e hl'

/-- **Only the connection's own prepare counts.** If the history contains no well-formed prepare of
    `p` sent by `c` itself (whatever other connections prepared, whatever `c` prepared under other
    ids), `c` holds no live prepare for `p`, so by `C10_timed` its write carrying `p` is refused. -/
theorem C10_timed_needs_own_prepare (T : Topo) (s0 : State) (hrev : List Op) (c : Conn) (p : Pid)
    (hno : ∀ op ∈ hrev, ∀ ttl, op ≠ Op.prepare c (some ttl) (some p)) :
    ¬ ∃ e, LivePrep true true T s0 hrev c p e := by
  rintro ⟨e, later, earlier, ttl, heq, _, _⟩
  exact hno (Op.prepare c (some ttl) (some p)) (by rw [heq]; simp) ttl rfl

/-- **prepare.** A prepare request with both keys is answered status 0 and registers the expiry
    `now + ttl` for exactly this connection and id; with a key missing it is answered
    INVALID_VALUE_IN_REQUEST and changes nothing; the HTTP status is 200 in both cases. -/
theorem C10_prepare (s : State) (c : Conn) (ttl : Option Nat) (pid : Option Pid) :
    httpOfPrepare (prepare s c ttl pid).2 = 200 ∧
    (∀ t p, ttl = some t → pid = some p →
      (prepare s c ttl pid).2 = OK ∧ (prepare s c ttl pid).1.prep c p = some (s.now + t) ∧
      (∀ c' p', ¬ (c' = c ∧ p' = p) → (prepare s c ttl pid).1.prep c' p' = s.prep c' p') ∧
      (prepare s c ttl pid).1.vals = s.vals) ∧
    ((ttl = none ∨ pid = none) →
      (prepare s c ttl pid).2 = INVALID ∧ (prepare s c ttl pid).1.prep = s.prep ∧
      (prepare s c ttl pid).1.vals = s.vals) := by
  refine ⟨rfl, ?_, ?_⟩
  · rintro t p rfl rfl
    refine ⟨rfl, by simp [prepare], ?_, rfl⟩
    intro c' p' hne
    simp [prepare, hne]
  · rintro (rfl | rfl)
    · cases pid <;> exact ⟨rfl, rfl, rfl⟩
    · cases ttl <;> exact ⟨rfl, rfl, rfl⟩

/-! ### fixtures for the counterexamples and examples -/

def demoT : Topo := { svc := fun _ => 1, svcCb := fun _ _ => true, accCb := fun _ => true,
                      known := fun c => c.aid ≤ 4 }
def demoB : Behav := { svcRaises := fun _ _ => false, accRaises := fun _ => false }
/-- Brightness := 150 on a 0..100 characteristic: accepted, stored as 100 -/
def q150 : Query :=
  { id := ⟨2, 10⟩, hasValue := true, value := some "i:150", wr := false, valid := some "i:100", cb := .returns none }

/-! ### the code before the repair -/

def batch7 : Batch := { pid := some 7, queries := [q150], behav := demoB }
def st0 : State := { now := 1000, prep := fun _ _ => none, vals := fun _ => "i:0" }

/-- As shipped (`fixed := false`) a write carrying a pid that was never prepared is executed: the
    value is stored, all three callbacks run, and the answer is 204. The repaired model refuses it.
    Replayed on the implementation by the harness (`C10:timed-write-without-live-prepare`). -/
theorem C10_legacy_counterexample :
    ((write false false demoT st0 0 batch7).1.vals ⟨2, 10⟩ = "i:100" ∧
      (write false false demoT st0 0 batch7).2.log.length = 3 ∧
      httpOfWrite (write false false demoT st0 0 batch7).2 = 204) ∧
    ((write true true demoT st0 0 batch7).1.vals ⟨2, 10⟩ = "i:0" ∧
      (write true true demoT st0 0 batch7).2.log = [] ∧
      httpOfWrite (write true true demoT st0 0 batch7).2 = 207) := by decide

/-- Before design/fixes/C10b.patch (`nu := false`) the service and accessory callbacks of a
    successful write were handed the request value: Brightness := 150 is answered 0 and stored as 100,
    the characteristic callback gets 100, the service callback gets 150. With the repair it gets 100.
    Replayed on the implementation by the harness (`C10:upper-callback-got-request-value`). -/
theorem C10_upper_value_legacy_counterexample :
    ((setChars true false demoT demoB false (fun _ => "i:0") [q150]).chars = [(⟨2, 10⟩, ⟨0, none⟩)] ∧
      (setChars true false demoT demoB false (fun _ => "i:0") [q150]).vals ⟨2, 10⟩ = "i:100" ∧
      charCalls (setChars true false demoT demoB false (fun _ => "i:0") [q150]).log ⟨2, 10⟩ = ["i:100"] ∧
      svcCalls (setChars true false demoT demoB false (fun _ => "i:0") [q150]).log 2 1
        = [[((⟨2, 10⟩ : CharId), some "i:150")]]) ∧
    svcCalls (setChars true true demoT demoB false (fun _ => "i:0") [q150]).log 2 1
        = [[((⟨2, 10⟩ : CharId), some "i:100")]] := by decide

/-! ### non-vacuity: concrete instances of the hypotheses -/

/-- a mixed batch: one healthy entry, one rejected by validation, one whose callback raises,
    one with a write response; statuses 0 / −70402 / −70402 / 0+value, answered 207 -/
def qOk : Query := { id := ⟨2, 9⟩, hasValue := true, value := some "b:true", wr := false, valid := some "b:true", cb := .absent }
def qBad : Query := { id := ⟨3, 10⟩, hasValue := true, value := some "s:x", wr := false, valid := none, cb := .absent }
def qRaise : Query := { id := ⟨4, 10⟩, hasValue := true, value := some "i:1", wr := false, valid := some "i:1", cb := .raises }
def qResp : Query := { id := ⟨4, 14⟩, hasValue := true, value := some "i:0", wr := true, valid := some "i:0", cb := .returns (some "s:r") }

example : Distinct [qOk, qBad, qRaise, qResp] := by unfold Distinct; decide
example : (setChars true true demoT demoB false (fun _ => "i:0") [qOk, qBad, qRaise, qResp]).chars =
    [(⟨2, 9⟩, ⟨0, none⟩), (⟨3, 10⟩, ⟨-70402, none⟩), (⟨4, 10⟩, ⟨-70402, none⟩), (⟨4, 14⟩, ⟨0, some "s:r"⟩)] := by
  decide
example : httpOfWrite (setChars true true demoT demoB false (fun _ => "i:0") [qOk, qBad, qRaise, qResp]) = 207 := by decide
example : httpOfWrite (setChars true true demoT demoB false (fun _ => "i:0") [qOk]) = 204 := by decide
/-- hypotheses of `C10_status` are met by `qOk` in the mixed batch -/
example : ((qOk.id, (⟨0, none⟩ : Res)) ∈
    (setChars true true demoT demoB false (fun _ => "i:0") [qOk, qBad, qRaise, qResp]).chars) := by decide
/-- a batch that names a characteristic twice (rejected value first, then a good one) and something that
    is not a characteristic: one status each, the last entry decides, the ghost alone fails -/
def qGhost : Query := { id := ⟨9, 2⟩, hasValue := true, value := some "i:1", wr := false, valid := some "i:1", cb := .absent }
def qBadOk : Query := { qBad with id := ⟨2, 9⟩ }
example : ¬ Distinct [qBadOk, qGhost, qOk] := by unfold Distinct; decide
example : (setChars true true demoT demoB false (fun _ => "i:0") [qBadOk, qGhost, qOk]).chars =
    [(⟨2, 9⟩, ⟨0, none⟩), (⟨9, 2⟩, ⟨-70409, none⟩)] := by decide
example : LastEntry false [qBadOk, qGhost, qOk] qOk := by
  unfold LastEntry; simp [answered, qBadOk, qBad, qGhost, qOk, LastBy]
example : (setChars true true demoT demoB false (fun _ => "i:0") [qOk, qBadOk]).chars =
    [(⟨2, 9⟩, ⟨-70402, none⟩)] := by decide
/-- a live prepare exists after `prepare; advance 250` and is still usable at now = expiry -/
example : LivePrep true true demoT st0 [Op.advance 250, Op.prepare 0 (some 250) (some 7)] 0 7 1250 :=
  ⟨[Op.advance 250], [], 250, rfl, by intro op h; simp at h; subst h; simp [Touches], rfl⟩
example : (runRev true true demoT st0 [Op.advance 250, Op.prepare 0 (some 250) (some 7)]).now = 1250 := by decide
example : (popPid (runRev true true demoT st0 [Op.advance 250, Op.prepare 0 (some 250) (some 7)]) 0 (some 7)).1 = false := by
  decide
example : (popPid (runRev true true demoT st0 [Op.advance 375, Op.prepare 0 (some 250) (some 7)]) 0 (some 7)).1 = true := by
  decide
/-- a predecessor's prepare with an enormous ttl does not survive the end of its connection -/
example : (popPid (runRev true true demoT st0 [Op.lose 0, Op.prepare 0 (some 400000000) (some 7)]) 0 (some 7)).1 = true := by
  decide
/-- another connection's prepare does not count -/
example : (popPid (runRev true true demoT st0 [Op.prepare 1 (some 250) (some 7)]) 0 (some 7)).1 = true := by decide

end Hap.Writes
