/-
  C11 — Reads always reflect the current attribute database.
-/
import HapModel.Db
namespace Hap.C11
open Hap Hap.Db

theorem C11_placeholder : True := trivial

end Hap.C11
