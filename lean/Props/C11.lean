/-
  C11 — Reads always reflect the current attribute database.
  Property theorems only; lemmas live in Proofs/DbCache.lean, Proofs/DbLift.lean, Proofs/DbRead.lean.

  Model: HapModel/Db.lean.  `Db.renderCached` is `get_accessories` as the code computes it
  (through `_to_hap_cache_with_value` / `_to_hap_cache`), `Db.render` is the from-scratch
  rendering that never looks at a cache field, `Db.handleGet` is `get_characteristics` + the
  handler's 200/207 selection.  Validation results and getter-callback results are parameters:
  every theorem holds for all of them (a getter may return anything or raise, differently at
  every call site).
-/
import Proofs.DbLift
import Proofs.DbRead
import Proofs.DbUnified
namespace Hap.C11
open Hap Hap.Db

variable {V P : Type} [PropsLike P] [Inhabited V]

/-- **Cache invariant.** For every history of set_value, controller write, override_properties,
    display-name change, getter install/removal, availability / primary-service change and reads
    (with or without values, whole database or single characteristics), started in a state
    whose caches are valid (e.g. empty), every cache field of every characteristic is empty or
    equals the from-scratch rendering of that characteristic's current state. -/
theorem C11_cache_inv (s : Db V P) (ops : List (Op11 V P)) (h : s.CacheOk) :
    (s.run11 ops).CacheOk :=
  Db.run11_cacheOk s ops h

/-- a database in which no characteristic has anything cached (every state produced by
    construction) satisfies the invariant -/
theorem C11_empty_caches_ok (s : Db V P)
    (h : ∀ a ∈ s.accList, ∀ sv ∈ a.services, ∀ c ∈ sv.chars, c.cacheV = none ∧ c.cacheN = none) :
    s.CacheOk := by
  intro a ha sv hsv c hc
  obtain ⟨h1, h2⟩ := h a ha sv hsv c hc
  exact ⟨Or.inl h2, Or.inl h1⟩

/-- **GET /accessories is never stale.** In a state with valid caches the cached rendering
    answers exactly what the from-scratch rendering of the current state answers (the same
    document, or the same failure when a getter raises), with or without values, for every
    behaviour of the getters. -/
theorem C11_cached_eq_fresh (s : Db V P) (incl : Bool) (g : Nat → Option V) (h : s.CacheOk) :
    (s.renderCached incl g).1 = (s.render incl g).1 :=
  (Db.renderCached_spec s incl g h).1

/-- **GET /characteristics meets the read specification.**  `Db.readSpec` judges every
    requested id against the ONE state in which the request arrives (the getter's outcome when a
    getter is installed, else the stored value; failure for an unavailable accessory, an iid
    that names no characteristic, a raising getter; no entry for an unknown accessory of a
    bridge) and never looks at a cache field.  The response the code computes — id by id, with
    getter results written back in between — is exactly the 200/207 selection over it. -/
theorem C11_read_spec (s : Db V P) (ids : List (Nat × Nat)) (g : Nat → Option V) :
    (s.handleGet ids g).1 = selectStatus (s.readSpec g ids 0) :=
  Db.handleGet_spec s ids g

/-- a read in a state with valid caches answers what a from-scratch implementation answers
    (`Db.freshOut`: the cache-free rendering, resp. the read specification) -/
theorem C11_read_fresh_at (s : Db V P) (op : Op11 V P) (hp : s.CacheOk) :
    (s.step11 op).2 = s.freshOut op := by
  cases op with
  | readAll incl g =>
    have := C11_cached_eq_fresh s incl g hp
    simp only [Db.step11, Db.freshOut]
    rcases hr : s.renderCached incl g with ⟨r, s'⟩
    rw [hr] at this
    simp only at this
    rw [this]
  | readChars ids g =>
    have := C11_read_spec s ids g
    simp only [Db.step11, Db.freshOut]
    rcases hr : s.handleGet ids g with ⟨r, s'⟩
    rw [hr] at this
    simp only at this
    rw [this]
  | setValue o v => rfl
  | assignValue o v => rfl
  | clientUpdate o v cb => rfl
  | overrideProps o ov => rfl
  | setDisplay o n => rfl
  | setGetter o b => rfl
  | setAvailable a b => rfl
  | setPrimary a t => rfl
  | addLinked a sv o => rfl

/-- **Every read in every history is fresh.** Split any history at any operation: what that
    operation answers (GET /accessories document, GET /characteristics response) is what a
    from-scratch implementation answers in the state reached by the operations before it. -/
theorem C11_reads_fresh (s : Db V P) (pre : List (Op11 V P)) (op : Op11 V P) (h : s.CacheOk) :
    ((s.run11 pre).step11 op).2 = (s.run11 pre).freshOut op :=
  C11_read_fresh_at _ op (C11_cache_inv s pre h)

/-- **All histories through the public API.**  Start from a freshly constructed accessory or
    bridge (any service definitions) and apply ANY sequence over the union of the alphabets:
    construction (add service, add / remove bridged accessory with explicit or automatic aid,
    IIDManager assign / remove_obj / remove_iid), value and metadata changes (set_value, plain
    value assignment, controller write, override_properties, display name, getter install /
    removal, availability, primary service) and reads of both kinds.  The state reached is
    well-formed and every cache field is empty or equals the from-scratch rendering. -/
theorem C11_all_histories_inv (isBridge : Bool) (defs : List (SvcDef V P)) (ops : List (OpU V P)) :
    ((Db.init isBridge defs).runU ops).Good ∧ ((Db.init isBridge defs).runU ops).CacheOk :=
  runU_inv _ ops (init_good isBridge defs) (cacheOk_of_db_uncached _ (init_uncached isBridge defs))

/-- … hence every read at every point of every such history is fresh: no stale copy is ever
    served, whatever structural changes, mutations and earlier reads came before it. -/
theorem C11_all_histories_reads_fresh (isBridge : Bool) (defs : List (SvcDef V P)) (pre : List (OpU V P))
    (op : Op11 V P) :
    (((Db.init isBridge defs).runU pre).stepU (.db op)).2 =
      .out (((Db.init isBridge defs).runU pre).freshOut op) := by
  have h := C11_read_fresh_at ((Db.init isBridge defs).runU pre) op (C11_all_histories_inv isBridge defs pre).2
  simp only [Db.stepU]
  rcases hr : ((Db.init isBridge defs).runU pre).step11 op with ⟨s', o⟩
  rw [hr] at h
  simp only at h
  rw [h]

/-- the per-characteristic statement behind it: `to_HAP` with valid caches returns the
    from-scratch rendering, keeps the caches valid and has the same effect on the stored state
    (the value a getter produced), whatever the getter does -/
theorem C11_char_toHap (c : Char V P) (iid : Option Nat) (incl : Bool) (g : Option V)
    (h : c.CacheOk iid) :
    (c.toHap iid incl g).1 = (c.toHapFresh iid incl g).1 ∧
    (c.toHap iid incl g).2.CacheOk iid ∧
    (c.toHap iid incl g).2.clearCache = (c.toHapFresh iid incl g).2.clearCache :=
  let ⟨a, b, _, d⟩ := Char.toHap_spec c iid incl g h
  ⟨a, b, d⟩

/-- **Shape of a characteristic read**, for every state, request and getter behaviour:
    * one entry per requested id whose accessory exists (aid 1 or a bridged accessory; on a
      non-bridge every id is answered), in request order — ids naming an unknown accessory of
      a bridge are skipped;
    * either the status is 200, every read succeeded and no entry has a `status` member (each
      has a value), or the status is 207, some read failed, and every entry has a status:
      0 with a value, or −70402 without one. -/
theorem C11_read_shape (s : Db V P) (ids : List (Nat × Nat)) (g : Nat → Option V) :
    let r := (s.handleGet ids g).1
    (r.entries.map Entry.key = ids.filter (fun p => s.answers p.1)) ∧
    ((r.code = 200 ∧ ∀ e ∈ r.entries, e.status = none ∧ e.value.isSome) ∨
     (r.code = 207 ∧ (∃ e ∈ r.entries, e.status = some COMM_FAILURE) ∧
        ∀ e ∈ r.entries, (e.status = some SUCCESS ∧ e.value.isSome) ∨
                         (e.status = some COMM_FAILURE ∧ e.value = none))) := by
  intro r
  obtain ⟨k1, k2⟩ := Db.getChars_shape s g ids 0
  have hr : r = selectStatus (s.getChars g ids 0).1 := by
    show (s.handleGet ids g).1 = _
    unfold Db.handleGet
    rcases s.getChars g ids 0 with ⟨es, s'⟩
    rfl
  obtain ⟨m1, m2⟩ := selectStatus_shape (s.getChars g ids 0).1 k2
  rw [← hr] at m1 m2
  refine ⟨by rw [m1, k1], ?_⟩
  rcases m2 with ⟨c, _, e⟩ | ⟨c, ⟨e, he, hf⟩, eq⟩
  · exact Or.inl ⟨c, e⟩
  · refine Or.inr ⟨c, ⟨e, by rw [eq]; exact he, hf⟩, ?_⟩
    intro x hx
    rw [eq] at hx
    exact k2 x hx

/-- 200 exactly when every requested read succeeded -/
theorem C11_read_200_iff (s : Db V P) (ids : List (Nat × Nat)) (g : Nat → Option V) :
    (s.handleGet ids g).1.code = 200 ↔ ∀ e ∈ (s.getChars g ids 0).1, e.status = some SUCCESS := by
  obtain ⟨_, k2⟩ := Db.getChars_shape s g ids 0
  have hr : (s.handleGet ids g).1 = selectStatus (s.getChars g ids 0).1 := by
    unfold Db.handleGet
    rcases s.getChars g ids 0 with ⟨es, s'⟩
    rfl
  rw [hr]
  obtain ⟨_, m2⟩ := selectStatus_shape (s.getChars g ids 0).1 k2
  constructor
  · intro hc
    rcases m2 with ⟨_, h, _⟩ | ⟨c, _, _⟩
    · exact h
    · rw [hc] at c; cases c
  · intro hall
    rcases m2 with ⟨c, _, _⟩ | ⟨_, ⟨e, he, hf⟩, _⟩
    · exact c
    · rw [hall e he] at hf; cases hf

/-- **What a single read returns** (the loop body of `get_characteristics` on one accessory):
    failure when the iid names no characteristic of the accessory (unknown iid, or a service),
    else the getter's outcome when a getter is installed (failure if it raised), else the
    stored value — never anything cached. -/
theorem C11_read_value (a : Accessory V P) (iid : Nat) (g : Option V) :
    (a.read iid g).1 =
      match (a.iidm.getObj iid).bind a.findChar with
      | none => none
      | some c => if c.getter then g else some c.value :=
  Accessory.read_value a iid g

/-- entries for the three failure causes are −70402 entries, and an unknown accessory of a
    bridge produces no entry -/
theorem C11_read_failures (s : Db V P) (aid iid : Nat) (g : Option V) (hb : s.isBridge = true)
    (h1 : aid ≠ STANDALONE_AID) :
    (lookup aid s.bridged = none → (s.readOne aid iid g).1 = none) ∧
    (∀ a, lookup aid s.bridged = some a → a.available = false →
        (s.readOne aid iid g).1 = some (failEntry aid iid)) ∧
    (∀ a, lookup aid s.bridged = some a → a.available = true → (a.read iid g).1 = none →
        (s.readOne aid iid g).1 = some (failEntry aid iid)) ∧
    (∀ a v, lookup aid s.bridged = some a → a.available = true → (a.read iid g).1 = some v →
        (s.readOne aid iid g).1 = some (okEntry aid iid v)) := by
  refine ⟨?_, ?_, ?_, ?_⟩
  · intro hl; simp [Db.readOne, h1, hb, hl]
  · intro a hl ha; simp [Db.readOne, h1, hb, hl, ha]
  · intro a hl ha hr
    rcases hx : a.read iid g with ⟨v, a'⟩
    rw [hx] at hr; simp only at hr; subst hr
    simp [Db.readOne, h1, hb, hl, ha, hx]
  · intro a v hl ha hr
    rcases hx : a.read iid g with ⟨v', a'⟩
    rw [hx] at hr; simp only at hr; subst hr
    simp [Db.readOne, h1, hb, hl, ha, hx]

/-! ### non-vacuity and a regression witness -/

section examples

instance : PropsLike Bool := ⟨id⟩

/-- one readable characteristic (object 1) in one service (object 0) of a standalone accessory -/
def demoChar : Char Nat Bool :=
  { obj := 1, typ := "25", props := true, loaderName := none, display := some "On", value := 0,
    alwaysNull := false, getter := false, cacheV := none, cacheN := none }

def demoDb : Db Nat Bool :=
  { main := { aid := some 1, services := [{ obj := 0, typ := "43", chars := [demoChar], primary := none }],
              iidm := (Iid.empty.assign 0).assign 1, available := true },
    isBridge := false, bridged := [], nextObj := 2 }

example : demoDb.CacheOk := C11_empty_caches_ok demoDb (by
  intro a ha sv hsv c hc
  simp [demoDb, Db.accList] at ha; subst ha
  simp at hsv; subst hsv
  simp at hc; subst hc
  exact ⟨rfl, rfl⟩)

/-- read, write 7, read: the second read shows 7 (the cache filled by the first read was dropped) -/
example :
    (((demoDb.run11 [.readAll true (fun _ => none), .setValue 1 (some 7)]).renderCached true
        (fun _ => none)).1.map
      (fun l => l.map (fun a => a.services.map (fun sv => sv.chars.map (·.value))))) = some [[[some 7]]] := by
  decide

/-- a read with ids 1.2 (the characteristic), 1.9 (unknown iid) answers 207 with both entries -/
example :
    ((demoDb.handleGet [(1, 2), (1, 9)] (fun _ => none)).1.code,
     (demoDb.handleGet [(1, 2), (1, 9)] (fun _ => none)).1.entries.map (fun e => (e.iid, e.status, e.value)))
      = (207, [(2, some 0, some 0), (9, some (-70402), none)]) := by
  decide

/-- a unified history: read, add a service (fresh objects 2, 3), read, remove the new
    characteristic's iid and assign it again (iid 4 → 5), write 9 to it, read: the last read lists
    it under iid 5 with value 9 -/
example :
    ((((Db.init false [{ typ := "43", chars := [{ typ := "25", props := true, name := some "On", value := 0,
                                                   alwaysNull := false }] }] : Db Nat Bool).runU
        [.db (.readAll true (fun _ => none)),
         .con (.addService 1 { typ := "49", chars := [{ typ := "25", props := true, name := some "On", value := 1,
                                                        alwaysNull := false }] }),
         .db (.readAll true (fun _ => none)),
         .con (.removeObj 1 3), .con (.assign 1 3),
         .db (.setValue 3 (some 9))]).renderCached true (fun _ => none)).1.map
      (fun l => l.map (fun a => a.services.map (fun sv => sv.chars.map (fun c => (c.iid, c.value))))))
      = some [[[(some 2, some 0)], [(some 5, some 9)]]] := by
  decide

/-- linked services: after the information-less demo accessory got a second service (objects 2, 3)
    and the first was linked to it twice, the first service lists `linked = [3]` once; after the
    second service was taken out of the manager and assigned again the member shows its new iid -/
def outletDef : SvcDef Nat Bool :=
  { typ := "49", chars := [{ typ := "25", props := true, name := none, value := 1, alwaysNull := false }] }

def linkedDemo : Db Nat Bool :=
  demoDb.runU [.con (.addService 1 outletDef), .db (.addLinked 1 0 2), .db (.addLinked 1 0 2)]

example :
    ((linkedDemo.renderCached false (fun _ => none)).1.map (fun l => l.map (fun a => a.services.map (·.linked))),
     ((linkedDemo.runU [.con (.removeObj 1 2), .con (.assign 1 2)]).renderCached false (fun _ => none)).1.map
        (fun l => l.map (fun a => a.services.map (·.linked))))
      = (some [[[some 3], []]], some [[[some 5], []]]) := by
  decide

/-- the read specification on the demo database: the characteristic, an unknown iid, the service -/
example :
    (demoDb.readSpec (fun _ => none) [(1, 2), (1, 9), (1, 1)] 0).map (fun e => (e.iid, e.status, e.value))
      = [(2, some 0, some 0), (9, some (-70402), none), (1, some (-70402), none)] := by
  decide

/-- the `display_name` setter without its `_clear_cache()` (a regression the check must see) -/
def setDisplayNoClear (c : Char Nat Bool) (n : Option String) : Char Nat Bool := { c with display := n }

/-- Regression witness: if the display-name setter did not clear the caches, a rendering after
    a rename would still show the old description, i.e. the invariant and the freshness
    theorem fail for that variant. -/
theorem C11_missing_invalidation_counterexample :
    let s1 := (demoDb.renderCached false (fun _ => none)).2
    let s2 := s1.modChar 1 (fun c => setDisplayNoClear c (some "Renamed"))
    (s2.renderCached false (fun _ => none)).1 ≠ (s2.render false (fun _ => none)).1 := by
  decide

end examples

end Hap.C11
