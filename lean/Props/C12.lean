/-
  C12 — Events reach exactly the subscribed other controllers, with the latest value.
  Property theorems only; the model is HapModel/SysEvents.lean (with design/fixes/C12.patch applied:
  after a successful controller write the writer's queued event for that characteristic is dropped
  unless it carries the current value), lemmas are in Proofs/SysEvents*.lean.

  Reading (DESIGN §3 C12): "value changes" are notifying changes; a change that happens while a
  connection is not subscribed is not owed to it; always-null characteristics are excluded from the
  value comparison.  Hypothesis `ReuseOK`: a peer address reconnects only after the loss of its
  previous connection has been processed.
-/
import Proofs.SysEventsC12
import Proofs.SysEventsC12b
import Proofs.SysEventsMore
namespace Hap.Sys

/-- **C12_recipients** (safety, every history, every next step). Whenever a step writes an EVENT
    message to connection `p`:
    * `p` holds a verified session;
    * the message is produced by `_send_events` of `p` itself, run by its coalescing timer or by
      one of its `call_soon` callbacks, and is not empty;
    * every entry `(x, v)` is for a characteristic `p`'s address is subscribed to at that instant,
      carries the latest queued value for `x` (last-value-wins), and was enqueued by a change whose
      originator (`sender_client_addr`, ghost `qsrc`) is not `p`;
    * each characteristic occurs at most once in the message. -/
theorem C12_recipients (c : Cfg) (hc : c.fix13 = true) (tr : List Ev) (hr : ReuseOK c (init c) tr)
    (e : Ev) (p : ObjId) (t : Nat) (entries : List (Cid × Val)) :
    let s := (run c (init c) tr).1
    Out.event p t entries ∈ (step c s e).2 →
      (s.obj p).verified = true ∧ (e = Ev.timerFire p ∨ e = Ev.soonFlush p) ∧ entries ≠ [] ∧
      (∀ x v, (x, v) ∈ entries →
        subscribed s x (s.obj p).addr ∧ aget (s.obj p).queue x = some v ∧
        (s.obj p).qsrc x ≠ some (s.obj p).addr) ∧
      (entries.map Prod.fst).Nodup := by
  intro s hmem
  have hG : Good s := good_run c hc tr _ (good_init c) hr
  have hQ : InvQ c s := invQ_run c tr _ (invQ_init c)
  have hS : SubInv s := subInv_run c hc tr _ (invA_init c) (subInv_init c)
  obtain ⟨h1, h2, _, h4, h5⟩ := step_event c s e p t entries hmem
  have hent : ∀ x v, (x, v) ∈ entries → subscribed s x (s.obj p).addr ∧ (x, v) ∈ (s.obj p).queue := by
    intro x v hm
    rw [h5] at hm
    have := List.mem_filter.mp hm
    exact ⟨this.2, this.1⟩
  refine ⟨?_, h1, h4, fun x v hm => ⟨(hent x v hm).1, aget_of_mem _ x v (hQ p).nodup (hent x v hm).2, (hQ p).src x⟩, ?_⟩
  · -- verified: some entry exists, its subscription belongs to a live verified connection from the
    -- same address, and `p` (non-empty queue, hence open, hence not lost) is the only live one
    cases hE : entries with
    | nil => exact absurd hE h4
    | cons hd tl =>
      obtain ⟨x, v⟩ := hd
      have hm : (x, v) ∈ entries := by rw [hE]; exact List.mem_cons_self ..
      obtain ⟨w, w1, w2, w3, w4⟩ := hS _ x (hent x v hm).1
      have hpl : (s.obj p).lost = false := by
        cases hh : (s.obj p).lost with
        | false => rfl
        | true =>
          have hq := (hG.a.closing_empty p (hG.a.lost_closing p hh)).1
          have := (hent x v hm).2
          rw [hq] at this; cases this
      have := hG.uniq w p w1 h2 w3 hpl w2
      subst this; exact w4
  · rw [h5]; exact nodup_filter_keys _ _ (hQ p).nodup

/-- **C12_immediate.** In every reachable state, a queued entry of a button-type
    (IMMEDIATE_NOTIFY) characteristic has a `call_soon(_send_events)` callback pending on that
    connection: it is flushed by the next loop iteration, never left to the 0.5 s timer. -/
theorem C12_immediate (c : Cfg) (tr : List Ev) (p : ObjId) (x : Cid) (v : Val) :
    let s := (run c (init c) tr).1
    aget (s.obj p).queue x = some v → c.imm x = true → 0 < (s.obj p).soon := by
  intro s h hi
  exact (invQ_run c tr _ (invQ_init c) p).imm x (by rw [h]; rfl) hi

/-- **C12_every_subscriber_served** (the "reach" direction: nobody who is owed the change is left
    out). After every history, when the application changes the value of `x` to `v`
    (`char.set_value(v)`, value really changes), every registered connection whose address is subscribed
    to `x` afterwards has `(x, v)` queued and a flush pending (the coalescing timer, or a `call_soon`
    callback for button types), and is under the quiescence obligation (`since`). With
    `C12_recipients` (only verified, subscribed, non-originating connections are written to) this is
    "exactly the subscribed other controllers". -/
theorem C12_every_subscriber_served (c : Cfg) (hc : c.fix13 = true) (tr : List Ev) (x : Cid) (v : Val) :
    let s := (run c (init c) tr).1
    let s' := (step c s (Ev.appSet x v)).1
    s.value x ≠ some v → ∀ q, registered s' q → subscribed s' x (s'.obj q).addr →
      aget (s'.obj q).queue x = some v ∧ pendingFlush s' q ∧ (s'.obj q).since x = true := by
  intro s s' hch q hr hsub
  exact appSet_serves_all c s x v (invA_run c hc tr _ (invA_init c)) hch q hr hsub

/-- "activity has stopped" on the loop: no coalescing timer and no `call_soon` flush is pending on
    any connection -/
def Quiescent (s : St) : Prop := ∀ p, p < s.nobj → ¬ pendingFlush s p

/-- "activity has stopped" altogether: additionally no hand-off from a worker thread is waiting for
    the loop -/
def QuiescentFull (s : St) : Prop := Quiescent s ∧ s.handoffs = []

/-- **C12_quiescent** (full statement, every interleaving of application changes — on the loop
    thread *and on worker threads* — controller writes, (un)subscriptions, timers, connects and
    disconnects). After every history respecting the reuse hypothesis, whenever activity has
    stopped: every connection that has been subscribed to `x` without interruption since the most
    recent notified change of `x` (ghost `since`) is still registered and subscribed and last
    learned — from the latest event it received or its own acknowledged write, whichever came later
    (ghost `learned`) — exactly the current value of `x` (always-null characteristics excluded). -/
def C12_quiescent_statement (c : Cfg) : Prop :=
  ∀ tr : List Ev, ReuseOK c (init c) tr →
    let s := (run c (init c) tr).1
    QuiescentFull s → ∀ p x, (s.obj p).since x = true → c.nul x = false →
      registered s p ∧ subscribed s x (s.obj p).addr ∧ (s.obj p).learned x = s.value x

/-- **C12_quiescent_partial.** The statement holds for every history in which the application
    changes values on the loop thread only (`NoWorker`: no `AppSetWorker`; for worker-thread changes
    the full statement is false, see `C12_quiescent_fails`), **for every configuration of setter
    callbacks** in the alphabet (echo the written value, set a different value, set another
    characteristic, raise) satisfying `CbOK`: the repair for raising callbacks is applied (`fixRaise`;
    without it see `C12_legacy_failed_write_counterexample`) and state-changing callbacks sit on
    characteristics that are not always-null. Proved from the invariant
    `since p x → queue p x ⊆ {value x} ∧ (learned p x = value x ∨ (queue p x = value x ∧ (timer p ∨ soon p)))`
    (`InvL`), i.e. DESIGN's `owed(c,x) → queue c x = some (value x) ∧ (timer c ∨ soon c)` with
    `owed c x := since c x ∧ learned c x ≠ value x`. Needs the C12 repair (`fix12`). -/
theorem C12_quiescent_partial (c : Cfg) (h12 : c.fix12 = true) (h13 : c.fix13 = true)
    (hcb : CbOK c)
    (tr : List Ev) (hr : ReuseOK c (init c) tr) (hw : NoWorker tr) :
    let s := (run c (init c) tr).1
    Quiescent s → ∀ p x, (s.obj p).since x = true → c.nul x = false →
      registered s p ∧ subscribed s x (s.obj p).addr ∧ (s.obj p).learned x = s.value x := by
  intro s hq p x hs hn
  have hL : InvL c s := invL_run c h12 h13 hcb tr hr hw
  have hA : InvA s := invA_run c h13 tr _ (invA_init c)
  obtain ⟨g1, g2, g3⟩ := hL p x hs
  obtain ⟨v, v1, _, v3⟩ := g3 hn
  refine ⟨g1, g2, ?_⟩
  rcases v3 with h | h
  · rw [h, v1]
  · exact absurd h.2 (hq p (registered_live s hA p g1).1)

/-- **C12_drain.** Activity does stop: running the pending `call_soon` callbacks and the timer of
    every connection (`drainAll`, ordinary events of the model) leaves no flush pending. -/
theorem C12_drain (c : Cfg) (s : St) : Quiescent (run c s (drainAll s)).1 :=
  drainAll_quiet c s

/-- **C12_quiescent_after_drain_partial** ("all traces, then drain" form). After any history
    without worker-thread changes respecting the reuse hypothesis, followed by the drain, every
    connection subscribed to `x` since its last change has learned the current value of `x`. -/
theorem C12_quiescent_after_drain_partial (c : Cfg) (h12 : c.fix12 = true) (h13 : c.fix13 = true)
    (hcb : CbOK c) (tr : List Ev)
    (hr : ReuseOK c (init c) tr) (hw : NoWorker tr) :
    let s := (run c (init c) tr).1
    let s' := (run c s (drainAll s)).1
    ∀ p x, (s'.obj p).since x = true → c.nul x = false →
      registered s' p ∧ subscribed s' x (s'.obj p).addr ∧ (s'.obj p).learned x = s'.value x := by
  intro s s' p x hs hn
  have hr' : ReuseOK c (init c) (tr ++ drainAll s) :=
    (reuseOK_append c _ tr _).mpr ⟨hr, reuseOK_noConnect c _ (drainAll_noConnect s) _⟩
  have hw' : NoWorker (tr ++ drainAll s) := by
    intro e he
    rcases List.mem_append.mp he with h | h
    · exact hw e h
    · simp only [drainAll, drainList, List.mem_flatMap] at h
      obtain ⟨q, _, hq⟩ := h
      rcases drainOf_events s q e hq with rfl | rfl <;> simp [notWorker]
  have e : (run c (init c) (tr ++ drainAll s)).1 = s' := run_append c _ tr _
  have := C12_quiescent_partial c h12 h13 hcb (tr ++ drainAll s) hr' hw'
  simp only [e] at this
  exact this (C12_drain c s) p x hs hn

/-- **C12_no_stale_after_resubscription** (with design/fixes/C12-resubscribe.patch, `fixResub`).
    After every history respecting the reuse hypothesis, a registered connection has nothing queued
    for a characteristic its address is not subscribed to: the entry queued before an
    unsubscription is dropped with it and nothing is queued while unsubscribed. Hence at the moment a
    connection (re-)subscribes to `x` its queue holds no entry for `x`, and every entry for `x` it
    is sent afterwards stems from a change made after that subscription began (and, by last-value
    coalescing and `C12_quiescent`, ends with the current value). -/
theorem C12_no_stale_after_resubscription (c : Cfg) (hr : c.fixResub = true) (h13 : c.fix13 = true)
    (tr : List Ev) (hre : ReuseOK c (init c) tr) (p : ObjId) (x : Cid) :
    let s := (run c (init c) tr).1
    registered s p → ¬ subscribed s x (s.obj p).addr → aget (s.obj p).queue x = none := by
  intro s h1 h2
  have := no_run c hr h13 tr _ (noOrphan_init c) (good_init c) hre
  apply this p x h1
  cases hm : memT (s.topics x) (s.obj p).addr with
  | false => rfl
  | true => exact absurd hm h2

/-! ### the code before the repair -/

def exCfg12 : Cfg := { imm := fun x => x == 2 || x == 3, nul := fun x => x == 2 }
def legacyCfg12 : Cfg := { exCfg12 with fix12 := false }

/-- subscribe A to x; the application sets x = 10 (queued for A, timer armed); A writes x = 20
    inside the window (A is skipped as originator, its queue still holds 10); the timer fires -/
def staleTrace : List Ev :=
  [Ev.connect 0, Ev.verify 0, Ev.data 0 (Req.put 0 (some true) none false), Ev.appSet 0 10,
   Ev.data 0 (Req.put 0 none (some 20) false), Ev.timerFire 0]

instance (s : St) (p : ObjId) : Decidable (pendingFlush s p) := by unfold pendingFlush; infer_instance

/-- On the unrepaired code the originator receives its stale queued event after its own
    acknowledged write: at quiescence A last learned 10 while the value is 20, although A has been
    subscribed all along. Replayed on the real code by the harness
    (signature `C12:originator-stale-event-after-own-write`). -/
theorem C12_legacy_stale_counterexample :
    let r := run legacyCfg12 (init legacyCfg12) staleTrace
    r.2 = [Out.resp 0 0 204 Body.none, Out.resp 0 0 204 Body.none, Out.event 0 0 [(0, 10)]] ∧
    ¬ pendingFlush r.1 0 ∧ (r.1.obj 0).since 0 = true ∧ (r.1.obj 0).learned 0 = some 10 ∧ r.1.value 0 = some 20 := by
  decide

/-- unsubscribe and re-subscribe inside one coalescing window around a second change -/
def resubTrace : List Ev :=
  [Ev.connect 0, Ev.verify 0, Ev.data 0 (Req.put 0 (some true) none false), Ev.appSet 0 10,
   Ev.data 0 (Req.put 0 (some false) none false), Ev.appSet 0 20,
   Ev.data 0 (Req.put 0 (some true) none false), Ev.timerFire 0]

def legacyResubCfg : Cfg := { exCfg12 with fixResub := false }

/-- Without `discard_event` the value queued before the unsubscription (10) is delivered after the
    re-subscription although the value is 20 by then; with it nothing is sent. Replayed on the real
    code by the harness (signature `C12:stale-event-after-resubscription`). -/
theorem C12_legacy_resubscribe_counterexample :
    (run legacyResubCfg (init legacyResubCfg) resubTrace).2
      = [Out.resp 0 0 204 Body.none, Out.resp 0 0 204 Body.none, Out.resp 0 0 204 Body.none, Out.event 0 0 [(0, 10)]] ∧
    (run legacyResubCfg (init legacyResubCfg) resubTrace).1.value 0 = some 20 ∧
    (run exCfg12 (init exCfg12) resubTrace).2
      = [Out.resp 0 0 204 Body.none, Out.resp 0 0 204 Body.none, Out.resp 0 0 204 Body.none] := by
  decide

/-! ### the worker-thread hand-off: the full statement fails on the code as it is -/

/-- A subscribed to x; a worker thread sets x = 10 (value 10, hand-off queued for the loop); before
    the loop runs the hand-off controller B writes x = 20 (value 20, A's queue entry 20); the
    deferred hand-off runs and overwrites A's entry with the captured 10; the timer fires. -/
def workerTrace : List Ev :=
  [Ev.connect 0, Ev.verify 0, Ev.data 0 (Req.put 0 (some true) none false), Ev.connect 1, Ev.verify 1,
   Ev.appSetWorker 0 10, Ev.data 1 (Req.put 0 none (some 20) false), Ev.handOff, Ev.timerFire 0]

instance instDecAllLost12 (s : St) (a : Addr) : Decidable (allLost s a) := by unfold allLost; infer_instance

instance (s : St) (e : Ev) : Decidable (reuseCond s e) := by
  cases e <;> simp only [reuseCond] <;> infer_instance

instance decReuseOK (c : Cfg) : (s : St) → (tr : List Ev) → Decidable (ReuseOK c s tr)
  | _, [] => isTrue trivial
  | s, e :: es =>
    have := decReuseOK c (step c s e).1 es
    decidable_of_iff _ (reuseOK_cons c s e es).symm

instance (s : St) : Decidable (Quiescent s) := by unfold Quiescent; infer_instance
instance (s : St) : Decidable (QuiescentFull s) := by unfold QuiescentFull; infer_instance
instance (s : St) (p : ObjId) : Decidable (registered s p) := by unfold registered; infer_instance

/-- the code without design/fixes/C12-stale-handoff.patch -/
def legacyHandCfg : Cfg := { exCfg12 with fixHand := false }

/-- the witness: everything has stopped, A has been subscribed all along, its only EVENT carried 10,
    the value is 20 (all other repairs on) -/
theorem C12_worker_handoff_counterexample :
    let r := run legacyHandCfg (init legacyHandCfg) workerTrace
    ReuseOK legacyHandCfg (init legacyHandCfg) workerTrace ∧ QuiescentFull r.1 ∧
    r.2 = [Out.resp 0 0 204 Body.none, Out.resp 1 0 204 Body.none, Out.event 0 0 [(0, 10)]] ∧
    (r.1.obj 0).since 0 = true ∧ (r.1.obj 0).learned 0 = some 10 ∧ r.1.value 0 = some 20 := by
  decide

/-- **C12_quiescent_fails.** The full statement is false for the code without the stale-hand-off
    repair: a change handed over from a worker thread can be overtaken by a controller write and is
    then delivered last. Replayed on the real code (real thread, `call_soon_threadsafe`) by the
    harness; signature `C12:worker-change-overtaken-by-newer-change`. -/
theorem C12_quiescent_fails : ¬ C12_quiescent_statement legacyHandCfg := by
  intro h
  have w := C12_worker_handoff_counterexample
  have := h workerTrace w.1 w.2.1 0 0 w.2.2.2.1 (by decide)
  have e1 := this.2.2
  rw [w.2.2.2.2.1, w.2.2.2.2.2] at e1
  cases e1

/-- With the repair (`fixHand`: the loop drops a hand-off whose captured value is no longer the value
    of the characteristic) the same history ends with A having learned 20, the current value: the
    overtaken 10 is never sent. (The full statement `C12_quiescent_statement` for the repaired
    configuration — every history WITH worker-thread changes — is not proved: the invariant `InvL`
    would have to be weakened by "or a hand-off carrying the current value is pending" and carried
    through every event again. It is checked by the differential run and the oracle only.) -/
theorem C12_worker_handoff_repaired :
    let r := run exCfg12 (init exCfg12) workerTrace
    ReuseOK exCfg12 (init exCfg12) workerTrace ∧ QuiescentFull r.1 ∧
    r.2 = [Out.resp 0 0 204 Body.none, Out.resp 1 0 204 Body.none, Out.event 0 0 [(0, 20)]] ∧
    (r.1.obj 0).since 0 = true ∧ (r.1.obj 0).learned 0 = some 20 ∧ r.1.value 0 = some 20 := by
  decide

/-! ### setter callbacks inside `client_update_value` -/

def cbCfg : Cfg := { exCfg12 with cb := fun x => if x = 0 then Callback.echo else if x = 1 then Callback.setTo 7 else Callback.none }

/-- A (writer) and B subscribed to 0 and 1. An echoing callback (`char.set_value(value)`) produces no
    second notification: A, the originator, gets nothing, B gets the value once. A clamping callback
    (`char.set_value(7)` on a write of 50) is a change A did not make: A gets 7 too. -/
theorem C12_callback_behaviour :
    (run cbCfg (init cbCfg)
      [Ev.connect 0, Ev.verify 0, Ev.connect 1, Ev.verify 1,
       Ev.data 0 (Req.put 0 (some true) none false), Ev.data 1 (Req.put 0 (some true) none false),
       Ev.data 0 (Req.put 0 none (some 5) false), Ev.timerFire 0, Ev.timerFire 1]).2
      = [Out.resp 0 0 204 Body.none, Out.resp 1 0 204 Body.none, Out.resp 0 0 204 Body.none, Out.event 1 0 [(0, 5)]] ∧
    (run cbCfg (init cbCfg)
      [Ev.connect 0, Ev.verify 0, Ev.connect 1, Ev.verify 1,
       Ev.data 0 (Req.put 1 (some true) none false), Ev.data 1 (Req.put 1 (some true) none false),
       Ev.data 0 (Req.put 1 none (some 50) false), Ev.timerFire 0, Ev.timerFire 1]).2
      = [Out.resp 0 0 204 Body.none, Out.resp 1 0 204 Body.none, Out.resp 0 0 204 Body.none,
         Out.event 0 0 [(1, 7)], Out.event 1 0 [(1, 7)]] := by
  decide

/-- the callback configuration of the examples satisfies the hypothesis of the quiescence theorems -/
example : CbOK cbCfg := ⟨rfl, fun x hx => by
  have : x = 2 := by simpa [cbCfg, exCfg12] using hx
  subst this; exact Or.inl rfl⟩

/-- non-vacuity of `C12_quiescent_partial` with callbacks: A (writer) and B subscribed to 1, A writes
    50, the callback clamps to 7; after the flushes everything is quiet, both have been subscribed all
    along and both last learned 7 = the value (A's own write of 50 was superseded by the event) -/
example :
    let r := run cbCfg (init cbCfg)
      [Ev.connect 0, Ev.verify 0, Ev.connect 1, Ev.verify 1,
       Ev.data 0 (Req.put 1 (some true) none false), Ev.data 1 (Req.put 1 (some true) none false),
       Ev.data 0 (Req.put 1 none (some 50) false), Ev.timerFire 0, Ev.timerFire 1]
    (r.1.obj 0).since 1 = true ∧ (r.1.obj 1).since 1 = true ∧ ¬ pendingFlush r.1 0 ∧ ¬ pendingFlush r.1 1 ∧
    (r.1.obj 0).learned 1 = some 7 ∧ (r.1.obj 1).learned 1 = some 7 ∧ r.1.value 1 = some 7 := by
  decide

/-! ### a setter callback that raises -/

def raiseCfg : Cfg := { exCfg12 with cb := fun x => if x = 0 then Callback.raise else Callback.none }
def legacyRaiseCfg : Cfg := { raiseCfg with fixRaise := false }

/-- B is subscribed to 0; A writes 0 := 20 and the setter callback raises -/
def raiseTrace : List Ev :=
  [Ev.connect 0, Ev.verify 0, Ev.connect 1, Ev.verify 1, Ev.data 1 (Req.put 0 (some true) none false),
   Ev.appSet 0 10, Ev.timerFire 1, Ev.data 0 (Req.put 0 none (some 20) false)]

/-- Without the repair the failed write (answered 207 / -70402) leaves 20 stored and nobody is told:
    everything is quiet, B has been subscribed since the last notified change and last learned 10,
    the value is 20. With the repair the value is 10 again. Replayed on the real code by the harness
    (signature `C12:failed-write-changed-value-unannounced`). -/
theorem C12_legacy_failed_write_counterexample :
    let r := run legacyRaiseCfg (init legacyRaiseCfg) raiseTrace
    r.2 = [Out.resp 1 0 204 Body.none, Out.event 1 0 [(0, 10)], Out.resp 0 0 207 (Body.multi [(0, -70402)])] ∧
    ¬ pendingFlush r.1 0 ∧ ¬ pendingFlush r.1 1 ∧ (r.1.obj 1).since 0 = true ∧
    (r.1.obj 1).learned 0 = some 10 ∧ r.1.value 0 = some 20 ∧
    (run raiseCfg (init raiseCfg) raiseTrace).1.value 0 = some 10 ∧
    (run raiseCfg (init raiseCfg) raiseTrace).2 = r.2 := by
  decide

/-! ### several queries in one PUT (scene writes, also across bridged accessories) -/

/-- A is subscribed to characteristic 0 and has 0 = 10 queued; one PUT writes 0 := 20 and 1 := 10
    (characteristics 0 and 1 stand for the same iid on two bridged accessories). The stale entry is
    judged against the characteristic it belongs to, query by query: nothing is delivered, and A's
    knowledge (its own write) is the current value. -/
theorem C12_scene_write_discards_per_query :
    let r := run exCfg12 (init exCfg12)
      [Ev.connect 0, Ev.verify 0, Ev.data 0 (Req.put 0 (some true) none false), Ev.appSet 0 10,
       Ev.data 0 (Req.putMany [(0, none, some 20), (1, none, some 10)] false), Ev.timerFire 0]
    r.2 = [Out.resp 0 0 204 Body.none, Out.resp 0 0 204 Body.none] ∧
    (r.1.obj 0).learned 0 = some 20 ∧ r.1.value 0 = some 20 ∧ r.1.value 1 = some 10 := by
  decide

/-! ### non-vacuity -/

/-- the same history on the repaired model: the stale entry is discarded, nothing is sent, and A's
    knowledge (its own write) equals the value -/
example :
    let r := run exCfg12 (init exCfg12) staleTrace
    r.2 = [Out.resp 0 0 204 Body.none, Out.resp 0 0 204 Body.none] ∧
    ¬ pendingFlush r.1 0 ∧ (r.1.obj 0).since 0 = true ∧ (r.1.obj 0).learned 0 = some 20 ∧ r.1.value 0 = some 20 := by
  decide

instance (s : St) (x : Cid) (a : Addr) : Decidable (subscribed s x a) := by unfold subscribed; infer_instance

/-- non-vacuity of `C12_every_subscriber_served`: two registered subscribers, the value changes -/
example :
    let s := (run exCfg12 (init exCfg12)
      [Ev.connect 0, Ev.verify 0, Ev.connect 1, Ev.verify 1, Ev.data 0 (Req.put 0 (some true) none false),
       Ev.data 1 (Req.put 0 (some true) none false)]).1
    s.value 0 ≠ some 9 ∧ registered s 0 ∧ registered s 1 ∧ subscribed s 0 (s.obj 0).addr ∧ subscribed s 0 (s.obj 1).addr := by
  decide

/-- an EVENT message is really produced (two subscribers, one writes, the other is told) -/
example :
    (run exCfg12 (init exCfg12)
      [Ev.connect 0, Ev.verify 0, Ev.connect 1, Ev.verify 1, Ev.data 0 (Req.put 0 (some true) none false),
       Ev.data 1 (Req.put 0 (some true) (some 7) false), Ev.timerFire 0]).2
      = [Out.resp 0 0 204 Body.none, Out.resp 1 0 204 Body.none, Out.event 0 0 [(0, 7)]] := by
  decide

end Hap.Sys
