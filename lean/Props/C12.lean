import HapModel.SysEvents
namespace Hap.Sys
theorem C12_placeholder : True := trivial
end Hap.Sys
