/-
  C13 — A finished connection leaves nothing behind.
  Property theorems only; the model is HapModel/SysEvents.lean (with design/fixes/C13.patch applied:
  `close()` cancels the event timer and clears the queue), lemmas are in Proofs/SysEvents.lean.

  Address-reuse hypothesis (explicit below as `ReuseOK` / `allLost`): a connection from a peer
  address is accepted only after the loss of every earlier connection from that address has been
  processed (TCP 4-tuple uniqueness).  `close()` deleting the registry entry *by peername* is
  mirrored by the model; the RST-then-reconnect race in which that hits a newer connection is
  outside C13 by this hypothesis.
-/
import Proofs.SysEventsMore
namespace Hap.Sys

/-- **C13_clean (state form).** In every reachable state, for every protocol object `p` whose loss
    has been processed: the registry does not map to `p`; the subscription table has no empty
    entry; and as long as nobody has reconnected from `p`'s address (all connections from it are
    lost) no topic contains that address, `prepared_writes` has no entry for it and the registry
    has none.  (No reuse hypothesis needed for this form.) -/
theorem C13_clean (c : Cfg) (hc : c.fix13 = true) (tr : List Ev) :
    let s := (run c (init c) tr).1
    (∀ x, s.topics x ≠ some []) ∧
    ∀ p, p < s.nobj → (s.obj p).lost = true →
      (∀ a, s.reg a ≠ some p) ∧ (allLost s (s.obj p).addr → holdsNothingFor s (s.obj p).addr) := by
  intro s
  have hA : InvA s := invA_run c hc tr _ (invA_init c)
  have hC : CleanInv s := cleanInv_run c hc tr _ (invA_init c) (cleanInv_init c)
  refine ⟨hA.topics_ne, fun p _ hl => ⟨fun a hr => ?_, fun h => clean_of_allLost s _ hA hC h⟩⟩
  have := (hA.reg_ok a p hr).2.2
  have := hA.lost_closing p hl
  simp_all

/-- **C13_clean (trace form, under the address-reuse hypothesis).** Take any history `tr1`, then the
    loss of connection `p` is processed, then any continuation `tr2` in which nobody connects from
    `p`'s address again: at the end nothing is held for that address (no subscription, no prepared
    write, no registry entry) and the registry does not map to `p`. -/
theorem C13_clean_after_loss (c : Cfg) (hc : c.fix13 = true) (tr1 tr2 : List Ev) (p : ObjId)
    (hr : ReuseOK c (init c) (tr1 ++ Ev.lose p :: tr2))
    (hp : p < (run c (init c) tr1).1.nobj) (hl : ((run c (init c) tr1).1.obj p).lost = false)
    (hno : ∀ e ∈ tr2, e ≠ Ev.connect ((run c (init c) tr1).1.obj p).addr) :
    let s := (run c (init c) (tr1 ++ Ev.lose p :: tr2)).1
    holdsNothingFor s ((run c (init c) tr1).1.obj p).addr ∧ ∀ a, s.reg a ≠ some p := by
  intro s
  generalize hs1 : (run c (init c) tr1).1 = s1 at hp hl hno
  have hr1 := ((reuseOK_append c (init c) tr1 _).mp hr).1
  have hG : Good s1 := by rw [← hs1]; exact good_run c hc tr1 _ (good_init c) hr1
  -- right after the loss every connection from that address is lost
  have hall : allLost (step c s1 (Ev.lose p)).1 (s1.obj p).addr := by
    intro q hq hqa
    simp only [step, hp, hl, and_self, if_true] at hq hqa ⊢
    simp only [markLost, closeP, dropConn, upd_apply] at hq hqa ⊢
    by_cases hqp : q = p
    · simp [hqp]
    · simp only [hqp, if_false] at hqa ⊢
      cases hql : (s1.obj q).lost with
      | true => rfl
      | false => exact absurd (hG.uniq q p hq hp hql hl hqa) hqp
  have hs : s = (run c (step c s1 (Ev.lose p)).1 tr2).1 := by
    show (run c (init c) (tr1 ++ Ev.lose p :: tr2)).1 = _
    rw [run_append, hs1]; rfl
  have hA2 : InvA (step c s1 (Ev.lose p)).1 := invA_step c hc _ _ hG.a
  have hC2 : CleanInv (step c s1 (Ev.lose p)).1 := cleanInv_step c _ _ hG.a hG.clean
  have hp2 : p < (step c s1 (Ev.lose p)).1.nobj := Nat.lt_of_lt_of_le hp (step_nobj_le c s1 _)
  have hl2 : ((step c s1 (Ev.lose p)).1.obj p).lost = true := by
    simp [step, hp, hl, markLost]
  -- carried along tr2
  have key : ∀ (tr : List Ev) (t : St), InvA t → CleanInv t → allLost t (s1.obj p).addr → p < t.nobj →
      (t.obj p).lost = true → (∀ e ∈ tr, e ≠ Ev.connect (s1.obj p).addr) →
      holdsNothingFor (run c t tr).1 (s1.obj p).addr ∧ ∀ a, (run c t tr).1.reg a ≠ some p := by
    intro tr
    induction tr with
    | nil =>
      intro t hA hC hal _ hlt _
      refine ⟨clean_of_allLost t _ hA hC hal, fun a hra => ?_⟩
      have := (hA.reg_ok a p hra).2.2
      have := hA.lost_closing p hlt
      simp_all
    | cons e es ih =>
      intro t hA hC hal hpt hlt hne
      simp only [run]
      exact ih _ (invA_step c hc t e hA) (cleanInv_step c t e hA hC)
        (allLost_step c t e _ hal (hne e (List.mem_cons_self ..)))
        (Nat.lt_of_lt_of_le hpt (step_nobj_le c t e)) ((step_obj_mono c t e p hpt).2.2 hlt)
        (fun e' he' => hne e' (List.mem_cons_of_mem _ he'))
  rw [hs]
  exact key tr2 _ hA2 hC2 hall hp2 hl2 hno

/-- **C13_silent.** After `close()` of a connection — in particular once its loss has been
    processed — no later output is a write (EVENT message or HTTP response) on its transport,
    whatever happens next (timers, pending `call_soon` callbacks, delayed snapshot responses,
    reconnects from the same address, …). -/
theorem C13_silent (c : Cfg) (hc : c.fix13 = true) (tr1 tr2 : List Ev) (p : ObjId)
    (hp : p < (run c (init c) tr1).1.nobj)
    (hcl : ((run c (init c) tr1).1.obj p).closing = true ∨ ((run c (init c) tr1).1.obj p).lost = true) :
    ∀ o ∈ (run c (run c (init c) tr1).1 tr2).2, ¬ o.isWriteTo p := by
  have hA : InvA (run c (init c) tr1).1 := invA_run c hc tr1 _ (invA_init c)
  have : ((run c (init c) tr1).1.obj p).closing = true := by
    rcases hcl with h | h
    · exact h
    · exact hA.lost_closing p h
  exact run_silent c hc tr2 _ p hA hp this

/-- **C13_fresh.** A connection accepted from address `a` when every earlier connection from `a`
    has been lost (the reuse hypothesis, stated as `allLost`) starts with no subscription and no
    prepared write, is unverified, and has an empty event queue with no timer or callback pending. -/
theorem C13_fresh (c : Cfg) (hc : c.fix13 = true) (tr : List Ev) (a : Addr)
    (hreuse : allLost (run c (init c) tr).1 a) (hrun : (run c (init c) tr).1.stopped = false) :
    let s := (run c (init c) tr).1
    let s' := (step c s (Ev.connect a)).1
    s'.reg a = some s.nobj ∧ (∀ x, ¬ subscribed s' x a) ∧ s'.prepared a = none ∧
    (s'.obj s.nobj).addr = a ∧ (s'.obj s.nobj).verified = false ∧ (s'.obj s.nobj).queue = [] ∧
    (s'.obj s.nobj).timer = none ∧ (s'.obj s.nobj).soon = 0 ∧ (s'.obj s.nobj).pending = false := by
  intro s s'
  have hA : InvA s := invA_run c hc tr _ (invA_init c)
  have hC : CleanInv s := cleanInv_run c hc tr _ (invA_init c) (cleanInv_init c)
  obtain ⟨g1, g2, _⟩ := clean_of_allLost s a hA hC hreuse
  have hs : s.stopped = false := hrun
  simp only [s', step, hs]
  simp [g2, subscribed] at g1 ⊢
  exact g1

/-- **C13_idle (only idle connections are swept).** If the idle sweep closes a connection, that
    connection was registered and its last activity lies more than 90 h before now. -/
theorem C13_idle (c : Cfg) (tr : List Ev) (p : ObjId) :
    let s := (run c (init c) tr).1
    (s.obj p).closing = false → ((step c s Ev.idleSweep).1.obj p).closing = true →
    registered s p ∧ (s.obj p).last + IDLE < s.now :=
  fun h0 h1 => idleSweep_closes_only_idle c _ p h0 h1

/-- **C13_idle (activity refreshes).** Every request received on an open connection — read, write,
    subscription, prepare, anything — sets its `last_activity` to now. -/
theorem C13_idle_refresh (c : Cfg) (tr : List Ev) (p : ObjId) (r : Req) :
    let s := (run c (init c) tr).1
    p < s.nobj → (s.obj p).closing = false → ((step c s (Ev.data p r)).1.obj p).last = s.now :=
  fun h1 h2 => data_refreshes c _ p r ⟨h1, h2⟩

/-- **C13_idle (active connections are never closed as idle).** If connection `p` received a request
    at time `t0`, then an idle sweep at any later time `≤ t0 + 90 h`, after any history in between,
    does not close it. -/
theorem C13_idle_active (c : Cfg) (hc : c.fix13 = true) (tr1 tr2 : List Ev) (p : ObjId) (r : Req) :
    let s1 := (run c (init c) tr1).1
    let s2 := (run c (step c s1 (Ev.data p r)).1 tr2).1
    p < s1.nobj → (s1.obj p).closing = false → s2.now ≤ s1.now + IDLE →
    (s2.obj p).closing = false → ((step c s2 Ev.idleSweep).1.obj p).closing = false := by
  intro s1 s2 hp hcl hnow h2
  have hA1 : InvA s1 := invA_run c hc tr1 _ (invA_init c)
  have hA1' : InvA (step c s1 (Ev.data p r)).1 := invA_step c hc _ _ hA1
  have hlast := data_refreshes c s1 p r ⟨hp, hcl⟩
  have hp' : p < (step c s1 (Ev.data p r)).1.nobj := Nat.lt_of_lt_of_le hp (step_nobj_le c s1 _)
  have hm := run_last_mono c hc tr2 _ p hp' hA1'
  cases hh : ((step c s2 Ev.idleSweep).1.obj p).closing with
  | false => rfl
  | true =>
    have := (idleSweep_closes_only_idle c s2 p h2 hh).2
    have e : (run c (step c s1 (Ev.data p r)).1 tr2).1 = s2 := rfl
    rw [e] at hm
    omega

/-- **C13_idle (being written to is activity too).** If a step writes bytes to connection `p` — an
    EVENT message pushed to it or an HTTP response, at time `t0` — then an idle sweep at any later time
    `≤ t0 + 90 h`, after any history in between, does not close it: `write()` refreshes
    `last_activity`, so a controller that only listens to events is never swept as idle while events
    keep arriving. Together with `C13_idle_active` (requests received) this covers "every read and
    write". -/
theorem C13_idle_active_write (c : Cfg) (hc : c.fix13 = true) (tr1 tr2 : List Ev) (e : Ev) (p : ObjId) (o : Out) :
    let s1 := (run c (init c) tr1).1
    let s2 := (run c (step c s1 e).1 tr2).1
    o ∈ (step c s1 e).2 → o.isWriteTo p → s2.now ≤ s1.now + IDLE →
    (s2.obj p).closing = false → ((step c s2 Ev.idleSweep).1.obj p).closing = false := by
  intro s1 s2 ho hw hnow h2
  have hA1 : InvA s1 := invA_run c hc tr1 _ (invA_init c)
  have hA1' : InvA (step c s1 e).1 := invA_step c hc _ _ hA1
  obtain ⟨hlast, _, hp⟩ := step_write_refreshes c s1 e p o ho hw
  have hp' : p < (step c s1 e).1.nobj := Nat.lt_of_lt_of_le hp (step_nobj_le c s1 _)
  have hm := run_last_mono c hc tr2 _ p hp' hA1'
  cases hh : ((step c s2 Ev.idleSweep).1.obj p).closing with
  | false => rfl
  | true =>
    have := (idleSweep_closes_only_idle c s2 p h2 hh).2
    have e2 : (run c (step c s1 e).1 tr2).1 = s2 := rfl
    rw [e2] at hm
    omega

/-! ### the code before the repair: the old object's timer survives `close()` -/

def exCfg : Cfg := { imm := fun x => x == 2 || x == 3, nul := fun x => x == 2 }
def legacyCfg : Cfg := { exCfg with fix13 := false }

/-- subscribe, a change arms the 0.5 s timer, the connection is lost, the same address reconnects
    and resubscribes inside the window -/
def legacyTrace : List Ev :=
  [Ev.connect 0, Ev.verify 0, Ev.data 0 (Req.put 0 (some true) none false), Ev.appSet 0 10,
   Ev.lose 0, Ev.connect 0, Ev.verify 1, Ev.data 1 (Req.put 0 (some true) none false)]

instance (s : St) (a : Addr) : Decidable (allLost s a) := by unfold allLost; infer_instance
instance (s : St) (x : Cid) (a : Addr) : Decidable (subscribed s x a) := by unfold subscribed; infer_instance

/-- On the unrepaired `close()` the stale event is written to the transport of connection 0 after
    its loss was processed (the trace respects the reuse hypothesis). Replayed on the real code by
    the harness. -/
theorem C13_legacy_counterexample :
    let s := (run legacyCfg (init legacyCfg) legacyTrace).1
    (s.obj 0).lost = true ∧ (step legacyCfg s (Ev.timerFire 0)).2 = [Out.event 0 0 [(0, 10)]] := by
  decide

/-! ### non-vacuity: the hypotheses are satisfiable on concrete non-trivial histories -/

/-- the same history on the repaired model: reuse hypothesis holds, connection 0 is lost, a new
    connection from its address exists and is subscribed, and the old timer is gone -/
example :
    let s := (run exCfg (init exCfg) legacyTrace).1
    (s.obj 0).lost = true ∧ allLost (run exCfg (init exCfg) (legacyTrace.take 5)).1 0 ∧
    s.reg 0 = some 1 ∧ subscribed s 0 0 ∧ (step exCfg s (Ev.timerFire 0)).2 = [] := by
  decide

/-- non-vacuity of `C13_idle_active_write`: a connection that has sent nothing for almost 90 h is
    pushed an EVENT; 89 h later it is still open and the sweep spares it -/
example :
    let tr1 := [Ev.connect 0, Ev.verify 0, Ev.data 0 (Req.put 0 (some true) none false), Ev.tick (IDLE - 100), Ev.appSet 0 5]
    let s1 := (run exCfg (init exCfg) tr1).1
    let s2 := (run exCfg (step exCfg s1 (Ev.timerFire 0)).1 [Ev.tick (IDLE - 200)]).1
    Out.event 0 (IDLE - 100) [(0, 5)] ∈ (step exCfg s1 (Ev.timerFire 0)).2 ∧ s2.now ≤ s1.now + IDLE ∧
    (s2.obj 0).closing = false ∧ ((step exCfg s2 Ev.idleSweep).1.obj 0).closing = false := by
  decide

/-- an idle sweep that does close a connection (silent for more than 90 h) -/
example :
    let s := (run exCfg (init exCfg) [Ev.connect 0, Ev.tick (IDLE + 1)]).1
    (s.obj 0).closing = false ∧ ((step exCfg s Ev.idleSweep).1.obj 0).closing = true := by
  decide

end Hap.Sys
