import HapModel.SysEvents
namespace Hap.Sys
theorem C13_placeholder : True := trivial
end Hap.Sys
