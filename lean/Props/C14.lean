/-
  C14 — Saved accessory state reloads to the same identity and pairings.
  Property theorems only; lemmas live in Proofs/Encoder.lean.  The JSON text layer (`json.dump` /
  `json.load`) is the trusted library: the model works on the document tree.
-/
import Proofs.Encoder
import Proofs.EncoderJson
import Proofs.PairStateFull
namespace Hap.Encoder
open Hap Hap.PairState

/-- `bytes.fromhex(b.hex()) == b` for every byte string. -/
theorem C14_hex_roundtrip (b : Bytes) : ofHex (toHex b) = some b := ofHex_toHex b

/-- `uuid.UUID(str(u)) == u` for every 128-bit value: the 36-character text
    (8-4-4-4-12 lower-case hex digits) parses back to the same number. -/
theorem C14_uuid_str_roundtrip (u : Uuid) : uuidOfStr (strOfUuid u) = some u := uuidOfStr_strOfUuid u

/-- shape of `str(u)`: 36 characters -/
theorem C14_uuid_str_length (u : Uuid) : (strOfUuidL u).length = 36 := by
  simp [strOfUuidL, hyphenate, hex32, nibbles_length]

/-- Round trip: for EVERY state (any number of controllers, any permission value, any identifier
    bytes, any key bytes, any mac, any configuration number, database hash absent or present)
    that satisfies the representation invariant of a Python `State` (dict keys unique, the two
    Ed25519 keys are 32 bytes), loading the saved document into a fresh state gives back exactly
    the same accessory identifier, key pair, configuration number, database hash and the three
    pairing maps — keys, permissions and originally presented identifier bytes, in order. -/
theorem C14_roundtrip (a : AccState) (h : WF a) : load (persist a) = some a := load_persist a h

/-- Every state reached through a pairing history (C06 operations from the empty state, any
    `uuid` parser) satisfies the dict part of the invariant, so `C14_roundtrip` applies to it
    with any identity whose keys are 32 bytes long. -/
theorem C14_reachable_wf (parse : Bytes → Option Uuid) (ops : List Op) (mac : String) (cv : Int)
    (ah : Option String) (priv pub : Bytes) (h1 : priv.length = 32) (h2 : pub.length = 32) :
    WF ⟨mac, cv, ah, priv, pub, run parse PState.empty ops⟩ := by
  obtain ⟨⟨n1, n2, n3⟩, _⟩ := keysNodup_run parse ops PState.empty rfl
    ⟨by simp [PState.empty, akeys], by simp [PState.empty, akeys], by simp [PState.empty, akeys]⟩
  exact ⟨n1, n2, n3, h1, h2⟩

/-- Saving after every operation: at EVERY point of every pairing history (every prefix — the
    history is universally quantified), the document `persist` produces from the state of that
    moment loads back to exactly that state. So a file rewritten at each completed save always
    restarts into the current identity, pairings, permissions and identifier bytes — including when
    the last operation changed nothing but a permission byte or the recorded spelling. -/
theorem C14_history_roundtrip (parse : Bytes → Option Uuid) (ops : List Op) (mac : String) (cv : Int)
    (ah : Option String) (priv pub : Bytes) (h1 : priv.length = 32) (h2 : pub.length = 32) :
    load (persist ⟨mac, cv, ah, priv, pub, run parse PState.empty ops⟩)
      = some ⟨mac, cv, ah, priv, pub, run parse PState.empty ops⟩ :=
  C14_roundtrip _ (C14_reachable_wf parse ops mac cv ah priv pub h1 h2)

/-- Files written before permissions were stored (no `client_properties` member): whenever such a
    document loads, every controller of `paired_clients` has a permission entry, each entry is 1,
    and therefore every paired controller is admin. -/
theorem C14_legacy (d : Doc) (a : AccState) (hd : d.clientProperties = none) (h : load d = some a) :
    Aligned a.ps ∧ (∀ e ∈ a.ps.props, e.2 = 1) ∧ ∀ u ∈ akeys a.ps.paired, isAdmin a.ps u = true :=
  load_legacy_spec d a hd h

/-- … and such files do load: for every saved state, the document without its
    `client_properties` member (what a version before permissions wrote) loads, with the same
    identity, keys and recorded identifier bytes, and permission 1 for every paired controller. -/
theorem C14_legacy_loads (a : AccState) (h : WF a) :
    load { persist a with clientProperties := none } =
      some { a with ps := { a.ps with props := a.ps.paired.map fun e => (e.1, 1) } } :=
  load_persist_legacy a h

/-- Oldest generation (files that predate permissions also predate the recorded identifier bytes):
    for every saved state, the document lacking BOTH `client_properties` and `client_uuid_to_bytes`
    loads with the same identity and keys, permission 1 (admin) for every paired controller and an
    empty `uuid_to_bytes`. Whether `accessories_hash` is present does not matter (`persist a` carries
    any value of it, `none` included, and an absent member reads as `none`). -/
theorem C14_legacy_no_id_bytes (a : AccState) (h : WF a) :
    load { persist a with clientProperties := none, clientUuidToBytes := none } =
      some { a with ps := { a.ps with props := a.ps.paired.map fun e => (e.1, 1), u2b := [] } } :=
  load_persist_oldest a h

/-- … and whenever ANY document without `client_properties` and `client_uuid_to_bytes` loads, all its
    controllers are admin and no identifier bytes are recorded. -/
theorem C14_legacy_no_id_bytes_any (d : Doc) (a : AccState) (hd : d.clientProperties = none)
    (hu : d.clientUuidToBytes = none) (h : load d = some a) :
    (∀ u ∈ akeys a.ps.paired, isAdmin a.ps u = true) ∧ a.ps.u2b = [] :=
  load_legacy_no_ids d a hd hu h

/-- Middle generation (permissions stored, identifier bytes not yet): every stored permission is
    kept; only `uuid_to_bytes` is empty. -/
theorem C14_middle_generation (a : AccState) (h : WF a) :
    load { persist a with clientUuidToBytes := none } = some { a with ps := { a.ps with u2b := [] } } :=
  load_persist_middle a h


/-! ### the file layer: member names regenerated from the source

  `persistJ` / `loadJ` (HapModel/EncoderJson.lean) are `persist` / `load` composed with the JSON object of
  the state file; which member carries which field is read from two tables regenerated on every run from
  `AccessoryEncoder.persist` resp. `AccessoryEncoder.load_into` of the tree under check
  (HapModel/Gen/EncoderFields.lean). JSON text (json.dump / json.load) remains the trusted library. -/

/-- The member names `persist` writes are the member names `load_into` reads, field by field, and no two
    fields share a member (both tables as regenerated from the source now). -/
theorem C14_field_names : persistKeys = loadKeys ∧ persistKeys.Distinct := by decide

/-- Lifting lemma, independent of the tables: for EVERY choice of pairwise distinct member names, every
    permissions key and EVERY document (optional members present or absent, hash a string or null), reading
    the JSON object that was written gives back the document. -/
theorem C14_file_layer_any_names (K : Keys) (pk : String) (hK : K.Distinct) (d : Doc) :
    docOfJson K pk (docToJson K pk d) = some d := docOfJson_docToJson K pk hK d

/-- Round trip through the file: for every state satisfying the representation invariant, loading the JSON
    object `persist` writes — members looked up by the names `load_into` uses — gives back exactly that state. -/
theorem C14_roundtrip_file (a : AccState) (h : WF a) : loadJ (persistJ a) = some a :=
  restart_identity C14_field_names a h

/-- Legacy files at the file level: the saved file WITHOUT its `client_properties` member (what a release
    before permissions wrote) loads with every stored key, identifier and the identity intact and permission
    1 for every paired controller; without `client_uuid_to_bytes` as well, with no identifier bytes; and a
    file without the `accessories_hash` member loads with no hash. -/
theorem C14_legacy_file (a : AccState) (h : WF a) :
    loadJ ((persistJ a).without persistKeys.clientProperties) =
      some { a with ps := { a.ps with props := a.ps.paired.map fun e => (e.1, 1) } } ∧
    loadJ (((persistJ a).without persistKeys.clientProperties).without persistKeys.clientUuidToBytes) =
      some { a with ps := { a.ps with props := a.ps.paired.map fun e => (e.1, 1), u2b := [] } } ∧
    loadJ ((persistJ a).without persistKeys.accessoriesHash) = some { a with accessoriesHash := none } := by
  obtain ⟨hn, hd⟩ := C14_field_names
  refine ⟨?_, ?_, ?_⟩
  · unfold loadJ persistJ
    rw [docToJson_without_cp _ _ hd, ← hn, docOfJson_docToJson _ _ hd]
    exact load_persist_legacy a h
  · unfold loadJ persistJ
    rw [docToJson_without_cp _ _ hd, docToJson_without_u2b _ _ hd, ← hn, docOfJson_docToJson _ _ hd]
    exact load_persist_oldest a h
  · unfold loadJ persistJ
    rw [← hn, docOfJson_without_hash _ _ hd]
    have := load_persist { a with accessoriesHash := none } ⟨h.paired, h.props, h.u2b, h.priv, h.pub⟩
    simpa [persist] using this

/-- Whatever `load_into` produces — from a current, legacy, respelled or hand-written document — satisfies
    the representation invariant, so every round-trip theorem above applies to it and to every state reached
    from it. -/
theorem C14_loaded_wf (d : Doc) (a : AccState) (h : load d = some a) : WF a := load_wf d a h

/-- Every state reachable through a WHOLE-LIFE history — pair-setup completions, pair-verify exchanges (incl.
    the identifier back-fill), `POST /pairings` requests of any kind on any connection, configuration-number
    increments, hash updates and restarts, in any order, from a fresh accessory or from any loaded file
    (`HRel` start, see `C06_start_fresh` / `C06_start_loaded` / `C06_start_legacy`) — saves to a file that
    loads back to exactly that state; consequently a restart at any point of any history changes nothing but
    the connections. -/
theorem C14_whole_life_roundtrip (parse : Bytes → Option Uuid) (ops : List HOp) (w : World) (a : Abs) (who : Who)
    (h : HRel parse w a who) :
    loadJ (persistJ (hrun parse w ops).acc) = some (hrun parse w ops).acc ∧
    (hstep parse (hrun parse w ops) .restart).1.acc = (hrun parse w ops).acc ∧
    (hstep parse (hrun parse w ops) .restart).2 = .restarted true := by
  have hr := hrel_run parse C14_field_names ops w a who h
  rw [hrunBoth_fst] at hr
  have e := restart_identity C14_field_names _ hr.wf
  exact ⟨e, by simp only [hstep, e], by simp only [hstep, e]⟩


/-- whether an answer says that a save of the state was scheduled -/
def _root_.Hap.PairState.HAns.savedFlag : HAns → Bool
  | .resp _ wr => wr
  | .verified _ wr => wr
  | .saved wr => wr
  | .restarted _ => false

/-- Every change reaches the file: in every world the invariant describes — hence at every point of every
    whole-life history, in particular in the second and every later run of a driver object that was stopped and
    started again — an operation that changes ANYTHING of the persisted state (a pairing, a permission byte, an
    identifier spelling, a back-filled identifier, the configuration number, the hash) schedules a save. (A
    restart and a stop change nothing persisted.) Together with `C14_whole_life_roundtrip`: the file of the
    last completed save loads to the current state. -/
theorem C14_every_change_is_saved (parse : Bytes → Option Uuid) (w : World) (a : Abs) (who : Who)
    (h : HRel parse w a who) (op : HOp) (hch : (hstep parse w op).1.acc ≠ w.acc) :
    (hstep parse w op).2.savedFlag = true := by
  have hal := rel_aligned h.rel
  cases op with
  | s sop =>
    cases sop with
    | setup idb key =>
      rcases step_cases parse w.acc.ps (.setup idb key) hal with ⟨resp, e⟩ | ⟨_, _, _, s', _, e⟩ | ⟨u, pc, _, _, e⟩
      · exfalso; apply hch; simp only [hstep, e]
      · simp only [hstep, e, HAns.savedFlag]
      · simp only [hstep, e, HAns.savedFlag]
    | req c body =>
      rcases step_cases parse w.acc.ps (.req ⟨w.ss c, body⟩) hal with ⟨resp, e⟩ | ⟨_, _, _, s', _, e⟩ | ⟨u, pc, _, _, e⟩
      · exfalso; apply hch; simp only [step] at e; simp only [hstep, e]
      · simp only [step] at e; simp only [hstep, e, HAns.savedFlag]
      · simp only [step] at e; simp only [hstep, e, HAns.savedFlag]
    | verify c v =>
      simp only [hstep] at hch ⊢
      cases hv : verifiesAs parse w.acc.ps v with
      | none => rw [hv] at hch; exact absurd rfl hch
      | some p =>
        obtain ⟨u, idb⟩ := p
        rw [hv] at hch
        simp only [HAns.savedFlag]
        unfold backfill at hch ⊢
        split
        · rfl
        · next hb => exfalso; apply hch; simp only [hb]
  | config => rfl
  | hsh hh =>
    simp only [hstep, setAccessoriesHash] at hch ⊢
    by_cases he : w.acc.accessoriesHash = hh
    · simp only [he, if_true] at hch; exact absurd rfl hch
    · simp only [he, if_false, HAns.savedFlag]
  | restart =>
    exfalso; apply hch
    simp only [hstep, restart_identity C14_field_names w.acc h.wf]
  | stop => exact absurd rfl hch

/-- a configuration number in range -/
def CvInRange (a : AccState) : Prop := 1 ≤ a.configVersion ∧ a.configVersion ≤ MAXCV

/-- "every configuration number in range": the range 1..65535 (`MAX_CONFIG_VERSION` regenerated from
    pyhap/const.py) is kept by every operation of a whole-life history — an increment at the maximum wraps
    to 1, a restart restores the stored number exactly. -/
theorem C14_config_version_in_range (parse : Bytes → Option Uuid) (ops : List HOp) (w : World) (a : Abs) (who : Who)
    (h : HRel parse w a who) (hcv : CvInRange w.acc) : CvInRange (hrun parse w ops).acc := by
  induction ops generalizing w a who with
  | nil => exact hcv
  | cons op rest ih =>
    refine ih _ _ _ (hrel_step parse C14_field_names w a who h op) ?_
    have hinc : ∀ x : AccState, CvInRange x → CvInRange (incrementConfigVersion x) := by
      intro x hx
      unfold CvInRange incrementConfigVersion at *
      have : MAXCV = 65535 := by decide
      simp only
      split <;> omega
    cases op with
    | s sop => rw [(hstep_s parse w sop).2.2]; exact hcv
    | config => exact hinc _ hcv
    | hsh hh =>
      simp only [hstep, setAccessoriesHash]
      split
      · exact hcv
      · exact hinc _ hcv
    | restart => simp only [hstep, restart_identity C14_field_names w.acc h.wf]; exact hcv
    | stop => exact hcv

/-- Behaviour after a restart: on the reloaded state the list-pairings answer, the admin test, the
    long-term key looked up by pair-verify, the outcome of EVERY pair-verify exchange and the answer to EVERY
    `POST /pairings` are those of the saved state, and the identity (identifier, key pair, configuration
    number, database hash) is the saved one. -/
theorem C14_behaviour (a : AccState) (h : WF a) :
    ∃ b, load (persist a) = some b ∧
      listItems b.ps = listItems a.ps ∧
      (∀ u, isAdmin b.ps u = isAdmin a.ps u) ∧
      (∀ u, aget b.ps.paired u = aget a.ps.paired u) ∧
      (∀ (parse : Bytes → Option Uuid) (v : VerifyAttempt), verifiesAs parse b.ps v = verifiesAs parse a.ps v) ∧
      (∀ (parse : Bytes → Option Uuid) (c : Conn) (body : Bytes), handlePairings parse b.ps ⟨c, body⟩ = handlePairings parse a.ps ⟨c, body⟩) ∧
      b.mac = a.mac ∧ b.configVersion = a.configVersion ∧ b.accessoriesHash = a.accessoriesHash ∧
      b.privateKey = a.privateKey ∧ b.publicKey = a.publicKey :=
  ⟨a, load_persist a h, rfl, fun _ => rfl, fun _ => rfl, fun _ _ => rfl, fun _ _ _ => rfl, rfl, rfl, rfl, rfl, rfl⟩

/-! ### non-vacuity -/

private def demoKey : Bytes := List.replicate 32 7
private def demoAcc : AccState :=
  { mac := "AA:BB:CC:DD:EE:FF", configVersion := 65535, accessoriesHash := some "abc",
    privateKey := demoKey, publicKey := demoKey,
    ps := { paired := [(⟨5, by decide⟩, [1, 2]), (⟨2 ^ 127 + 9, by decide⟩, [])],
            props := [(⟨5, by decide⟩, 255), (⟨2 ^ 127 + 9, by decide⟩, 0)],
            u2b := [(⟨5, by decide⟩, [65, 66])] } }

example : WF demoAcc := ⟨by decide, by decide, by decide, by decide, by decide⟩
example : strOfUuid ⟨0x0123456789abcdef0123456789abcdef, by decide⟩ = "01234567-89ab-cdef-0123-456789abcdef" := by
  decide +kernel
/-- a legacy document that loads -/
private def demoLegacy : Doc :=
  { mac := "m", configVersion := 2, pairedClients := [("00000000-0000-0000-0000-000000000005", "0a")],
    clientProperties := none, accessoriesHash := none, clientUuidToBytes := none,
    privateKey := toHex demoKey, publicKey := toHex demoKey }
example : (load demoLegacy).map (fun a => a.ps.props) = some [(⟨5, by decide⟩, 1)] := by decide +kernel

/-- the generated tables name the eight members of the historical format -/
example : persistKeys.toList = ["mac", "config_version", "paired_clients", "client_properties", "accessories_hash",
    "client_uuid_to_bytes", "private_key", "public_key"] := by decide
/-- a concrete file: one member per field, `client_properties` values are `{"permissions": n}` objects -/
example : loadJ (persistJ demoAcc) = some demoAcc := C14_roundtrip_file demoAcc ⟨by decide, by decide, by decide, by decide, by decide⟩
example : CvInRange demoAcc := ⟨by decide, by decide⟩
example : (incrementConfigVersion demoAcc).configVersion = 1 := by decide

end Hap.Encoder
