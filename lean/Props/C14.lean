/-
  C14 — Saved accessory state reloads to the same identity and pairings.
  Property theorems only; lemmas live in Proofs/Encoder.lean.  The JSON text layer (`json.dump` /
  `json.load`) is the trusted library: the model works on the document tree.
-/
import Proofs.Encoder
namespace Hap.Encoder
open Hap Hap.PairState

/-- `bytes.fromhex(b.hex()) == b` for every byte string. -/
theorem C14_hex_roundtrip (b : Bytes) : ofHex (toHex b) = some b := ofHex_toHex b

/-- `uuid.UUID(str(u)) == u` for every 128-bit value: the 36-character text
    (8-4-4-4-12 lower-case hex digits) parses back to the same number. -/
theorem C14_uuid_str_roundtrip (u : Uuid) : uuidOfStr (strOfUuid u) = some u := uuidOfStr_strOfUuid u

/-- shape of `str(u)`: 36 characters -/
theorem C14_uuid_str_length (u : Uuid) : (strOfUuidL u).length = 36 := by
  simp [strOfUuidL, hyphenate, hex32, nibbles_length]

/-- Round trip: for EVERY state (any number of controllers, any permission value, any identifier
    bytes, any key bytes, any mac, any configuration number, database hash absent or present)
    that satisfies the representation invariant of a Python `State` (dict keys unique, the two
    Ed25519 keys are 32 bytes), loading the saved document into a fresh state gives back exactly
    the same accessory identifier, key pair, configuration number, database hash and the three
    pairing maps — keys, permissions and originally presented identifier bytes, in order. -/
theorem C14_roundtrip (a : AccState) (h : WF a) : load (persist a) = some a := load_persist a h

/-- Every state reached through a pairing history (C06 operations from the empty state, any
    `uuid` parser) satisfies the dict part of the invariant, so `C14_roundtrip` applies to it
    with any identity whose keys are 32 bytes long. -/
theorem C14_reachable_wf (parse : Bytes → Option Uuid) (ops : List Op) (mac : String) (cv : Int)
    (ah : Option String) (priv pub : Bytes) (h1 : priv.length = 32) (h2 : pub.length = 32) :
    WF ⟨mac, cv, ah, priv, pub, run parse PState.empty ops⟩ := by
  obtain ⟨⟨n1, n2, n3⟩, _⟩ := keysNodup_run parse ops PState.empty rfl
    ⟨by simp [PState.empty, akeys], by simp [PState.empty, akeys], by simp [PState.empty, akeys]⟩
  exact ⟨n1, n2, n3, h1, h2⟩

/-- Saving after every operation: at EVERY point of every pairing history (every prefix — the
    history is universally quantified), the document `persist` produces from the state of that
    moment loads back to exactly that state. So a file rewritten at each completed save always
    restarts into the current identity, pairings, permissions and identifier bytes — including when
    the last operation changed nothing but a permission byte or the recorded spelling. -/
theorem C14_history_roundtrip (parse : Bytes → Option Uuid) (ops : List Op) (mac : String) (cv : Int)
    (ah : Option String) (priv pub : Bytes) (h1 : priv.length = 32) (h2 : pub.length = 32) :
    load (persist ⟨mac, cv, ah, priv, pub, run parse PState.empty ops⟩)
      = some ⟨mac, cv, ah, priv, pub, run parse PState.empty ops⟩ :=
  C14_roundtrip _ (C14_reachable_wf parse ops mac cv ah priv pub h1 h2)

/-- Files written before permissions were stored (no `client_properties` member): whenever such a
    document loads, every controller of `paired_clients` has a permission entry, each entry is 1,
    and therefore every paired controller is admin. -/
theorem C14_legacy (d : Doc) (a : AccState) (hd : d.clientProperties = none) (h : load d = some a) :
    Aligned a.ps ∧ (∀ e ∈ a.ps.props, e.2 = 1) ∧ ∀ u ∈ akeys a.ps.paired, isAdmin a.ps u = true := by
  unfold load at h
  simp only [hd] at h
  split at h
  · next P Y priv pub U hP hY _ _ _ =>
    cases h
    obtain ⟨k1, k2⟩ := optMap_legacy _ P Y hP hY
    have hal : Aligned ⟨dictOf Y, dictOf P, dictOf U⟩ := by
      unfold Aligned; exact (akeys_dictOf_congr P Y k1).symm
    have hone : ∀ e ∈ dictOf P, e.2 = 1 := vals_foldl_aset_const 1 P [] k2 (by simp)
    refine ⟨hal, hone, ?_⟩
    intro u hu
    have hu' : u ∈ akeys (dictOf P) := by
      have : akeys (dictOf Y) = akeys (dictOf P) := hal
      rw [← this]; exact hu
    obtain ⟨v, g1, g2⟩ := aget_of_mem_keys _ u hu'
    have : v = 1 := hone (u, v) g2
    subst this
    simp [isAdmin, g1]
  · cases h

/-- … and such files do load: for every saved state, the document without its
    `client_properties` member (what a version before permissions wrote) loads, with the same
    identity, keys and recorded identifier bytes, and permission 1 for every paired controller. -/
theorem C14_legacy_loads (a : AccState) (h : WF a) :
    load { persist a with clientProperties := none } =
      some { a with ps := { a.ps with props := a.ps.paired.map fun e => (e.1, 1) } } :=
  load_persist_legacy a h

/-- Oldest generation (files that predate permissions also predate the recorded identifier bytes):
    for every saved state, the document lacking BOTH `client_properties` and `client_uuid_to_bytes`
    loads with the same identity and keys, permission 1 (admin) for every paired controller and an
    empty `uuid_to_bytes`. Whether `accessories_hash` is present does not matter (`persist a` carries
    any value of it, `none` included, and an absent member reads as `none`). -/
theorem C14_legacy_no_id_bytes (a : AccState) (h : WF a) :
    load { persist a with clientProperties := none, clientUuidToBytes := none } =
      some { a with ps := { a.ps with props := a.ps.paired.map fun e => (e.1, 1), u2b := [] } } :=
  load_persist_oldest a h

/-- … and whenever ANY document without `client_properties` and `client_uuid_to_bytes` loads, all its
    controllers are admin and no identifier bytes are recorded. -/
theorem C14_legacy_no_id_bytes_any (d : Doc) (a : AccState) (hd : d.clientProperties = none)
    (hu : d.clientUuidToBytes = none) (h : load d = some a) :
    (∀ u ∈ akeys a.ps.paired, isAdmin a.ps u = true) ∧ a.ps.u2b = [] := by
  refine ⟨(C14_legacy d a hd h).2.2, ?_⟩
  unfold load at h
  simp only [hu, Option.getD_none] at h
  split at h
  · next P Y priv pub U _ _ _ _ hU =>
    cases h
    simp only [optMap, Option.some.injEq] at hU
    subst hU
    rfl
  · cases h

/-- Middle generation (permissions stored, identifier bytes not yet): every stored permission is
    kept; only `uuid_to_bytes` is empty. -/
theorem C14_middle_generation (a : AccState) (h : WF a) :
    load { persist a with clientUuidToBytes := none } = some { a with ps := { a.ps with u2b := [] } } :=
  load_persist_middle a h

/-- Behaviour after a restart: on the reloaded state the list-pairings answer, the admin test and
    the long-term key looked up by pair-verify are those of the saved state. -/
theorem C14_behaviour (a : AccState) (h : WF a) :
    ∃ b, load (persist a) = some b ∧
      listItems b.ps = listItems a.ps ∧
      (∀ u, isAdmin b.ps u = isAdmin a.ps u) ∧
      (∀ u, aget b.ps.paired u = aget a.ps.paired u) ∧
      b.mac = a.mac ∧ b.configVersion = a.configVersion ∧ b.accessoriesHash = a.accessoriesHash ∧
      b.privateKey = a.privateKey ∧ b.publicKey = a.publicKey :=
  ⟨a, load_persist a h, rfl, fun _ => rfl, fun _ => rfl, rfl, rfl, rfl, rfl, rfl⟩

/-! ### non-vacuity -/

private def demoKey : Bytes := List.replicate 32 7
private def demoAcc : AccState :=
  { mac := "AA:BB:CC:DD:EE:FF", configVersion := 65535, accessoriesHash := some "abc",
    privateKey := demoKey, publicKey := demoKey,
    ps := { paired := [(⟨5, by decide⟩, [1, 2]), (⟨2 ^ 127 + 9, by decide⟩, [])],
            props := [(⟨5, by decide⟩, 255), (⟨2 ^ 127 + 9, by decide⟩, 0)],
            u2b := [(⟨5, by decide⟩, [65, 66])] } }

example : WF demoAcc := ⟨by decide, by decide, by decide, by decide, by decide⟩
example : strOfUuid ⟨0x0123456789abcdef0123456789abcdef, by decide⟩ = "01234567-89ab-cdef-0123-456789abcdef" := by
  decide +kernel
/-- a legacy document that loads -/
private def demoLegacy : Doc :=
  { mac := "m", configVersion := 2, pairedClients := [("00000000-0000-0000-0000-000000000005", "0a")],
    clientProperties := none, accessoriesHash := none, clientUuidToBytes := none,
    privateKey := toHex demoKey, publicKey := toHex demoKey }
example : (load demoLegacy).map (fun a => a.ps.props) = some [(⟨5, by decide⟩, 1)] := by decide +kernel

end Hap.Encoder
