/-
  C15 — State saving is atomic and converges to the latest state.
  Property theorems only; the model is HapModel/Persist.lean, the invariants Proofs/Persist.lean.

  `exec locked slocked ser ls (initSys init mem0) = some s` reads: `s` is the state of process +
  directory after the schedule `ls` — any interleaving of state changes on the changing thread
  (`mbegin; mwrite c …; mend true`, each store a step of its own, the change ending with the
  submission of a save job), extra save jobs (`spawn`), steps of any job (`adv j`: every I/O call
  and every single attribute read of the encoder is a step), raised errors at any such step
  (`fault j`), state changes with no save after them (`mend false`, absent from the repaired code)
  and a process kill (`crash`) — started with `init` in the state file and `mem0` in memory.
  `locked` = the persist lock of the first repair, `slocked` = `state.lock` of the second
  (design/fixes/C15-mixed-snapshot.patch); the repaired code is `exec true true`.  `s.hist` is the
  list of memory states at the boundaries of changes: "the states that existed".  Every theorem
  quantifies over all schedules, all numbers of jobs, all numbers of state components and every
  serialisation function `ser`.
-/
import Proofs.Persist
namespace Hap.Persist

/-- a concrete injective serialisation: one chunk per component -/
def demoSer (v : Vec) : Content := v

/-- The history only grows, so the state the accessory started with stays in it. -/
theorem hist_mono {locked slocked ser} (ls : List Label) {s s' : Sys} {v : Vec}
    (hv : v ∈ s.hist) (h : exec locked slocked ser ls s = some s') : v ∈ s'.hist := by
  induction ls generalizing s with
  | nil => simp [exec] at h; subst h; exact hv
  | cons l ls ih =>
    simp only [exec] at h
    split at h
    · next s1 h1 =>
      refine ih ?_ h
      obtain ⟨_, hc⟩ := step_cases h1
      rcases hc with ⟨_, _, _, e⟩ | ⟨c, _, _, e⟩ | ⟨b, _, _, e⟩ | ⟨_, e⟩ | ⟨j, _, e⟩ |
        ⟨j, _, e⟩ | ⟨_, e⟩ | ⟨j, _, _, e⟩
      · subst e; exact hv
      · subst e; exact hv
      · subst e; cases b <;> simp [spawn, hv]
      · subst e; exact hv
      · have : s1.hist = s.hist := by
          unfold adv at e
          split at e
          all_goals (try split at e)
          all_goals (try split at e)
          all_goals (first | (cases e; done) | (injection e with e; subst e; rfl))
        rw [this]; exact hv
      · have : s1.hist = s.hist := by
          unfold fault at e
          split at e
          all_goals (first | (cases e; done) | (injection e with e; subst e; rfl))
        rw [this]; exact hv
      · subst e; exact hv
      · subst e; exact hv
    · cases h

/-- Atomicity (repaired code: `state.lock`; with or without the persist lock), for every schedule,
    every fault sequence and every crash point: the state file holds its initial content or the
    *complete* serialisation of a state that existed at a change boundary — never a partial write
    and never a mix of two states; and a job that ended, by returning or by re-raising after its
    cleanup ran ("handled failure"), has left no temp file.  The statement holds in every reachable
    state, in particular in the state frozen by a `crash` at any point. -/
theorem C15_atomic (locked : Bool) (ser : Vec → Content) (init : Option Content) (mem0 : Vec)
    (ls : List Label) (s : Sys) (h : exec locked true ser ls (initSys init mem0) = some s) :
    (s.target = init ∨ ∃ v, v ∈ s.hist ∧ s.target = some (ser v)) ∧
    (∀ j r, (s.jobs j = .done r ∨ s.jobs j = .unlock r) → r ≠ .cleanupRaised →
      s.temps j = none) := by
  have inv := atomInv_exec ls (atomInv_init ser init mem0) h
  have sinv := snapInv_exec ls (atomInv_init ser init mem0) (snapInv_init ser init mem0) h
  refine ⟨sinv.target, ?_⟩
  intro j r hj hr
  have := inv.jobs j
  unfold JobOk at this
  rcases hj with hj | hj <;> rw [hj] at this <;> exact this hr

/-- The part of atomicity that needs no lock at all (any variant of the code, all schedules, faults,
    crash points): the state file is never a partial write — it is its initial content or the
    complete serialisation of what one save read — and a handled failure leaves no temp file. -/
theorem C15_never_partial (locked slocked : Bool) (ser : Vec → Content) (init : Option Content)
    (mem0 : Vec) (ls : List Label) (s : Sys)
    (h : exec locked slocked ser ls (initSys init mem0) = some s) :
    (s.target = init ∨ ∃ v, s.target = some (ser v)) ∧
    (∀ j r, (s.jobs j = .done r ∨ s.jobs j = .unlock r) → r ≠ .cleanupRaised →
      s.temps j = none) := by
  have inv := atomInv_exec ls (atomInv_init ser init mem0) h
  refine ⟨inv.target, ?_⟩
  intro j r hj hr
  have := inv.jobs j
  unfold JobOk at this
  rcases hj with hj | hj <;> rw [hj] at this <;> exact this hr

/-- What a save reads is one state (repaired code, all schedules): while a job is inside
    `encoder.persist` no change of the state is in progress and what it has read so far is a prefix
    of the present memory; the snapshot a job carries to `os.replace` is a state that existed. -/
theorem C15_snapshot_is_a_state (locked : Bool) (ser : Vec → Content) (init : Option Content)
    (mem0 : Vec) (ls : List Label) (s : Sys)
    (h : exec locked true ser ls (initSys init mem0) = some s) (j : Nat) :
    (∀ got, s.jobs j = .reading got → s.chg = false ∧ got = s.mem.take got.length) ∧
    (∀ v, (s.jobs j).carries = some v → v ∈ s.hist) := by
  have sinv := snapInv_exec ls (atomInv_init ser init mem0) (snapInv_init ser init mem0) h
  have hj := sinv.jobs j
  unfold SnapOk at hj
  constructor
  · intro got hg
    rw [hg] at hj
    refine ⟨?_, hj.2⟩
    cases hc : s.chg with
    | false => rfl
    | true => have := sinv.chgHeld hc; rw [hj.1] at this; cases this
  · intro v hv
    cases hpc : s.jobs j <;> rw [hpc] at hj hv <;> simp [Pc.carries] at hv
    · subst hv; exact hj.2
    · subst hv; exact hj
    · subst hv; exact hj

/-- Crash recovery: whatever the schedule and wherever the process dies, the next start — which
    reads nothing but the state file (`load`), ignoring stray temp files — restores a state that
    existed, provided the loader inverts the encoder (C14's round trip) and the accessory started
    from a stored copy of its memory. -/
theorem C15_crash_recovery (locked : Bool) (ser : Vec → Content) (parse : Content → Option Vec)
    (hp : ∀ v, parse (ser v) = some v) (mem0 : Vec) (ls : List Label) (s : Sys)
    (h : exec locked true ser ls (initSys (some (ser mem0)) mem0) = some s) :
    ∃ v, v ∈ s.hist ∧ s.target.bind parse = some v := by
  have ha := (C15_atomic locked ser (some (ser mem0)) mem0 ls s h).1
  rcases ha with e | ⟨v, hv, e⟩
  · exact ⟨mem0, hist_mono ls (by simp [initSys]) h, by rw [e]; simp [hp]⟩
  · exact ⟨v, hv, by rw [e]; simp [hp]⟩

/-- A crash freezes everything: no label is enabled after it, so the directory (state file and
    stray temp files) stays exactly as it was at the crash point. -/
theorem C15_crash_freezes (locked slocked : Bool) (ser : Vec → Content) (s s' : Sys)
    (ls : List Label) (hc : s.crashed = false)
    (h : exec locked slocked ser (.crash :: ls) s = some s') :
    ls = [] ∧ s'.target = s.target ∧ s'.temps = s.temps := by
  simp only [exec, step, hc] at h
  cases ls with
  | nil => simp [exec] at h; subst h; simp
  | cons l ls => simp [exec, step] at h

/-- Mutual exclusion in the repaired code: two jobs are never both between acquiring and
    releasing the persist lock (all schedules, faults and crash included). -/
theorem C15_mutex (slocked : Bool) (ser : Vec → Content) (init : Option Content) (mem0 : Vec)
    (ls : List Label) (s : Sys)
    (h : exec true slocked ser ls (initSys init mem0) = some s) (i j : Nat)
    (hi : (s.jobs i).inCS = true) (hj : (s.jobs j).inCS = true) : i = j :=
  mutex_unique (mutex_exec ls (mutex_init init mem0) h) hi hj

/-- Convergence for the repaired code (persist lock around the whole body, reads under
    `state.lock`): for every fault-free schedule in which every state change submits its save
    afterwards (`mend true`; no `mend false`) — any number of changes, each any sequence of
    stores, any number of extra jobs, interleaved in any order at the granularity of single stores,
    single reads and single I/O calls — once at least one job was submitted, every submitted job
    has finished and no change is in progress, the state file is the complete serialisation of the
    present memory. -/
theorem C15_converge (ser : Vec → Content) (init : Option Content) (mem0 : Vec) (ls : List Label)
    (s : Sys) (h : exec true true ser ls (initSys init mem0) = some s)
    (hq : ∀ l ∈ ls, l.quiet = true) (hjobs : ∃ j, s.jobs j ≠ .unspawned) (hdone : Quiescent s)
    (hstop : s.chg = false) : s.target = some (ser s.mem) := by
  have sinv := snapInv_exec ls (atomInv_init ser init mem0) (snapInv_init ser init mem0) h
  have hlat : latest s = s.mem := headD_of_head? (sinv.memHist hstop)
  have hc := conv_exec (init := init) ls (atomInv_init ser init mem0) (snapInv_init ser init mem0)
    (mutex_init init mem0) (conv_init ser init mem0) hq h
  rw [← hlat]
  rcases hc with hc | ⟨j, hc⟩ | ⟨j, hc⟩ | ⟨hc, _⟩
  · obtain ⟨j, hj⟩ := hjobs
    exact absurd (hc j) hj
  · rcases hdone j with e | ⟨r, e⟩ <;> simp [e, Pc.pre] at hc
  · rcases hdone j with e | ⟨r, e⟩ <;> simp [e, Pc.carries] at hc
  · exact hc

/-- What the order "change the state, then submit the save" buys, in full generality (repaired
    code): after an arbitrary history — faults, failed saves, even state changes whose save was
    submitted too early or never (`mend false`) — one save submitted *after* the last state change
    (`spawn`, or the `mend true` that ends it), followed by fault-free steps only, brings the file
    to the present memory once every job has finished.  Every save-scheduling site of the code has
    this order (`pair`, `unpair`, pair-verify's identifier back-fill, `config_changed`,
    `async_start`). -/
theorem C15_converge_after_save (ser : Vec → Content) (init : Option Content) (mem0 : Vec)
    (hist post : List Label) (l : Label) (s1 s : Sys)
    (h1 : exec true true ser hist (initSys init mem0) = some s1)
    (hl : l = .spawn ∨ l = .mend true)
    (h2 : exec true true ser (l :: post) s1 = some s) (hq : ∀ l' ∈ post, l'.quiet = true)
    (hjobs : ∃ j, s.jobs j ≠ .unspawned) (hdone : Quiescent s) (hstop : s.chg = false) :
    s.target = some (ser s.mem) := by
  have ha := atomInv_exec hist (atomInv_init ser init mem0) h1
  have hsn := snapInv_exec hist (atomInv_init ser init mem0) (snapInv_init ser init mem0) h1
  have hm := mutex_exec hist (mutex_init init mem0) h1
  simp only [exec] at h2
  split at h2
  · next s2 hs2 =>
    have hc2 : Conv ser s2 := by
      obtain ⟨_, hc⟩ := step_cases hs2
      rcases hc with ⟨e, _⟩ | ⟨c, e, _⟩ | ⟨b, e, _, e'⟩ | ⟨_, e'⟩ | ⟨j, e, _⟩ | ⟨j, e, _⟩ | ⟨e, _⟩ |
        ⟨j, e, _⟩
      · rcases hl with hl | hl <;> rw [hl] at e <;> cases e
      · rcases hl with hl | hl <;> rw [hl] at e <;> cases e
      · rcases hl with hl | hl <;> rw [hl] at e
        · cases e
        · injection e with e; subst e; subst e'; exact conv_spawn
      · subst e'; exact conv_spawn
      · rcases hl with hl | hl <;> rw [hl] at e <;> cases e
      · rcases hl with hl | hl <;> rw [hl] at e <;> cases e
      · rcases hl with hl | hl <;> rw [hl] at e <;> cases e
      · rcases hl with hl | hl <;> rw [hl] at e <;> cases e
    have ha2 := atomInv_step ha hs2
    have hsn2 := snapInv_step ha hsn hs2
    have hc := conv_exec post ha2 hsn2 (mutex_step hm hs2) hc2 hq h2
    have sinv := snapInv_exec post ha2 hsn2 h2
    have hlat : latest s = s.mem := headD_of_head? (sinv.memHist hstop)
    rw [← hlat]
    rcases hc with hc | ⟨j, hc⟩ | ⟨j, hc⟩ | ⟨hc, _⟩
    · obtain ⟨j, hj⟩ := hjobs
      exact absurd (hc j) hj
    · rcases hdone j with e | ⟨r, e⟩ <;> simp [e, Pc.pre] at hc
    · rcases hdone j with e | ⟨r, e⟩ <;> simp [e, Pc.carries] at hc
    · exact hc
  · cases h2

/-- The opposite order at a single site breaks convergence even with both locks: the save is
    submitted, the worker runs it to the end at once, and only then the state is changed
    (`spawn; …; mbegin; mwrite; mend false`): all jobs have finished and the file is one change
    behind.  (The same trace is what a site that never submits a save looks like after an earlier
    save.) -/
theorem C15_save_before_change_counterexample :
    ∃ s, exec true true demoSer ([.spawn] ++ List.replicate 13 (.adv 0) ++ changeL [0, 1])
          (initSys none [0, 0]) = some s ∧
      quiescentB s = true ∧ s.chg = false ∧ s.mem = [1, 1] ∧ s.target = some (demoSer [0, 0]) ∧
      s.target ≠ some (demoSer s.mem) := by
  refine ⟨_, rfl, by decide, by decide, by decide, by decide, by decide⟩

/-- A save job that is dropped while it is still queued breaks convergence, both locks
    notwithstanding: a pairing change submits its save, every worker of the pool is busy, the driver
    stops and its pool is shut down with the queue discarded (`cancel 0`): every submitted job has
    "finished", no change is in progress, and the file does not hold the change.  `C15_converge` therefore
    asks for schedules without `cancel` (`Label.quiet`): the obligation on the stop path is to run, not
    drop, what was submitted (`executor.shutdown()` waits for queued jobs; tied by the harness's
    `lifecycle` stream, which judges the file after `start()` has returned). -/
theorem C15_cancelled_save_counterexample :
    ∃ s, exec true true demoSer (mutateL [0, 1] ++ [.cancel 0]) (initSys (some (demoSer [0, 0])) [0, 0])
          = some s ∧
      quiescentB s = true ∧ s.chg = false ∧ s.mem = [1, 1] ∧ s.target = some (demoSer [0, 0]) ∧
      s.target ≠ some (demoSer s.mem) := by
  refine ⟨_, rfl, by decide, by decide, by decide, by decide, by decide⟩

/-- The locks never wedge the saving (repaired code, all schedules, faults included): as long as the
    process lives and some submitted job has not finished, something can move — a job can take a
    step, or the change in progress can end.  The persist lock is held only by a job that is inside
    the critical section; such a job can always move on, except that it may wait for `state.lock`,
    which is held either by that very job or by a change in progress, whose end releases it; and
    every path out of either section (return, re-raise, failing cleanup) releases its lock.  So
    the quiescent states `C15_converge` speaks about are always reachable. -/
theorem C15_progress (ser : Vec → Content) (init : Option Content) (mem0 : Vec) (ls : List Label)
    (s : Sys) (h : exec true true ser ls (initSys init mem0) = some s) (hc : s.crashed = false)
    (hj : ∃ j, s.jobs j ≠ .unspawned ∧ (s.jobs j).isDone = false) :
    ∃ l s', step true true ser s l = some s' ∧ (l = .mend true ∨ ∃ j, l = .adv j) := by
  have hm := mutex_exec ls (mutex_init init mem0) h
  have hh := held_exec (init := init) ls (atomInv_init ser init mem0) (mutex_init init mem0)
    (held_init init mem0) h
  have sinv := snapInv_exec ls (atomInv_init ser init mem0) (snapInv_init ser init mem0) h
  cases hl : s.lock with
  | some i =>
    have hcs := hh i hl
    by_cases hfree : s.jobs i = .snapshot → s.slock = none
    · obtain ⟨s', hs'⟩ := adv_enabled_of_inCS (snap := ser) hcs hfree
      exact ⟨.adv i, s', by simp only [step, hc]; simpa using hs', Or.inr ⟨i, rfl⟩⟩
    · -- job i waits for state.lock: who holds it?
      have hsnap : s.jobs i = .snapshot := by
        apply Classical.byContradiction; intro hn; exact hfree (fun e => absurd e hn)
      cases hsl : s.slock with
      | none => exact absurd (fun _ => hsl) hfree
      | some o =>
        cases o with
        | job k =>
          have hk := sinv.holder k hsl
          have : k = i := mutex_unique hm (Pc.inCS_of_inRead hk) hcs
          subst this
          rw [hsnap] at hk; simp [Pc.inRead] at hk
        | changer =>
          have hchg := sinv.heldChg hsl
          exact ⟨.mend true, _, by simp only [step, hc, hchg]; rfl, Or.inl rfl⟩
  | none =>
    obtain ⟨j, hsp, hnd⟩ := hj
    by_cases hcs : (s.jobs j).inCS = true
    · have := hm j hcs
      rw [hl] at this; cases this
    · refine ⟨.adv j, ?_⟩
      simp only [step, hc]
      cases hpc : s.jobs j <;> simp_all [Pc.inCS, Pc.isDone, adv]

/-! ### the code as first shipped (no lock at all): the reordering counterexample -/

/-- pairing 1 (job 0 submitted); job 0 creates its temp and reads version 1; pairing 2 (job 1
    submitted); job 1 runs start to finish and installs version 2; job 0 resumes, writes its stale
    snapshot and replaces the file. -/
def reorderSchedule : List Label :=
  mutateL [0, 1] ++ List.replicate 6 (.adv 0) ++ mutateL [0, 1] ++ List.replicate 13 (.adv 1) ++
    List.replicate 7 (.adv 0)

/-- Without the persist lock the fault-free `reorderSchedule` ends, with both jobs finished, in a
    state file that holds the first change while memory has both (the second controller is
    missing).  The same schedule is forced on the real implementation by the harness. -/
theorem C15_legacy_reorder_counterexample :
    ∃ s, exec false false demoSer reorderSchedule (initSys none [0, 0]) = some s ∧
      (∀ l ∈ reorderSchedule, l.quiet = true) ∧ quiescentB s = true ∧ s.njobs = 2 ∧
      s.chg = false ∧ s.mem = [2, 2] ∧
      s.target = some (demoSer [1, 1]) ∧ s.target ≠ some (demoSer s.mem) := by
  refine ⟨_, rfl, by decide, by decide, by decide, by decide, by decide, by decide, by decide⟩

/-- With the persist lock the same schedule is not executable: job 1 blocks at the lock
    (label 14). -/
theorem C15_locked_blocks_reorder :
    firstBlocked true false demoSer reorderSchedule (initSys none [0, 0]) 0 = some 14 := by decide

/-! ### the code after the first repair (persist lock, no `state.lock`): the mixed snapshot -/

/-- a save job (submitted by an earlier change) has read component 0; a pairing change stores into
    both components and submits job 1; job 0 reads component 1, writes what it has read and installs
    it; the process dies before job 1 runs. -/
def mixedSchedule : List Label :=
  [.spawn] ++ List.replicate 4 (.adv 0) ++ mutateL [0, 1] ++ List.replicate 9 (.adv 0) ++ [.crash]

/-- Without `state.lock` a change that lands between two reads of one save makes the save install
    a mix of two states: after `mixedSchedule` the state file is a complete document that is neither
    its initial content nor the serialisation of any state that existed — and the process is dead,
    so that is what the next start loads.  The same schedule is forced on the real implementation
    by the harness (signature `C15:state-file-mixes-two-states`). -/
theorem C15_legacy_mixed_counterexample :
    ∃ s, exec true false demoSer mixedSchedule (initSys (some (demoSer [0, 0])) [0, 0]) = some s ∧
      s.crashed = true ∧ s.hist = [[1, 1], [0, 0]] ∧ s.target = some (demoSer [0, 1]) ∧
      ¬ (s.target = some (demoSer [0, 0]) ∨ ∃ v, v ∈ s.hist ∧ s.target = some (demoSer v)) := by
  refine ⟨_, rfl, by decide, by decide, by decide, by decide⟩

/-- With `state.lock` the same schedule is not executable: the pairing change waits for the save to
    finish its reads (label 5). -/
theorem C15_slock_blocks_mixed :
    firstBlocked true true demoSer mixedSchedule (initSys (some (demoSer [0, 0])) [0, 0]) 0
      = some 5 := by decide

/-- Convergence does not depend on `state.lock`: with the persist lock alone (the code after the
    first repair, where a save may read a mix of two states) the same statement holds — a change that
    disturbs the reads of a running save submits, when it ends, a job of its own, and that job can take
    the persist lock only after the disturbed save has released it, so it reads after the change.  What
    the missing `state.lock` costs is atomicity (`C15_legacy_mixed_counterexample`), not convergence. -/
theorem C15_converge_without_state_lock (ser : Vec → Content) (init : Option Content) (mem0 : Vec)
    (ls : List Label) (s : Sys) (h : exec true false ser ls (initSys init mem0) = some s)
    (hq : ∀ l ∈ ls, l.quiet = true) (hjobs : ∃ j, s.jobs j ≠ .unspawned) (hdone : Quiescent s)
    (hstop : s.chg = false) : s.target = some (ser s.mem) := by
  have hc := convU_exec (init := init) ls (atomInv_init ser init mem0) (mutex_init init mem0)
    (convU_init ser init mem0) hq h
  rcases hc with hc | hc | ⟨j, hc⟩ | ⟨j, hc⟩ | ⟨hc, _⟩
  · obtain ⟨j, hj⟩ := hjobs
    exact absurd (hc j) hj
  · rw [hstop] at hc; cases hc
  · rcases hdone j with e | ⟨r, e⟩ <;> simp [e, Pc.early] at hc
  · rcases hdone j with e | ⟨r, e⟩ <;> simp [e, Pc.good, Pc.carries] at hc
  · exact hc

/-- non-vacuity: the mixed-snapshot schedule, continued without the kill until job 1 has run, ends with
    the file equal to memory although job 0 installed a mix in between -/
example : ∃ s, exec true false demoSer (mixedSchedule.dropLast ++ List.replicate 13 (.adv 1))
      (initSys (some (demoSer [0, 0])) [0, 0]) = some s ∧ quiescentB s = true ∧ s.chg = false ∧
      s.mem = [1, 1] ∧ s.target = some (demoSer [1, 1]) :=
  ⟨_, rfl, by decide, by decide, by decide, by decide⟩

/-! ### non-vacuity -/

/-- a fault-free two-job schedule of the repaired code with a pairing change while job 0 holds the
    persist lock (after it has released `state.lock`) -/
def lockedSchedule : List Label :=
  mutateL [0, 1] ++ List.replicate 9 (.adv 0) ++ mutateL [1] ++ List.replicate 4 (.adv 0) ++
    List.replicate 13 (.adv 1)

example : ∃ s, exec true true demoSer lockedSchedule (initSys none [0, 0]) = some s ∧
    (∀ l ∈ lockedSchedule, l.quiet = true) ∧ quiescentB s = true ∧ s.chg = false ∧
    s.mem = [1, 2] ∧ s.target = some (demoSer [1, 2]) :=
  ⟨_, rfl, by decide, by decide, by decide, by decide, by decide⟩

/-- a job that has read one component while no change is in progress (`C15_snapshot_is_a_state`) -/
example : ∃ s, exec true true demoSer (mutateL [0, 1] ++ List.replicate 4 (.adv 0))
      (initSys none [0, 0]) = some s ∧ s.jobs 0 = .reading [1] ∧ s.chg = false :=
  ⟨_, rfl, by decide, by decide⟩

/-- a write fault in job 0: handled failure, temp removed, target still the initial content -/
example : ∃ s, exec true true demoSer (mutateL [0] ++ List.replicate 7 (.adv 0) ++
      [.fault 0, .adv 0, .adv 0, .adv 0]) (initSys (some [7]) [0, 0]) = some s ∧
    s.jobs 0 = .done .raised ∧ s.temps 0 = none ∧ s.target = some [7] ∧ s.slock = none :=
  ⟨_, rfl, by decide, by decide, by decide, by decide⟩

/-- a crash in the middle of the writes: partial temp stays, target untouched; the next start loads
    the state the accessory started with (`C15_crash_recovery`) -/
example : ∃ s, exec true true demoSer (mutateL [0] ++ List.replicate 7 (.adv 0) ++ [.crash])
      (initSys (some (demoSer [0, 0])) [0, 0]) = some s ∧ s.temps 0 = some [1] ∧
      s.target = some (demoSer [0, 0]) ∧ s.target.bind some = some [0, 0] :=
  ⟨_, rfl, by decide, by decide, by decide⟩

/-- progress: a job waiting for `state.lock` while a change is in progress; the change can end -/
example : ∃ s, exec true true demoSer ([.spawn, .adv 0, .adv 0, .mbegin, .mwrite 0])
      (initSys none [0, 0]) = some s ∧ s.jobs 0 = .snapshot ∧ s.slock = some .changer ∧
      adv true true demoSer s 0 = none ∧ (step true true demoSer s (.mend true)).isSome = true :=
  ⟨_, rfl, by decide, by decide, by decide, by decide⟩

end Hap.Persist
