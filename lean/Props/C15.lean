/-
  C15 — State saving is atomic and converges to the latest state.
  Property theorems only; the model is HapModel/Persist.lean, the invariants Proofs/Persist.lean.

  `exec locked snap ls (initSys init) = some s` reads: `s` is the state of process + directory
  after the schedule `ls` — any interleaving of pairing changes (`mutate`, each submitting a save
  job), extra save jobs (`spawn`), steps of any job (`adv j`), raised errors at any I/O step
  (`fault j`), state changes with no save after them (`change`, absent from the repaired code) and a
  process kill (`crash`) — started with `init` in the state file.  Every theorem
  quantifies over all schedules, all numbers of jobs and every serialisation function `snap`.
-/
import Proofs.Persist
namespace Hap.Persist

/-- a concrete two-chunk serialisation -/
def demoSnap (v : Nat) : Content := [2 * v, 2 * v + 1]

/-- Atomicity, for every schedule, fault sequence and crash point, with or without the lock:
    the state file holds its initial content or the *complete* serialisation of a state version
    that existed — never a partial write; and a job that ended, by returning or by re-raising
    after its cleanup ran ("handled failure"), has left no temp file.  The statement holds in
    every reachable state, in particular in the state frozen by a `crash` at any point. -/
theorem C15_atomic (locked : Bool) (snap : Nat → Content) (init : Option Content)
    (ls : List Label) (s : Sys) (h : exec locked snap ls (initSys init) = some s) :
    (s.target = init ∨ ∃ v, v ≤ s.ver ∧ s.target = some (snap v)) ∧
    (∀ j r, (s.jobs j = .done r ∨ s.jobs j = .unlock r) → r ≠ .cleanupRaised →
      s.temps j = none) := by
  have inv := atomInv_exec ls (atomInv_init snap init) h
  refine ⟨inv.target, ?_⟩
  intro j r hj hr
  have := inv.jobs j
  unfold JobOk at this
  rcases hj with hj | hj <;> rw [hj] at this <;> exact this hr

/-- A crash freezes everything: no label is enabled after it, so the directory (state file and
    stray temp files) stays exactly as it was at the crash point. -/
theorem C15_crash_freezes (locked : Bool) (snap : Nat → Content) (s s' : Sys) (ls : List Label)
    (hc : s.crashed = false) (h : exec locked snap (.crash :: ls) s = some s') :
    ls = [] ∧ s'.target = s.target ∧ s'.temps = s.temps := by
  simp only [exec, step, hc] at h
  cases ls with
  | nil => simp [exec] at h; subst h; simp
  | cons l ls => simp [exec, step] at h

/-- Mutual exclusion in the repaired code: two jobs are never both between acquiring and
    releasing the lock (all schedules, faults and crash included). -/
theorem C15_mutex (snap : Nat → Content) (init : Option Content) (ls : List Label) (s : Sys)
    (h : exec true snap ls (initSys init) = some s) (i j : Nat)
    (hi : (s.jobs i).inCS = true) (hj : (s.jobs j).inCS = true) : i = j :=
  mutex_unique (mutex_exec ls (mutex_init init) h) hi hj

/-- Convergence for the repaired code (lock around the whole body, snapshot inside): for every
    fault-free schedule in which every state change submits its save afterwards (`mutate`; no bare
    `change`) — any number of pairing changes, any number of extra jobs, interleaved in any
    order — once at least one job was submitted and every
    submitted job has finished, the state file is the complete serialisation of the *latest*
    state version. -/
theorem C15_converge (snap : Nat → Content) (init : Option Content) (ls : List Label) (s : Sys)
    (h : exec true snap ls (initSys init) = some s) (hq : ∀ l ∈ ls, l.quiet = true)
    (hjobs : ∃ j, s.jobs j ≠ .unspawned) (hdone : Quiescent s) :
    s.target = some (snap s.ver) := by
  have hc := conv_exec (init := init) ls (atomInv_init snap init) (mutex_init init)
    (conv_init snap init) hq h
  rcases hc with hc | ⟨j, hc⟩ | ⟨j, hc⟩ | ⟨hc, _⟩
  · obtain ⟨j, hj⟩ := hjobs
    exact absurd (hc j) hj
  · rcases hdone j with e | ⟨r, e⟩ <;> simp [e, Pc.pre] at hc
  · rcases hdone j with e | ⟨r, e⟩ <;> simp [e, Pc.carries] at hc
  · exact hc

/-- What the order "change the state, then submit the save" buys, in full generality (repaired
    code): after an arbitrary history — faults, failed saves, even state changes whose save was
    submitted too early or never (`change`) — one save submitted *after* the last state change,
    followed by fault-free steps only, brings the file to the latest state once every job has
    finished.  Every save-scheduling site of the code has this order (`pair`, `unpair`,
    pair-verify's identifier back-fill, `config_changed`, `async_start`). -/
theorem C15_converge_after_save (snap : Nat → Content) (init : Option Content)
    (hist post : List Label) (l : Label) (s1 s : Sys)
    (h1 : exec true snap hist (initSys init) = some s1)
    (hl : l = .spawn ∨ l = .mutate)
    (h2 : exec true snap (l :: post) s1 = some s) (hq : ∀ l' ∈ post, l'.quiet = true)
    (hjobs : ∃ j, s.jobs j ≠ .unspawned) (hdone : Quiescent s) :
    s.target = some (snap s.ver) := by
  have ha := atomInv_exec hist (atomInv_init snap init) h1
  have hm := mutex_exec hist (mutex_init init) h1
  simp only [exec] at h2
  split at h2
  · next s2 hs2 =>
    have hc2 : Conv snap s2 := by
      unfold step at hs2
      split at hs2
      · cases hs2
      · rcases hl with hl | hl <;> subst hl <;> injection hs2 with hs2 <;> subst hs2
        · exact conv_spawn 0
        · exact conv_spawn 1
    have hc := conv_exec post (atomInv_step ha hs2) (mutex_step hm hs2) hc2 hq h2
    rcases hc with hc | ⟨j, hc⟩ | ⟨j, hc⟩ | ⟨hc, _⟩
    · obtain ⟨j, hj⟩ := hjobs
      exact absurd (hc j) hj
    · rcases hdone j with e | ⟨r, e⟩ <;> simp [e, Pc.pre] at hc
    · rcases hdone j with e | ⟨r, e⟩ <;> simp [e, Pc.carries] at hc
    · exact hc
  · cases h2

/-- The opposite order at a single site breaks convergence even with the lock: the save is
    submitted, the worker runs it to the end at once, and only then the state is changed
    (`spawn; …; change`): all jobs have finished and the file is one version behind.  (The same
    trace is what a site that never submits a save looks like after an earlier save.) -/
theorem C15_save_before_change_counterexample :
    ∃ s, exec true demoSnap ([.spawn] ++ List.replicate 9 (.adv 0) ++ [.change]) (initSys none)
        = some s ∧ quiescentB s = true ∧ s.ver = 1 ∧ s.target = some (demoSnap 0) ∧
      s.target ≠ some (demoSnap s.ver) := by
  refine ⟨_, rfl, by decide, by decide, by decide, by decide⟩

/-- The lock never wedges the saving (repaired code, all schedules, faults included): as long as
    the process lives and some submitted job has not finished, some job can take a step — the
    lock is held only by a job that is inside the critical section and can always move on, and
    every path out of it (return, re-raise, failing cleanup) releases the lock.  So the
    quiescent states `C15_converge` speaks about are always reachable. -/
theorem C15_progress (snap : Nat → Content) (init : Option Content) (ls : List Label) (s : Sys)
    (h : exec true snap ls (initSys init) = some s) (hc : s.crashed = false)
    (hj : ∃ j, s.jobs j ≠ .unspawned ∧ (s.jobs j).isDone = false) :
    ∃ j s', step true snap s (.adv j) = some s' := by
  have hm := mutex_exec ls (mutex_init init) h
  have hh := held_exec (init := init) ls (atomInv_init snap init) (mutex_init init)
    (held_init init) h
  simp only [step, hc]
  cases hl : s.lock with
  | some i =>
    obtain ⟨s', hs'⟩ := adv_enabled_of_inCS (snap := snap) (hh i hl)
    exact ⟨i, s', by simpa using hs'⟩
  | none =>
    obtain ⟨j, hsp, hnd⟩ := hj
    by_cases hcs : (s.jobs j).inCS = true
    · have := hm j hcs
      rw [hl] at this; cases this
    · refine ⟨j, ?_⟩
      cases hpc : s.jobs j <;> simp_all [Pc.inCS, Pc.isDone, adv]

/-! ### the code as shipped (no lock): the reordering counterexample -/

/-- pairing 1 (job 0 submitted); job 0 creates its temp and snapshots version 1; pairing 2 (job 1
    submitted); job 1 runs start to finish and installs version 2; job 0 resumes, writes its stale
    snapshot and replaces the file. -/
def reorderSchedule : List Label :=
  [.mutate, .adv 0, .adv 0, .adv 0, .mutate] ++ List.replicate 9 (.adv 1) ++
    List.replicate 6 (.adv 0)

/-- Without the lock the fault-free `reorderSchedule` ends, with both jobs finished, in a state
    file that holds version 1 while memory is at version 2 (the second controller is missing).
    The same schedule is forced on the real implementation by the harness. -/
theorem C15_legacy_reorder_counterexample :
    ∃ s, exec false demoSnap reorderSchedule (initSys none) = some s ∧
      (∀ l ∈ reorderSchedule, l.quiet = true) ∧ quiescentB s = true ∧ s.njobs = 2 ∧ s.ver = 2 ∧
      s.target = some (demoSnap 1) ∧ s.target ≠ some (demoSnap s.ver) := by
  refine ⟨_, rfl, by decide, by decide, by decide, by decide, by decide, by decide⟩

/-- With the lock the same schedule is not executable: job 1 blocks at the lock (label 5). -/
theorem C15_locked_blocks_reorder :
    firstBlocked true demoSnap reorderSchedule (initSys none) 0 = some 5 := by decide

/-! ### non-vacuity -/

/-- a locked, fault-free two-job schedule with a pairing change while job 0 holds the lock -/
def lockedSchedule : List Label :=
  [.mutate, .adv 0, .adv 0, .adv 0, .mutate] ++ List.replicate 6 (.adv 0) ++
    List.replicate 9 (.adv 1)

example : ∃ s, exec true demoSnap lockedSchedule (initSys none) = some s ∧ quiescentB s = true ∧
    s.ver = 2 ∧ s.target = some (demoSnap 2) :=
  ⟨_, rfl, by decide, by decide, by decide⟩

/-- a write fault in job 0: handled failure, temp removed, target still the initial content -/
example : ∃ s, exec true demoSnap [.mutate, .adv 0, .adv 0, .adv 0, .adv 0, .fault 0, .adv 0,
      .adv 0, .adv 0] (initSys (some [7])) = some s ∧ s.jobs 0 = .done .raised ∧
    s.temps 0 = none ∧ s.target = some [7] :=
  ⟨_, rfl, by decide, by decide, by decide⟩

/-- a crash in the middle of the writes: partial temp stays, target untouched -/
example : ∃ s, exec true demoSnap [.mutate, .adv 0, .adv 0, .adv 0, .adv 0, .crash]
      (initSys (some [7])) = some s ∧ s.temps 0 = some [2] ∧ s.target = some [7] :=
  ⟨_, rfl, by decide, by decide⟩

end Hap.Persist
