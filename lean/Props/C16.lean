/-
  C16 — Removing a pairing cuts that controller off.

  Model: HapModel/Sessions.lean (registry of connections, dispatch guards, handle_pairings with
  add / remove / list and the last-admin rule, teardown of unpaired sessions by
  `_process_response` after the response is written) on top of HapModel/PairVerify.lean.
  `step C true` is the repaired code, `step C false` the code before the repair.
  All theorems hold for every value of the crypto parameters `C`.
-/
import Proofs.Sessions
import Proofs.PairVerifySym
namespace Hap.Sess
open Hap Hap.PV Hap.Tlv

/-! ### The property -/

/-- **No new session.** Once `v` is not paired (after a removal — of `v` itself or of the last
    admin), for every later history that does not register `v` again, on every connection a
    pair-verify final message claiming `v` is refused whatever proof it carries: no shared key is
    handed out, the connection's privilege is unchanged.  (Corollary of the C02 iff: the pair-verify
    handler here is literally the one of the C02 model.) -/
theorem C16_new_session_refused (C : Crypto) (rep : Bool) (s1 : Sys) (later : List Op) (v : Uuid)
    (x : Nat) (body : Bytes) (cl : Claim)
    (hgone : getKey s1.pairings v = none) (hlater : ∀ op ∈ later, NoReAdd C v op)
    (hcl : claimOf C ((run C rep s1 later).conns x).pv body = some cl)
    (hv : C.parseUuid cl.uname = some v) :
    let s2 := run C rep s1 later
    (handlePairVerify C s2.pairings s2.clock (s2.conns x).pv body).2.shared = none ∧
    ((procReq C rep s2 x (.pairVerify body)).conns x).pv.verified = (s2.conns x).pv.verified := by
  intro s2
  have hk : getKey s2.pairings v = none := run_getKey_none C rep s1 later v hgone hlater
  have hno : (handlePairVerify C s2.pairings s2.clock (s2.conns x).pv body).2.shared = none := by
    cases hs : (handlePairVerify C s2.pairings s2.clock (s2.conns x).pv body).2.shared with
    | none => rfl
    | some k =>
      exfalso
      have : (handlePairVerify C s2.pairings s2.clock (s2.conns x).pv body).2.shared.isSome = true := by simp [hs]
      obtain ⟨cl', _, u', k', hcl', _, hu', hk', _⟩ := (handler_shared_iff C _ _ _ body).1 this
      rw [hcl] at hcl'; cases hcl'
      rw [hv] at hu'; cases hu'
      rw [hk] at hk'; cases hk'
  refine ⟨hno, ?_⟩
  simp only [procReq, Sess.setConn, if_true]
  rw [(installCipher_fields _ _).2.1]
  have hv' := handler_verified C s2.pairings s2.clock (s2.conns x).pv body
  cases hb : (s2.conns x).pv.verified
  · cases ha : (handlePairVerify C s2.pairings s2.clock (s2.conns x).pv body).1.verified
    · rfl
    · rcases hv' ha with h1 | h2
      · simp [hb] at h1
      · simp [hno] at h2
  · revert hb
    unfold handlePairVerify verifyOne verifyTwo
    repeat' split
    all_goals simp_all

/-- **Open sessions are cut, the acknowledgement goes out first.**  In ANY state `s`, when an
    admin's verified, registered connection `c` asks to remove the pairing `uname` (parsing to
    `u`): the trace grows by the acknowledgement — delivered to the remover (`resp`, not
    `dropped`), even if its own connection is among those closed — followed by the closes; `u` is
    no longer paired; and every registered connection `d` of a controller `v` that is no longer
    paired afterwards (the named one, or everybody when the last-admin rule fired) is closed,
    unregistered, has lost its privilege flag (so even requests already buffered behind the
    removal are answered 401 into the void), and — for every later history without a new TCP
    connection under that id — never sees another event: no request on it is served. -/
theorem C16_open_sessions_cut (C : Crypto) (s : Sys) (c : Nat) (uname : Bytes) (me u : Uuid)
    (hc : c ∈ s.live) (hme : (s.conns c).pv.client = some me)
    (hver : (s.conns c).pv.verified = true) (hadm : isAdmin s.pairings me = true)
    (hu : C.parseUuid uname = some u) :
    let s1 := procReq C true s c (.removePairing uname)
    getKey s1.pairings u = none ∧
    ∃ closes : List Nat, s1.trace = s.trace ++ [Event.resp c .ack] ++ closes.map Event.close ∧
      ∀ d v, d ∈ s.live → (s.conns d).pv.client = some v → getKey s1.pairings v = none →
        d ∈ closes ∧ d ∉ s1.live ∧ (s1.conns d).pv.verified = false ∧
        (∀ kind, (procReq C true s1 d (.guarded kind)).trace = s1.trace ++ [Event.dropped d .unauthorized]) ∧
        (∀ later, (∀ op ∈ later, op ≠ .connect d) →
          eventsOf d (run C true s1 later).trace = eventsOf d s1.trace) := by
  intro s1
  have hs1 : s1 = teardown (emit { s with
      pairings := if (getKey s.pairings u).isSome then removePairing s.pairings u else s.pairings,
      clock := s.clock + 1 } c .ack) := by
    simp [s1, procReq, hme, hver, hadm, hu]
  have hps : getKey s1.pairings u = none := by
    rw [hs1]; simp only [teardown_pairings, emit_pairings]
    split
    · exact getKey_removePairing _ _
    · next h => simpa using h
  refine ⟨hps, (s.live.filter fun d => unpairedSession s1.pairings (s.conns d)), ?_, ?_⟩
  · rw [hs1]; simp [teardown, hc, List.append_assoc]
  · intro d v hd hcl hgone
    have hvict : unpairedSession s1.pairings (s.conns d) = true := by simp [unpairedSession, hcl, hgone]
    have hpair : s1.pairings = (emit { s with
        pairings := if (getKey s.pairings u).isSome then removePairing s.pairings u else s.pairings,
        clock := s.clock + 1 } c .ack).pairings := by rw [hs1]; rfl
    have hnl : d ∉ s1.live := by
      rw [hs1, mem_teardown_live]
      simp only [emit_live, emit_conns, not_and]
      intro _
      rw [← hpair]; simp [hvict]
    have hnv : (s1.conns d).pv.verified = false := by
      rw [hs1, teardown_conns]
      simp only [emit_live, emit_conns]
      rw [← hpair]
      simp [hd, hvict]
    refine ⟨by simp [List.mem_filter, hd, hvict], hnl, hnv, ?_, ?_⟩
    · intro kind
      simp [procReq, hnv, hnl]
    · intro later hl
      exact (run_dead C true s1 later d hnl hl).2

/-- **Acknowledgement first.** The response to an accepted removal is written to the remover's
    still open transport (`resp`, never `dropped`) before any connection is closed — also when the
    remover's own connection is one of those closed (self-removal, last-admin rule). -/
theorem C16_ack_before_close (C : Crypto) (s : Sys) (c : Nat) (uname : Bytes) (me u : Uuid)
    (hc : c ∈ s.live) (hme : (s.conns c).pv.client = some me)
    (hver : (s.conns c).pv.verified = true) (hadm : isAdmin s.pairings me = true)
    (hu : C.parseUuid uname = some u) :
    ∃ closes : List Nat,
      (procReq C true s c (.removePairing uname)).trace =
        s.trace ++ Event.resp c .ack :: closes.map Event.close := by
  obtain ⟨_, closes, h, _⟩ := C16_open_sessions_cut C s c uname me u hc hme hver hadm hu
  exact ⟨closes, by simpa [List.append_assoc] using h⟩

/-- **Last-admin rule.** If the removed controller was the only admin, every pairing is gone
    afterwards — so the cut of `C16_open_sessions_cut` applies to every previously paired
    controller. -/
theorem C16_last_admin_clears_all (C : Crypto) (s : Sys) (c : Nat) (uname : Bytes) (me u : Uuid)
    (hme : (s.conns c).pv.client = some me)
    (hver : (s.conns c).pv.verified = true) (hadm : isAdmin s.pairings me = true)
    (hu : C.parseUuid uname = some u) (hpaired : (getKey s.pairings u).isSome = true)
    (honly : ∀ e ∈ s.pairings, e.admin = true → e.uuid = u) :
    ∀ v, getKey (procReq C true s c (.removePairing uname)).pairings v = none := by
  intro v
  simp only [procReq, hme, hver, hadm, hu, hpaired]
  simp only [Bool.true_eq_false, or_self, if_false, if_true, teardown_pairings, emit_pairings]
  unfold removePairing
  simp only
  split
  · next hany =>
    exfalso
    simp only [List.any_eq_true, List.mem_filter] at hany
    obtain ⟨e, ⟨he, hne⟩, ha⟩ := hany
    have := honly e he ha
    simp [this] at hne
  · simp [getKey]

/-- **Nothing is served to an unpaired controller, ever.**  For every history of the repaired
    system, at every point — also in the middle of a segment, after any requests `pre` pipelined
    before — a guarded request that is served (reaches the peer with content) is served on a
    connection whose controller is paired at that very moment. -/
theorem C16_served_only_paired (C : Crypto) (ops : List Op) (c : Nat) (pre : List Req) (kind : Nat) :
    let s := procChunk C true c (run C true {} ops) pre
    (procReq C true s c (.guarded kind)).trace = s.trace ++ [Event.resp c (.served kind)] →
      ∃ u, (s.conns c).pv.client = some u ∧ (getKey s.pairings u).isSome = true := by
  intro s h
  have hsafe : Safe s := safe_procChunk C c _ pre (safe_run C {} ops safe_init)
  simp only [procReq, emit_trace, List.append_cancel_left_eq, List.cons.injEq, and_true] at h
  have hl : c ∈ s.live := by
    by_cases hl : c ∈ s.live
    · exact hl
    · simp [hl] at h
  simp only [hl, if_true, Event.resp.injEq, true_and] at h
  have hv : (s.conns c).pv.verified = true := by
    cases hv : (s.conns c).pv.verified
    · simp [hv] at h
    · rfl
  obtain ⟨u, hu, hp⟩ := hsafe c hv
  exact ⟨u, hu, hp hl⟩

/-- The invariant behind it, for every history: every registered verified connection belongs to
    a currently paired controller. -/
theorem C16_invariant (C : Crypto) (ops : List Op) : Safe (run C true {} ops) :=
  safe_run C {} ops safe_init

/-! ### The code before the repair: counterexample (and the same history after the repair) -/

namespace Demo
open Sym

def uA : Uuid := List.replicate 16 0xA1
def uB : Uuid := List.replicate 16 0xB2
def skA : Bytes := [9, 9, 9]
def skB : Bytes := [8, 8]
def m1 (a : Nat) : Bytes := encode [(T_SEQUENCE_NUM, [1]), (T_PUBLIC_KEY, crypto.pubOf a)]
/-- final message of controller `id`/`sk` with ephemeral pair `a`, accessory pair named `n` -/
def m3 (ident sk : Bytes) (a n : Nat) : Bytes :=
  encode [(T_SEQUENCE_NUM, [3]),
          (T_ENCRYPTED_DATA, crypto.aeadEnc (crypto.hkdf [UInt8.ofNat a ^^^ UInt8.ofNat n]) NONCE3
            (encode [(T_USERNAME, ident), (T_PROOF, crypto.sign sk (crypto.pubOf a ++ ident ++ crypto.pubOf n))]))]

/-- A (admin) and B pair, both verify (accessory key pairs are named 4 and 6: step numbers),
    A removes B, then B sends GET /accessories on its old connection. -/
def hist : List Op :=
  [.pair uA (crypto.pkOf skA) true, .pair uB (crypto.pkOf skB) false, .connect 0, .connect 1,
   .chunk 0 [.pairVerify (m1 200)], .chunk 0 [.pairVerify (m3 uA skA 200 4)],
   .chunk 1 [.pairVerify (m1 201)], .chunk 1 [.pairVerify (m3 uB skB 201 6)],
   .chunk 0 [.removePairing uB], .chunk 1 [.guarded 0]]

end Demo

/-- **Before the repair** (`step C false`): the removed controller's old session is still served
    after the removal was acknowledged, and its connection stays registered. -/
theorem C16_legacy_counterexample :
    let s := run Sym.crypto false {} Demo.hist
    s.trace.getLast? = some (Event.resp 1 (.served 0)) ∧ Event.resp 0 .ack ∈ s.trace ∧
    1 ∈ s.live ∧ getKey s.pairings Demo.uB = none := by
  decide +kernel

/-- the same history on the repaired system: acknowledgement, then close of B's connection, and
    B's later request is never delivered (non-vacuity of the hypotheses of the theorems above) -/
example :
    let s := run Sym.crypto true {} Demo.hist
    s.trace.reverse.take 2 = [Event.close 1, Event.resp 0 .ack] ∧ s.live = [0] ∧
    (s.conns 1).pv.verified = false ∧ (s.conns 0).pv.verified = true := by
  decide +kernel

end Hap.Sess
