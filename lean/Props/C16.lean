/-
  C16 — Removing a pairing cuts that controller off.

  Model: HapModel/Sessions.lean (registry of connections, dispatch guards, handle_pairings with
  add / remove / list and the last-admin rule, teardown of unpaired sessions by
  `_process_response` after the response is written) on top of HapModel/PairVerify.lean.
  Deepening round: delayed responses (`Req.resource` / `Op.ready`: `response.task`,
  `_handle_response_ready`) and `Op.restart` are part of the alphabet; the cut theorem speaks about
  every continuation (rest of the remover's segment, re-adding, completions of delayed responses,
  restarts), and "useful answers go to paired controllers only" covers every request kind.
  `step C true` is the repaired code, `step C false` the code before the repair.
  All theorems hold for every value of the crypto parameters `C`.
-/
import Proofs.Sessions
import Proofs.PairVerifySym
namespace Hap.Sess
open Hap Hap.PV Hap.Tlv

/-! ### The property -/

/-- **No new session.** Once `v` is not paired (after a removal — of `v` itself or of the last
    admin), for every later history that does not register `v` again, on every connection a
    pair-verify final message claiming `v` is refused whatever proof it carries: no shared key is
    handed out, the connection's privilege is unchanged.  (Corollary of the C02 iff: the pair-verify
    handler here is literally the one of the C02 model.) -/
theorem C16_new_session_refused (C : Crypto) (rep : Bool) (s1 : Sys) (later : List Op) (v : Uuid)
    (x : Nat) (body : Bytes) (cl : Claim)
    (hgone : getKey s1.pairings v = none) (hlater : ∀ op ∈ later, NoReAdd C v op)
    (hcl : claimOf C ((run C rep s1 later).conns x).pv body = some cl)
    (hv : C.parseUuid cl.uname = some v) :
    let s2 := run C rep s1 later
    (handlePairVerify C s2.pairings s2.clock (s2.conns x).pv body).2.shared = none ∧
    ((procReq C rep s2 x (.pairVerify body)).conns x).pv.verified = (s2.conns x).pv.verified := by
  intro s2
  have hk : getKey s2.pairings v = none := run_getKey_none C rep s1 later v hgone hlater
  have hno : (handlePairVerify C s2.pairings s2.clock (s2.conns x).pv body).2.shared = none := by
    cases hs : (handlePairVerify C s2.pairings s2.clock (s2.conns x).pv body).2.shared with
    | none => rfl
    | some k =>
      exfalso
      have : (handlePairVerify C s2.pairings s2.clock (s2.conns x).pv body).2.shared.isSome = true := by simp [hs]
      obtain ⟨cl', _, u', k', hcl', _, hu', hk', _⟩ := (handler_shared_iff C _ _ _ body).1 this
      rw [hcl] at hcl'; cases hcl'
      rw [hv] at hu'; cases hu'
      rw [hk] at hk'; cases hk'
  refine ⟨hno, ?_⟩
  simp only [procReq, Sess.setConn, if_true]
  rw [(installCipher_fields _ _).2.1]
  have hv' := handler_verified C s2.pairings s2.clock (s2.conns x).pv body
  cases hb : (s2.conns x).pv.verified
  · cases ha : (handlePairVerify C s2.pairings s2.clock (s2.conns x).pv body).1.verified
    · rfl
    · rcases hv' ha with h1 | h2
      · simp [hb] at h1
      · simp [hno] at h2
  · revert hb
    unfold handlePairVerify verifyOne verifyTwo
    repeat' split
    all_goals simp_all

/-- **Open sessions are cut, the acknowledgement goes out first — for every continuation.**  In ANY
    state `s`, when an admin's verified, registered connection `c` asks to remove the pairing `uname`
    (parsing to `u`): the trace grows by the acknowledgement — delivered to the remover (`resp`, not
    `dropped`), even if its own connection is among those closed — followed by the closes; `u` is
    no longer paired; and every registered connection `d` of a controller `v` that is no longer
    paired afterwards (the named one, or everybody when the last-admin rule fired) is closed,
    unregistered, has lost its privilege flag (so even requests already buffered behind the
    removal are answered 401 into the void), and NOTHING EVER REACHES ITS PEER AGAIN: not through
    the remaining requests `post` of the remover's own segment (whatever they are — also when `d`
    is the remover's connection), not through any later history `later` of connects, closes,
    segments on any connection, pairings registered again (also `v` itself: re-adding does not
    revive an old session), completions of delayed responses (`ready d`: a snapshot that was being
    taken when the removal came is never written) and restarts — as long as no NEW TCP connection
    takes the id `d`. -/
theorem C16_open_sessions_cut (C : Crypto) (s : Sys) (c : Nat) (uname : Bytes) (me u : Uuid)
    (hc : c ∈ s.live) (hme : (s.conns c).pv.client = some me)
    (hver : (s.conns c).pv.verified = true) (hadm : isAdmin s.pairings me = true)
    (hu : C.parseUuid uname = some u) :
    let s1 := procReq C true s c (.removePairing uname)
    getKey s1.pairings u = none ∧
    ∃ closes : List Nat, s1.trace = s.trace ++ [Event.resp c .ack] ++ closes.map Event.close ∧
      ∀ d v, d ∈ s.live → (s.conns d).pv.client = some v → getKey s1.pairings v = none →
        d ∈ closes ∧ d ∉ s1.live ∧ (s1.conns d).pv.verified = false ∧
        (∀ kind, (procReq C true s1 d (.guarded kind)).trace = s1.trace ++ [Event.dropped d .unauthorized]) ∧
        (∀ post later, (∀ op ∈ later, op ≠ .connect d) →
          reachedOf d (run C true (procChunk C true c s1 post) later).trace = reachedOf d s1.trace) := by
  intro s1
  have hs1 : s1 = teardown (emit { s with
      pairings := if (getKey s.pairings u).isSome then removePairing s.pairings u else s.pairings,
      clock := s.clock + 1 } c .ack) := by
    simp [s1, procReq, hme, hver, hadm, hu]
  have hps : getKey s1.pairings u = none := by
    rw [hs1]; simp only [teardown_pairings, emit_pairings]
    split
    · exact getKey_removePairing _ _
    · next h => simpa using h
  refine ⟨hps, (s.live.filter fun d => unpairedSession s1.pairings (s.conns d)), ?_, ?_⟩
  · rw [hs1]; simp [teardown, hc, List.append_assoc]
  · intro d v hd hcl hgone
    have hvict : unpairedSession s1.pairings (s.conns d) = true := by simp [unpairedSession, hcl, hgone]
    have hpair : s1.pairings = (emit { s with
        pairings := if (getKey s.pairings u).isSome then removePairing s.pairings u else s.pairings,
        clock := s.clock + 1 } c .ack).pairings := by rw [hs1]; rfl
    have hnl : d ∉ s1.live := by
      rw [hs1, mem_teardown_live]
      simp only [emit_live, emit_conns, not_and]
      intro _
      rw [← hpair]; simp [hvict]
    have hnv : (s1.conns d).pv.verified = false := by
      rw [hs1, teardown_conns]
      simp only [emit_live, emit_conns]
      rw [← hpair]
      simp [hd, hvict]
    refine ⟨by simp [List.mem_filter, hd, hvict], hnl, hnv, ?_, ?_⟩
    · intro kind
      simp [procReq, hnv, hnl]
    · intro post later hl
      have h1 := procChunk_dead C true c s1 post d hnl
      rw [(run_dead C true _ later d h1.1 hl).2, h1.2]

/-- **Acknowledgement first.** The response to an accepted removal is written to the remover's
    still open transport (`resp`, never `dropped`) before any connection is closed — also when the
    remover's own connection is one of those closed (self-removal, last-admin rule). -/
theorem C16_ack_before_close (C : Crypto) (s : Sys) (c : Nat) (uname : Bytes) (me u : Uuid)
    (hc : c ∈ s.live) (hme : (s.conns c).pv.client = some me)
    (hver : (s.conns c).pv.verified = true) (hadm : isAdmin s.pairings me = true)
    (hu : C.parseUuid uname = some u) :
    ∃ closes : List Nat,
      (procReq C true s c (.removePairing uname)).trace =
        s.trace ++ Event.resp c .ack :: closes.map Event.close := by
  obtain ⟨_, closes, h, _⟩ := C16_open_sessions_cut C s c uname me u hc hme hver hadm hu
  exact ⟨closes, by simpa [List.append_assoc] using h⟩

/-- **Last-admin rule.** If the removed controller was the only admin, every pairing is gone
    afterwards — so the cut of `C16_open_sessions_cut` applies to every previously paired
    controller. -/
theorem C16_last_admin_clears_all (C : Crypto) (s : Sys) (c : Nat) (uname : Bytes) (me u : Uuid)
    (hme : (s.conns c).pv.client = some me)
    (hver : (s.conns c).pv.verified = true) (hadm : isAdmin s.pairings me = true)
    (hu : C.parseUuid uname = some u) (hpaired : (getKey s.pairings u).isSome = true)
    (honly : ∀ e ∈ s.pairings, e.admin = true → e.uuid = u) :
    ∀ v, getKey (procReq C true s c (.removePairing uname)).pairings v = none := by
  intro v
  simp only [procReq, hme, hver, hadm, hu, hpaired]
  simp only [Bool.true_eq_false, or_self, if_false, if_true, teardown_pairings, emit_pairings]
  unfold removePairing
  simp only
  split
  · next hany =>
    exfalso
    simp only [List.any_eq_true, List.mem_filter] at hany
    obtain ⟨e, ⟨he, hne⟩, ha⟩ := hany
    have := honly e he ha
    simp [this] at hne
  · simp [getKey]

/-- **Nothing is served to an unpaired controller, ever.**  For every history of the repaired
    system, at every point — also in the middle of a segment, after any requests `pre` pipelined
    before — a guarded request that is served (reaches the peer with content) is served on a
    connection whose controller is paired at that very moment. -/
theorem C16_served_only_paired (C : Crypto) (ops : List Op) (c : Nat) (pre : List Req) (kind : Nat) :
    let s := procChunk C true c (run C true {} ops) pre
    (procReq C true s c (.guarded kind)).trace = s.trace ++ [Event.resp c (.served kind)] →
      ∃ u, (s.conns c).pv.client = some u ∧ (getKey s.pairings u).isSome = true := by
  intro s h
  have hsafe : Safe s := safe_procChunk C c _ pre (safe_run C {} ops safe_init)
  simp only [procReq, emit_trace, List.append_cancel_left_eq, List.cons.injEq, and_true] at h
  have hl : c ∈ s.live := by
    by_cases hl : c ∈ s.live
    · exact hl
    · simp [hl] at h
  simp only [hl, if_true, Event.resp.injEq, true_and] at h
  have hv : (s.conns c).pv.verified = true := by
    cases hv : (s.conns c).pv.verified
    · simp [hv] at h
    · rfl
  obtain ⟨u, hu, hp⟩ := hsafe c hv
  exact ⟨u, hu, hp hl⟩

/-- **Every useful answer goes to a currently paired controller** (all request kinds).  For every
    history of the repaired system, at every point — also in the middle of a segment, after any
    requests `pre` pipelined before — whenever a request of ANY kind (guarded endpoint, list / add /
    remove pairing, pair-verify, resource) on connection `c` produces an answer that reaches the
    peer and gives it something (`useful`: content or an effect, the pairing list, an
    acknowledgement), the connection is registered and verified as a controller that is paired at
    that very moment. -/
theorem C16_response_only_paired (C : Crypto) (ops : List Op) (c : Nat) (pre : List Req) (req : Req)
    (r : RC) (evs : List Event) :
    let s := procChunk C true c (run C true {} ops) pre
    (procReq C true s c req).trace = s.trace ++ evs → Event.resp c r ∈ evs → useful r = true →
      ∃ u, (s.conns c).pv.client = some u ∧ (s.conns c).pv.verified = true ∧
        (getKey s.pairings u).isSome = true := by
  intro s h hm hu
  have hsafe : Safe s := safe_procChunk C c _ pre (safe_run C {} ops safe_init)
  obtain ⟨hl, hv⟩ := procReq_useful C true s c req r evs h hm hu
  obtain ⟨u, hcu, hp⟩ := hsafe c hv
  exact ⟨u, hcu, hv, hp hl⟩

/-- ... and so does every delayed response: when the snapshot task of connection `c` completes and
    its response is written, `c` is registered; if it is (still) verified, its controller is paired. -/
theorem C16_delayed_response_only_registered (C : Crypto) (ops : List Op) (c : Nat) (ok : Bool) :
    let s := run C true {} ops
    (step C true s (.ready c ok)).trace ≠ s.trace →
      c ∈ s.live ∧ ((s.conns c).pv.verified = true →
        ∃ u, (s.conns c).pv.client = some u ∧ (getKey s.pairings u).isSome = true) := by
  intro s h
  have hsafe : Safe s := safe_run C {} ops safe_init
  have hl : c ∈ s.live := by
    by_cases hl : c ∈ s.live
    · exact hl
    · exfalso; apply h; simp only [step]; split <;> simp [hl]
  refine ⟨hl, fun hv => ?_⟩
  obtain ⟨u, hcu, hp⟩ := hsafe c hv
  exact ⟨u, hcu, hp hl⟩

/-- a delayed response is never written to a connection that is not registered any more (a cut
    session in particular): nothing at all is appended to the trace -/
theorem C16_delayed_response_suppressed (C : Crypto) (s : Sys) (d : Nat) (ok : Bool) (hd : d ∉ s.live) :
    (step C true s (.ready d ok)).trace = s.trace := by
  simp only [step]; split <;> simp [hd]

/-- **No live session while unpaired.**  For every history, for every identifier `v` that is not
    paired at that point (never paired, removed, swept by the last-admin rule), no registered
    connection is verified as `v` — whatever `v` tried on old and new connections before. -/
theorem C16_unpaired_has_no_live_session (C : Crypto) (ops : List Op) (v : Uuid) (d : Nat) :
    let s := run C true {} ops
    getKey s.pairings v = none → d ∈ s.live → (s.conns d).pv.client = some v →
      (s.conns d).pv.verified = false := by
  intro s hgone hl hcl
  cases hv : (s.conns d).pv.verified
  · rfl
  · exfalso
    obtain ⟨u, hu, hp⟩ := safe_run C {} ops safe_init d hv
    rw [hcl] at hu; cases hu
    have := hp hl
    rw [hgone] at this; simp at this

/-- **Restart.**  Ending the process and starting again from the state file keeps every removed
    identifier out (the pairing map is the saved one) and leaves no session behind; together with
    `C16_new_session_refused` — whose later histories include restarts — a removed controller stays
    out across any number of restarts. -/
theorem C16_restart_keeps_out (C : Crypto) (s : Sys) :
    (step C true s .restart).pairings = s.pairings ∧ (step C true s .restart).live = [] ∧
    ∀ d, ((step C true s .restart).conns d).pv.verified = false := by
  simp [step]

/-- The invariant behind it, for every history: every registered verified connection belongs to
    a currently paired controller. -/
theorem C16_invariant (C : Crypto) (ops : List Op) : Safe (run C true {} ops) :=
  safe_run C {} ops safe_init

/-! ### The code before the repair: counterexample (and the same history after the repair) -/

namespace Demo
open Sym

def uA : Uuid := List.replicate 16 0xA1
def uB : Uuid := List.replicate 16 0xB2
def skA : Bytes := [9, 9, 9]
def skB : Bytes := [8, 8]
def m1 (a : Nat) : Bytes := encode [(T_SEQUENCE_NUM, [1]), (T_PUBLIC_KEY, crypto.pubOf a)]
/-- final message of controller `id`/`sk` with ephemeral pair `a`, accessory pair named `n` -/
def m3 (ident sk : Bytes) (a n : Nat) : Bytes :=
  encode [(T_SEQUENCE_NUM, [3]),
          (T_ENCRYPTED_DATA, crypto.aeadEnc (crypto.hkdf [UInt8.ofNat a ^^^ UInt8.ofNat n]) NONCE3
            (encode [(T_USERNAME, ident), (T_PROOF, crypto.sign sk (crypto.pubOf a ++ ident ++ crypto.pubOf n))]))]

/-- A (admin) and B pair, both verify (accessory key pairs are named 4 and 6: step numbers),
    A removes B, then B sends GET /accessories on its old connection. -/
def hist : List Op :=
  [.pair uA (crypto.pkOf skA) true, .pair uB (crypto.pkOf skB) false, .connect 0, .connect 1,
   .chunk 0 [.pairVerify (m1 200)], .chunk 0 [.pairVerify (m3 uA skA 200 4)],
   .chunk 1 [.pairVerify (m1 201)], .chunk 1 [.pairVerify (m3 uB skB 201 6)],
   .chunk 0 [.removePairing uB], .chunk 1 [.guarded 0]]

/-- B has a snapshot in flight when A removes B and — in the same segment — registers B again and
    reads; then the snapshot completes and B's old connection sends a request. -/
def hist3 : List Op :=
  hist.take 8 ++
  [.chunk 1 [.resource],
   .chunk 0 [.removePairing uB, .addPairing uB (crypto.pkOf skB) false, .guarded 0],
   .ready 1 true, .chunk 1 [.guarded 0]]

/-- the only admin A removes itself with requests pipelined behind the removal; restart; B tries again -/
def hist4 : List Op :=
  hist.take 8 ++
  [.chunk 0 [.removePairing uA, .guarded 0, .listPairings], .restart, .connect 2,
   .chunk 2 [.pairVerify (m1 202)], .chunk 2 [.pairVerify (m3 uB skB 202 11)], .chunk 2 [.guarded 0]]

end Demo

/-- non-vacuity of the continuation clause of `C16_open_sessions_cut`, of
    `C16_delayed_response_suppressed` and of the re-add remark: B is paired again, but nothing reached
    its old connection after the close — neither the snapshot nor an answer to its next request -/
example :
    let s := run Sym.crypto true {} Demo.hist3
    s.trace.reverse.take 4 =
      [Event.resp 0 (.served 0), Event.resp 0 .ack, Event.close 1, Event.resp 0 .ack] ∧
    s.live = [0] ∧ (getKey s.pairings Demo.uB).isSome = true ∧ (s.conns 1).pv.verified = false ∧
    (reachedOf 1 s.trace).getLast? = some (Event.close 1) := by
  decide +kernel

/-- the same history before the removal: the snapshot request was accepted (a response is pending) -/
example : ((run Sym.crypto true {} (Demo.hist3.take 9)).conns 1).pending = true := by decide +kernel

/-- self-removal of the last admin with pipelined requests, restart, fresh attempt of B: the pipelined
    requests are answered into the void, after the restart nobody is paired and B's first step is
    refused -/
example :
    let s := run Sym.crypto true {} Demo.hist4
    Event.dropped 0 .unauthorized ∈ s.trace ∧ Event.dropped 0 .pairingsDenied ∈ s.trace ∧
    s.pairings = [] ∧ s.live = [2] ∧ (s.conns 2).pv.verified = false ∧
    s.trace.getLast? = some (Event.resp 2 .unauthorized) := by
  decide +kernel

/-- **Before the repair** (`step C false`): the removed controller's old session is still served
    after the removal was acknowledged, and its connection stays registered. -/
theorem C16_legacy_counterexample :
    let s := run Sym.crypto false {} Demo.hist
    s.trace.getLast? = some (Event.resp 1 (.served 0)) ∧ Event.resp 0 .ack ∈ s.trace ∧
    1 ∈ s.live ∧ getKey s.pairings Demo.uB = none := by
  decide +kernel

/-- the same history on the repaired system: acknowledgement, then close of B's connection, and
    B's later request is never delivered (non-vacuity of the hypotheses of the theorems above) -/
example :
    let s := run Sym.crypto true {} Demo.hist
    s.trace.reverse.take 2 = [Event.close 1, Event.resp 0 .ack] ∧ s.live = [0] ∧
    (s.conns 1).pv.verified = false ∧ (s.conns 0).pv.verified = true := by
  decide +kernel

end Hap.Sess
