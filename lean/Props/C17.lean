/-
  C17 — Accessory and instance identifiers are unique, stable and consistently resolved.
  Property theorems only; lemmas live in Proofs/Iid.lean, Proofs/DbAid.lean, Proofs/DbIds.lean,
  Proofs/DbStep.lean, Proofs/DbResolve.lean, Proofs/DbUncached.lean, Proofs/DbTable.lean
  (and Proofs/DbLift.lean for the link to the cached rendering).

  Models: HapModel/Iid.lean (`IIDManager`), HapModel/Db.lean (accessories, the bridge's aid
  assignment, rendering, the three resolution paths).  Objects are opaque identities allocated
  fresh; a history is any list of: add a fresh service to an accessory, add a fresh accessory to
  the bridge (explicit or automatic aid), remove a bridged accessory, `assign` / `remove_obj` /
  `remove_iid` on any accessory's manager with any argument.
-/
import Proofs.DbResolve
import Proofs.DbUncached
import Proofs.DbLift
import Proofs.DbInterleave
import Proofs.DbTable
import Proofs.DbStable
import Proofs.IidCustom
import HapModel.Gen.Services
namespace Hap.C17
open Hap Hap.Db

variable {V P : Type} [PropsLike P] [Inhabited V]

/-! ### the IID manager -/

/-- For every history of assign / remove_obj / remove_iid (any arguments): no exception
    escapes (`del` never hits a missing key), `iids` and `objs` are mutually inverse and every
    iid in use lies in `1..counter`. -/
theorem C17_iid_manager (ops : List Iid.Op) :
    ∃ m, Iid.run Iid.empty ops = some m ∧
      (∀ o i, m.iids o = some i ↔ m.objs i = some o) ∧
      (∀ i o, m.objs i = some o → 1 ≤ i ∧ i ≤ m.counter) :=
  let ⟨m, e, g, _, _⟩ := Iid.run_good Iid.good_empty ops
  ⟨m, e, g.1, g.2⟩

/-- **Monotone counter, no reissue.** Split any history in two: the counter after the second
    part is at least the counter after the first, and every binding (object ↦ iid) that exists
    at the end with an iid within the earlier counter value already existed, for the same
    object, after the first part.  Hence an iid that was removed (or belonged to another
    object) is never handed out again. -/
theorem C17_iid_never_reissued (pre post : List Iid.Op) :
    ∃ m1 m2, Iid.run Iid.empty pre = some m1 ∧ Iid.run m1 post = some m2 ∧
      m1.counter ≤ m2.counter ∧
      ∀ o i, m2.iids o = some i → i ≤ m1.counter → m1.iids o = some i :=
  let ⟨m1, e1, g1, _, _⟩ := Iid.run_good Iid.good_empty pre
  let ⟨m2, e2, _, c, old⟩ := Iid.run_good g1 post
  ⟨m1, m2, e1, e2, c, old⟩

/-- a fresh assignment issues `counter + 1`, an iid no object holds or ever held -/
theorem C17_assign_fresh (m : Iid) (h : Iid.Good m) (o : Nat) (hn : m.iids o = none) :
    (m.assign o).iids o = some (m.counter + 1) ∧ (m.assign o).counter = m.counter + 1 ∧
    ∀ o', m.iids o' ≠ some (m.counter + 1) := by
  refine ⟨by simp [Iid.assign, hn, Iid.upd], by simp [Iid.assign, hn], ?_⟩
  intro o' e
  have := (h.2 _ _ ((h.1 _ _).mp e)).2
  omega

/-! ### application managers: `get_iid_for_obj` overridden, explicit and automatic iids mixed -/

/-- **Application IIDManager subclasses.**  The application starts the counter at `start` and its
    override hands out explicit (recorded) iids for some objects, the base class numbers the rest.
    For every history of assign (automatic or explicit) / remove_obj / remove_iid that respects the
    application's policy relative to a bound `B` (an explicit iid is held by nobody and lies at or
    below the current counter or beyond `B`; the automatic counter stays below `B`): no exception
    escapes, `iids` and `objs` stay mutually inverse, hence two objects never hold the same iid —
    and the next automatic iid is held by nobody (an explicit iid never makes the base class repeat
    a number). -/
theorem C17_custom_manager (B start : Nat) (hs : start ≤ B) (ops : List Iid.OpX)
    (hp : Iid.AllowedRun B (Iid.startAt start) ops) :
    ∃ m, Iid.runX (Iid.startAt start) ops = some m ∧
      (∀ o i, m.iids o = some i ↔ m.objs i = some o) ∧
      (∀ o o' i, m.iids o = some i → m.iids o' = some i → o = o') ∧
      (m.counter < B → m.objs (m.counter + 1) = none) := by
  obtain ⟨m, e, g⟩ := Iid.runX_good (Iid.goodX_startAt B start hs) ops hp
  exact ⟨m, e, g.1, fun o o' i e1 e2 => g.distinct e1 e2, fun hc => (g.auto_fresh hc).1⟩

/-- non-vacuity: counter started at 30, recorded iids 20 (below), 30 (equal to the start) and
    5003 (far above) mixed with automatic ones, a removal and the same recorded iid again -/
example :
    Iid.AllowedRun 100 (Iid.startAt 30)
      [.auto 0, .explicit 1 20, .explicit 2 30, .auto 3, .explicit 4 5003, .removeObj 1, .explicit 1 20, .auto 5] :=
  Iid.allowedRun_of_B (by decide)

/-- `assign` that sets the counter to whatever iid was picked (a regression the check must see) -/
def assignAtRewind (m : Iid) (o i : Nat) : Iid :=
  match m.iids o with
  | some _ => m
  | none => { counter := i, iids := Iid.upd m.iids o (some i), objs := Iid.upd m.objs i (some o) }

/-- With the counter rewound by an explicit iid below it, the base class repeats a number in use:
    start 2; automatic 3, 4; explicit 2 (allowed by the policy) rewinds the counter to 2; the next
    automatic iid is 3 again — objects 0 and 3 both hold it. -/
theorem C17_counter_rewind_counterexample :
    let m := (assignAtRewind (((Iid.startAt 2).assign 0).assign 1) 2 2).assign 3
    m.iids 0 = some 3 ∧ m.iids 3 = some 3 := by decide

/-! ### automatic and explicit accessory ids -/

/-- **Termination.** `next(aid for aid in count(2) if aid != 7 and aid not in accessories)`
    always finds an aid, whatever aids are in use. -/
theorem C17_auto_aid_terminates (keys : List Nat) : ∃ k, findAid keys = some k :=
  findAid_exists keys

/-- The aid it finds is the least one ≥ 2 that is neither 7 nor in use: never 1 (the bridge's
    own), never 7, different from every existing aid. -/
theorem C17_auto_aid_spec (keys : List Nat) (k : Nat) (h : findAid keys = some k) :
    2 ≤ k ∧ k ≠ 1 ∧ k ≠ 7 ∧ ¬ k ∈ keys ∧ ∀ j, 2 ≤ j → j < k → j = 7 ∨ j ∈ keys :=
  findAid_spec keys k h

/-- Adding an accessory without an aid to a bridge always succeeds, with an aid that is not 1,
    not 7 and not in use; the accessory is registered under that aid, last in dict order. -/
theorem C17_add_accessory_auto (s : Db V P) (defs : List (SvcDef V P)) (hb : s.isBridge = true) :
    ∃ k, (s.addAccessory none false defs).2 = .ok (some k) ∧ k ≠ 1 ∧ k ≠ 7 ∧ ¬ k ∈ s.keys ∧
      (s.addAccessory none false defs).1.keys = s.keys ++ [k] := by
  obtain ⟨k, hk⟩ := findAid_exists s.keys
  obtain ⟨_, k1, k7, kn, _⟩ := findAid_spec s.keys k hk
  have hb' : ¬ ((!s.isBridge) = true) := by simp [hb]
  have e : s.addAccessory none false defs =
      ({ s with bridged := s.bridged ++ [(k, { (mkAccessory none s.nextObj defs emptyAccessory).1 with aid := some k })],
                nextObj := (mkAccessory none s.nextObj defs emptyAccessory).2 }, .ok (some k)) := by
    unfold Db.addAccessory
    rw [if_neg hb', if_neg (by simp)]
    rcases mkAccessory none s.nextObj defs (emptyAccessory : Accessory V P) with ⟨acc, next⟩
    simp only [hk]
  rw [e]
  exact ⟨k, rfl, k1, k7, kn, by simp [Db.keys]⟩

/-- An explicit aid equal to the bridge's own or already in use, and an accessory that is
    itself a bridge, are rejected with ValueError and the state is unchanged. -/
theorem C17_add_accessory_rejects (s : Db V P) (defs : List (SvcDef V P)) (hb : s.isBridge = true) :
    (∀ k, (some k = s.main.aid ∨ k ∈ s.keys) → s.addAccessory (some k) false defs = (s, .valueError)) ∧
    (∀ aid, s.addAccessory aid true defs = (s, .valueError)) := by
  have hb' : ¬ ((!s.isBridge) = true) := by simp [hb]
  constructor
  · intro k hk
    unfold Db.addAccessory
    rw [if_neg hb', if_neg (by simp)]
    rcases mkAccessory (some k) s.nextObj defs (emptyAccessory : Accessory V P) with ⟨acc, next⟩
    simp only [if_pos hk]
  · intro aid
    unfold Db.addAccessory
    rw [if_neg hb', if_pos rfl]

/-- An explicit aid that is free is accepted as it is. -/
theorem C17_add_accessory_explicit (s : Db V P) (defs : List (SvcDef V P)) (hb : s.isBridge = true)
    (k : Nat) (hk : ¬ (some k = s.main.aid ∨ k ∈ s.keys)) :
    (s.addAccessory (some k) false defs).2 = .ok (some k) ∧
    (s.addAccessory (some k) false defs).1.keys = s.keys ++ [k] := by
  have hb' : ¬ ((!s.isBridge) = true) := by simp [hb]
  have e : s.addAccessory (some k) false defs =
      ({ s with bridged := s.bridged ++ [(k, (mkAccessory (some k) s.nextObj defs emptyAccessory).1)],
                nextObj := (mkAccessory (some k) s.nextObj defs emptyAccessory).2 }, .ok (some k)) := by
    unfold Db.addAccessory
    rw [if_neg hb', if_neg (by simp)]
    rcases mkAccessory (some k) s.nextObj defs (emptyAccessory : Accessory V P) with ⟨acc, next⟩
    simp only [if_neg hk]
  rw [e]
  exact ⟨rfl, by simp [Db.keys]⟩

/-! ### the database invariant over all construction histories -/

/-- **Invariant.** After any history, starting from a freshly constructed top-level accessory
    or bridge: every accessory knows its aid (= its dict key; the top-level one has aid 1),
    aids are pairwise distinct, no object belongs to two accessories, inside an accessory the
    objects are pairwise distinct, every manager is consistent (`iids`/`objs` inverse, iids in
    `1..counter`), and a plain accessory has nothing bridged. -/
theorem C17_invariant (isBridge : Bool) (defs : List (SvcDef V P)) (ops : List (Op V P)) :
    ((Db.init isBridge defs).run ops).Good :=
  run_good _ ops (init_good isBridge defs)

/-- unfolded consequences of the invariant about accessory ids -/
theorem C17_aids_distinct (s : Db V P) (hs : s.Good) :
    s.main.aid = some 1 ∧ (s.keys).Nodup ∧ ¬ 1 ∈ s.keys ∧
    (∀ ka ∈ s.bridged, ka.2.aid = some ka.1) ∧
    (s.accList.map (·.aid)).Nodup := by
  have hmain : (STANDALONE_AID, s.main) ∈ s.assoc := by simp [Db.assoc]
  have hkeys : (s.assoc.map (·.1)).Nodup := by
    rw [List.Nodup, List.pairwise_map]
    exact hs.sep.imp (fun h => h.1)
  have haids : s.accList.map (·.aid) = s.assoc.map (fun ka => some ka.1) := by
    rw [Db.accList_eq, List.map_map]
    apply List.map_congr_left
    intro ka hka
    exact (hs.accs ka hka).1
  simp only [Db.assoc, List.map_cons, List.nodup_cons] at hkeys
  refine ⟨(hs.accs _ hmain).1, hkeys.2, hkeys.1, ?_, ?_⟩
  · intro ka hka; exact (hs.accs ka (by simp [Db.assoc, hka])).1
  · rw [haids, List.Nodup, List.pairwise_map]
    exact hs.sep.imp (fun h e => h.1 (Option.some.inj e))

/-- every accessory's manager satisfies the manager invariant -/
theorem C17_managers_consistent (s : Db V P) (hs : s.Good) :
    ∀ a ∈ s.accList, Iid.Good a.iidm := by
  intro a ha
  rw [Db.accList_eq, List.mem_map] at ha
  obtain ⟨ka, hka, rfl⟩ := ha
  exact (hs.accs ka hka).2.1

/-! ### listed once, resolved consistently -/

/-- The (aid, iid) pairs that GET /accessories shows (services and characteristics, in
    order) are exactly `Db.listing`. -/
theorem C17_rendering_lists (s : Db V P) (g : Nat → Option V) :
    ∃ reps, (s.render false g).1 = some reps ∧ reps.flatMap AccRep.pairs = s.listing.map (·.1) :=
  Db.render_pairs s g

/-- **Listed once.** In the listing of a well-formed database no pair that carries an
    instance id occurs at a second position (so within an accessory all instance ids of
    services and characteristics are distinct, and across accessories the aids differ). -/
theorem C17_listed_once (s : Db V P) (hs : s.Good) :
    s.listing.Pairwise (fun x y => x.1.2 ≠ none → x.1 ≠ y.1) :=
  listing_once s hs

/-- **Consistent resolution.** For every listed pair (aid, iid) with object `c`: a read
    (`get_characteristics`) reaches `c`, a write (`set_characteristics` →
    `get_characteristic`) reaches `c`, and an event published by `c` carries (aid, iid) — the
    topic a subscription to (aid, iid) uses. -/
theorem C17_resolution (s : Db V P) (hs : s.Good) (aid iid c : Nat)
    (h : ((some aid, some iid), c) ∈ s.listing) :
    s.resolveRead aid iid = some c ∧ s.resolveWrite aid iid = some c ∧
    s.eventId c = some (some aid, some iid) :=
  resolve_listed s hs aid iid c h

/-- the same over all histories, in one statement -/
theorem C17_resolution_all_histories (isBridge : Bool) (defs : List (SvcDef V P)) (ops : List (Op V P))
    (aid iid c : Nat)
    (h : ((some aid, some iid), c) ∈ ((Db.init isBridge defs).run ops).listing) :
    let s := (Db.init isBridge defs).run ops
    s.resolveRead aid iid = some c ∧ s.resolveWrite aid iid = some c ∧
    s.eventId c = some (some aid, some iid) :=
  resolve_listed _ (C17_invariant isBridge defs ops) aid iid c h

/-- **No exception escapes, nothing is cached.** After any construction history no operation
    lets a KeyError out of the paired dict updates (`del self.objs[iid]` / `del self.iids[obj]`
    always find their key), and no characteristic has a cached representation. -/
theorem C17_construction_clean (isBridge : Bool) (defs : List (SvcDef V P)) (ops : List (Op V P))
    (op : Op V P) :
    (((Db.init isBridge defs).run ops).step op).2 ≠ .keyError ∧
    ((Db.init isBridge defs).run ops).Uncached :=
  have hg := run_good _ ops (init_good isBridge defs)
  have hu := run_uncached _ ops (init_good isBridge defs) (init_uncached isBridge defs)
  ⟨(step_uncached _ op hg hu).2, hu⟩

/-- Hence the document GET /accessories serves after a construction history (computed through
    the caches, as the code does) is the from-scratch rendering to which `C17_listed_once`
    and `C17_resolution` refer. -/
theorem C17_served_rendering (isBridge : Bool) (defs : List (SvcDef V P)) (ops : List (Op V P))
    (incl : Bool) (g : Nat → Option V) :
    (((Db.init isBridge defs).run ops).renderCached incl g).1 =
    (((Db.init isBridge defs).run ops).render incl g).1 := by
  have hu := run_uncached _ ops (init_good isBridge defs) (init_uncached isBridge defs)
  refine (Db.renderCached_spec _ incl g ?_).1
  intro a ha sv hsv c hc
  rw [Db.accList_eq, List.mem_map] at ha
  obtain ⟨ka, hka, rfl⟩ := ha
  obtain ⟨h1, h2⟩ := hu ka hka sv hsv c hc
  exact ⟨Or.inl h2, Or.inl h1⟩
/-! ### reads in between (repaired IIDManager) -/

/-- **Interleaved histories.** Construction operations and GET /accessories reads in any order,
    from a freshly constructed accessory or bridge: the well-formedness invariant and C11's
    cache invariant both hold afterwards.  This is where the repair is needed: `assign`,
    `remove_obj` and `remove_iid` drop the cached representations of the object whose iid
    changes (the cached `to_HAP` dict contains the iid). -/
theorem C17_interleaved_invariant (isBridge : Bool) (defs : List (SvcDef V P)) (ops : List (Op17 V P)) :
    ((Db.init isBridge defs).run17 ops).Good ∧ ((Db.init isBridge defs).run17 ops).CacheOk :=
  run17_inv _ ops (init_good isBridge defs)
    (cacheOk_of_db_uncached _ (init_uncached isBridge defs))

/-- Hence, at any point of any interleaved history, the document GET /accessories serves
    (through the caches) is the from-scratch rendering of the current structure and iid tables:
    a removed or re-assigned object is never listed under an iid it no longer has. -/
theorem C17_interleaved_served_is_fresh (isBridge : Bool) (defs : List (SvcDef V P)) (ops : List (Op17 V P))
    (incl : Bool) (g : Nat → Option V) :
    (((Db.init isBridge defs).run17 ops).renderCached incl g).1 =
    (((Db.init isBridge defs).run17 ops).render incl g).1 :=
  (Db.renderCached_spec _ incl g (C17_interleaved_invariant isBridge defs ops).2).1

/-- … and every pair it lists (it lists exactly `Db.listing`, `C17_rendering_lists`) is listed
    once and resolves to the same object for reads, writes and events. -/
theorem C17_interleaved_resolution (isBridge : Bool) (defs : List (SvcDef V P)) (ops : List (Op17 V P))
    (aid iid c : Nat)
    (h : ((some aid, some iid), c) ∈ ((Db.init isBridge defs).run17 ops).listing) :
    let s := (Db.init isBridge defs).run17 ops
    s.listing.Pairwise (fun x y => x.1.2 ≠ none → x.1 ≠ y.1) ∧
    s.resolveRead aid iid = some c ∧ s.resolveWrite aid iid = some c ∧
    s.eventId c = some (some aid, some iid) :=
  have hg := (C17_interleaved_invariant isBridge defs ops).1
  ⟨listing_once _ hg, resolve_listed _ hg aid iid c h⟩

/-! ### every history through the public API (construction, mutation, reads in any order) -/

/-- **Unified histories.**  From a freshly constructed accessory or bridge, any sequence of
    construction operations, value / metadata mutations (set_value, controller write,
    override_properties, display name, getter, availability, primary service) and reads of both
    kinds (GET /accessories through the caches, GET /characteristics) leads to a well-formed
    database: aids distinct and ≠ the bridge's own, objects distinct, managers consistent. -/
theorem C17_all_histories_invariant (isBridge : Bool) (defs : List (SvcDef V P)) (ops : List (OpU V P)) :
    ((Db.init isBridge defs).runU ops).Good :=
  runU_good _ ops (init_good isBridge defs)

/-- … in which every listed pair is listed once and resolves to the same object for reads,
    writes and events. -/
theorem C17_all_histories_resolution (isBridge : Bool) (defs : List (SvcDef V P)) (ops : List (OpU V P))
    (aid iid c : Nat)
    (h : ((some aid, some iid), c) ∈ ((Db.init isBridge defs).runU ops).listing) :
    let s := (Db.init isBridge defs).runU ops
    s.listing.Pairwise (fun x y => x.1.2 ≠ none → x.1 ≠ y.1) ∧
    s.resolveRead aid iid = some c ∧ s.resolveWrite aid iid = some c ∧
    s.eventId c = some (some aid, some iid) :=
  have hg := C17_all_histories_invariant isBridge defs ops
  ⟨listing_once _ hg, resolve_listed _ hg aid iid c h⟩

/-- **Identifiers are stable in every accessory of every history.**  Split any unified history
    in two.  An accessory registered under `k` after the first part is still registered under `k`
    after the second part unless the second part removes it (`k = 1`, the top-level accessory,
    cannot be removed); it is the same accessory (same aid, its objects in the same order followed
    by those added since); its iid counter has not gone back, every binding with an iid within
    the earlier counter value already existed for the same object, and therefore an iid that had
    been issued to an object `o` is never held by another object later — whether or not `o` was
    removed from the manager in between. -/
theorem C17_iid_stable_all_histories (isBridge : Bool) (defs : List (SvcDef V P)) (pre post : List (OpU V P))
    (k : Nat) (a1 : Accessory V P)
    (h1 : ((Db.init isBridge defs).runU pre).accAt k = some a1)
    (hpost : k = STANDALONE_AID ∨ ∀ op ∈ post, op ≠ OpU.con (.removeAccessory k)) :
    ∃ a2, (((Db.init isBridge defs).runU pre).runU post).accAt k = some a2 ∧
      a2.aid = a1.aid ∧ a1.objList <+: a2.objList ∧
      a1.iidm.counter ≤ a2.iidm.counter ∧
      (∀ o i, a2.iidm.iids o = some i → i ≤ a1.iidm.counter → a1.iidm.iids o = some i) ∧
      (∀ o o' i, a1.iidm.iids o = some i → a2.iidm.iids o' = some i → o' = o) := by
  have hg := C17_all_histories_invariant isBridge defs pre
  obtain ⟨a2, e2, n, e3, e4⟩ := runU_noReissue _ hg post k a1 h1 hpost
  exact ⟨a2, e2, e3, e4, n.1, n.2, fun o o' i e1 e3 => n.same_object (accAt_good hg h1) e1 e3⟩

/-- **A listed pair denotes the same object for ever.**  If GET /accessories lists (aid, iid) for
    object `o` at one point of a history and lists (aid, iid) again at a later point — the
    accessory not having been removed from the bridge in between — it is for the same object `o`:
    removing objects and adding new ones never moves an identifier to another object. -/
theorem C17_listed_pair_stable (isBridge : Bool) (defs : List (SvcDef V P)) (pre post : List (OpU V P))
    (aid iid o o' : Nat)
    (h1 : ((some aid, some iid), o) ∈ ((Db.init isBridge defs).runU pre).listing)
    (h2 : ((some aid, some iid), o') ∈ (((Db.init isBridge defs).runU pre).runU post).listing)
    (hpost : aid = STANDALONE_AID ∨ ∀ op ∈ post, op ≠ OpU.con (.removeAccessory aid)) :
    o' = o := by
  have hg1 := C17_all_histories_invariant isBridge defs pre
  have hg2 : (((Db.init isBridge defs).runU pre).runU post).Good := runU_good _ post hg1
  obtain ⟨a1, e1, b1, _⟩ := listing_binding _ hg1 aid iid o h1
  obtain ⟨a2', e2', b2, _⟩ := listing_binding _ hg2 aid iid o' h2
  obtain ⟨a2, e2, _, _, _, _, same⟩ := C17_iid_stable_all_histories isBridge defs pre post aid a1 e1 hpost
  rw [e2] at e2'
  cases e2'
  exact same o o' iid b1 b2

/-- **A listed pair is readable and the read returns that characteristic's value.**  In a
    well-formed database (every state of every unified history), for a pair (aid, iid) that
    GET /accessories lists for object `o`: the read path finds the accessory registered under
    `aid`, whose structure holds `o` and whose manager maps `iid` to `o`; the entry a
    GET /characteristics produces for the pair is the failure entry when that (bridged)
    accessory is unavailable, else it carries the current value of the characteristic object `o`
    (its getter's outcome when a getter is installed, else the stored value; failure when `o` is
    a service). -/
theorem C17_listed_pair_read (s : Db V P) (hs : s.Good) (aid iid o : Nat)
    (h : ((some aid, some iid), o) ∈ s.listing) (gout : Option V) :
    ∃ a, a ∈ s.accList ∧ a.aid = some aid ∧ o ∈ a.objList ∧ s.accFor aid = some a ∧
      a.iidm.getObj iid = some o ∧
      (s.readOne aid iid gout).1 =
        some (if aid ≠ STANDALONE_AID ∧ a.available = false then failEntry aid iid
              else mkEntry aid iid ((a.findChar o).bind (fun c => if c.getter then gout else some c.value))) := by
  obtain ⟨a, m1, m2, m3, m4, m5, m6⟩ := entrySpec_listed s hs aid iid o h gout
  exact ⟨a, m1, m2, m3, m4, m5, by rw [(Db.readOne_spec s aid iid gout).1]; exact m6⟩

/-- … and `findChar` on the object of a characteristic that sits in the accessory's structure
    returns exactly that characteristic (objects are pairwise distinct), so the value read for a
    listed characteristic pair is the value of the very characteristic the listing shows. -/
theorem C17_listed_char_found (s : Db V P) (hs : s.Good) (a : Accessory V P) (ha : a ∈ s.accList)
    (c : Char V P) (hc : c ∈ a.chars) : a.findChar c.obj = some c := by
  rw [Db.accList_eq, List.mem_map] at ha
  obtain ⟨ka, hka, rfl⟩ := ha
  exact findChar_of_mem ka.2 (hs.accs ka hka).2.2.1 c hc

/-- construction never fills a representation cache, so the state after a construction
    history satisfies C11's cache invariant trivially (C17 histories are observed at the end) -/
theorem C17_fresh_service_uncached (o : Nat) (d : SvcDef V P) :
    ∀ c ∈ (mkService o d).chars, c.cacheV = none ∧ c.cacheN = none := by
  intro c hc
  simp only [mkService] at hc
  generalize keptDefs d.chars = ds at hc
  generalize o + 1 = o' at hc
  induction ds generalizing o' with
  | nil => cases hc
  | cons d' ds ih =>
    simp only [numberFrom, List.mem_cons] at hc
    rcases hc with rfl | hc
    · exact ⟨rfl, rfl⟩
    · exact ih _ hc

/-! ### shipped services (generated table) -/

/-- `Service.add_characteristic` drops nothing from a definition with distinct types -/
theorem C17_dedup_keeps_distinct (ds : List (CharDef V P)) (h : (ds.map (·.typ)).Nodup) :
    keptDefs ds = ds :=
  keptDefs_of_nodup ds h

/-- **De-duplication keeps the first of each type**, for any list of definitions handed to
    `add_characteristic` — in one call or spread over several calls (the model de-duplicates
    sequentially, which is what the per-characteristic scan of the code amounts to): the kept
    types are pairwise distinct (so `add_service` gives every listed characteristic its own iid),
    the kept definitions are a sublist of the given ones in their order, and for every type the
    kept definition is the first of that type. -/
theorem C17_dedup_keeps_first (ds : List (CharDef V P)) :
    ((keptDefs ds).map (·.typ)).Nodup ∧ (keptDefs ds).Sublist ds ∧
    ∀ t, (keptDefs ds).find? (fun d => d.typ == t) = ds.find? (fun d => d.typ == t) := by
  obtain ⟨h1, ⟨rest, h2, h3⟩, h4⟩ := foldl_addCharDef_spec ds [] (by simp)
  refine ⟨h1, ?_, fun t => by simpa [keptDefs] using h4 t⟩
  have : keptDefs ds = rest := by simpa [keptDefs] using h2
  rw [this]; exact h3

/-- Within every shipped service the required characteristic types are pairwise distinct
    (checked by the kernel on the table regenerated from services.json / characteristics.json). -/
theorem C17_shipped_required_distinct :
    ∀ r ∈ Hap.Gen.services, (r.required.map (·.2)).Nodup := by decide +kernel

/-- … and so are required and optional types together (`add_preload_service(..., chars=…)`). -/
theorem C17_shipped_all_distinct :
    ∀ r ∈ Hap.Gen.services, ((r.required ++ r.optional).map (·.2)).Nodup := by decide +kernel

/-- every characteristic a shipped service names exists in the characteristic table -/
theorem C17_shipped_chars_known :
    ∀ r ∈ Hap.Gen.services, ∀ c ∈ r.required ++ r.optional, c ∈ Hap.Gen.characteristics := by
  decide +kernel

/-! ### regression witnesses and non-vacuity -/

/-- `remove_obj` with a decremented counter (a regression the check must see) -/
def removeObjDec (m : Iid) (o : Nat) : Iid :=
  match m.removeObj o with
  | some (m', some _) => { m' with counter := m'.counter - 1 }
  | some (m', none) => m'
  | none => m

/-- With a counter that is decremented on removal an iid is handed out twice: after
    assign 0, assign 1, remove 0, assign 2 the objects 1 and 2 both hold iid 2. -/
theorem C17_decrement_counterexample :
    let m := (removeObjDec ((Iid.empty.assign 0).assign 1) 0).assign 2
    m.iids 1 = some 2 ∧ m.iids 2 = some 2 := by decide

/-- the search started at 1 (or not skipping 7) would hand out a reserved aid -/
theorem C17_search_from_one_counterexample :
    findAidFrom [] 1 5 = some 1 ∧ findAid [2, 3, 4, 5, 6] = some 8 := by decide

section examples
instance : PropsLike Unit := ⟨fun _ => true⟩

def cd (t : String) : CharDef Unit Unit := { typ := t, props := (), name := none, value := (), alwaysNull := false }
def info : SvcDef Unit Unit := { typ := "3E", chars := [cd "14", cd "20", cd "23"] }
def bulb : SvcDef Unit Unit := { typ := "43", chars := [cd "25", cd "8", cd "25"] }

/-- a bridge; two automatic accessories; remove a characteristic's iid, re-assign it; a rejected
    duplicate; a removal; another automatic accessory -/
def demo : Db Unit Unit :=
  (Db.init true [info]).run
    [.addAccessory none false [info, bulb], .addAccessory none false [info],
     .removeObj 2 9, .assign 2 9, .addAccessory (some 3) false [info],
     .removeAccessory 2, .addAccessory none false [info]]

example : demo.keys = [3, 2] := by decide
/-- a unified history on the bridge: the accessory under aid 2 survives reads, a value change and
    a remove / re-assign of its object 9; the re-assigned object gets the fresh iid 8 (the
    counter after construction was 7) and iid 6, once object 9's, is held by nobody -/
example :
    let s1 := (Db.init true [info] : Db Unit Unit).runU [.con (.addAccessory none false [info, bulb])]
    let s2 := s1.runU [.db (.readAll true (fun _ => none)), .con (.removeObj 2 9), .db (.setValue 9 (some ())),
                       .con (.assign 2 9), .db (.readChars [(2, 6), (2, 8)] (fun _ => none))]
    (s1.accAt 2).map (fun a => (a.iidm.counter, a.iidm.iids 9)) = some (7, some 6) ∧
    (s2.accAt 2).map (fun a => (a.iidm.counter, a.iidm.iids 9, a.iidm.objs 6)) = some (8, some 8, none) := by
  decide
example : ((Db.init true [info] : Db Unit Unit).run
    [.addAccessory none false [info, bulb], .removeObj 2 9, .assign 2 9]).listing.map (·.1)
      = [(some 1, some 1), (some 1, some 2), (some 1, some 3), (some 1, some 4),
         (some 2, some 1), (some 2, some 2), (some 2, some 3), (some 2, some 4),
         (some 2, some 5), (some 2, some 8), (some 2, some 7)] := by decide
/-- the duplicate type "25" in `bulb` (third in one call) is dropped by the de-duplication: 2 characteristics -/
example : (mkService 0 bulb).chars.length = 2 := by decide
example : ((List.range 6).map (fun n => findAid (List.range' 2 n))) = [some 2, some 3, some 4, some 5, some 6, some 8] := by
  decide
/-- `IIDManager.remove_obj` as it was before the repair: the maps change, the object's cached
    representation stays -/
def legacyRemove (s : Db Unit Unit) (o : Nat) : Db Unit Unit :=
  { s with main := { s.main with iidm := ((s.main.iidm.removeObj o).map (·.1)).getD s.main.iidm } }

def servedPairs (s : Db Unit Unit) : List (Option Nat × Option Nat) :=
  ((s.renderCached false (fun _ => none)).1.map (fun rs => rs.flatMap AccRep.pairs)).getD []

/-- Without the repair: GET /accessories, then `remove_obj` of the characteristic with iid 3, then
    GET /accessories again still lists (1, 3), which no read resolves any more; with the repaired
    operation the pair is gone from the listing. -/
theorem C17_stale_iid_legacy_counterexample :
    let s1 := ((Db.init true [info] : Db Unit Unit).renderCached false (fun _ => none)).2
    ((servedPairs (legacyRemove s1 2)).contains (some 1, some 3) = true ∧
     (legacyRemove s1 2).resolveRead 1 3 = none) ∧
    (servedPairs (s1.step (.removeObj 1 2)).1).contains (some 1, some 3) = false := by
  decide

end examples

end Hap.C17
