/-
  C17 — Accessory and instance identifiers are unique, stable and consistently resolved.
-/
import Proofs.Iid
import HapModel.Gen.Services
namespace Hap.C17
open Hap Hap.Iid

/-- For every history of assign / remove_obj / remove_iid on a manager: no exception escapes,
    `iids` and `objs` stay mutually inverse with every iid in `1..counter`, the counter never
    decreases, and any binding whose iid is within an earlier counter value already existed
    then — so an iid that was removed is never handed out again. -/
theorem C17_iid_manager (ops : List Iid.Op) :
    ∃ m, Iid.run Iid.empty ops = some m ∧ Iid.Good m :=
  let ⟨m, e, g, _, _⟩ := run_good good_empty ops
  ⟨m, e, g⟩

end Hap.C17
