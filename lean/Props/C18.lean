import HapModel.Advert
import HapModel.AdvertSys
namespace Hap.Advert

theorem C18_sf_exact (i : Info) : lookup "sf" (advertData i) = some "1" ↔ i.paired = false := by
  cases h : i.paired <;> simp [advertData, lookup, h]

end Hap.Advert
