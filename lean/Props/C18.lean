/-
  C18 — Advertisement and setup payload track pairing state and configuration.
  Property theorems only; models in HapModel/Advert.lean and HapModel/AdvertSys.lean, helper
  lemmas and the specification-side definitions (label validity, reference decoders) in
  Proofs/Advert.lean and Proofs/AdvertSys.lean.
-/
import Proofs.Advert
import Proofs.AdvertSys
import Proofs.AdvertLife
namespace Hap.Advert
open Hap.AdvertSys

/-! ## configuration number -/

/-- The configuration number stays in 1..65535 under `increment_config_version` and
    `set_accessories_hash`, whatever it was before, and 65535 wraps to 1. -/
theorem C18_cfg_range {Hsh : Type} [DecidableEq Hsh] (st : Cfg Hsh) (h : Hsh)
    (hr : 1 ≤ st.cfg ∧ st.cfg ≤ 65535) :
    (1 ≤ (incr st).cfg ∧ (incr st).cfg ≤ 65535) ∧
    (1 ≤ (setHash st h).1.cfg ∧ (setHash st h).1.cfg ≤ 65535) ∧
    (st.cfg = 65535 → (incr st).cfg = 1) ∧ (st.cfg < 65535 → (incr st).cfg = st.cfg + 1) := by
  refine ⟨incr_range st, ?_, ?_, ?_⟩
  · unfold setHash
    by_cases e : st.hsh = some h
    · simp only [e, if_true]; exact hr
    · simp only [e, if_false]; exact incr_range _
  · intro e; simp [incr, MAX_CONFIG_VERSION, e]
  · intro e
    simp only [incr, MAX_CONFIG_VERSION]
    have : ¬ (st.cfg + 1 > 65535) := by omega
    simp [this]

/-- a start-up / runtime history of the two operations -/
inductive CfgOp (Hsh : Type) where
  | incr
  | setHash (h : Hsh)

def applyCfgOps {Hsh : Type} [DecidableEq Hsh] : Cfg Hsh → List (CfgOp Hsh) → Cfg Hsh
  | st, [] => st
  | st, .incr :: rest => applyCfgOps (incr st) rest
  | st, .setHash h :: rest => applyCfgOps (setHash st h).1 rest

/-- Over every history of increments and hash updates, starting anywhere in range (in particular
    from the default 1), the number never leaves 1..65535. -/
theorem C18_cfg_range_history {Hsh : Type} [DecidableEq Hsh] (st : Cfg Hsh) (ops : List (CfgOp Hsh))
    (hr : 1 ≤ st.cfg ∧ st.cfg ≤ 65535) :
    1 ≤ (applyCfgOps st ops).cfg ∧ (applyCfgOps st ops).cfg ≤ 65535 := by
  induction ops generalizing st with
  | nil => exact hr
  | cons op rest ih =>
    cases op with
    | incr => exact ih _ (incr_range st)
    | setHash h => exact ih _ (C18_cfg_range st h hr).2.1

/-- `set_accessories_hash` changes the number exactly when the stored hash differs from the new
    one (and then stores the new one); its boolean result says the same. -/
theorem C18_cfg_changes_iff {Hsh : Type} [DecidableEq Hsh] (st : Cfg Hsh) (h : Hsh) :
    ((setHash st h).1.cfg ≠ st.cfg ↔ st.hsh ≠ some h) ∧
    ((setHash st h).2 = true ↔ st.hsh ≠ some h) ∧ (setHash st h).1.hsh = some h := by
  unfold setHash
  by_cases e : st.hsh = some h
  · simp [e]
  · simp only [e, if_false, ne_eq, not_false_eq_true, iff_true, true_and]
    exact ⟨incr_cfg_ne _, rfl⟩

/-- The value-free rendering (what `accessories_hash` hashes) is invariant under every history
    of value-changing operations on any characteristics. -/
theorem C18_render_noval_indep {M V : Type} (ops : List (Nat × Nat × (V → V))) (db : Db M V) :
    renderNoVal (valueOps ops db) = renderNoVal db :=
  renderNoVal_valueOps ops db

/-- Across a restart (stored hash = hash of the old database) the number changes exactly when the
    hash of the value-free rendering changed; with a collision-free hash: exactly when the
    value-free rendering (structure + metadata) changed. -/
theorem C18_cfg_restart_iff {M V Hsh : Type} [DecidableEq Hsh] (H : NoVal M → Hsh)
    (st : Cfg Hsh) (old new : Db M V) (hst : st.hsh = some (accHash H old)) :
    ((restart H st new).1.cfg ≠ st.cfg ↔ accHash H new ≠ accHash H old) ∧
    (Function.Injective H →
      ((restart H st new).1.cfg ≠ st.cfg ↔ renderNoVal new ≠ renderNoVal old)) := by
  have h1 := (C18_cfg_changes_iff st (accHash H new)).1
  unfold restart
  rw [hst] at h1
  have h2 : (setHash st (accHash H new)).1.cfg ≠ st.cfg ↔ accHash H new ≠ accHash H old := by
    rw [h1]; constructor
    · intro h e; exact h (by rw [e])
    · intro h e; injection e with e; exact h e.symm
  refine ⟨h2, ?_⟩
  intro hinj
  rw [h2]
  unfold accHash
  constructor
  · intro h e; exact h (by rw [e])
  · intro h e; exact h (hinj e)

/-- Values never move the number: if the new database differs from the old one only by a history
    of value-changing operations, a restart keeps `c#` (for every hash function). -/
theorem C18_cfg_values_never {M V Hsh : Type} [DecidableEq Hsh] (H : NoVal M → Hsh)
    (st : Cfg Hsh) (old : Db M V) (ops : List (Nat × Nat × (V → V)))
    (hst : st.hsh = some (accHash H old)) :
    (restart H st (valueOps ops old)).1.cfg = st.cfg ∧ (restart H st (valueOps ops old)).2 = false := by
  unfold restart setHash accHash
  rw [renderNoVal_valueOps]
  have : st.hsh = some (H (renderNoVal old)) := hst
  simp [this]

/-! ## the configuration number over the whole life of an accessory -/

section Life
open Hap.AdvertLife

/-- Over every life of an accessory — any number of process lifetimes on one persist file, each
    started with any accessories, with value changes, arbitrary structural changes by the
    application, `config_changed` calls and saves in any order — the live configuration number
    and the one in the persist file stay within 1..65535 (for every hash function). -/
theorem C18_cfg_life_range {M V Hsh : Type} [DecidableEq Hsh] (H : NoVal M → Hsh)
    (ops : List (Op M V)) :
    (1 ≤ (AdvertLife.run H life0 ops).st.cfg ∧ (AdvertLife.run H life0 ops).st.cfg ≤ 65535) ∧
    ∀ d, (AdvertLife.run H life0 ops).disk = some d → 1 ≤ d.cfg ∧ d.cfg ≤ 65535 :=
  let h := ok_run H life0 ops ok_life0
  ⟨h.st, h.disk⟩

/-- Across a restart, after *any* earlier history `pre`: take a process started with the
    accessories `old` in which anything but a structural change happens (`during`: value changes,
    `config_changed`, saves), and restart it with the accessories `new`.  The configuration number
    after the restart differs from the one before it exactly when the hash of the value-free
    rendering differs; with a collision-free hash: exactly when structure or metadata of the
    database as it was when the process stopped differ from the new ones — and never because of
    values. -/
theorem C18_cfg_life_restart_iff {M V Hsh : Type} [DecidableEq Hsh] (H : NoVal M → Hsh)
    (pre during : List (Op M V)) (old new : Db M V) (hq : ∀ op ∈ during, op.quiet = true) :
    let before := AdvertLife.run H life0 (pre ++ .restart old :: during)
    let after := AdvertLife.step H before (.restart new)
    (after.st.cfg ≠ before.st.cfg ↔ accHash H new ≠ accHash H old) ∧
    (Function.Injective H → (after.st.cfg ≠ before.st.cfg ↔ renderNoVal new ≠ renderNoVal before.db)) := by
  intro before after
  have e : before = AdvertLife.run H (boot H (AdvertLife.run H life0 pre) old) during := by
    show AdvertLife.run H life0 (pre ++ .restart old :: during) = _
    rw [AdvertLife.run_append]; rfl
  have hs : Started H old before := by
    rw [e]
    exact started_run H old _ during (fun op h => quiet_inProcess (hq op h)) (started_boot H _ old)
  have hr : renderNoVal before.db = renderNoVal old := by
    rw [e, render_run_quiet H _ during hq]; rfl
  have h1 : after.st.cfg ≠ before.st.cfg ↔ accHash H new ≠ accHash H old := boot_cfg_iff H old new before hs
  refine ⟨h1, ?_⟩
  intro hinj
  rw [h1, hr]
  unfold accHash
  constructor
  · intro h e'; exact h (by rw [e'])
  · intro h e'; exact h (hinj e')

/-- Values never move the number, over whole lives: if the accessories after the restart are
    those the process was started with up to a history of value changes, the number is kept. -/
theorem C18_cfg_life_values_never {M V Hsh : Type} [DecidableEq Hsh] (H : NoVal M → Hsh)
    (pre during : List (Op M V)) (old : Db M V) (vops : List (Nat × Nat × (V → V)))
    (hq : ∀ op ∈ during, op.quiet = true) :
    let before := AdvertLife.run H life0 (pre ++ .restart old :: during)
    (AdvertLife.step H before (.restart (valueOps vops old))).st.cfg = before.st.cfg := by
  intro before
  have h := (C18_cfg_life_restart_iff H pre during old (valueOps vops old) hq).1
  have e : accHash H (valueOps vops old) = accHash H old := by
    unfold accHash; rw [renderNoVal_valueOps]
  exact Classical.byContradiction fun hne => (h.mp hne) e

/-- a hash that separates the two example databases (number of services) -/
def lifeExH : NoVal Nat → Nat := fun r => (r.map fun a => a.2.length).sum
def lifeExA : Db Nat Nat := [⟨1, [⟨1, 0, [⟨2, 0, 0⟩]⟩]⟩]
def lifeExB : Db Nat Nat := [⟨1, [⟨1, 0, [⟨2, 0, 0⟩]⟩, ⟨8, 1, [⟨9, 1, 0⟩]⟩]⟩]

/-- What the restart rule compares with is the configuration at the previous *start*: a
    structural change made at run time and announced with `config_changed` is counted a second
    time by the next start (1 → 2 at the first start, → 3 by `config_changed`, → 4 at the restart
    with the very same accessories). The number still changes whenever the configuration did; it
    is the converse ("only then") that holds relative to the previous start, not to the moment
    the process stopped. -/
theorem C18_cfg_life_runtime_change_counted_twice :
    (AdvertLife.run lifeExH life0 [.restart lifeExA, .mutate (fun _ => lifeExB), .configChanged]).st.cfg = 3 ∧
    renderNoVal (AdvertLife.run lifeExH life0 [.restart lifeExA, .mutate (fun _ => lifeExB), .configChanged]).db
      = renderNoVal lifeExB ∧
    (AdvertLife.run lifeExH life0
      [.restart lifeExA, .mutate (fun _ => lifeExB), .configChanged, .restart lifeExB]).st.cfg = 4 :=
  ⟨by decide, rfl, by decide⟩

end Life

/-! ## TXT record -/

/-- `sf` is "1" exactly when the accessory has no pairings, in every constructed record. -/
theorem C18_sf_exact (i : Info) :
    (lookup "sf" (advertData i) = some "1" ↔ i.paired = false) ∧
    (lookup "sf" (advertData i) = some "0" ↔ i.paired = true) := by
  cases h : i.paired <;> simp [advertData, lookup, h]

/-- The advertised identifier is the accessory's MAC; `c#`, `ci` and `md` are the configuration
    number, the category and the sanitised name. -/
theorem C18_id_is_mac (i : Info) :
    lookup "id" (advertData i) = some (String.ofList i.mac) ∧
    lookup "c#" (advertData i) = some (toString i.cfg) ∧
    lookup "ci" (advertData i) = some (toString i.category) ∧
    lookup "md" (advertData i) = some (String.ofList (validName i.display)) := by
  simp [advertData, lookup]

/-- The record has exactly the nine HAP keys, each once and in this order (so no `lookup` above is
    shadowed by an earlier duplicate), with the fixed protocol fields. -/
theorem C18_txt_record_shape (i : Info) :
    (advertData i).map Prod.fst = ["md", "pv", "id", "c#", "s#", "ff", "ci", "sf", "sh"] ∧
    lookup "pv" (advertData i) = some "1.1" ∧ lookup "s#" (advertData i) = some "1" ∧
    lookup "ff" (advertData i) = some "0" ∧ lookup "sh" (advertData i) = some i.setupHash := by
  simp [advertData, lookup]

/-! ## ordering of the refresh -/

/-- In every trace of the response-processing model (any pairing table, any verified sessions,
    any requests on any connections, session teardown after removals, any scheduling of executor
    jobs, loop callbacks and deferred responses, any application calls of `config_changed`,
    `update_advertisement` and `unpair` in between, `safe_mode` on or off): whenever a refreshed record caused by request
    `rid` is handed to the advertiser, the response of request `rid` was written earlier (`log` is
    newest-first, so `earlier` is the part of the log before it). -/
theorem C18_advert_after_response (info : Info) (p : Pairings) (sessions : List (Nat × Client))
    (safe : Bool) (steps : List Step) (later earlier : List Obs) (rid : Nat) (txt : List (String × String))
    (h : (run (init info p sessions safe) steps).log = later ++ Obs.publish (some rid) txt :: earlier) :
    ∃ conn, Obs.write conn rid ∈ earlier :=
  (good_run _ steps (good_init info p sessions safe)).ord.split later earlier rid txt h

/-- ... and that write is the response of *that* request on *its* connection: take any trace, any
    request step in it that is delivered on connection `conn` (the identifier it is given is the
    `nextRid` of that moment), and any continuation. Every response write tagged with this request
    is on `conn`, and a refreshed record caused by it is preceded by the write on `conn`. -/
theorem C18_advert_after_own_response (info : Info) (p : Pairings) (sessions : List (Nat × Client))
    (pre post : List Step) (conn : Nat) (r : Req)
    (hc : isClosed (run (init info p sessions) pre) conn = false)
    (later earlier : List Obs) (txt : List (String × String))
    (h : (run (init info p sessions) (pre ++ .request conn r :: post)).log
      = later ++ Obs.publish (some (run (init info p sessions) pre).nextRid) txt :: earlier) :
    Obs.write conn (run (init info p sessions) pre).nextRid ∈ earlier ∧
    ∀ c, Obs.write c (run (init info p sessions) pre).nextRid
        ∈ (run (init info p sessions) (pre ++ .request conn r :: post)).log → c = conn := by
  have e : run (init info p sessions) (pre ++ .request conn r :: post)
      = run (step (run (init info p sessions) pre) (.request conn r)) post := by
    rw [AdvertSys.run_append]; rfl
  have hown : Own conn (run (init info p sessions) pre).nextRid
      (run (init info p sessions) (pre ++ .request conn r :: post)) := by
    rw [e]
    exact own_run _ _ _ post (own_request _ conn r (fresh_run _ pre (fresh_init info p sessions)) hc)
  obtain ⟨c, hcm⟩ := C18_advert_after_response info p sessions false _ later earlier _ txt h
  have hin : Obs.write c (run (init info p sessions) pre).nextRid
      ∈ (run (init info p sessions) (pre ++ .request conn r :: post)).log := by
    rw [h]; exact List.mem_append_right _ (List.mem_cons_of_mem _ hcm)
  have := hown.log c hin
  subst this
  exact ⟨hcm, hown.log⟩

/-- The request tags in the log are meaningful: a request step is given the identifier `nextRid`,
    and in every trace every identifier that occurs in the log (response write, cipher install,
    published record) is below `nextRid`, i.e. belongs to a request dispatched earlier in the
    trace — no entry is ever attributed to a request that has not happened yet. -/
theorem C18_request_ids_fresh (info : Info) (p : Pairings) (sessions : List (Nat × Client))
    (steps : List Step) :
    ∀ o ∈ (run (init info p sessions) steps).log, ∀ r, o.rid = some r →
      r < (run (init info p sessions) steps).nextRid :=
  (fresh_run _ steps (fresh_init info p sessions)).log

/-- The last step of pairing and of unpairing does schedule a refresh, and only after its own
    response write: a served request whose handling takes the pairing table from empty to
    non-empty or back (pair-setup M5, a remove-pairing that leaves nobody paired — directly or
    through the last-admin rule) is never a deferred response, never carries a session key, logs
    its response write and *then* hands exactly one `finish_pair` job tagged with it to the executor. -/
theorem C18_pairing_step_schedules_refresh (s : Sys) (conn : Nat) (r : Req)
    (hc : isClosed s conn = false)
    (hflip : (handle s.paired (sessionOf s conn) r).1.isEmpty ≠ s.paired.isEmpty) :
    (step s (.request conn r)).log = Obs.write conn s.nextRid :: s.log ∧
    (step s (.request conn r)).execQ = s.execQ ++ [s.nextRid] := by
  have hp : (handle s.paired (sessionOf s conn) r).2.pairingChanged = true := by
    cases h : (handle s.paired (sessionOf s conn) r).2.pairingChanged
    · exact absurd (handle_unchanged _ _ _ h) hflip
    · rfl
  have ht := handle_changed_not_task _ _ _ hp
  have hk := handle_changed_not_sharedKey _ _ _ hp
  simp only [step, hc, Bool.false_eq_true, if_false, processResponse, ht, hk, hp, if_true]
  cases (handle s.paired (sessionOf s conn) r).2.pairingRemoved <;> simp

/-- Every record handed to the advertiser in a trace is built from the state of that moment:
    it is `record s`, whose `sf` is "1" iff no controller is paired, whose `c#` is the current
    configuration number and whose `id` / `ci` / `md` are the accessory's. -/
theorem C18_published_record_exact (s : Sys) (st : Step) (cause : Option Nat) (txt : List (String × String))
    (h : (step s st).log = Obs.publish cause txt :: s.log) :
    txt = record s ∧
    (lookup "sf" txt = some "1" ↔ s.paired = []) ∧
    lookup "c#" txt = some (toString s.info.cfg) ∧
    lookup "id" txt = some (String.ofList s.info.mac) ∧
    lookup "ci" txt = some (toString s.info.category) ∧
    lookup "md" txt = some (String.ofList (validName s.info.display)) := by
  have key : txt = record s → txt = record s ∧
      (lookup "sf" txt = some "1" ↔ s.paired = []) ∧
      lookup "c#" txt = some (toString s.info.cfg) ∧
      lookup "id" txt = some (String.ofList s.info.mac) ∧
      lookup "ci" txt = some (toString s.info.category) ∧
      lookup "md" txt = some (String.ofList (validName s.info.display)) := by
    intro e
    subst e
    refine ⟨rfl, ?_, record_cfg s, ?_, ?_, ?_⟩
    · rw [record_sf]; unfold sfFor
      cases hp : s.paired with
      | nil => simp
      | cons a b => simp
    · simp [record, advertData, lookup]
    · simp [record, advertData, lookup]
    · simp [record, advertData, lookup]
  have hlen : ∀ {l : List Obs} {o : Obs}, l = o :: l → False := by
    intro l o e
    have := congrArg List.length e
    simp at this
  cases st with
  | request conn r =>
    exfalso
    simp only [step, processResponse] at h
    revert h
    by_cases hc : isClosed s conn = true
    · simp [hc]
    · simp only [hc, Bool.false_eq_true, if_false]
      cases (handle s.paired (sessionOf s conn) r).2.task <;>
        cases (handle s.paired (sessionOf s conn) r).2.sharedKey <;>
        cases (handle s.paired (sessionOf s conn) r).2.pairingRemoved <;>
        cases (handle s.paired (sessionOf s conn) r).2.pairingChanged <;> simp
  | taskDone i =>
    exfalso
    simp only [step] at h
    cases hd : s.deferred[i]? with
    | none => simp [hd] at h
    | some cr =>
      obtain ⟨conn, rid'⟩ := cr
      by_cases hc : isClosed s conn = true <;> simp [hd, hc] at h
  | execRun i =>
    exfalso
    simp only [step] at h
    cases hd : s.execQ[i]? with
    | none => simp [hd] at h
    | some r => simp [hd] at h
  | loopRun i =>
    simp only [step] at h
    cases hd : s.loopQ[i]? with
    | none => simp [hd] at h
    | some r =>
      simp only [hd, List.cons.injEq, Obs.publish.injEq, and_true] at h
      exact key h.2.symm
  | configChanged => exact (hlen h).elim
  | appRefresh => exact (hlen h).elim
  | appUnpair c =>
    exfalso
    simp only [step] at h
    split at h <;> exact hlen h

/-- Over every trace (requests, schedules, application calls) started with a configuration
    number in range: every record ever handed to the advertiser is the TXT record of this
    accessory — its name, category, MAC and setup hash — with a configuration number in 1..65535;
    in particular the advertised identifier is always the accessory's and `c#` never leaves the range,
    also when `config_changed` wraps it at 65535. -/
theorem C18_published_records_wellformed (info : Info) (p : Pairings) (sessions : List (Nat × Client))
    (steps : List Step) (hcfg : 1 ≤ info.cfg ∧ info.cfg ≤ 65535)
    (cause : Option Nat) (txt : List (String × String))
    (h : Obs.publish cause txt ∈ (run (init info p sessions) steps).log) :
    ∃ n, 1 ≤ n ∧ n ≤ 65535 ∧ lookup "c#" txt = some (toString n) ∧
      lookup "id" txt = some (String.ofList info.mac) ∧
      lookup "ci" txt = some (toString info.category) ∧
      lookup "md" txt = some (String.ofList (validName info.display)) ∧
      lookup "sh" txt = some info.setupHash ∧
      (lookup "sf" txt = some "0" ∨ lookup "sf" txt = some "1") := by
  obtain ⟨n, pf, h1, h2, rfl⟩ := (pub_run info _ steps (pub_init info p sessions hcfg)).log cause txt h
  refine ⟨n, h1, h2, ?_, ?_, ?_, ?_, ?_, ?_⟩ <;> try (simp [advertData, lookup])

/-- `config_changed` moves the configuration number like `increment_config_version`: +1, and
    65535 wraps to 1 (never 0, never 65536); nothing else in a trace touches it. -/
theorem C18_config_changed_wraps (s : Sys) :
    (step s .configChanged).info.cfg = bump s.info.cfg ∧ bump 65535 = 1 ∧
    (∀ n, n < 65535 → bump n = n + 1) ∧ (∀ n, 1 ≤ bump n ∧ bump n ≤ 65535) :=
  ⟨rfl, bump_wrap, bump_succ, bump_range⟩

/-- The advertisement follows the state: in every trace without application-level `unpair`
    calls, once no refresh is pending (executor and loop queues empty) the record held by the
    advertiser — the newest published one, or the one registered at start — is the record of the
    current state: `sf = "1"` iff no controller is paired, and `c#` is the current number. -/
theorem C18_sf_tracks_pairing (info : Info) (p : Pairings) (sessions : List (Nat × Client))
    (steps : List Step) (hst : ∀ st ∈ steps, st.isAppUnpair = false)
    (he : (run (init info p sessions) steps).execQ = [])
    (hl : (run (init info p sessions) steps).loopQ = []) :
    advertised (initialRecord info p) (run (init info p sessions) steps).log
      = record (run (init info p sessions) steps) ∧
    advertisedSf (initialRecord info p) (run (init info p sessions) steps).log
      = some (if (run (init info p sessions) steps).paired.isEmpty then "1" else "0") ∧
    lookup "c#" (advertised (initialRecord info p) (run (init info p sessions) steps).log)
      = some (toString (run (init info p sessions) steps).info.cfg) := by
  rcases track_run _ _ steps hst rfl (track_init info p sessions) with h | h
  · rcases h with h | h
    · exact absurd he h
    · exact absurd hl h
  · refine ⟨h, ?_, ?_⟩
    · unfold advertisedSf; rw [h, record_sf]; rfl
    · rw [h, record_cfg]

/-- `AccessoryDriver.unpair` called by the application (not through a remove-pairing request)
    changes the pairing table without any refresh; the flag is right again as soon as the
    application asks for one: after *any* history, `update_advertisement()` followed by any
    history free of further application-level unpairs leaves, at quiescence, the record of the
    current state with the advertiser. -/
theorem C18_sf_tracks_after_explicit_refresh (info : Info) (p : Pairings) (sessions : List (Nat × Client))
    (pre post : List Step) (hst : ∀ st ∈ post, st.isAppUnpair = false)
    (he : (run (init info p sessions) (pre ++ .appRefresh :: post)).execQ = [])
    (hl : (run (init info p sessions) (pre ++ .appRefresh :: post)).loopQ = []) :
    advertised (initialRecord info p) (run (init info p sessions) (pre ++ .appRefresh :: post)).log
      = record (run (init info p sessions) (pre ++ .appRefresh :: post)) := by
  have e : run (init info p sessions) (pre ++ .appRefresh :: post)
      = run (step (run (init info p sessions) pre) .appRefresh) post := by
    rw [run_append]; rfl
  rw [e] at he hl ⊢
  have hsm : (step (run (init info p sessions) pre) .appRefresh).safeMode = false :=
    (step_safeMode _ _).trans (run_safeMode (init info p sessions) pre)
  rcases track_run (initialRecord info p) _ post hst hsm (track_refresh _ _) with h | h
  · rcases h with h | h
    · exact absurd he h
    · exact absurd hl h
  · exact h

/-- What the driver-API `unpair` alone does: the last admin is removed by the application, nothing
    is pending, and the advertiser still holds `sf = "0"` although nobody is paired. (Outside the
    request paths the property speaks about; recorded so that the hypothesis of
    `C18_sf_tracks_pairing` is seen to be needed.) -/
theorem C18_api_unpair_leaves_flag_stale :
    let s := run (init ⟨['x'], 1, [], 1, false, ""⟩ [(7, true)] []) [.appUnpair 7]
    s.paired = [] ∧ s.execQ = [] ∧ s.loopQ = [] ∧
    advertisedSf (initialRecord ⟨['x'], 1, [], 1, false, ""⟩ [(7, true)]) s.log = some "0" := by
  decide

/-- With `safe_mode` set, `finish_pair` never touches the advertisement: in every trace no
    record caused by a request is ever published (only application-requested refreshes are), and
    the flag then stays as it was although the accessory got paired — the documented price of that
    switch, and the reason `C18_sf_tracks_pairing` is stated for the default. -/
theorem C18_safe_mode_no_pairing_refresh (info : Info) (p : Pairings) (sessions : List (Nat × Client))
    (steps : List Step) :
    (∀ rid txt, Obs.publish (some rid) txt ∉ (run (init info p sessions true) steps).log) ∧
    (let s := run (init ⟨['x'], 1, [], 1, false, ""⟩ [] [] true) [.request 0 (.pairSetupM5 7 true), .execRun 0]
     s.paired ≠ [] ∧ s.execQ = [] ∧ s.loopQ = [] ∧
     advertisedSf (initialRecord ⟨['x'], 1, [], 1, false, ""⟩ []) s.log = some "1") :=
  ⟨(quiet_run _ steps (quiet_init info p sessions)).log, by decide⟩

/-- Scheduling the refresh before the response write (the defect `finish_pair`'s comment warns
    about) is rejected by the ordering statement: completing pair-setup publishes first. -/
theorem C18_early_refresh_counterexample :
    ∃ (later earlier : List Obs) (rid : Nat) (txt : List (String × String)),
      (runEarly (init ⟨['x'], 1, [], 1, false, ""⟩ [] []) [.request 0 (.pairSetupM5 7 true)]).log
        = later ++ Obs.publish (some rid) txt :: earlier ∧ ¬ ∃ conn, Obs.write conn rid ∈ earlier :=
  ⟨[Obs.write 0 0], [], 0, _, rfl, by simp⟩

/-! ## setup payload -/

/-- For every category < 256, setup code < 10^8 and setup id, the reference decoder applied to
    `xhm_uri()` returns exactly them (with version 0, reserved 0, flags 2 = IP). -/
theorem C18_xhm_roundtrip (category code : Nat) (setupId : List Char)
    (hcat : category < 256) (hcode : code < 100000000) :
    xhmDecode (xhmUri category code setupId)
      = some { version := 0, reserved := 0, category := category, flags := 2, code := code,
               setupId := setupId } :=
  xhm_decode_uri category code setupId hcat (by omega)

/-- The payload number is below 36^9, so the base-36 rendering has at most 9 digits and
    `rjust(9, "0")` yields exactly 9 characters: the URI is `X-HM://` + 9 + setup id. -/
theorem C18_xhm_shape (category code : Nat) (setupId : List Char) (hcode : code < 100000000) :
    xhmPayload category code < 36 ^ 9 ∧
    (xhmUri category code setupId).length = 16 + setupId.length := by
  have hlt := xhmPayload_lt category code (by omega)
  refine ⟨hlt, ?_⟩
  have hlen : ((b36Dumps (xhmPayload category code)).map Char.toUpper).length ≤ 9 := by
    rw [List.length_map]; exact b36Dumps_length _ 9 hlt (by decide)
  unfold xhmUri
  rw [List.length_append, List.length_append, rjust0_length _ hlen]
  have : XHM_PREFIX.length = 7 := by decide
  omega

/-- A pincode in the `xxx-xx-xxx` shape (dashes and at most 8 digits) denotes a number below
    10^8, so the round trip applies to every pincode. -/
theorem C18_pin_in_range (pin : List Char) (hd : ∀ c ∈ pin, c = '-' ∨ isDigit c = true)
    (h8 : (pin.filter fun c => c ≠ '-').length ≤ 8) : pinValue pin < 100000000 :=
  pinValue_lt pin hd h8

/-- The whole chain for every pincode in the `xxx-xx-xxx` shape (digits and dashes, at most eight
    digits — evaluated by the check on what `util.generate_pincode` produces), every category
    below 256 and every setup id: the setup payload decodes to the accessory's category, the
    number the pincode denotes, and the setup id. -/
theorem C18_xhm_pin_roundtrip (category : Nat) (pin setupId : List Char) (hcat : category < 256)
    (hp : PinShape pin) :
    xhmDecode (xhmUri category (pinValue pin) setupId)
      = some { version := 0, reserved := 0, category := category, flags := 2, code := pinValue pin,
               setupId := setupId } :=
  C18_xhm_roundtrip category (pinValue pin) setupId hcat (pinValue_lt pin hp.1 hp.2)

/-! ## names -/

/-- For every display name (any list of Unicode scalar values) and every well-formed MAC, the
    DNS-SD instance label `"<valid_name> <6 hex>"` is 1..63 bytes of UTF-8 without leading or
    trailing space, and the host label `"<valid_host_name>-<6 hex>"` is 1..63 characters of
    `[A-Za-z0-9-]` that neither starts nor ends with '-'. (Repaired sanitisers.) -/
theorem C18_names_valid (display mac : List Char) (hmac : WfMac mac) :
    ValidInstanceLabel (instanceLabel (validName display) mac) ∧
    ValidHostLabel (hostLabel (validHostName display) mac) := by
  have hs := shortMac_wf hmac
  obtain ⟨n1, n2, n3, n4, _⟩ := validName_spec display
  obtain ⟨v1, v2, v3, v4, _⟩ := validHostName_spec display
  exact ⟨instanceLabel_valid _ _ n1 n2 n3 n4 hs, hostLabel_valid _ _ v1 v2 v3 v4 hs⟩

/-- The same under the weaker, decidable hypothesis on the MAC that the proof actually uses (its
    last eight characters hold six hexadecimal digits besides colons); the check evaluates this
    hypothesis on the MACs `util.generate_mac` really produces. -/
theorem C18_names_valid_mac_tail (display mac : List Char) (hmac : MacTailOk mac) :
    ValidInstanceLabel (instanceLabel (validName display) mac) ∧
    ValidHostLabel (hostLabel (validHostName display) mac) := by
  obtain ⟨n1, n2, n3, n4, _⟩ := validName_spec display
  obtain ⟨v1, v2, v3, v4, _⟩ := validHostName_spec display
  exact ⟨instanceLabel_valid _ _ n1 n2 n3 n4 hmac, hostLabel_valid _ _ v1 v2 v3 v4 hmac⟩

/-- The sanitisers see a display name only through the class `[A-Za-z0-9-]`: replacing every
    symbol outside the class by any other symbol outside the class changes nothing. So nothing
    depends on *which* foreign symbols a name contains — any script, emoji, control character or
    white space, and also a lone surrogate of a Python `str` (which is not a Unicode scalar value
    and crosses the line protocol as U+0000) behave alike. -/
theorem C18_names_depend_on_class_only (f : Char → Char) (hf1 : ∀ c, okChar c = true → f c = c)
    (hf2 : ∀ c, okChar c = false → okChar (f c) = false) (display : List Char) :
    validName (display.map f) = validName display ∧
    validHostName (display.map f) = validHostName display := by
  unfold validName validHostName validNameLegacy validHostNameLegacy
  rw [subInvalid_map f hf1 hf2]
  exact ⟨rfl, rfl⟩

/-- The sanitised names themselves: non-empty, at most 56 characters, only `[A-Za-z0-9-]`
    (plus single spaces in `md`), no space or dash at either end. -/
theorem C18_sanitised_names (display : List Char) :
    (validName display ≠ [] ∧ (validName display).length ≤ 56 ∧
      (∀ c ∈ validName display, okChar c = true ∨ c = ' ') ∧
      (validName display).head? ≠ some ' ' ∧ (validName display).getLast? ≠ some ' ' ∧
      (validName display).head? ≠ some '-' ∧ (validName display).getLast? ≠ some '-') ∧
    (validHostName display ≠ [] ∧ (validHostName display).length ≤ 56 ∧
      (∀ c ∈ validHostName display, okChar c = true) ∧
      (validHostName display).head? ≠ some '-' ∧ (validHostName display).getLast? ≠ some '-') :=
  ⟨validName_spec display, validHostName_spec display⟩

/-- Python's `str.strip()` (Unicode white space) coincides with stripping ' ' where the code
    applies it, for every white-space predicate containing ' ' and no character of the class. -/
theorem C18_strip_whitespace_irrelevant (ws : Char → Bool) (hsp : ws ' ' = true)
    (hok : ∀ c, okChar c = true → ws c = false) (display : List Char) :
    stripBoth ws (subInvalid display) = pyStrip (subInvalid display) :=
  strip_ws_eq ws hsp hok display

/-- What does hold for the sanitisers as they were before the repair: whenever the sanitised
    name is non-empty and at most 56 characters long, both labels are valid. The excluded display
    names (nothing left after sanitising; more than 56 characters left) are exactly where the
    counterexamples below live. -/
theorem C18_names_valid_partial (display mac : List Char) (hmac : WfMac mac)
    (h1 : validNameLegacy display ≠ []) (h2 : (validNameLegacy display).length ≤ 56)
    (h3 : validHostNameLegacy display ≠ []) (h4 : (validHostNameLegacy display).length ≤ 56) :
    ValidInstanceLabel (instanceLabel (validNameLegacy display) mac) ∧
    ValidHostLabel (hostLabel (validHostNameLegacy display) mac) := by
  have hs := shortMac_wf hmac
  exact ⟨instanceLabel_valid _ _ h1 h2 (validNameLegacy_chars display) (validNameLegacy_head display) hs,
         hostLabel_valid _ _ h3 h4 (validHostNameLegacy_chars display) (validHostNameLegacy_head display) hs⟩

/-- The sanitisers as they were before the repair violate the property: "!!!" gives the host
    label "-7A8FA9" and the instance label " 7A8FA9"; a 57-character name gives a 64-byte label. -/
theorem C18_names_legacy_counterexample :
    hostLabel (validHostNameLegacy "!!!".toList) "AA:BB:CC:7A:8F:A9".toList = "-7A8FA9".toList ∧
    instanceLabel (validNameLegacy "!!!".toList) "AA:BB:CC:7A:8F:A9".toList = " 7A8FA9".toList ∧
    (instanceLabel (validNameLegacy (List.replicate 57 'x')) "AA:BB:CC:7A:8F:A9".toList).length = 64 := by
  decide

/-! non-vacuity: concrete instances -/
example : WfMac "AA:BB:CC:7A:8F:A9".toList :=
  ⟨'A', 'A', 'B', 'B', 'C', 'C', '7', 'A', '8', 'F', 'A', '9', rfl, by decide⟩
example : hostLabel (validHostName "- - H---A---P---P---Y - -".toList) "00:00:00:Ab:cD:EF".toList
    = "H-A-P-P-Y-AbcDEF".toList := by decide
example : instanceLabel (validName "!!!".toList) "AA:BB:CC:7A:8F:A9".toList = "HAP 7A8FA9".toList := by decide
example : xhmUri 1 3145154 "ABCD".toList = "X-HM://001408XXEABCD".toList := by decide
example : (setHash (⟨65535, some "a"⟩ : Cfg String) "b").1.cfg = 1 := by decide
/-- a database with two value-carrying characteristics and a history that changes both values -/
def exDb : Db String Nat :=
  [⟨1, [⟨1, "info", [⟨2, "name:pr", 0⟩]⟩, ⟨8, "lightbulb", [⟨9, "on:pr,pw,ev", 0⟩, ⟨10, "brightness:0..100", 50⟩]⟩]⟩]
def exOps : List (Nat × Nat × (Nat → Nat)) := [(1, 9, fun _ => 1), (1, 10, fun v => v + 7)]
example : (valueOps exOps exDb).map (fun a => a.services.map fun s => s.chars.map (·.value))
    = [[[0], [1, 57]]] := rfl
example : renderNoVal (valueOps exOps exDb) = renderNoVal exDb := rfl
example : (restart (fun r => r.length) ⟨7, some 1⟩ (valueOps exOps exDb)).1.cfg = 7 := by decide
example : (restart (fun r => r.length) ⟨65535, some 1⟩ (exDb ++ [⟨2, []⟩])).1.cfg = 1 := by decide
example : (run (init ⟨['x'], 1, [], 1, false, ""⟩ [] [(1, 7)])
    [.request 0 (.pairSetupM5 7 true), .execRun 0, .loopRun 0,
     .request 1 (.removePairing 7), .execRun 0, .loopRun 0]).log.map
      (fun o => match o with | .write c r => (0, c, r) | .cipher c r => (1, c, r) | .publish r _ => (2, 0, r.getD 99))
    = [(2, 0, 1), (0, 1, 1), (2, 0, 0), (0, 0, 0)] := by decide
/-- the self-removal above closes connection 1 (after its response): a later request on it is
    not delivered, the refresh still follows the response -/
example : (run (init ⟨['x'], 1, [], 1, false, ""⟩ [(7, true)] [(1, 7)])
    [.request 1 (.removePairing 7), .request 1 .other, .request 1 (.pairSetupM5 8 true),
     .execRun 0, .loopRun 0]).log.map
      (fun o => match o with | .write c r => (0, c, r) | .cipher c r => (1, c, r) | .publish r _ => (2, 0, r.getD 99))
    = [(2, 0, 0), (0, 1, 0)] := by decide
example : (run (init ⟨['x'], 1, [], 1, false, ""⟩ [(7, true)] [(1, 7)])
    [.request 1 (.removePairing 7)]).closed = [1] := by decide

/-- the hypotheses of `C18_pairing_step_schedules_refresh` are satisfiable: the last admin removes
    itself (the non-admin goes with it), and the first controller pairs -/
example : (handle [(7, true), (8, false)] (some 7) (.removePairing 7)).1.isEmpty
    ≠ ([(7, true), (8, false)] : Pairings).isEmpty := by decide
example : (handle [] none (.pairSetupM5 7 true)).1.isEmpty ≠ ([] : Pairings).isEmpty := by decide
/-- a trace with application calls: config_changed at 65535 wraps the advertised number to 1 -/
example : (run (init ⟨['x'], 1, [], 65535, false, ""⟩ [] [])
    [.request 0 (.pairSetupM5 7 true), .configChanged, .execRun 0, .loopRun 0, .loopRun 0]).log.map
      (fun o => match o with
        | .write c r => (0, c, r, "") | .cipher c r => (1, c, r, "")
        | .publish r t => (2, 0, r.getD 99, (lookup "c#" t).getD "?" ++ "/" ++ (lookup "sf" t).getD "?"))
    = [(2, 0, 0, "1/0"), (2, 0, 99, "1/0"), (0, 0, 0, "")] := by decide
/-- the hypotheses of `C18_advert_after_own_response` on a concrete trace (`pre = []`, request 0 on
    connection 3, then the executor and the loop run) -/
example : ∃ txt, (run (init ⟨['x'], 1, [], 1, false, ""⟩ [] [])
    ([] ++ .request 3 (.pairSetupM5 7 true) :: [.execRun 0, .loopRun 0])).log
      = [] ++ Obs.publish (some (run (init ⟨['x'], 1, [], 1, false, ""⟩ [] []) []).nextRid) txt :: [Obs.write 3 0] :=
  ⟨_, rfl⟩
/-- the hypotheses of `C18_sf_tracks_pairing` are reachable: pair, config_changed, everything run -/
example : (run (init ⟨['x'], 1, [], 9, false, ""⟩ [] [])
      [.request 0 (.pairSetupM5 7 true), .configChanged, .execRun 0, .loopRun 0, .loopRun 0]).execQ = [] ∧
    (run (init ⟨['x'], 1, [], 9, false, ""⟩ [] [])
      [.request 0 (.pairSetupM5 7 true), .configChanged, .execRun 0, .loopRun 0, .loopRun 0]).loopQ = [] := by decide
example : MacTailOk "AA:BB:CC:7A:8F:A9".toList := by decide
example : PinShape "031-45-154".toList := by decide
example : okChar 'é' = false ∧ okChar (Char.ofNat 0) = false := by decide
/-- a whole life: first start, a value change, a restart with the same structure (kept), a restart
    with one more service (moved), `config_changed` -/
example : (AdvertLife.run lifeExH AdvertLife.life0
    [.restart lifeExA, .value 1 2 (fun v => v + 1), .restart lifeExA, .restart lifeExB, .configChanged]).st.cfg = 4 := by
  decide

end Hap.Advert
