/-
  C19 — Malformed or hostile HTTP never wedges or crashes the server.
  Property theorems only; lemmas live in Proofs/Pump.lean and Proofs/Dispatch.lean, the models in
  HapModel/Pump.lean (event pump of HAPServerProtocol) and HapModel/Dispatch.lean.

  Statement split (DESIGN §3 C19): the theorems of the first part hold for EVERY behaviour of h11
  (any state type, any event sequence, any failing `send`/`start_next_cycle`, any `our_state`),
  every `urlparse`, every handler body and every amount of loop fuel.  That h11 turns bytes into a
  sensible event sequence is library behaviour: exercised by the harness, not proved.
  The second part (`C19_callbacks_*`) covers ALL callbacks of a connection object — the delayed
  response included — over arbitrary callback histories, for every h11 that follows its documented
  connection state machine (`H11Contract`: decidable per-call relations, evaluated on every recorded
  call of the real h11 in the differential run) and refuses no send that machine permits.
-/
import Proofs.Pump
import Proofs.PumpContract
import Proofs.Dispatch
import HapModel.Gen.Routes
namespace Hap.Http

variable {H σ : Type}

/-- No exception leaves `data_received`: whatever h11 does, whatever the request bytes decode to,
    whatever `urlparse` and the handler raise. (`Outcome.esc` is the only way the model lets an
    exception out; `h11.ProtocolError`s are caught by the pump and close the connection.) -/
theorem C19_no_escape (I : H11 H) (routes : List Route) (P : Params σ) (td : Teardown σ) (dec : Bytes → Option Bytes)
    (fuel : Nat) (c : Conn H σ) (data : Bytes) (e : Exn) :
    (dataReceived I (dispOk routes P) td dec fuel c data).2 ≠ .esc e :=
  dataReceived_no_esc I _ td (dispOk_total routes P) dec fuel c data e

/-- A fresh connection object satisfies the accounting invariant. -/
theorem C19_init_acct (h : H) (w : World σ) : Acct ({ h := h, w := w } : Conn H σ) :=
  ⟨Or.inr (Or.inr rfl), rfl, rfl, fun h => by cases h⟩

/-- Exactly one response per request, in order, or closed. `data_received` keeps the accounting
    invariant: unless the connection is closing (or h11 delivered a new message while a delayed
    response was outstanding — excluded by h11's cycle rule and checked on every recorded
    transcript), the requests answered so far, followed by the one whose delayed response is
    outstanding, are exactly requests 0,1,…,eoms-1 in order; and the number of response writes
    equals the number of answered requests. -/
theorem C19_one_response (I : H11 H) (routes : List Route) (P : Params σ) (td : Teardown σ) (dec : Bytes → Option Bytes)
    (fuel : Nat) (c : Conn H σ) (data : Bytes) (h : Acct c) :
    let c' := (dataReceived I (dispOk routes P) td dec fuel c data).1
    Acct c' ∧
    (c'.closing = false → c'.overlapped = false →
      c'.answered ++ c'.pendingId.toList = List.range c'.eoms ∧
      (c'.out.filter Out.isWrite).length = c'.answered.length) := by
  have hA : Acct (dataReceived I (dispOk routes P) td dec fuel c data).1 := by
    have := dataReceived_acct I (dispOk routes P) td dec fuel c data h
    have hne := C19_no_escape I routes P td dec fuel c data
    unfold OutcomeOk at this
    revert this hne
    cases (dataReceived I (dispOk routes P) td dec fuel c data).2 <;> simp
  refine ⟨hA, fun hc ho => ⟨?_, hA.count⟩⟩
  rcases hA.order with h1 | h1 | h1
  · rw [hc] at h1; cases h1
  · rw [ho] at h1; cases h1
  · exact h1

/-- The same over a whole life of a connection object (any interleaving of `data_received`,
    completions of the delayed snapshot task, `connection_lost`), as long as no callback let an
    exception out — which `data_received` never does (`C19_no_escape`); see `C19_ready_partial`
    for the delayed-response callback. -/
theorem C19_one_response_history (I : H11 H) (routes : List Route) (P : Params σ) (td : Teardown σ)
    (onLost : World σ → World σ) (cbs : List Callback) (h : H) (w : World σ)
    (hne : ∀ o ∈ (runCallbacks I (dispOk routes P) td onLost { h := h, w := w } cbs).2, ∀ e, o ≠ .esc e) :
    Acct (runCallbacks I (dispOk routes P) td onLost { h := h, w := w } cbs).1 :=
  runCallbacks_acct I _ td onLost cbs _ (C19_init_acct h w) hne

/-- No wedge in the pump: `data_received` returns only when h11 reported that nothing more is
    available (NEED_DATA / ConnectionClosed after the last event taken) or the connection is being
    closed; if the loop was cut by the fuel bound, it consumed one h11 event per unit of fuel. -/
theorem C19_progress (I : H11 H) (routes : List Route) (P : Params σ) (td : Teardown σ) (fuel : Nat)
    (c c' : Conn H σ) (o : Outcome) (hx : processEvents I (dispOk routes P) td fuel c = (c', o)) :
    (o = .done → c'.closing = true ∨ c'.idle = true) ∧
    (o = .fuel → c'.consumed = c.consumed + fuel) :=
  processEvents_progress I _ td fuel c c' o hx

/-- Isolation, dispatch level: a request that fails before a handler body is entered
    (undecodable request line or header, `urlparse` raised, unknown route or method, refused by the
    guard) leaves the world — accessory state, other connections, everything a handler could
    reach — exactly as it was. -/
theorem C19_isolation (routes : List Route) (P : Params σ) (w : World σ) (req : Option Req)
    (body : Bytes) (h : FailsEarly routes P w req body) :
    (dispatch routes P w req body).1 = w :=
  dispatch_fails_early routes P w req body h

/-- Isolation, pump level: the pump itself never touches the world. Any property of the world that
    every `dispatch` call preserves — and that the session teardown after a *successful*
    remove-pairing request preserves (the only other place where the protocol object reaches
    beyond itself) — is preserved by `data_received`, for every h11 behaviour (protocol errors,
    failed sends, closes included); and the registry entry of the connection is only ever removed,
    and only together with closing the transport. -/
theorem C19_isolation_pump (I : H11 H) (routes : List Route) (P : Params σ) (td : Teardown σ)
    (Q : World σ → Prop) (hq : ∀ w r b, Q w → Q (dispatch routes P w r b).1)
    (ht : ∀ w, Q w → Q (td w).1)
    (dec : Bytes → Option Bytes) (fuel : Nat) (c : Conn H σ) (data : Bytes) (h : Q c.w) :
    Q (dataReceived I (dispOk routes P) td dec fuel c data).1.w ∧
    RegStep c (dataReceived I (dispOk routes P) td dec fuel c data).1 := by
  refine ⟨dataReceived_world I _ td Q ?_ ht dec fuel c data h, dataReceived_reg I _ td dec fuel c data⟩
  intro w r b w' resp hd hw
  simp only [dispOk] at hd
  cases hd
  exact hq w r b hw

/-- Failing requests never trigger the teardown: the responses `dispatch` builds when a request
    fails before a handler body is entered carry no `pairing_removed` flag (nor a task, a session
    key or an advertisement refresh). -/
theorem C19_failing_response_inert (routes : List Route) (P : Params σ) (w : World σ) (req : Option Req)
    (body : Bytes) (h : FailsEarly routes P w req body) :
    let r := (dispatch routes P w req body).2
    r.pairingRemoved = false ∧ r.task = false ∧ r.sharedKey = false ∧ r.pairingChanged = false :=
  dispatch_fails_early_inert routes P w req body h

/-- A closing connection is no longer in the registry (invariant, part of `Acct`). -/
theorem C19_closed_unregistered (I : H11 H) (routes : List Route) (P : Params σ) (td : Teardown σ)
    (dec : Bytes → Option Bytes) (fuel : Nat) (c : Conn H σ) (data : Bytes) (h : Acct c) :
    (dataReceived I (dispOk routes P) td dec fuel c data).1.closing = true →
    (dataReceived I (dispOk routes P) td dec fuel c data).1.registered = false :=
  (C19_one_response I routes P td dec fuel c data h).1.reg

/-- For EVERY h11 (no contract): `_handle_response_ready` calls `send_response` outside any `try`, so
    the callback is safe exactly when h11 accepts the three sends. If it does, nothing escapes and
    the accounting invariant is kept; on a closing connection nothing is sent. That h11 does accept
    them is `C19_callbacks_no_escape` (under the state-machine contract); that SOME hypothesis on
    h11 is needed is `C19_ready_needs_contract`. -/
theorem C19_ready_partial (I : H11 H) (c : Conn H σ) (res : Except Exn Bytes) (h : Acct c) :
    ((responseReady I c res).2 = true → Acct (responseReady I c res).1) ∧
    (c.closing = true → (responseReady I c res).2 = true) := by
  refine ⟨responseReady_acct I c res h, fun hc => ?_⟩
  unfold responseReady
  cases c.pending with
  | none => rfl
  | some r => simp [hc]

/-! ### every callback, every history — under h11's documented state machine -/

/-- A fresh connection object on a fresh parser (IDLE / IDLE) is in step with it. -/
theorem C19_init_sync (ours theirs : H → HState) (h : H) (w : World σ)
    (ho : ours h = .idle) (ht : theirs h = .idle) : Sync ours theirs ({ h := h, w := w } : Conn H σ) :=
  Or.inr ⟨fun e => by simp [ht] at e, fun _ => ho, fun e => by simp at e, rfl⟩

/-- NO EXCEPTION ESCAPES ANY CALLBACK, over a whole life of a connection object: any interleaving
    of `data_received` (any bytes, any decrypt outcome, any loop fuel), completions of the delayed
    snapshot task (result or exception) and `connection_lost`; every `urlparse`, handler body,
    teardown; every h11 that follows its connection state machine (`H11Contract`) and refuses no
    send the machine permits. The delayed-response callback is covered because the pump keeps
    `Sync`: while a delayed response is outstanding and the transport is not closing, our side of
    the parser is still in SEND_RESPONSE. -/
theorem C19_callbacks_no_escape (I : H11 H) (ours theirs : H → HState) (hC : H11Contract I ours theirs)
    (hF : NoFramingRefusal I ours) (routes : List Route) (P : Params σ) (td : Teardown σ)
    (onLost : World σ → World σ) (cbs : List Callback) (h : H) (w : World σ)
    (ho : ours h = .idle) (ht : theirs h = .idle) :
    ∀ o ∈ (runCallbacks I (dispOk routes P) td onLost { h := h, w := w } cbs).2, ∀ e, o ≠ .esc e :=
  (runCallbacks_sync hC _ (dispOk_total routes P) td onLost hF cbs _ (C19_init_sync ours theirs h w ho ht)).2

/-- … and exactly one response per request, in order, or closed — now without side conditions:
    at the end of any such history the accounting invariant holds, h11 never delivered a message
    while a delayed response was outstanding, and if the connection is not closing the requests
    answered so far followed by the outstanding one are exactly 0,1,…,eoms-1, one write each. -/
theorem C19_callbacks_one_response (I : H11 H) (ours theirs : H → HState) (hC : H11Contract I ours theirs)
    (hF : NoFramingRefusal I ours) (routes : List Route) (P : Params σ) (td : Teardown σ)
    (onLost : World σ → World σ) (cbs : List Callback) (h : H) (w : World σ)
    (ho : ours h = .idle) (ht : theirs h = .idle) :
    let c' := (runCallbacks I (dispOk routes P) td onLost { h := h, w := w } cbs).1
    Acct c' ∧
    (c'.closing = false →
      c'.overlapped = false ∧
      c'.answered ++ c'.pendingId.toList = List.range c'.eoms ∧
      (c'.out.filter Out.isWrite).length = c'.answered.length) := by
  obtain ⟨hS, hne⟩ := runCallbacks_sync hC _ (dispOk_total routes P) td onLost hF cbs _
    (C19_init_sync (σ := σ) ours theirs h w ho ht)
  have hA := runCallbacks_acct I _ td onLost cbs _ (C19_init_acct h w) hne
  refine ⟨hA, fun hc => ?_⟩
  have hov : (runCallbacks I (dispOk routes P) td onLost { h := h, w := w } cbs).1.overlapped = false := by
    rcases hS with h1 | ⟨_, _, _, h4⟩
    · rw [hc] at h1; cases h1
    · exact h4
  refine ⟨hov, ?_, hA.count⟩
  rcases hA.order with h1 | h1 | h1
  · rw [hc] at h1; cases h1
  · rw [hov] at h1; cases h1
  · exact h1

/-- the full statement for an UNCONSTRAINED parser: "the delayed-response callback lets nothing out" -/
def C19_ready_statement : Prop :=
  ∀ (I : H11 (List Ev)) (c : Conn (List Ev) Nat) (res : Except Exn Bytes), (responseReady I c res).2 = true

/-- It is false: a parser that refuses the send makes `h11.LocalProtocolError` propagate out of the
    done-callback. Some hypothesis on h11 is necessary; `H11Contract` + `NoFramingRefusal` suffices. -/
theorem C19_ready_needs_contract : ¬ C19_ready_statement := by
  intro h
  have := h { scriptedH11 with send := fun h _ => (h, none) }
    { h := [], w := { st := 0, verified := true, clientUuid := some 1 }, pending := some { status := 200 },
      pendingId := some 0 } (.ok [])
  revert this
  decide

/-! ### the dispatch before the repair lets exceptions out of `data_received` -/

/-- `urlparse` that rejects `//[` like the standard library ("Invalid IPv6 URL") -/
def demoParams : Params Nat :=
  { urlparse := fun p => if p == asc "//[" then .error .value else .ok p,
    isAdmin := fun _ _ => false,
    body := fun _ w _ => ({ w with st := w.st + 1 }, { status := 200 }, none) }

def noTeardown : Teardown Nat := fun w => (w, false)

def demoConn (evs : List Ev) : Conn (List Ev) Nat :=
  { h := evs, w := { st := 0, verified := false, clientUuid := none } }

def reqBadHeader : Req := { method := asc "GET", target := asc "/accessories", headers := [(asc "x", [0xff])] }
def reqBadTarget : Req := { method := asc "GET", target := asc "//[", headers := [] }

/-- With the legacy dispatch a header value `\xff` (UnicodeDecodeError) and a target `//[`
    (ValueError from urlparse) propagate out of `data_received`; the request is never answered.
    Replayed on the implementation by the harness. -/
theorem C19_legacy_escape_counterexample :
    (dataReceived scriptedH11 (dispatchLegacy Gen.routes demoParams) noTeardown (fun b => some b) 10
        (demoConn [.request reqBadHeader, .endOfMessage]) []).2 = .esc .unicodeDecode ∧
    (dataReceived scriptedH11 (dispatchLegacy Gen.routes demoParams) noTeardown (fun b => some b) 10
        (demoConn [.request reqBadTarget, .endOfMessage]) []).2 = .esc .value := by
  decide

/-! ### non-vacuity -/

/-- the same two inputs through the repaired dispatch: answered (one write each), nothing escapes -/
example :
    (dataReceived scriptedH11 (dispOk Gen.routes demoParams) noTeardown (fun b => some b) 10
        (demoConn [.request reqBadHeader, .endOfMessage, .request reqBadTarget, .endOfMessage]) []).2 = .done ∧
    (dataReceived scriptedH11 (dispOk Gen.routes demoParams) noTeardown (fun b => some b) 10
        (demoConn [.request reqBadHeader, .endOfMessage, .request reqBadTarget, .endOfMessage]) []).1.answered = [0, 1] := by
  decide

/-- an h11 whose `send` refuses (as for a HEAD request whose answer has a body): the pump closes
    the connection, removes it from the registry, writes nothing -/
example :
    let I : H11 (List Ev) := { scriptedH11 with send := fun h _ => (h, none) }
    let c' := (dataReceived I (dispOk Gen.routes demoParams) noTeardown (fun b => some b) 10
        (demoConn [.request reqBadTarget, .endOfMessage]) []).1
    c'.closing = true ∧ c'.registered = false ∧ c'.out = [.writeEof, .close] := by
  decide

/-- `FailsEarly` is satisfiable: the bad-header request on an unverified connection -/
example : FailsEarly Gen.routes demoParams { st := 0, verified := false, clientUuid := none }
    (some reqBadHeader) [] := by
  have h : resolve Gen.routes demoParams (some reqBadHeader) [] = .error .unicodeDecode := rfl
  simp [FailsEarly, h]

/-- `H11Contract` and `NoFramingRefusal` are satisfiable (the small executable h11 of
    HapModel/Pump.lean meets both: `miniH11_contract`, `miniH11_noFramingRefusal`), and on it a
    delayed response really is outstanding across callbacks: a verified `POST /resource` whose
    handler attaches a task is parked, answered by the done-callback, and nothing escapes; -/
def snapParams : Params Nat :=
  { urlparse := fun p => .ok p, isAdmin := fun _ _ => true,
    body := fun _ w _ => ({ w with st := w.st + 1 }, { status := 200, task := true }, none) }

def postResource : Req := { method := asc "POST", target := asc "/resource", headers := [] }

def miniConn (evs : List Ev) : Conn Mini Nat :=
  { h := { evs := evs }, w := { st := 0, verified := true, clientUuid := some 1 } }

example :
    let x := runCallbacks miniH11 (dispOk Gen.routes snapParams) noTeardown id
      (miniConn [.request postResource, .endOfMessage]) [.data [] (fun b => some b) 10, .ready (.ok (asc "JPEG"))]
    x.2 = [.done, .done] ∧ x.1.answered = [0] ∧ x.1.pending = none ∧ x.1.closing = false := by decide

/-- … after the first callback the response is outstanding and our side is in SEND_RESPONSE; -/
example :
    let c := (dataReceived miniH11 (dispOk Gen.routes snapParams) noTeardown (fun b => some b) 10
      (miniConn [.request postResource, .endOfMessage]) []).1
    c.pending.isSome = true ∧ c.h.o = .sendResponse ∧ c.h.t = .done ∧ c.out = [] := by decide

/-- … and a request pipelined behind it makes `start_next_cycle` fail: the pump closes, the
    done-callback then sends nothing (the transport is closing). -/
example :
    let x := runCallbacks miniH11 (dispOk Gen.routes snapParams) noTeardown id
      (miniConn [.request postResource, .endOfMessage, .paused, .request postResource, .endOfMessage])
      [.data [] (fun b => some b) 10, .ready (.ok (asc "JPEG"))]
    x.2 = [.done, .done] ∧ x.1.closing = true ∧ x.1.answered = [] ∧ x.1.overlapped = false := by decide

/-- the upgrade step: a response carrying a session key with plaintext still in the parser
    (`trailing_data` non-empty) closes the connection on a FRESH parser; the smuggled request is
    never dispatched (the body ran once, for the pair-verify request only) -/
example :
    let P : Params Nat := { snapParams with body := fun _ w _ => ({ w with st := w.st + 1 }, { status := 200, sharedKey := true }, none) }
    let pv : Req := { method := asc "POST", target := asc "/pair-verify", headers := [] }
    let c' := (dataReceived scriptedH11 (dispOk Gen.routes P) noTeardown (fun b => some b) 10
      (demoConn [.request pv, .endOfMessage, .request reqBadTarget, .endOfMessage]) []).1
    c'.closing = true ∧ c'.encrypted = true ∧ c'.h = [] ∧ c'.w.st = 1 ∧ c'.answered = [0] := by decide

end Hap.Http
