/-
  C19 — Malformed or hostile HTTP never wedges or crashes the server.
  Property theorems only; lemmas live in Proofs/Pump.lean and Proofs/Dispatch.lean, the models in
  HapModel/Pump.lean (event pump of HAPServerProtocol) and HapModel/Dispatch.lean.

  Statement split (DESIGN §3 C19): the theorems below hold for EVERY behaviour of h11 (any state
  type, any event sequence, any failing `send`/`start_next_cycle`, any `our_state`), every
  `urlparse`, every handler body and every amount of loop fuel.  That h11 turns bytes into a
  sensible event sequence is library behaviour: exercised by the harness, not proved.
-/
import Proofs.Pump
import Proofs.Dispatch
import HapModel.Gen.Routes
namespace Hap.Http

variable {H σ : Type}

/-- No exception leaves `data_received`: whatever h11 does, whatever the request bytes decode to,
    whatever `urlparse` and the handler raise. (`Outcome.esc` is the only way the model lets an
    exception out; `h11.ProtocolError`s are caught by the pump and close the connection.) -/
theorem C19_no_escape (I : H11 H) (routes : List Route) (P : Params σ) (td : Teardown σ) (dec : Bytes → Option Bytes)
    (fuel : Nat) (c : Conn H σ) (data : Bytes) (e : Exn) :
    (dataReceived I (dispOk routes P) td dec fuel c data).2 ≠ .esc e :=
  dataReceived_no_esc I _ td (dispOk_total routes P) dec fuel c data e

/-- A fresh connection object satisfies the accounting invariant. -/
theorem C19_init_acct (h : H) (w : World σ) : Acct ({ h := h, w := w } : Conn H σ) :=
  ⟨Or.inr (Or.inr rfl), rfl, rfl, fun h => by cases h⟩

/-- Exactly one response per request, in order, or closed. `data_received` keeps the accounting
    invariant: unless the connection is closing (or h11 delivered a new message while a delayed
    response was outstanding — excluded by h11's cycle rule and checked on every recorded
    transcript), the requests answered so far, followed by the one whose delayed response is
    outstanding, are exactly requests 0,1,…,eoms-1 in order; and the number of response writes
    equals the number of answered requests. -/
theorem C19_one_response (I : H11 H) (routes : List Route) (P : Params σ) (td : Teardown σ) (dec : Bytes → Option Bytes)
    (fuel : Nat) (c : Conn H σ) (data : Bytes) (h : Acct c) :
    let c' := (dataReceived I (dispOk routes P) td dec fuel c data).1
    Acct c' ∧
    (c'.closing = false → c'.overlapped = false →
      c'.answered ++ c'.pendingId.toList = List.range c'.eoms ∧
      (c'.out.filter Out.isWrite).length = c'.answered.length) := by
  have hA : Acct (dataReceived I (dispOk routes P) td dec fuel c data).1 := by
    have := dataReceived_acct I (dispOk routes P) td dec fuel c data h
    have hne := C19_no_escape I routes P td dec fuel c data
    unfold OutcomeOk at this
    revert this hne
    cases (dataReceived I (dispOk routes P) td dec fuel c data).2 <;> simp
  refine ⟨hA, fun hc ho => ⟨?_, hA.count⟩⟩
  rcases hA.order with h1 | h1 | h1
  · rw [hc] at h1; cases h1
  · rw [ho] at h1; cases h1
  · exact h1

/-- The same over a whole life of a connection object (any interleaving of `data_received`,
    completions of the delayed snapshot task, `connection_lost`), as long as no callback let an
    exception out — which `data_received` never does (`C19_no_escape`); see `C19_ready_partial`
    for the delayed-response callback. -/
theorem C19_one_response_history (I : H11 H) (routes : List Route) (P : Params σ) (td : Teardown σ)
    (onLost : World σ → World σ) (cbs : List Callback) (h : H) (w : World σ)
    (hne : ∀ o ∈ (runCallbacks I (dispOk routes P) td onLost { h := h, w := w } cbs).2, ∀ e, o ≠ .esc e) :
    Acct (runCallbacks I (dispOk routes P) td onLost { h := h, w := w } cbs).1 :=
  runCallbacks_acct I _ td onLost cbs _ (C19_init_acct h w) hne

/-- No wedge in the pump: `data_received` returns only when h11 reported that nothing more is
    available (NEED_DATA / ConnectionClosed after the last event taken) or the connection is being
    closed; if the loop was cut by the fuel bound, it consumed one h11 event per unit of fuel. -/
theorem C19_progress (I : H11 H) (routes : List Route) (P : Params σ) (td : Teardown σ) (fuel : Nat)
    (c c' : Conn H σ) (o : Outcome) (hx : processEvents I (dispOk routes P) td fuel c = (c', o)) :
    (o = .done → c'.closing = true ∨ c'.idle = true) ∧
    (o = .fuel → c'.consumed = c.consumed + fuel) :=
  processEvents_progress I _ td fuel c c' o hx

/-- Isolation, dispatch level: a request that fails before a handler body is entered
    (undecodable request line or header, `urlparse` raised, unknown route or method, refused by the
    guard) leaves the world — accessory state, other connections, everything a handler could
    reach — exactly as it was. -/
theorem C19_isolation (routes : List Route) (P : Params σ) (w : World σ) (req : Option Req)
    (body : Bytes) (h : FailsEarly routes P w req body) :
    (dispatch routes P w req body).1 = w :=
  dispatch_fails_early routes P w req body h

/-- Isolation, pump level: the pump itself never touches the world. Any property of the world that
    every `dispatch` call preserves — and that the session teardown after a *successful*
    remove-pairing request preserves (the only other place where the protocol object reaches
    beyond itself) — is preserved by `data_received`, for every h11 behaviour (protocol errors,
    failed sends, closes included); and the registry entry of the connection is only ever removed,
    and only together with closing the transport. -/
theorem C19_isolation_pump (I : H11 H) (routes : List Route) (P : Params σ) (td : Teardown σ)
    (Q : World σ → Prop) (hq : ∀ w r b, Q w → Q (dispatch routes P w r b).1)
    (ht : ∀ w, Q w → Q (td w).1)
    (dec : Bytes → Option Bytes) (fuel : Nat) (c : Conn H σ) (data : Bytes) (h : Q c.w) :
    Q (dataReceived I (dispOk routes P) td dec fuel c data).1.w ∧
    RegStep c (dataReceived I (dispOk routes P) td dec fuel c data).1 := by
  refine ⟨dataReceived_world I _ td Q ?_ ht dec fuel c data h, dataReceived_reg I _ td dec fuel c data⟩
  intro w r b w' resp hd hw
  simp only [dispOk] at hd
  cases hd
  exact hq w r b hw

/-- Failing requests never trigger the teardown: the responses `dispatch` builds when a request
    fails before a handler body is entered carry no `pairing_removed` flag (nor a task, a session
    key or an advertisement refresh). -/
theorem C19_failing_response_inert (routes : List Route) (P : Params σ) (w : World σ) (req : Option Req)
    (body : Bytes) (h : FailsEarly routes P w req body) :
    let r := (dispatch routes P w req body).2
    r.pairingRemoved = false ∧ r.task = false ∧ r.sharedKey = false ∧ r.pairingChanged = false :=
  dispatch_fails_early_inert routes P w req body h

/-- A closing connection is no longer in the registry (invariant, part of `Acct`). -/
theorem C19_closed_unregistered (I : H11 H) (routes : List Route) (P : Params σ) (td : Teardown σ)
    (dec : Bytes → Option Bytes) (fuel : Nat) (c : Conn H σ) (data : Bytes) (h : Acct c) :
    (dataReceived I (dispOk routes P) td dec fuel c data).1.closing = true →
    (dataReceived I (dispOk routes P) td dec fuel c data).1.registered = false :=
  (C19_one_response I routes P td dec fuel c data h).1.reg

/-- PARTIAL (delayed responses). `_handle_response_ready` calls `send_response` outside any `try`:
    the callback is safe exactly when h11 accepts the three sends. If it does, nothing escapes and
    the accounting invariant is kept; if h11 raises `LocalProtocolError` there, it propagates out of
    the done-callback. Not proved: that h11 cannot raise at that point (it depends on h11's state
    machine: our side is still in SEND_RESPONSE unless the connection was closed, which the
    callback tests) — exercised by the harness instead. -/
theorem C19_ready_partial (I : H11 H) (c : Conn H σ) (res : Except Exn Bytes) (h : Acct c) :
    ((responseReady I c res).2 = true → Acct (responseReady I c res).1) ∧
    (c.closing = true → (responseReady I c res).2 = true) := by
  refine ⟨responseReady_acct I c res h, fun hc => ?_⟩
  unfold responseReady
  cases c.pending with
  | none => rfl
  | some r => simp [hc]

/-! ### the dispatch before the repair lets exceptions out of `data_received` -/

/-- `urlparse` that rejects `//[` like the standard library ("Invalid IPv6 URL") -/
def demoParams : Params Nat :=
  { urlparse := fun p => if p == asc "//[" then .error .value else .ok p,
    isAdmin := fun _ _ => false,
    body := fun _ w _ => ({ w with st := w.st + 1 }, { status := 200 }, none) }

def noTeardown : Teardown Nat := fun w => (w, false)

def demoConn (evs : List Ev) : Conn (List Ev) Nat :=
  { h := evs, w := { st := 0, verified := false, clientUuid := none } }

def reqBadHeader : Req := { method := asc "GET", target := asc "/accessories", headers := [(asc "x", [0xff])] }
def reqBadTarget : Req := { method := asc "GET", target := asc "//[", headers := [] }

/-- With the legacy dispatch a header value `\xff` (UnicodeDecodeError) and a target `//[`
    (ValueError from urlparse) propagate out of `data_received`; the request is never answered.
    Replayed on the implementation by the harness. -/
theorem C19_legacy_escape_counterexample :
    (dataReceived scriptedH11 (dispatchLegacy Gen.routes demoParams) noTeardown (fun b => some b) 10
        (demoConn [.request reqBadHeader, .endOfMessage]) []).2 = .esc .unicodeDecode ∧
    (dataReceived scriptedH11 (dispatchLegacy Gen.routes demoParams) noTeardown (fun b => some b) 10
        (demoConn [.request reqBadTarget, .endOfMessage]) []).2 = .esc .value := by
  decide

/-! ### non-vacuity -/

/-- the same two inputs through the repaired dispatch: answered (one write each), nothing escapes -/
example :
    (dataReceived scriptedH11 (dispOk Gen.routes demoParams) noTeardown (fun b => some b) 10
        (demoConn [.request reqBadHeader, .endOfMessage, .request reqBadTarget, .endOfMessage]) []).2 = .done ∧
    (dataReceived scriptedH11 (dispOk Gen.routes demoParams) noTeardown (fun b => some b) 10
        (demoConn [.request reqBadHeader, .endOfMessage, .request reqBadTarget, .endOfMessage]) []).1.answered = [0, 1] := by
  decide

/-- an h11 whose `send` refuses (as for a HEAD request whose answer has a body): the pump closes
    the connection, removes it from the registry, writes nothing -/
example :
    let I : H11 (List Ev) := { scriptedH11 with send := fun h _ => (h, none) }
    let c' := (dataReceived I (dispOk Gen.routes demoParams) noTeardown (fun b => some b) 10
        (demoConn [.request reqBadTarget, .endOfMessage]) []).1
    c'.closing = true ∧ c'.registered = false ∧ c'.out = [.writeEof, .close] := by
  decide

/-- `FailsEarly` is satisfiable: the bad-header request on an unverified connection -/
example : FailsEarly Gen.routes demoParams { st := 0, verified := false, clientUuid := none }
    (some reqBadHeader) [] := by
  have h : resolve Gen.routes demoParams (some reqBadHeader) [] = .error .unicodeDecode := rfl
  simp [FailsEarly, h]

end Hap.Http
