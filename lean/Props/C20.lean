/-
  C20 — Value updates from worker threads are never lost or left stale.
  Property theorems only (about the model HapModel/Race.lean of the code WITH the repair
  design/fixes/C20.patch, `fix = true`); the invariants live in Proofs/Race.lean.

  "All schedules" = all scheduler bit lists `bits : List Bool` (`true` = the loop thread makes its
  next step, `false` = the worker): every merge of the two threads' step sequences is one of them.
  The loop program `lops` (any list of to_HAP / get_value / subscribe / unsubscribe / drain / flush
  operations) and the worker program `wups` (any list of `set_value` calls, valid or rejected) are
  universally quantified as well.

  Map from the property's sentences to the theorems:
    "the outcome equals that of some serial order"  C20_serial_order (the property's quantifier `AtomicUpd`: the
        whole update at a step boundary), C20_read_never_none; C20_fine_grained_not_serializable (why not finer)
    "subsequent reads … show the new value"         C20_no_stale(_window), C20_update_not_lost,
        C20_later_reads_show_final (every later read, every schedule), C20_subsequent_read
    "subscribed controllers end up with it …"       C20_event, C20_pending_has_timer, C20_handoff_exact,
        C20_event_quiescent(_delivered), C20_event_delivered (drain + timer expiry reach quiescence)
-/
import Proofs.Race
namespace Hap.Race

/-- **No stale cache, every schedule.**  From any quiet configuration whose cache is fresh, after
    any schedule of any loop program against any worker program: a with-value cache that renders an
    object other than `_value` exists only while the worker is between its assignment and its
    cache clear, or while the loop thread is between storing the cache and finishing the re-check. -/
theorem C20_no_stale_window (bits : List Bool) (s0 : Cfg) (hq : Quiet s0) (hf : Fresh s0) :
    let s := run repaired bits s0
    Fresh s ∨ WorkerWillClear s ∨ LoopWillCheck s :=
  (cacheInv_run true bits s0 (cacheInv_of_quiet_fresh s0 hq hf)).2

/-- **C20_no_stale.**  Whenever both threads are between operations (in particular when both
    programs have finished), the cache is absent or renders the current value object. -/
theorem C20_no_stale (bits : List Bool) (s0 : Cfg) (hq : Quiet s0) (hf : Fresh s0) :
    Quiet (run repaired bits s0) → Fresh (run repaired bits s0) := by
  intro hq'
  rcases C20_no_stale_window bits s0 hq hf with h | h | h
  · exact h
  · simp_all [Quiet, WorkerWillClear]
  · simp_all [Quiet, LoopWillCheck]

/-- **The update is not lost.**  For a loop program that contains no controller write of this
    characteristic: once the worker has finished, `_value` is the object of its last accepted
    `set_value` (the initial value if none was accepted), whatever the schedule. -/
theorem C20_update_not_lost (fix : Variant) (bits : List Bool) (s0 : Cfg) (h0 : s0.wpc = .idle)
    (hn : NoWrite s0.lops)
    (hw : (run fix bits s0).wpc = .idle) (hu : (run fix bits s0).wups = []) :
    (run fix bits s0).value = lastValid s0.value s0.wups := by
  have h := target_run fix bits s0 hn
  have h1 : target s0 = lastValid s0.value s0.wups := by simp [target, h0]
  have h2 : target (run fix bits s0) = (run fix bits s0).value := by
    simp [target, hw, hu, lastValid]
  rw [← h2, h, h1]

/-- A later read: from a quiet configuration with a fresh cache, `to_HAP` run to completion shows
    the current value (2 steps on a cache hit: begin, test-and-return; 5 on a miss: begin, check,
    read, store, re-check). -/
theorem C20_read_after_quiet (s : Cfg) (rest : List LoopOp) (hq : Quiet s) (hf : Fresh s)
    (hl : s.lops = .toHAP :: rest) :
    ∃ n, let s' := run repaired (List.replicate n true) s
      s'.lpc = .idle ∧ s'.lops = rest ∧ s'.results = s.results ++ [.rep s.value] ∧ Fresh s' := by
  obtain ⟨hlp, _⟩ := hq
  rcases hf with hc | hc
  · refine ⟨5, ?_⟩
    simp [List.replicate, run, step, stepLoop, hlp, hl, hc, ret, Fresh, repaired]
  · refine ⟨2, ?_⟩
    simp [List.replicate, run, step, stepLoop, hlp, hl, hc, ret, Fresh, repaired]

/-- **Subsequent reads show the new value** (C20_no_stale + C20_update_not_lost + the read):
    after any schedule in which the worker has finished and the loop thread is between operations,
    the next `to_HAP` shows the worker's last accepted value. -/
theorem C20_subsequent_read (bits : List Bool) (s0 : Cfg) (hq : Quiet s0) (hf : Fresh s0)
    (hn : NoWrite s0.lops) (rest : List LoopOp) :
    let s := run repaired bits s0
    Quiet s → s.wups = [] → s.lops = .toHAP :: rest →
    ∃ n, (run repaired (List.replicate n true) s).results
          = s.results ++ [.rep (lastValid s0.value s0.wups)] := by
  intro s hq' hu hl
  have hfresh := C20_no_stale bits s0 hq hf hq'
  have hv : s.value = lastValid s0.value s0.wups := C20_update_not_lost repaired bits s0 hq.2 hn hq'.2 hu
  obtain ⟨n, hn⟩ := C20_read_after_quiet s rest hq' hfresh hl
  exact ⟨n, by rw [← hv]; exact hn.2.2.1⟩

/-- **C20_event.**  The loop program may now contain, besides reads and flushes: repeated
    subscriptions, unsubscriptions of other connections (each dropping that connection's queued
    entry), timer expiries (also on an emptied queue), direct flushes, and controller writes of
    the characteristic by `c` itself or by other connections.  Let connection `c` be subscribed in
    the start configuration and never unsubscribed by the loop program.  Then for every schedule
    that is `Serial` (no controller write overlaps a worker update or an undrained hand-off — see
    `Serial`; schedules of programs without controller writes are all `Serial`), whenever the
    worker is between updates the most recent item of `c`'s pipeline (hand-off queue, else the
    queued coalesced entry, else what the controller last learned: last event written to it or its
    own last acknowledged write) carries the current value. -/
theorem C20_event (fix : Variant) (c : Conn) (bits : List Bool) (s0 : Cfg)
    (hq : Quiet s0) (hk : s0.topicKey = true) (hc : c ∈ s0.subs)
    (hun : ∀ op ∈ s0.lops, op ≠ LoopOp.unsub c ∧ op ≠ LoopOp.lost c)
    (hpt : s0.pending c ≠ none → s0.timer c = true)
    (h0 : (latest c s0).val = s0.value.val)
    (hs : Serial fix bits s0) :
    (run fix bits s0).wpc = .idle → (latest c (run fix bits s0)).val = (run fix bits s0).value.val := by
  intro hw
  have hinv : EvInv c s0 := by
    refine ⟨hk, hc, hun, by simp [hq.1], by simp [hq.1], hpt, ?_⟩
    rw [hq.2]; exact h0
  have h := (evInv_run fix c bits s0 hinv hs).2.2.2.2.2.2
  rw [hw] at h
  exact h

/-- **A queued entry always has a flush scheduled** (same hypotheses): whatever discards, repeated
    subscriptions, writes and timer expiries happened, if `c` has a queued event then its
    coalescing timer is armed — so the entry will be written when the timer fires. -/
theorem C20_pending_has_timer (fix : Variant) (c : Conn) (bits : List Bool) (s0 : Cfg)
    (hq : Quiet s0) (hk : s0.topicKey = true) (hc : c ∈ s0.subs)
    (hun : ∀ op ∈ s0.lops, op ≠ LoopOp.unsub c ∧ op ≠ LoopOp.lost c)
    (hpt : s0.pending c ≠ none → s0.timer c = true)
    (h0 : (latest c s0).val = s0.value.val)
    (hs : Serial fix bits s0) :
    (run fix bits s0).pending c ≠ none → (run fix bits s0).timer c = true := by
  have hinv : EvInv c s0 := by
    refine ⟨hk, hc, hun, by simp [hq.1], by simp [hq.1], hpt, ?_⟩
    rw [hq.2]; exact h0
  exact (evInv_run fix c bits s0 hinv hs).2.2.2.2.2.1

/-- **At quiescence the controller has the final value.**  Worker between updates, hand-off queue
    drained, `c`'s timer not armed (every scheduled flush has fired): nothing is left queued for
    `c`, and what it last learned (last event written to it, or its own acknowledged write if that
    came later) is the current value. -/
theorem C20_event_quiescent (fix : Variant) (c : Conn) (bits : List Bool) (s0 : Cfg)
    (hq : Quiet s0) (hk : s0.topicKey = true) (hc : c ∈ s0.subs)
    (hun : ∀ op ∈ s0.lops, op ≠ LoopOp.unsub c ∧ op ≠ LoopOp.lost c)
    (hpt : s0.pending c ≠ none → s0.timer c = true)
    (h0 : (latest c s0).val = s0.value.val)
    (hs : Serial fix bits s0) :
    (run fix bits s0).wpc = .idle → (run fix bits s0).queue = [] → (run fix bits s0).timer c = false →
    (run fix bits s0).pending c = none ∧
    ((run fix bits s0).knows c).val = (run fix bits s0).value.val := by
  intro hw hqe ht
  have hp : (run fix bits s0).pending c = none := by
    have := C20_pending_has_timer fix c bits s0 hq hk hc hun hpt h0 hs
    cases hpc : (run fix bits s0).pending c with
    | none => rfl
    | some d =>
      have h1 := this (by rw [hpc]; simp)
      rw [ht] at h1; exact absurd h1 (by simp)
  have h := C20_event fix c bits s0 hq hk hc hun hpt h0 hs hw
  simp only [latest, hqe, hp, List.getLast?_nil] at h
  exact ⟨hp, h⟩

/-- The same in terms of what is observable on the wire: if the loop program contains no write by
    `c` itself (other connections may write) and nothing had been written to `c` at the start, then
    at quiescence the last EVENT written to `c` carries the final value — or none was written and
    the value equals what `c` knew at the start. -/
theorem C20_event_quiescent_delivered (fix : Variant) (c : Conn) (bits : List Bool) (s0 : Cfg)
    (hq : Quiet s0) (hk : s0.topicKey = true) (hc : c ∈ s0.subs)
    (hun : ∀ op ∈ s0.lops, op ≠ LoopOp.unsub c ∧ op ≠ LoopOp.lost c)
    (hpt : s0.pending c ≠ none → s0.timer c = true)
    (h0 : (latest c s0).val = s0.value.val)
    (hs : Serial fix bits s0)
    (hnw : ∀ op ∈ s0.lops, ∀ v, op ≠ LoopOp.write c v) (hd0 : s0.delivered c = []) :
    (run fix bits s0).wpc = .idle → (run fix bits s0).queue = [] → (run fix bits s0).timer c = false →
    (∃ d, ((run fix bits s0).delivered c).getLast? = some d ∧ d.val = (run fix bits s0).value.val) ∨
    ((run fix bits s0).delivered c = [] ∧ (s0.knows c).val = (run fix bits s0).value.val) := by
  intro hw hqe ht
  have h := (C20_event_quiescent fix c bits s0 hq hk hc hun hpt h0 hs hw hqe ht).2
  have hk0 : KnowsInv c (s0.knows c) s0 := by simp [KnowsInv, hd0]
  have hkn := knows_run fix c (s0.knows c) bits s0 hnw hk0
  unfold KnowsInv at hkn
  rw [hkn] at h
  cases hd : ((run fix bits s0).delivered c).getLast? with
  | none =>
    right
    rw [hd] at h
    exact ⟨List.getLast?_eq_none_iff.mp hd, by simpa using h⟩
  | some d =>
    left
    rw [hd] at h
    exact ⟨d, rfl, by simpa using h⟩

/-- **Exactly the changing updates reach the loop, in order, every schedule** (loop programs
    without controller writes).  Under the hypotheses of C20_event (some connection `c` is and
    stays subscribed, so the topic exists whenever `publish` tests it): once the worker has
    finished, the sequence of objects it handed to the loop with `call_soon_threadsafe` is
    precisely the sequence of accepted updates that changed the value — none lost, none
    duplicated, none reordered — each enqueued after its own assignment. -/
theorem C20_handoff_exact (fix : Variant) (c : Conn) (bits : List Bool) (s0 : Cfg)
    (hq : Quiet s0) (hk : s0.topicKey = true) (hc : c ∈ s0.subs)
    (hun : ∀ op ∈ s0.lops, op ≠ LoopOp.unsub c ∧ op ≠ LoopOp.lost c)
    (hpt : s0.pending c ≠ none → s0.timer c = true)
    (h0 : (latest c s0).val = s0.value.val) (hn : NoWrite s0.lops)
    (hw : (run fix bits s0).wpc = .idle) (hu : (run fix bits s0).wups = []) :
    (run fix bits s0).enq = s0.enq ++ changes s0.value s0.wups := by
  have hinv : EvInv c s0 := by
    refine ⟨hk, hc, hun, by simp [hq.1], by simp [hq.1], hpt, ?_⟩
    rw [hq.2]; exact h0
  have h := handoff_run fix c bits s0 hinv hn
  have e1 : owed (run fix bits s0) = [] := by simp [owed, hw, hu, changes]
  have e2 : owed s0 = changes s0.value s0.wups := by simp [owed, hq.2]
  rw [e1, e2, List.append_nil] at h
  exact h


/-! ### "The outcome equals that of some serial order" -/

/-- **C20_serial_order — the property's own quantifier.**  Let the worker's updates each land as a
    whole at a step boundary of the loop thread (`AtomicUpd`: the loop thread steps only while the
    worker is between updates — any number of updates, each anywhere inside any loop operation;
    the loop program may also contain controller writes).  Then the ghost order `lin`, in which
    every update and every value-showing read is logged BY A STEP OF ITS OWN OPERATION (so inside
    its real-time interval, and in the program order of its thread), is a serial execution with
    the same outcome:
    * it is a legal history of one sequential register that starts at the initial value and ends
      in the current `_value` — every read shows exactly what the register holds at its place in
      the order;
    * its reads are, in order, exactly the values shown by the results returned so far (plus the
      one read in progress that has already fixed its answer), and no read returned `None`;
    * its updates are, in order, exactly the worker's accepted updates made so far (loop programs
      without controller writes).
    Together with C20_handoff_exact (the hand-offs are exactly the changing updates, in order) and
    C20_event_delivered this is "the outcome equals that of some serial order". -/
theorem C20_serial_order (bits : List Bool) (s0 : Cfg) (hq : Quiet s0) (hf : Fresh s0)
    (hl : s0.lin = []) (hr : s0.results = []) (ha : AtomicUpd repaired bits s0) :
    let s := run repaired bits s0
    replay s0.value s.lin = some s.value ∧
    readsOf s.lin = resObjs s.results ++ inflight s ∧
    (∀ r ∈ s.results, r ≠ Res.nothing) ∧
    (NoWrite s0.lops → updsOf s.lin ++ owedUpd s = validObjs s0.wups) := by
  have hinv : LinInv s0.value s0 := by
    refine ⟨by simp [hl, replay], ?_⟩
    simp [hl, hr, readsOf, resObjs, inflight, hq.1]
  have h := linInv_run true s0.value bits s0 (cacheInv_of_quiet_fresh s0 hq hf) hinv ha
  refine ⟨h.1, h.2, ?_, ?_⟩
  · exact (noNothing_run true bits s0 ⟨by simp [hr], by simp [hq.1], by simp [hq.1]⟩).1
  · intro hn
    have := upd_run repaired bits s0 hn
    simpa [hl, updsOf, owedUpd, hq.2] using this

/-- Why the quantifier places the WHOLE update at a boundary: if the loop thread completes two
    operations between two lines of one `set_value` (after `self._value = value`, before the cache
    clear), GET /characteristics shows the new value and a following GET /accessories still shows
    the old one from the cache — 20, 21, 20 with a single update 20 → 21 is the outcome of no serial
    order.  The no-stale and event theorems hold for such schedules too; serial equivalence of the
    reads in progress does not.  (Outside the property's quantifier; recorded, not judged.) -/
def fgStart : Cfg := init ⟨0, 20⟩ [.toHAP, .getValue, .toHAP] [⟨⟨1, 21⟩, true⟩] []
def fgSchedule : List Bool :=
  [true, true, true, true, true, false, false, true, true, true, true, false, false, false]

theorem C20_fine_grained_not_serializable :
    Quiet (run repaired fgSchedule fgStart) ∧
    (run repaired fgSchedule fgStart).results = [.rep ⟨0, 20⟩, .value ⟨1, 21⟩, .rep ⟨0, 20⟩] ∧
    replay ⟨0, 20⟩ (run repaired fgSchedule fgStart).lin = none ∧
    ¬ AtomicUpd repaired fgSchedule fgStart ∧ Fresh (run repaired fgSchedule fgStart) := by
  decide

/-- **Every later read shows the final value — every schedule, no atomicity assumption.**  After
    ANY schedule `bits1` (arbitrary merge of the two threads' steps) at whose end the worker has
    finished and the loop thread is between operations, EVERY result that any further schedule
    `bits2` of the remaining loop program produces — to_HAP (cache hit or miss), get_value — shows
    the worker's last accepted value, and none is `None` (loop programs without controller
    writes). -/
theorem C20_later_reads_show_final (bits1 bits2 : List Bool) (s0 : Cfg) (hq : Quiet s0) (hf : Fresh s0)
    (hn : NoWrite s0.lops) :
    let s := run repaired bits1 s0
    Quiet s → s.wups = [] →
    ∃ new, (run repaired bits2 s).results = s.results ++ new ∧
      ∀ x ∈ new, shows (lastValid s0.value s0.wups) x := by
  intro s hq' hu
  have hfresh : Fresh s := C20_no_stale bits1 s0 hq hf hq'
  have hv : s.value = lastValid s0.value s0.wups :=
    C20_update_not_lost repaired bits1 s0 hq.2 hn hq'.2 hu
  have hlate : LateInv (lastValid s0.value s0.wups) s.results.length s := by
    refine ⟨hq'.2, hu, hv, noWrite_run repaired bits1 s0 hn, ?_, ?_, by simp [hq'.1], by simp [hq'.1],
      Nat.le_refl _, by simp⟩
    · rcases hfresh with h | h
      · exact Or.inl h
      · exact Or.inr (by rw [h, hv])
    · intro r hr; simp [hq'.1] at hr
  have h2 := lateInv_run _ _ bits2 s hlate
  obtain ⟨new, hnew⟩ := results_prefix_run repaired bits2 s
  refine ⟨new, hnew, ?_⟩
  have := h2.2.2.2.2.2.2.2.2.2
  rw [hnew] at this
  simpa using this

/-- **The loop's own mechanisms deliver it.**  Under the hypotheses of C20_event, from any reached
    configuration in which both threads are between operations and the loop program continues with
    `drain` (run the handed-over callbacks) and the expiry of `c`'s coalescing timer: the loop
    thread alone completes these two operations, and then nothing is left queued for `c`, its timer
    is disarmed, the hand-off queue is empty and what `c` last learned carries the current value.
    (C20_event_quiescent assumed the quiescent configuration; this theorem shows it is reached.) -/
theorem C20_event_delivered (fix : Variant) (c : Conn) (bits : List Bool) (s0 : Cfg)
    (hq : Quiet s0) (hk : s0.topicKey = true) (hc : c ∈ s0.subs)
    (hun : ∀ op ∈ s0.lops, op ≠ LoopOp.unsub c ∧ op ≠ LoopOp.lost c)
    (hpt : s0.pending c ≠ none → s0.timer c = true)
    (h0 : (latest c s0).val = s0.value.val)
    (hs : Serial fix bits s0) (rest : List LoopOp) :
    Quiet (run fix bits s0) → (run fix bits s0).lops = .drain :: .fire c :: rest →
    ∃ ext : List Bool, (∀ b ∈ ext, b = true) ∧
      (run fix (bits ++ ext) s0).lpc = .idle ∧ (run fix (bits ++ ext) s0).lops = rest ∧
      (run fix (bits ++ ext) s0).queue = [] ∧ (run fix (bits ++ ext) s0).timer c = false ∧
      (run fix (bits ++ ext) s0).pending c = none ∧
      ((run fix (bits ++ ext) s0).knows c).val = (run fix (bits ++ ext) s0).value.val := by
  intro hq' hl
  obtain ⟨ext, e1, e2, e3, e4, e5, e6, e7⟩ := drain_fire_finishes fix c (run fix bits s0) rest hq'.1 hl
  refine ⟨ext, e1, ?_⟩
  have hs' : Serial fix (bits ++ ext) s0 := serial_append fix bits ext s0 hs e2
  have hw : (run fix (bits ++ ext) s0).wpc = .idle := by rw [run_append, e5]; exact hq'.2
  have hqe : (run fix (bits ++ ext) s0).queue = [] := by rw [run_append]; exact e6
  have ht : (run fix (bits ++ ext) s0).timer c = false := by rw [run_append]; exact e7
  have h := C20_event_quiescent fix c (bits ++ ext) s0 hq hk hc hun hpt h0 hs' hw hqe ht
  exact ⟨by rw [run_append]; exact e3, by rw [run_append]; exact e4, hqe, ht, h.1, h.2⟩

/-- Why `Serial` is assumed (the known finding of C12, not judged by C20's oracle): a controller
    write that overtakes a worker update's undrained hand-off leaves the subscriber with the OLDER
    value as its latest event.  Worker: 20 → 21, hand-off enqueued; connection 8 writes 22 (queued
    for subscriber 7); the hand-off is drained afterwards and replaces it; the timer fires. -/
theorem C20_overlapping_write_counterexample :
    let s := run repaired [false, false, false, false, false, false, true, true, true, true, true]
      (init ⟨0, 20⟩ [.write 8 ⟨2, 22⟩, .drain, .fire 7] [⟨⟨1, 21⟩, true⟩] [7])
    Quiet s ∧ s.queue = [] ∧ s.timer 7 = false ∧ s.value = ⟨2, 22⟩ ∧ s.delivered 7 = [⟨1, 21⟩] ∧
    s.knows 7 = ⟨1, 21⟩ := by
  decide

/-! ### The code as shipped (no re-check): the window is real -/

/-- `begin; check; read value; [worker: begin, assign, clear, clear, topic test]; store cache`. -/
def windowSchedule : List Bool := [true, true, true, false, false, false, false, false, true]

def windowStart (lops : List LoopOp) : Cfg := init ⟨0, 20⟩ lops [⟨⟨1, 21⟩, true⟩] []

/-- **A read in progress always returns a representation.**  With the early return using the
    object it tested (design/fixes/C20-toHAP-double-read.patch), no `to_HAP` of any loop program
    under any schedule returns `None`: every recorded result is a representation (or a value).
    The statement is unprovable for the `head` variant: see C20_head_double_read_counterexample. -/
theorem C20_read_never_none (rc : Bool) (bits : List Bool) (s0 : Cfg) (hq : Quiet s0)
    (h0 : ∀ r ∈ s0.results, r ≠ Res.nothing) :
    ∀ r ∈ (run ⟨rc, true⟩ bits s0).results, r ≠ Res.nothing :=
  (noNothing_run rc bits s0 ⟨h0, by simp [hq.1], by simp [hq.1]⟩).1

/-- `begin … store, re-check (first to_HAP, cache warm); begin, test cache;
    [worker: begin, assign, clear, clear]; return cache`. -/
def noneSchedule : List Bool :=
  [true, true, true, true, true, true, true, false, false, false, false, true]

/-- **HEAD's early return reads the slot twice** (characteristic.py l.412–413 / l.414–415): a
    worker update that lands between the test and the return makes the read in progress return
    `None` — GET /accessories carries a `null` entry for the characteristic.  No serial order of
    {read, update} gives that.  Witness on the `head` variant (re-check present, double read);
    the same schedule is replayed on the real code by the harness. -/
theorem C20_head_double_read_counterexample :
    (run head noneSchedule (windowStart [.toHAP, .toHAP])).results = [.rep ⟨0, 20⟩, .nothing] := by
  decide

/-- The same for the value-free cache (`accessories_hash`, l.414–415). -/
theorem C20_head_double_read_novalue_counterexample :
    (run head [true, true, true, true, true, false, false, false, true]
      (init ⟨0, 20⟩ [.toHAPnv, .toHAPnv] [⟨⟨1, 21⟩, true⟩] [])).results = [.repNV, .nothing] := by
  decide


/-- `read value; [worker: assign, clear, clear]; store cache` on the unrepaired step function:
    both threads are idle and finished, the cache renders object 0 (payload 20) while `_value` is
    object 1 (payload 21) — and it stays so until the next change.  The same schedule is replayed
    on the real code by the harness. -/
theorem C20_legacy_window_counterexample :
    Quiet (run shipped windowSchedule (windowStart [.toHAP])) ∧
    (run shipped windowSchedule (windowStart [.toHAP])).lops = [] ∧
    (run shipped windowSchedule (windowStart [.toHAP])).wups = [] ∧
    (run shipped windowSchedule (windowStart [.toHAP])).value = ⟨1, 21⟩ ∧
    (run shipped windowSchedule (windowStart [.toHAP])).cacheV = some ⟨0, 20⟩ ∧
    ¬ Fresh (run shipped windowSchedule (windowStart [.toHAP])) := by
  decide

/-- …and every later `to_HAP` keeps showing the old value (cache hit). -/
theorem C20_legacy_stale_read :
    Quiet (run shipped (windowSchedule ++ [true, true, true]) (windowStart [.toHAP, .toHAP])) ∧
    (run shipped (windowSchedule ++ [true, true, true]) (windowStart [.toHAP, .toHAP])).value = ⟨1, 21⟩ ∧
    (run shipped (windowSchedule ++ [true, true, true]) (windowStart [.toHAP, .toHAP])).results
      = [.rep ⟨0, 20⟩, .rep ⟨0, 20⟩] := by
  decide

/-! ### Non-vacuity and observations -/

/-- The same schedule on the repaired step function: the re-check drops the cache. -/
example :
    Quiet (run repaired (windowSchedule ++ [true, true]) (windowStart [.toHAP])) ∧
    (run repaired (windowSchedule ++ [true, true]) (windowStart [.toHAP])).value = ⟨1, 21⟩ ∧
    (run repaired (windowSchedule ++ [true, true]) (windowStart [.toHAP])).cacheV = none ∧
    (run repaired (windowSchedule ++ [true, true]) (windowStart [.toHAP])).results = [.rep ⟨0, 20⟩] := by
  decide

/-- Hypotheses of C20_no_stale / C20_event hold of a concrete start configuration, and a concrete
    interleaved run delivers the event: subscribed before, update during a `to_HAP`, drain, flush. -/
def evStart : Cfg := init ⟨0, 20⟩ [.toHAP, .drain, .fire 7] [⟨⟨1, 21⟩, true⟩] [7]
def evSchedule : List Bool :=
  [true, true, false, false, true, false, false, true, false, false, true, true, true, true, true, true]

example : Quiet evStart ∧ Fresh evStart ∧ evStart.topicKey = true ∧ 7 ∈ evStart.subs ∧
    (∀ op ∈ evStart.lops, op ≠ LoopOp.unsub 7 ∧ op ≠ LoopOp.lost 7) ∧ (latest 7 evStart).val = evStart.value.val := by
  decide

example : NoWrite evStart.lops := by
  intro op ho w v
  simp [evStart, init] at ho
  rcases ho with rfl | rfl | rfl <;> simp

/-- …and of a start configuration whose program contains a controller write by the subscriber,
    an unsubscription of another connection, a repeated subscription and timer expiries; the
    schedule below is `Serial` and ends with the subscriber knowing the final value. -/
def mixStart : Cfg :=
  init ⟨0, 20⟩ [.drain, .write 7 ⟨2, 22⟩, .fire 7, .sub 7, .unsub 8, .drain, .fire 7]
    [⟨⟨1, 21⟩, true⟩, ⟨⟨3, 23⟩, true⟩] [7, 8]
def mixSchedule : List Bool :=
  [false, false, false, false, false, false,        -- worker: 20 → 21, handed over
   true, true, true, true, true, true, true,         -- loop: drain (21 queued, timer armed), write 22 by 7, fire, sub, unsub 8
   false, false, false, false, false, false,         -- worker: 22 → 23, handed over
   true, true, true, true]                           -- loop: drain, fire

example : Serial repaired mixSchedule mixStart := by decide

example :
    Quiet (run repaired mixSchedule mixStart) ∧ (run repaired mixSchedule mixStart).queue = [] ∧
    (run repaired mixSchedule mixStart).timer 7 = false ∧
    (run repaired mixSchedule mixStart).value = ⟨3, 23⟩ ∧
    (run repaired mixSchedule mixStart).delivered 7 = [⟨3, 23⟩] ∧
    (run repaired mixSchedule mixStart).knows 7 = ⟨3, 23⟩ := by
  decide

example :
    Quiet (run repaired evSchedule evStart) ∧ (run repaired evSchedule evStart).queue = [] ∧
    (run repaired evSchedule evStart).pending 7 = none ∧ (run repaired evSchedule evStart).timer 7 = false ∧
    (run repaired evSchedule evStart).delivered 7 = [⟨1, 21⟩] ∧ Fresh (run repaired evSchedule evStart) ∧
    (run repaired evSchedule evStart).enq = [⟨1, 21⟩] ∧ changes evStart.value evStart.wups = [⟨1, 21⟩] := by
  decide

/-- "Equal but not identical": an update with the same payload in a different object makes the
    re-check drop the cache (harmless) and produces no event (`changed` is false). -/
def eqStart : Cfg := init ⟨0, 20⟩ [.toHAP] [⟨⟨1, 20⟩, true⟩] [7]
def eqSchedule : List Bool := [true, true, true, false, false, false, false, true, true, true]

example :
    Quiet (run repaired eqSchedule eqStart) ∧ (run repaired eqSchedule eqStart).value = ⟨1, 20⟩ ∧
    (run repaired eqSchedule eqStart).cacheV = none ∧ (run repaired eqSchedule eqStart).queue = [] := by
  decide

/-- On the repaired model the schedule that broke HEAD's early return is harmless. -/
example :
    (run repaired noneSchedule (windowStart [.toHAP, .toHAP])).results = [.rep ⟨0, 20⟩, .rep ⟨0, 20⟩] ∧
    Fresh (run repaired noneSchedule (windowStart [.toHAP, .toHAP])) := by
  decide

/-- `AtomicUpd` is satisfiable by a genuinely interleaved run: the whole update lands between the
    value read and the cache store of a `to_HAP` (the window schedule), and between two operations;
    the serial order then is `read 20; upd 21; read 21`. -/
example : AtomicUpd repaired (windowSchedule ++ [true, true, true, true, true, true, true])
    (windowStart [.toHAP, .toHAP]) ∧
    (run repaired (windowSchedule ++ [true, true, true, true, true, true, true])
      (windowStart [.toHAP, .toHAP])).lin = [.read ⟨0, 20⟩, .upd ⟨1, 21⟩, .read ⟨1, 21⟩] ∧
    (run repaired (windowSchedule ++ [true, true, true, true, true, true, true])
      (windowStart [.toHAP, .toHAP])).results = [.rep ⟨0, 20⟩, .rep ⟨1, 21⟩] := by
  decide

/-- C20_event_delivered's premises on a concrete interleaved run: after the worker's update landed
    inside a `to_HAP`, the program continues with `drain; fire 7`. -/
example : Quiet (run repaired (evSchedule.take 11) evStart) ∧
    (run repaired (evSchedule.take 11) evStart).lops = [.drain, .fire 7] ∧
    Serial repaired (evSchedule.take 11) evStart := by
  decide

end Hap.Race
