/-
  C20 — Value updates from worker threads are never lost or left stale.
  Property theorems only (about the model HapModel/Race.lean of the code WITH the repair
  design/fixes/C20.patch, `fix = true`); the invariants live in Proofs/Race.lean.

  "All schedules" = all scheduler bit lists `bits : List Bool` (`true` = the loop thread makes its
  next step, `false` = the worker): every merge of the two threads' step sequences is one of them.
  The loop program `lops` (any list of to_HAP / get_value / subscribe / unsubscribe / drain / flush
  operations) and the worker program `wups` (any list of `set_value` calls, valid or rejected) are
  universally quantified as well.
-/
import Proofs.Race
namespace Hap.Race

/-- **No stale cache, every schedule.**  From any quiet configuration whose cache is fresh, after
    any schedule of any loop program against any worker program: a with-value cache that renders an
    object other than `_value` exists only while the worker is between its assignment and its
    cache clear, or while the loop thread is between storing the cache and finishing the re-check. -/
theorem C20_no_stale_window (bits : List Bool) (s0 : Cfg) (hq : Quiet s0) (hf : Fresh s0) :
    let s := run true bits s0
    Fresh s ∨ WorkerWillClear s ∨ LoopWillCheck s :=
  (cacheInv_run bits s0 (cacheInv_of_quiet_fresh s0 hq hf)).2

/-- **C20_no_stale.**  Whenever both threads are between operations (in particular when both
    programs have finished), the cache is absent or renders the current value object. -/
theorem C20_no_stale (bits : List Bool) (s0 : Cfg) (hq : Quiet s0) (hf : Fresh s0) :
    Quiet (run true bits s0) → Fresh (run true bits s0) := by
  intro hq'
  rcases C20_no_stale_window bits s0 hq hf with h | h | h
  · exact h
  · simp_all [Quiet, WorkerWillClear]
  · simp_all [Quiet, LoopWillCheck]

/-- **The update is not lost.**  Once the worker has finished, `_value` is the object of its last
    accepted `set_value` (the initial value if none was accepted), whatever the schedule. -/
theorem C20_update_not_lost (fix : Bool) (bits : List Bool) (s0 : Cfg) (h0 : s0.wpc = .idle)
    (hw : (run fix bits s0).wpc = .idle) (hu : (run fix bits s0).wups = []) :
    (run fix bits s0).value = lastValid s0.value s0.wups := by
  have h := target_run fix bits s0
  have h1 : target s0 = lastValid s0.value s0.wups := by simp [target, h0]
  have h2 : target (run fix bits s0) = (run fix bits s0).value := by
    simp [target, hw, hu, lastValid]
  rw [← h2, h, h1]

/-- A later read: from a quiet configuration with a fresh cache, `to_HAP` run to completion shows
    the current value (3 steps on a cache hit, 5 on a miss: begin, check, read, store, re-check). -/
theorem C20_read_after_quiet (s : Cfg) (rest : List LoopOp) (hq : Quiet s) (hf : Fresh s)
    (hl : s.lops = .toHAP :: rest) :
    ∃ n, let s' := run true (List.replicate n true) s
      s'.lpc = .idle ∧ s'.lops = rest ∧ s'.results = s.results ++ [.rep s.value] ∧ Fresh s' := by
  obtain ⟨hlp, _⟩ := hq
  rcases hf with hc | hc
  · refine ⟨5, ?_⟩
    simp [List.replicate, run, step, stepLoop, hlp, hl, hc, ret, Fresh]
  · refine ⟨3, ?_⟩
    simp [List.replicate, run, step, stepLoop, hlp, hl, hc, ret, Fresh]

/-- **Subsequent reads show the new value** (C20_no_stale + C20_update_not_lost + the read):
    after any schedule in which the worker has finished and the loop thread is between operations,
    the next `to_HAP` shows the worker's last accepted value. -/
theorem C20_subsequent_read (bits : List Bool) (s0 : Cfg) (hq : Quiet s0) (hf : Fresh s0)
    (rest : List LoopOp) :
    let s := run true bits s0
    Quiet s → s.wups = [] → s.lops = .toHAP :: rest →
    ∃ n, (run true (List.replicate n true) s).results
          = s.results ++ [.rep (lastValid s0.value s0.wups)] := by
  intro s hq' hu hl
  have hfresh := C20_no_stale bits s0 hq hf hq'
  have hv : s.value = lastValid s0.value s0.wups := C20_update_not_lost true bits s0 hq.2 hq'.2 hu
  obtain ⟨n, hn⟩ := C20_read_after_quiet s rest hq' hfresh hl
  exact ⟨n, by rw [← hv]; exact hn.2.2.1⟩

/-- **C20_event, every schedule.**  Let connection `c` be subscribed before the updates begin and
    never unsubscribed by the loop program (other connections may come and go).  Then whenever the
    worker is between updates, the most recent item of `c`'s event pipeline (hand-off queue, else
    the pending coalesced entry, else the last event written, else what `c` knew at the start)
    carries the current value: every update that changed the value was handed to the loop after
    the assignment, and nothing on the loop side dropped or reordered it. -/
theorem C20_event (fix : Bool) (c : Conn) (base : Obj) (bits : List Bool) (s0 : Cfg)
    (hq : Quiet s0) (hk : s0.topicKey = true) (hc : c ∈ s0.subs)
    (hun : ∀ op ∈ s0.lops, op ≠ LoopOp.unsub c)
    (h0 : (latest c base s0).val = s0.value.val) :
    let s := run fix bits s0
    s.wpc = .idle → (latest c base s).val = s.value.val := by
  intro s hw
  have hinv : EvInv c base s0 := by
    refine ⟨hk, hc, hun, by simp [hq.1], by simp [hq.1], ?_⟩
    rw [hq.2]; exact h0
  have h := (evInv_run fix c base bits s0 hinv).2.2.2.2.2
  rw [show (run fix bits s0).wpc = .idle from hw] at h
  exact h

/-- At quiescence (worker done, hand-off queue drained, `c`'s pending entry flushed) the last
    event written to `c` carries the final value — or no event was ever needed because the value
    still equals what `c` knew at the start. -/
theorem C20_event_quiescent (fix : Bool) (c : Conn) (base : Obj) (bits : List Bool) (s0 : Cfg)
    (hq : Quiet s0) (hk : s0.topicKey = true) (hc : c ∈ s0.subs)
    (hun : ∀ op ∈ s0.lops, op ≠ LoopOp.unsub c)
    (h0 : (latest c base s0).val = s0.value.val) :
    let s := run fix bits s0
    s.wpc = .idle → s.queue = [] → s.pending c = none →
    (∃ d, (s.delivered c).getLast? = some d ∧ d.val = s.value.val) ∨
    (s.delivered c = [] ∧ base.val = s.value.val) := by
  intro s hw hqe hp
  have h := C20_event fix c base bits s0 hq hk hc hun h0 hw
  simp only [latest] at h
  rw [show (run fix bits s0).queue = [] from hqe, show (run fix bits s0).pending c = none from hp] at h
  cases hd : ((run fix bits s0).delivered c).getLast? with
  | none =>
    right
    rw [hd] at h
    exact ⟨List.getLast?_eq_none_iff.mp hd, h⟩
  | some d =>
    left
    rw [hd] at h
    exact ⟨d, rfl, h⟩

/-- **Exactly the changing updates reach the loop, in order, every schedule.**  Under the
    hypotheses of C20_event (some connection `c` is and stays subscribed, so the topic exists
    whenever `publish` tests it): once the worker has finished, the sequence of objects it handed
    to the loop with `call_soon_threadsafe` is precisely the sequence of accepted updates that
    changed the value — none lost, none duplicated, none reordered — each enqueued after its own
    assignment (the hand-off step follows the assignment step in the worker's program). -/
theorem C20_handoff_exact (fix : Bool) (c : Conn) (base : Obj) (bits : List Bool) (s0 : Cfg)
    (hq : Quiet s0) (hk : s0.topicKey = true) (hc : c ∈ s0.subs)
    (hun : ∀ op ∈ s0.lops, op ≠ LoopOp.unsub c)
    (h0 : (latest c base s0).val = s0.value.val)
    (hw : (run fix bits s0).wpc = .idle) (hu : (run fix bits s0).wups = []) :
    (run fix bits s0).enq = s0.enq ++ changes s0.value s0.wups := by
  have hinv : EvInv c base s0 := by
    refine ⟨hk, hc, hun, by simp [hq.1], by simp [hq.1], ?_⟩
    rw [hq.2]; exact h0
  have h := handoff_run fix c base bits s0 hinv
  have e1 : owed (run fix bits s0) = [] := by simp [owed, hw, hu, changes]
  have e2 : owed s0 = changes s0.value s0.wups := by simp [owed, hq.2]
  rw [e1, e2, List.append_nil] at h
  exact h

/-! ### The code as shipped (no re-check): the window is real -/

/-- `begin; check; read value; [worker: begin, assign, clear, clear, topic test]; store cache`. -/
def windowSchedule : List Bool := [true, true, true, false, false, false, false, false, true]

def windowStart (lops : List LoopOp) : Cfg := init ⟨0, 20⟩ lops [⟨⟨1, 21⟩, true⟩] []

/-- `read value; [worker: assign, clear, clear]; store cache` on the unrepaired step function:
    both threads are idle and finished, the cache renders object 0 (payload 20) while `_value` is
    object 1 (payload 21) — and it stays so until the next change.  The same schedule is replayed
    on the real code by the harness. -/
theorem C20_legacy_window_counterexample :
    Quiet (run false windowSchedule (windowStart [.toHAP])) ∧
    (run false windowSchedule (windowStart [.toHAP])).lops = [] ∧
    (run false windowSchedule (windowStart [.toHAP])).wups = [] ∧
    (run false windowSchedule (windowStart [.toHAP])).value = ⟨1, 21⟩ ∧
    (run false windowSchedule (windowStart [.toHAP])).cacheV = some ⟨0, 20⟩ ∧
    ¬ Fresh (run false windowSchedule (windowStart [.toHAP])) := by
  decide

/-- …and every later `to_HAP` keeps showing the old value (cache hit). -/
theorem C20_legacy_stale_read :
    Quiet (run false (windowSchedule ++ [true, true, true]) (windowStart [.toHAP, .toHAP])) ∧
    (run false (windowSchedule ++ [true, true, true]) (windowStart [.toHAP, .toHAP])).value = ⟨1, 21⟩ ∧
    (run false (windowSchedule ++ [true, true, true]) (windowStart [.toHAP, .toHAP])).results
      = [.rep ⟨0, 20⟩, .rep ⟨0, 20⟩] := by
  decide

/-! ### Non-vacuity and observations -/

/-- The same schedule on the repaired step function: the re-check drops the cache. -/
example :
    Quiet (run true (windowSchedule ++ [true, true]) (windowStart [.toHAP])) ∧
    (run true (windowSchedule ++ [true, true]) (windowStart [.toHAP])).value = ⟨1, 21⟩ ∧
    (run true (windowSchedule ++ [true, true]) (windowStart [.toHAP])).cacheV = none ∧
    (run true (windowSchedule ++ [true, true]) (windowStart [.toHAP])).results = [.rep ⟨0, 20⟩] := by
  decide

/-- Hypotheses of C20_no_stale / C20_event hold of a concrete start configuration, and a concrete
    interleaved run delivers the event: subscribed before, update during a `to_HAP`, drain, flush. -/
def evStart : Cfg := init ⟨0, 20⟩ [.toHAP, .drain, .flush 7] [⟨⟨1, 21⟩, true⟩] [7]
def evSchedule : List Bool :=
  [true, true, false, false, true, false, false, true, false, false, true, true, true, true, true, true]

example : Quiet evStart ∧ Fresh evStart ∧ evStart.topicKey = true ∧ 7 ∈ evStart.subs ∧
    (∀ op ∈ evStart.lops, op ≠ LoopOp.unsub 7) ∧ (latest 7 ⟨0, 20⟩ evStart).val = evStart.value.val := by
  decide

example :
    Quiet (run true evSchedule evStart) ∧ (run true evSchedule evStart).queue = [] ∧
    (run true evSchedule evStart).pending 7 = none ∧
    (run true evSchedule evStart).delivered 7 = [⟨1, 21⟩] ∧ Fresh (run true evSchedule evStart) ∧
    (run true evSchedule evStart).enq = [⟨1, 21⟩] ∧ changes evStart.value evStart.wups = [⟨1, 21⟩] := by
  decide

/-- "Equal but not identical": an update with the same payload in a different object makes the
    re-check drop the cache (harmless) and produces no event (`changed` is false). -/
def eqStart : Cfg := init ⟨0, 20⟩ [.toHAP] [⟨⟨1, 20⟩, true⟩] [7]
def eqSchedule : List Bool := [true, true, true, false, false, false, false, true, true, true]

example :
    Quiet (run true eqSchedule eqStart) ∧ (run true eqSchedule eqStart).value = ⟨1, 20⟩ ∧
    (run true eqSchedule eqStart).cacheV = none ∧ (run true eqSchedule eqStart).queue = [] := by
  decide

/-- Observation outside C20's demand (not judged by the oracle, reported in the evidence): a
    `to_HAP` that is preempted between `if cache is not None` (l.412) and `return cache` (l.413)
    returns `None` for that one in-flight response; the cache and later reads are unaffected. -/
def noneSchedule : List Bool :=
  [true, true, true, true, true, true, true, false, false, false, false, true]

example :
    (run true noneSchedule (windowStart [.toHAP, .toHAP])).results = [.rep ⟨0, 20⟩, .nothing] ∧
    Fresh (run true noneSchedule (windowStart [.toHAP, .toHAP])) := by
  decide

end Hap.Race
