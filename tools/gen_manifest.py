#!/usr/bin/env python3
"""Regenerates MANIFEST.json from the table below and validates it against the schema."""
import json
import sys
from pathlib import Path

V = Path(__file__).resolve().parent.parent
ALL = [f"C{i:02d}" for i in range(1, 21)]

BASE_NOTE = (
    "Lean 4.33 kernel with axioms propext/Classical.choice/Quot.sound only (audited every run by #print axioms, "
    "source grep for sorry/admit/axiom/native_decide/bv_decide); hand-written model tied to /repo by a differential "
    "correspondence run (model driver vs real pyhap in-process) and by regenerated tables; harness generators, "
    "reference implementations in harness/ref and canonicalisers are trusted. "
)

# property -> (technique, level text, level note, design ref)
CLAIMED = {
    "C07": (
        "Lean 4 proof (induction over items/fragments) of encode = spec encoder, decode∘encode = merge, well-formed "
        "decode; differential correspondence vs pyhap.tlv incl. call histories with refused calls (the codec must be a function of its arguments); reference-codec oracle",
        "Kernel-checked theorems for every item list / byte string about a model of tlv.encode/decode; the model is "
        "compared with the implementation on every length 0..1100 (2100 thorough), boundary multi-item lists and "
        "random decoder inputs each run.",
        BASE_NOTE + "No cryptographic or library assumption; tags are single bytes as at every call site.",
        "DESIGN.md §3 C07",
    ),
}

CLAIMED["C04"] = (
    "Lean 4 proof (functional induction on the decrypt loop: chunk independence, exactness, promptness, safety under an "
    "ideal AEAD, fail-closed; byte-level nonce packing: injective below 2^64, refuses beyond) + constants regenerated from hap_crypto.py; differential correspondence with a "
    "transparent mock AEAD on both sides; reference-codec oracle with real ChaCha20-Poly1305; protocol-level runs",
    "Kernel-checked theorems for every payload list, every chunking into reads and every adversarial byte stream about "
    "a model of HAPCrypto.decrypt / data_received; model compared with the implementation on boundary, exhaustive "
    "2-cut, byte-at-a-time and random tamper cases each run; AEAD unforgeability is an explicit hypothesis record.",
    BASE_NOTE + "AEAD correctness/unforgeability are hypotheses (`Correct`, `Ideal`) with proved instances; nonce and length "
    "packing are modelled at byte level (HapModel/Nonce.lean) and tied by the `pack` stream, HKDF labels by regenerated constants and "
    "the reference codec harness/ref/frames.py; asyncio delivers no data "
    "after close().",
    "DESIGN.md §3 C04",
)

CLAIMED["C05"] = (
    "Lean 4 proof (block shape of encrypt, consecutive counters, byte-level frame layout and nonce uniqueness, receiver round trip via the C04 theorems, "
    "last-plaintext and one-write-one-message over all write sequences); differential correspondence of the "
    "transport writes under a mock AEAD; independent reference controller (real ChaCha20-Poly1305) decrypting every "
    "byte after the upgrade on a virtual-clock rig",
    "Kernel-checked theorems for every message sequence and size about a model of HAPCrypto.encrypt and the "
    "write/install ordering of HAPServerProtocol; scripts of reads, writes, events, delayed responses and re-keying "
    "on the real protocol objects are decrypted by a reference controller each run, sizes steered to 1023..1026.",
    BASE_NOTE + "AEAD correctness is a hypothesis with a proved instance; that every response/event reaches "
    "`write` as one whole message is tied by correspondence (h11 and asyncio behaviour trusted).",
    "DESIGN.md §3 C05",
)

def _e(tech, text, note, ref):
    return (tech, text, BASE_NOTE + note, ref)


CLAIMED["C01"] = _e(
    "Lean 4 proof: SRP degenerate-A algebra (ZMod), gate invariant by induction over every request sequence, "
    "rejection of A = k*N, closed-form expected proof for the configured setup code, pairing origin (the recorded identity is the one sealed under the demonstrating session key), Dolev-Yao attacker against the executable model and with an honest controller in the middle; differential correspondence of op scripts on the "
    "real handler (real SRP/HKDF/ChaCha/Ed25519 recorded as tables) and a numeric hsrp.Server stream with Lean SHA-512",
    "Kernel-checked gate/algebra/rejection theorems for all histories and all A, M; scripts with degenerate A, replayed, "
    "reordered and forged steps run on the real handler each run; secrecy of the code rests on symbolic crypto.",
    "SRP-6a being a PAKE for A != 0 (mod N) is ONE explicit hypothesis (NoForge / NoForgeE, no instance: it is the "
    "computational assumption; proved necessary to restrict to A != 0); the Dolev-Yao attacker runs against the executable "
    "PairSetup.step itself (C01_symbolic_exec) and the symbolic proof/HAMK terms denote the model's bytes "
    "(C01_symbolic_format); the gate is stated in terms of the setup code (C01_gate_code) and the specification side "
    "(goodM3, ghost exchange) is compared with reference server formulas op by op; SHA-512/HKDF/AEAD/Ed25519 hardness "
    "enter as the shape of the symbolic algebra / the AeadAuth record; Lean SHA-512 is validated against hashlib, not proved.",
    "DESIGN.md §3 C01",
)
CLAIMED["C02"] = _e(
    "Lean 4 proof of the upgrade iff over every history of pair/unpair/verify steps on any number of connections, with "
    "IdealSig/IdealAEAD/IdealDH hypothesis records (proved satisfiable); differential correspondence and oracle on real "
    "HAPServerProtocol objects with an independent reference controller (real X25519/Ed25519/ChaCha20-Poly1305)",
    "Kernel-checked iff and its corollaries (unknown id, other key, other exchange, no first step, removed id, "
    "completeness) for all histories; 350+ scripts per quick run on the real protocol with forged/replayed/re-keyed M3.",
    "Unforgeability/secrecy are hypothesis records (IdealSig/IdealAEAD/IdealDH, StrongSig/StrongAEAD) with a proved "
    "symbolic instance; C02_session_origin is Dolev-Yao agreement over the executable model with the DY signature rule as a "
    "condition on runs (proved for terms, C02_dy_signature_rule; not tied to bytes by an encoding); the driver instantiates "
    "crypto from answer tables recorded on the real bytes.",
    "DESIGN.md §3 C02",
)
CLAIMED["C06"] = _e(
    "Lean 4 proof: guard, error-atomicity, alignment invariant, last-admin rule, exactness of the list answer (via the "
    "TLV theorems and an independent list decoder) over all op sequences, for every UUID parser; differential "
    "correspondence on the real handler incl. persisted file; observer-list oracle",
    "Kernel-checked theorems for every request history and every id/permission/malformed field; 1500+ histories per "
    "quick run on real HAPServerHandler objects (admin, non-admin, unverified).",
    "uuid.UUID parsing is a parameter (theorems hold for every parser); sessions are handler objects with the verified "
    "flags set directly (pair-verify itself is C02).",
    "DESIGN.md §3 C06",
)
CLAIMED["C08"] = _e(
    "Lean 4 proof: SRP agreement over ZMod N (any N>0), long_to_bytes/bytes_to_long round trips, byte-level M/HAMK/K "
    "agreement for any hash, C08_complete over a model of handle_pairing under functional crypto assumptions; numeric "
    "hsrp.Server stream vs Lean (own SHA-512) and full M1..M6 exchanges of an independent RFC 5054/HAP controller with "
    "forced leading-zero A, B, S, K",
    "Kernel-checked agreement/completeness theorems for every code, salt, a, b; forced leading-zero vectors every run.",
    "AEAD dec(enc p)=p and signature verify(sign m) are functional assumptions (CryptoOK); Lean SHA-512 validated "
    "against hashlib, not proved; B = 0 (mod N) abort of the client (probability 2^-3072) not modelled.",
    "DESIGN.md §3 C08",
)
CLAIMED["C09"] = _e(
    "Lean 4 proof: conformance invariant over every op sequence, every value, every consistent property set and every "
    "step-rounding function; rejection atomicity; shipped table (149 definitions regenerated from characteristics.json) "
    "consistent by decide +kernel; differential correspondence with exact rationals; oracle written from the property",
    "Kernel-checked invariant/reject theorems lifted to every shipped definition; ~4000 scripts per quick run over all "
    "shipped definitions with boundary, huge, NaN/inf, wrong-type values and random consistent overrides.",
    "The floating step-rounding expression and str(float) are parameters evaluated by real Python; getter callbacks, "
    "raising/re-entrant setter callbacks are outside C09's model.",
    "DESIGN.md §3 C09",
)
CLAIMED["C10"] = _e(
    "Lean 4 proof: per-entry closed form of set_characteristics (status, independence, 204/207), timed-write rule by "
    "induction over every history of prepare/advance/write/lose across connections and pids; differential "
    "correspondence on a real bridge (virtual clock) incl. the HTTP layer; callback-log oracle",
    "Kernel-checked theorems for every batch and every prepare history; 4000+ histories per quick run on the real driver "
    "with raising/write-response setters, service and accessory callbacks, exact-boundary times.",
    "Characteristic normalisation and callback outcomes are per-op parameters (C09's subject); batches address existing "
    "characteristics with distinct ids; 'ev' flags are C12's.",
    "DESIGN.md §3 C10",
)
CLAIMED["C14"] = _e(
    "Lean 4 proof: hex and UUID-text round trips, load(persist s) = s for every state, legacy documents load as admin, "
    "behaviour (list/admin/key lookup) preserved; differential correspondence through the real persist/load_into on "
    "temp files incl. real pair-verify before/after the restart",
    "Kernel-checked round-trip theorems for all states; ~1000 states per quick run reached through pairing histories.",
    "JSON text serialisation and the Ed25519 raw-bytes round trip are trusted library behaviour.",
    "DESIGN.md §3 C14",
)
CLAIMED["C15"] = _e(
    "Lean 4 proof over an interleaving step relation (all schedules of per-attribute stores of a pairing change, "
    "per-attribute reads of a save, I/O steps, faults, a kill): atomicity (the file is the initial one or a state that "
    "existed at a change boundary), snapshot-is-a-state, crash recovery through any loader inverting the encoder, mutual "
    "exclusion, convergence, two-lock progress; fault injection at every I/O call and every attribute read, child-process "
    "kill at every source line with a real restart afterwards, forced multi-thread schedules on the real driver.persist "
    "with an observed State (saves parked inside changes and changes inside saves), two drivers in one directory; "
    "independent state-file reader as oracle",
    "Kernel-checked atomicity/convergence for all interleavings of any number of jobs and changes at attribute "
    "granularity; the runtime part (fsync/power loss, non-POSIX rename) is outside the model: partial for the runtime, as DESIGN says.",
    "POSIX os.replace atomicity, page cache surviving process death, tempfile freshness are assumptions; a thread switch "
    "inside one dict iteration is not a step of the model (with State.lock it cannot happen); a stable instant of a forced "
    "schedule stands in for a kill at that instant.",
    "DESIGN.md §3 C15",
)
CLAIMED["C16"] = _e(
    "Lean 4 proof: new sessions refused (from the C02 iff), open sessions cut after the acknowledgement for every "
    "history incl. self-removal and the last-admin rule, served-only-paired invariant; differential correspondence and "
    "oracle on real HAPServerProtocol sessions (real pair-verify and fast path)",
    "Kernel-checked theorems for all histories; 260 histories per quick run with 2-4 controllers and 0-2 sessions each.",
    "asyncio contract (no data_received after close); guarded requests are abstracted to served-iff-verified; removal "
    "through the application API (driver.unpair) has no acknowledgement and is out of scope.",
    "DESIGN.md §3 C16",
)
CLAIMED["C20"] = _e(
    "Lean 4 proof over a two-thread small-step model (every merge of the step lists as a scheduler bit list): no stale "
    "cache at quiescence, update not lost, subscribed connections end with the final value; deterministic preemption of "
    "the real code under sys.settrace at every line (and opcode) boundary with the access log fed to the model",
    "Kernel-checked for all schedules of the step model; exhaustive single preemption (double in thorough) on the real "
    "code each run. Partial for the runtime: bytecode-internal switches and free-threaded builds are outside the model.",
    "CPython GIL gives sequential consistency at bytecode boundaries; asyncio modelled as a FIFO popped by the loop thread.",
    "DESIGN.md §3 C20",
)
CLAIMED["C11"] = _e(
    "Lean 4 proof: cache invariant (each cache field is empty or equals the from-scratch rendering) over every history "
    "of mutators, getter installs and reads; read shape and 200/207 selection; differential correspondence and an "
    "uncached reference renderer (never calls to_HAP) on standalone and bridged real accessories",
    "Kernel-checked cache-freshness and read-shape theorems for all histories; 400+ histories per quick run.",
    "Validation outcomes and getter callbacks are parameters; single-threaded (the threaded window is C20); linked "
    "services and re-entrant callbacks not modelled.",
    "DESIGN.md §3 C11",
)
CLAIMED["C17"] = _e(
    "Lean 4 proof: IID manager invariants (mutually inverse maps, monotone counter, no reissue), automatic aid search "
    "terminates and avoids 1/7/duplicates, explicit duplicates rejected atomically, every listed (aid,iid) occurs once and "
    "resolves identically for reads, writes and events, over every construction history; shipped service table "
    "(regenerated) has distinct characteristic types by decide +kernel; differential correspondence on real accessories",
    "Kernel-checked for every op sequence; ~580 construction histories per quick run incl. bridges crossing aid 7.",
    "Objects are opaque fresh identities; sharing objects between services, adding characteristics after add_service and "
    "custom IID managers are documented misuse, out of scope.",
    "DESIGN.md §3 C17",
)
CLAIMED["C18"] = _e(
    "Lean 4 proof: config number range and change-iff over every op history, value-free rendering invariant under value "
    "operations, sf exactness, advertisement-after-response over all traces of a response-processing event model (incl. "
    "session teardown), xhm payload round trip, validity of both mDNS labels for every display name; differential "
    "correspondence (names, TXT record, config number, setup payload, event scripts on real protocol objects) with "
    "independent label validator and payload decoder",
    "Kernel-checked for every history, configuration number, display name, category and setup code; ~6700 cases per "
    "quick run incl. every short name over a 5-symbol alphabet, restart pairs and pairing scripts with a recording advertiser.",
    "Python re.sub/strip on the three fixed patterns are hand-modelled (pattern strings compared with the source by "
    "AST); SHA-512 is an arbitrary/injective function in the theorems; pair-setup M5 in ordering scripts uses crafted "
    "responses through the real _process_response.",
    "DESIGN.md §3 C18",
)
CLAIMED["C03"] = _e(
    "Lean 4 proof: route table regenerated from hap_handler.py by AST (every non-exempt route has a recognised privilege "
    "guard, decide), noninterference for every unverified world, every handler body and every request (refusal, state "
    "unchanged, response independent of the world), is_encrypted only set by the pair-verify success branch (extracted); "
    "exhaustive route x connection-state x body sweep on the real protocol with canaries and state digests",
    "Kernel-checked noninterference for arbitrary handler bodies over the regenerated table; all routes x 5 "
    "pre-verification states x bodies swept each run (all methods x paths in thorough).",
    "Guard-shape classification by the extractor is tied dynamically by the sweep; handler bodies are parameters.",
    "DESIGN.md §3 C03",
)
CLAIMED["C19"] = _e(
    "Lean 4 proof over a model of the h11 pump (all of _process_response incl. the upgrade step) and dispatch with urlparse "
    "and handlers as arbitrary parameters and h11 as any implementation of its documented connection state machine "
    "(H11Contract + NoFramingRefusal, satisfiable: miniH11; evaluated on every recorded h11 call of every run): no exception "
    "escapes any callback, one response per EndOfMessage in order unless closing, progress, isolation of a failing request; "
    "one interleaved interaction transcript of the real HAPServerProtocol on structured hostile HTTP streams incl. completed "
    "pair-verify sessions; every callback under a time limit; h11-client re-parse oracle",
    "Kernel-checked for every h11 event sequence and every parameter outcome; ~2000 byte streams per quick run "
    "(valid/pipelined/chunked/truncated/garbage, header bytes >= 0x80, bracket targets). Partial: h11's byte-level "
    "parsing is trusted library code and 'refuses a permitted send only for framing reasons' is an assumption about h11 "
    "(C19_ready_needs_contract shows some hypothesis is necessary).",
    "h11 raises nothing but ProtocolError; asyncio never calls data_received after close; BaseException out of scope.",
    "DESIGN.md §3 C19",
)
CLAIMED["C12"] = _e(
    "Lean 4 proof over an event-driven system model (connections, registry, topics, per-connection coalescing queues, "
    "timers, soon-callbacks): recipients safety for every history and next step, immediate types never wait for the "
    "timer, quiescent-learned-equals-value invariant for all traces, drain; differential correspondence on real "
    "HAPServer/HAPServerProtocol/AccessoryDriver objects on a virtual clock; transport-log oracle",
    "Kernel-checked for every interleaving of app changes, controller writes, (un)subscribes, timer fires, connects and "
    "losses under the stated address-reuse hypothesis; ~1000 scripts per quick run (exhaustive short scripts in thorough).",
    "asyncio contract (atomic callbacks, FIFO call_soon, timers in deadline order); address reuse only after the previous "
    "loss was processed; no setter/getter callbacks in the event model; one query per PUT.",
    "DESIGN.md §3 C12",
)
CLAIMED["C13"] = _e(
    "Lean 4 proof over the same event-driven system model with protocol objects distinct from registry entries: nothing "
    "held for a lost connection, no write after close/loss, fresh reconnect, idle sweep only after 90 h of inactivity "
    "(every request refreshes activity), for every trace; differential correspondence and transport/driver-map oracle on "
    "real protocol objects for every termination cause (peer close, h11 error, bad frame, idle sweep, server stop)",
    "Kernel-checked for every history (clean/silent need no reuse hypothesis); ~970 scripts per quick run combining "
    "termination causes with pending events, delayed responses, prepared writes and address reuse.",
    "asyncio contract (single connection_lost, no data after close); address reuse only after the previous loss was "
    "processed (the RST-then-reconnect race is recorded as an observation outside C13).",
    "DESIGN.md §3 C13",
)

NOT_YET = "not yet built in this round (model + theorems + correspondence pending; see DESIGN.md §7 build order)"
NA = {}


def main():
    checks = []
    for pid in ALL:
        if pid not in CLAIMED:
            continue
        tech, text, note, ref = CLAIMED[pid]
        checks.append(
            {
                "property_id": pid,
                "quick_cmd": f"./check {pid} --tier quick",
                "thorough_cmd": f"./check {pid} --tier thorough",
                "evidence_file": f"evidence/{pid}.json",
                "replay_cmd_template": f"./check {pid} --replay {{path}}",
                "engine": "lean-model+harness",
                "level_claimed": {"category": "proof", "text": text, "design_ref": ref},
                "level_note": note,
                "technique": tech,
            }
        )
    man = {
        "version": 1,
        "setup_cmd": "cd lean && lake build",
        "hooks": {
            "guard": "HAP_PYTHON_VERIF",
            "enable": "no source hooks: the harness drives real pyhap objects in-process (fake transports, virtual clock, mock.patch); checks export HAP_PYTHON_VERIF=1 for uniformity",
            "baseline_off_cmd": "cd /repo && /venv/bin/python -m pytest -ra -q -p no:cacheprovider --timeout=900 --continue-on-collection-errors",
            "source_commits": [],
            "add_only": True,
        },
        "engines": [
            {"name": "lean-model", "path": "lean/", "serves_properties": sorted(CLAIMED), "kind_free_text": "Lean 4 lake project: executable models (HapModel), lemmas (Proofs), property theorems (Props), line-protocol driver (Main.lean)"},
            {"name": "harness", "path": "harness/", "serves_properties": sorted(CLAIMED), "kind_free_text": "Python correspondence drivers, generators, independent reference implementations and property oracles; ./check entry point"},
            {"name": "extractors", "path": "extract/", "serves_properties": ["C01", "C02", "C03", "C04", "C05", "C06", "C08", "C09", "C10", "C17", "C18"], "kind_free_text": "regenerate Lean tables/constants from /repo sources on every run (routes + guard shapes, crypto constants, protocol labels/tags/status codes, SRP group, shipped characteristic and service definitions); theorems over them by decide / decide +kernel"},
        ],
        "checks": checks,
        "notes": "See DESIGN.md. known_findings.txt lists fixed defects (fix: commits in /repo) and recorded findings.",
        "not_applicable": [
            {"property_id": p, "reason": NA.get(p, NOT_YET)} for p in ALL if p not in CLAIMED
        ],
    }
    (V / "MANIFEST.json").write_text(json.dumps(man, indent=1) + "\n")
    try:
        import jsonschema

        jsonschema.validate(man, json.loads(Path("/root/.vp/MANIFEST.schema.json").read_text()))
        print("MANIFEST.json valid;", len(checks), "checks")
    except ImportError:
        print("MANIFEST.json written (jsonschema not available for validation)")


if __name__ == "__main__":
    main()
