#!/usr/bin/env python3
"""Regenerates MANIFEST.json from the table below and validates it against the schema."""
import json
import sys
from pathlib import Path

V = Path(__file__).resolve().parent.parent
ALL = [f"C{i:02d}" for i in range(1, 21)]

BASE_NOTE = (
    "Lean 4.33 kernel with axioms propext/Classical.choice/Quot.sound only (audited every run by #print axioms, "
    "source grep for sorry/admit/axiom/native_decide/bv_decide); hand-written model tied to /repo by a differential "
    "correspondence run (model driver vs real pyhap in-process) and by regenerated tables; harness generators, "
    "reference implementations in harness/ref and canonicalisers are trusted. "
)

# property -> (technique, level text, level note, design ref)
CLAIMED = {
    "C07": (
        "Lean 4 proof (induction over items/fragments) of encode = spec encoder, decode∘encode = merge, well-formed "
        "decode; differential correspondence vs pyhap.tlv; reference-codec oracle",
        "Kernel-checked theorems for every item list / byte string about a model of tlv.encode/decode; the model is "
        "compared with the implementation on every length 0..1100 (2100 thorough), boundary multi-item lists and "
        "random decoder inputs each run.",
        BASE_NOTE + "No cryptographic or library assumption; tags are single bytes as at every call site.",
        "DESIGN.md §3 C07",
    ),
}

CLAIMED["C04"] = (
    "Lean 4 proof (functional induction on the decrypt loop: chunk independence, exactness, promptness, safety under an "
    "ideal AEAD, fail-closed) + constants regenerated from hap_crypto.py; differential correspondence with a "
    "transparent mock AEAD on both sides; reference-codec oracle with real ChaCha20-Poly1305; protocol-level runs",
    "Kernel-checked theorems for every payload list, every chunking into reads and every adversarial byte stream about "
    "a model of HAPCrypto.decrypt / data_received; model compared with the implementation on boundary, exhaustive "
    "2-cut, byte-at-a-time and random tamper cases each run; AEAD unforgeability is an explicit hypothesis record.",
    BASE_NOTE + "AEAD correctness/unforgeability are hypotheses (`Correct`, `Ideal`) with proved instances; nonce "
    "packing, AAD and HKDF labels are validated by testing against harness/ref/frames.py; asyncio delivers no data "
    "after close().",
    "DESIGN.md §3 C04",
)

CLAIMED["C05"] = (
    "Lean 4 proof (block shape of encrypt, consecutive counters, receiver round trip via the C04 theorems, "
    "last-plaintext and one-write-one-message over all write sequences); differential correspondence of the "
    "transport writes under a mock AEAD; independent reference controller (real ChaCha20-Poly1305) decrypting every "
    "byte after the upgrade on a virtual-clock rig",
    "Kernel-checked theorems for every message sequence and size about a model of HAPCrypto.encrypt and the "
    "write/install ordering of HAPServerProtocol; scripts of reads, writes, events, delayed responses and re-keying "
    "on the real protocol objects are decrypted by a reference controller each run, sizes steered to 1023..1026.",
    BASE_NOTE + "AEAD correctness is a hypothesis with a proved instance; that every response/event reaches "
    "`write` as one whole message is tied by correspondence (h11 and asyncio behaviour trusted).",
    "DESIGN.md §3 C05",
)

NOT_YET = "not yet built in this round (model + theorems + correspondence pending; see DESIGN.md §7 build order)"
NA = {}


def main():
    checks = []
    for pid in ALL:
        if pid not in CLAIMED:
            continue
        tech, text, note, ref = CLAIMED[pid]
        checks.append(
            {
                "property_id": pid,
                "quick_cmd": f"./check {pid} --tier quick",
                "thorough_cmd": f"./check {pid} --tier thorough",
                "evidence_file": f"evidence/{pid}.json",
                "replay_cmd_template": f"./check {pid} --replay {{path}}",
                "engine": "lean-model+harness",
                "level_claimed": {"category": "proof", "text": text, "design_ref": ref},
                "level_note": note,
                "technique": tech,
            }
        )
    man = {
        "version": 1,
        "setup_cmd": "cd lean && lake build",
        "hooks": {
            "guard": "HAP_PYTHON_VERIF",
            "enable": "no source hooks: the harness drives real pyhap objects in-process (fake transports, virtual clock, mock.patch); checks export HAP_PYTHON_VERIF=1 for uniformity",
            "baseline_off_cmd": "cd /repo && /venv/bin/python -m pytest -ra -q -p no:cacheprovider --timeout=900 --continue-on-collection-errors",
            "source_commits": [],
            "add_only": True,
        },
        "engines": [
            {"name": "lean-model", "path": "lean/", "serves_properties": sorted(CLAIMED), "kind_free_text": "Lean 4 lake project: executable models (HapModel), lemmas (Proofs), property theorems (Props), line-protocol driver (Main.lean)"},
            {"name": "harness", "path": "harness/", "serves_properties": sorted(CLAIMED), "kind_free_text": "Python correspondence drivers, generators, independent reference implementations and property oracles; ./check entry point"},
            {"name": "extractors", "path": "extract/", "serves_properties": [], "kind_free_text": "regenerate Lean tables/constants from /repo sources on every run"},
        ],
        "checks": checks,
        "notes": "See DESIGN.md. known_findings.txt lists fixed defects (fix: commits in /repo) and recorded findings.",
        "not_applicable": [
            {"property_id": p, "reason": NA.get(p, NOT_YET)} for p in ALL if p not in CLAIMED
        ],
    }
    (V / "MANIFEST.json").write_text(json.dumps(man, indent=1) + "\n")
    try:
        import jsonschema

        jsonschema.validate(man, json.loads(Path("/root/.vp/MANIFEST.schema.json").read_text()))
        print("MANIFEST.json valid;", len(checks), "checks")
    except ImportError:
        print("MANIFEST.json written (jsonschema not available for validation)")


if __name__ == "__main__":
    main()
