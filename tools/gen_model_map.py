#!/usr/bin/env python3
"""tools/gen_model_map.py : record AST fingerprints of /repo's pyhap sources (HEAD working tree).

Writes /verif/model_map.json: for every pyhap/*.py a hash of its normalised AST (docstrings and
comments do not count, formatting does not count), plus per property the list of anchored files
(from properties.jsonl).  harness/check.py recomputes the fingerprints on every run: a file whose
AST differs from the recorded one is "source drift".  Drift is never a violation by itself; it
means the hand-written model of that file was validated against different code, so the run
multiplies the correspondence / oracle budget of every property anchored in the file (DESIGN §2.3).
Re-run this tool (and commit the result) after every `fix:` commit to /repo.
"""
import json
import subprocess
import sys
from pathlib import Path

V = Path(__file__).resolve().parent.parent
sys.path.insert(0, str(V / "harness"))
from drift import fingerprint_tree  # noqa: E402


def main():
    if sys.executable != "/venv/bin/python":  # ast.dump differs between Python versions: use the checks' interpreter
        import os
        os.execv("/venv/bin/python", ["/venv/bin/python", __file__])
    repo = Path("/repo")
    head = subprocess.run("git -C /repo rev-parse HEAD", shell=True, capture_output=True, text=True).stdout.strip()
    anchors = {}
    for line in (V / "properties.jsonl").read_text().splitlines():
        p = json.loads(line)
        anchors[p["id"]] = sorted(f for f in p["anchors"]["files"] if f.startswith("pyhap/"))
    out = {"repo_head": head, "files": fingerprint_tree(repo), "anchors": anchors}
    (V / "model_map.json").write_text(json.dumps(out, indent=1, sort_keys=True) + "\n")
    print(f"model_map.json: {len(out['files'])} files at {head[:8]}")


if __name__ == "__main__":
    main()
