#!/usr/bin/env python3
"""tools/refcheck.py <rewrite-dir> [--keep <id>] [--props C01,C02,...]

False-alarm measurement: applies a BEHAVIOUR-PRESERVING rewrite (patch.diff + meta.json produced by
an independent agent) to a scratch copy of /repo, runs the unedited test suite, then runs every
claimed check (quick tier) against the copy (HAP_REPO) and lists the checks that raise an alarm.
An alarm here is either a false alarm of an oracle (must be fixed), a broken tie
(`no-failing-input-found`: allowed by the brief but worth reducing), or evidence that the rewrite
is not behaviour-preserving after all (then it becomes a seeded regression).
"""
import argparse
import json
import os
import shutil
import subprocess
import sys
import tempfile
from concurrent.futures import ThreadPoolExecutor
from pathlib import Path

V = Path(__file__).resolve().parent.parent
PY = "/venv/bin/python"


def sh(cmd, cwd=None, env=None, timeout=3600):
    p = subprocess.run(cmd, shell=True, cwd=cwd, env=env, capture_output=True, text=True, timeout=timeout)
    out = "\n".join(l for l in (p.stdout + p.stderr).splitlines() if "auto_activate" not in l)
    return p.returncode, out


def main():
    ap = argparse.ArgumentParser()
    ap.add_argument("dir")
    ap.add_argument("--keep")
    ap.add_argument("--props")
    ap.add_argument("--jobs", type=int, default=4)
    a = ap.parse_args()
    d = Path(a.dir)
    meta = json.loads((d / "meta.json").read_text())
    props = a.props.split(",") if a.props else [c["property_id"] for c in json.loads((V / "MANIFEST.json").read_text())["checks"]]
    wt = tempfile.mkdtemp(prefix="refchk-")
    os.rmdir(wt)
    sh(f"git -C /repo worktree add -q {wt} HEAD")
    res = {"area": meta.get("area"), "title": meta.get("title")}
    try:
        rc, out = sh(f"git apply {d / 'patch.diff'}", cwd=wt)
        res["patch_applies"] = rc == 0
        if rc != 0:
            print(json.dumps(res, indent=1))
            return 1
        rc, out = sh(f"{PY} -m pytest -q -p no:cacheprovider --timeout=900 -x", cwd=wt, env=dict(os.environ, PYTHONPATH=wt))
        res["suite_with_change"] = "passes" if rc == 0 else "FAILS: " + out[-300:]

        def one(p):
            rc, out = sh(f"./check {p} --tier quick", cwd=V, env=dict(os.environ, HAP_REPO=wt, VERIF_SEED="0"))
            lines = [l for l in out.splitlines() if l.startswith(("VIOLATION", "  C", "  disagreement", "  proof"))]
            return p, rc, lines[:6]

        with ThreadPoolExecutor(a.jobs) as ex:
            results = list(ex.map(one, props))
        res["alarms"] = [{"property": p, "exit": rc, "lines": [l[:300] for l in lines]} for p, rc, lines in results if rc != 0]
        res["quiet"] = [p for p, rc, _ in results if rc == 0]
        print(json.dumps(res, indent=1))
        if a.keep:
            dst = V / "rewrites" / a.keep
            dst.mkdir(parents=True, exist_ok=True)
            if dst.resolve() != d.resolve():
                shutil.copy(d / "patch.diff", dst / "patch.diff")
            meta["result"] = res
            (dst / "meta.json").write_text(json.dumps(meta, indent=1) + "\n")
        return 0
    finally:
        sh(f"git -C /repo worktree remove --force {wt}")
        sh("git -C /repo worktree prune")


if __name__ == "__main__":
    sys.exit(main())
