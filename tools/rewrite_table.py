#!/usr/bin/env python3
"""Rewrites the table of behaviour-preserving rewrites in DESIGN.md (between the REWRITES markers)
from /verif/rewrites/*/meta.json."""
import json
from pathlib import Path

V = Path(__file__).resolve().parent.parent
rows = ["| rewrite | what it does | checks that alarmed (first run) | note |", "|---|---|---|---|"]
n = quiet = 0
for d in sorted((V / "rewrites").iterdir()):
    m = d / "meta.json"
    if not m.exists():
        continue
    j = json.loads(m.read_text())
    n += 1
    r = j.get("result", {})
    first = j.get("first_result", r)
    al = first.get("alarms", [])
    if not al:
        quiet += 1
    desc = []
    for a in al:
        kind = "exit 2 (harness could not establish its tie)" if a["exit"] == 2 else (
            "broken tie, no-failing-input-found" if any("no-failing-input-found" in l for l in a["lines"]) else "VIOLATION")
        desc.append(f"{a['property']}: {kind}")
    title = j.get("title", "").replace("|", "/").replace("\n", " ")
    title = title if len(title) < 200 else title[:197] + "..."
    rows.append(f"| {d.name} | {title} | {'; '.join(desc) or 'none'} | {j.get('lead_note', '')} |")
table = "\n".join(rows) + f"\n\n{n} rewrites, {quiet} left all 20 checks quiet on the first run.\n"
reg = V / "rewrites" / "REGRESSION.json"
if reg.exists():
    rj = json.loads(reg.read_text())
    noisy = sorted(k for k, v in rj.items() if v.get("alarms"))
    gone = sorted(k for k, v in rj.items() if v.get("patch") == "DOES NOT APPLY")
    table += (f"Latest regression run over all rewrites (tools/rewriteregress.py, current checks, current HEAD): "
              f"{len(rj) - len(noisy) - len(gone)} of {len(rj)} quiet on all 20 checks"
              + (f"; alarms on {noisy}" if noisy else "") + (f"; no longer applicable: {gone}" if gone else "") + ".\n")
p = V / "DESIGN.md"
s = p.read_text()
a, b = "<!-- REWRITES:BEGIN -->", "<!-- REWRITES:END -->"
s = s[: s.index(a) + len(a)] + "\n" + table + s[s.index(b) :]
p.write_text(s)
print(f"{n} rewrites, {quiet} quiet")
