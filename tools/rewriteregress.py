#!/usr/bin/env python3
"""tools/rewriteregress.py [--jobs N] [--only R1-1,...]

Regression over ALL kept behaviour-preserving rewrites (rewrites/<id>/patch.diff): every claimed check
(quick tier, VERIF_SEED=0) against a scratch copy of /repo HEAD + the rewrite, in N parallel scratch
worktrees of /verif's committed HEAD. Any exit != 0 is listed: exit 1 with a replay = FALSE ALARM of
an oracle/harness (must be corrected), exit 1 no-failing-input-found = broken tie (allowed; examined),
exit 2 = harness failure. Result: rewrites/REGRESSION.json. Patches that no longer apply because a
`fix:` commit touched the same lines are re-based (3-way / fuzz) in the scratch copy only; if that is
impossible the rewrite is reported as 'DOES NOT APPLY' and skipped."""
import argparse
import json
import os
import shutil
import sys
import tempfile
from concurrent.futures import ThreadPoolExecutor
from pathlib import Path

sys.path.insert(0, str(Path(__file__).resolve().parent))
from seedregress import V, sh  # noqa: E402


def apply_patch(wt, patch):
    rc, _ = sh(f"git apply {patch}", cwd=wt)
    if rc == 0:
        return "applies"
    sh("git checkout -q -- . && git clean -fdq", cwd=wt)
    rc, _ = sh(f"git apply --3way {patch}", cwd=wt)
    if rc != 0:
        sh("git checkout -q -- . && git clean -fdq && git reset -q", cwd=wt)
        rc, _ = sh(f"patch -p1 --fuzz=3 --no-backup-if-mismatch -i {patch}", cwd=wt)
        if rc != 0:
            return "DOES NOT APPLY"
    sh("git reset -q", cwd=wt)
    sh("find . -name '*.orig' -o -name '*.rej' | xargs -r rm -f", cwd=wt)
    rc, diff = sh("git diff", cwd=wt)
    if "\n+<<<<<<<" in diff or "\n+>>>>>>>" in diff:
        sh("git checkout -q -- . && git clean -fdq", cwd=wt)
        return "DOES NOT APPLY"
    return "re-based"


ANCHORS = None


def props_for(rid, props):
    if ANCHORS is None:
        return props
    touched = {l[6:].strip() for l in (V / "rewrites" / rid / "patch.diff").read_text().splitlines() if l.startswith("+++ b/")}
    return [p for p in props if touched & set(ANCHORS.get(p, []))]


def worker(idx, ids, props, results):
    vdir = Path(f"/work/rr-{os.getpid()}-{idx}")
    sh(f"git -C {V} worktree remove --force {vdir}")
    rc, out = sh(f"git -C {V} worktree add -q --detach {vdir} HEAD")
    if rc != 0:
        print(out)
        return
    shutil.copytree(V / "lean" / ".lake", vdir / "lean" / ".lake", symlinks=True)
    try:
        for rid in ids:
            wt = tempfile.mkdtemp(prefix=f"rr{idx}-")
            os.rmdir(wt)
            sh(f"git -C /repo worktree add -q {wt} HEAD")
            try:
                st = apply_patch(wt, V / "rewrites" / rid / "patch.diff")
                res = {"patch": st, "alarms": []}
                if st != "DOES NOT APPLY":
                    if st == "re-based":
                        rc, out = sh("/venv/bin/python -m pytest -q -p no:cacheprovider --timeout=900 -x", cwd=wt, env=dict(os.environ, PYTHONPATH=wt))
                        res["suite"] = "passes" if rc == 0 else "FAILS"
                    res["checks"] = props_for(rid, props)
                    for p in res["checks"]:
                        rc, out = sh(f"./check {p} --tier quick", cwd=vdir, env=dict(os.environ, HAP_REPO=wt, VERIF_SEED="0"))
                        if rc != 0:
                            lines = [l[:260] for l in out.splitlines() if l.startswith(("VIOLATION", "  C", "  disagreement", "  proof"))][:5]
                            kind = "exit2" if rc == 2 else ("broken-tie" if any("no-failing-input-found" in l for l in lines) else "FALSE-ALARM")
                            res["alarms"].append({"property": p, "exit": rc, "kind": kind, "lines": lines})
                results[rid] = res
                print(rid, st, [(a["property"], a["kind"]) for a in res["alarms"]], flush=True)
            finally:
                sh(f"git -C /repo worktree remove --force {wt}")
    finally:
        sh(f"git -C {V} worktree remove --force {vdir}")
        sh("git -C /repo worktree prune")


def main():
    ap = argparse.ArgumentParser()
    ap.add_argument("--jobs", type=int, default=6)
    ap.add_argument("--only")
    ap.add_argument("--props", help="comma-separated property ids (default: every claimed check)")
    ap.add_argument("--anchored", action="store_true",
                    help="per rewrite, run only the checks of properties anchored in a file the rewrite touches (model_map.json)")
    ap.add_argument("--out", default=str(V / "rewrites" / "REGRESSION.json"))
    a = ap.parse_args()
    props = [c["property_id"] for c in json.loads((V / "MANIFEST.json").read_text())["checks"]]
    if a.props:
        props = [p for p in props if p in a.props.split(",")]
    global ANCHORS
    ANCHORS = json.loads((V / "model_map.json").read_text())["anchors"] if a.anchored else None
    ids = sorted(d.name for d in (V / "rewrites").iterdir() if (d / "patch.diff").exists())
    if a.only:
        ids = [i for i in ids if i in a.only.split(",")]
    parts = [ids[i :: a.jobs] for i in range(a.jobs)]
    results = {}
    with ThreadPoolExecutor(a.jobs) as ex:
        list(ex.map(lambda t: worker(t[0], t[1], props, results), enumerate(parts)))
    out = Path(a.out)
    old = json.loads(out.read_text()) if out.exists() and a.only else {}
    old.update(results)
    out.write_text(json.dumps(dict(sorted(old.items())), indent=1) + "\n")
    noisy = {k: [(x["property"], x["kind"]) for x in v["alarms"]] for k, v in sorted(old.items()) if v["alarms"]}
    gone = [k for k, v in sorted(old.items()) if v["patch"] == "DOES NOT APPLY"]
    print(f"{len(old)} rewrites: {len(old) - len(noisy) - len(gone)} quiet on all {len(props)} checks; alarms: {noisy}; no longer applicable: {gone}")
    return 0


if __name__ == "__main__":
    sys.exit(main())
