#!/bin/bash
# tools/runall.sh [tier] [seeds...] : run every claimed check on /repo, several seeds, print one line each
cd "$(dirname "$0")/.."
tier=${1:-quick}; shift
seeds=${*:-0}
props=$(python3 -c "import json;print(' '.join(c['property_id'] for c in json.load(open('MANIFEST.json'))['checks']))")
for s in $seeds; do
  for p in $props; do
    start=$(date +%s)
    out=$(VERIF_SEED=$s ./check $p --tier $tier 2>&1); rc=$?
    end=$(date +%s)
    echo "$p seed=$s tier=$tier exit=$rc $((end-start))s $(echo "$out" | grep -E '^VIOLATION|^KNOWN-FINDING' | head -3 | tr '\n' ';')"
  done
done
