#!/usr/bin/env python3
"""tools/seed_sync.py: copies the latest regression verdicts (seeded/REGRESSION.json, written by
tools/seedregress.py) into seeded/<id>/meta.json: `check_result`/`confirmed.caught` = current verdict,
the verdict of the very first run is kept as `first_check_result`. Then run tools/seed_table.py."""
import json
from pathlib import Path

V = Path(__file__).resolve().parent.parent
reg = json.loads((V / "seeded" / "REGRESSION.json").read_text())
notes_file = V / "seeded" / "LEAD_NOTES.json"
notes = json.loads(notes_file.read_text()) if notes_file.exists() else {}
for sid, r in reg.items():
    p = V / "seeded" / sid / "meta.json"
    m = json.loads(p.read_text())
    if "exit" in r:
        cur = [{"seed": 0, "exit": r["exit"], "lines": r.get("lines", [])}]
        if "first_check_result" not in m and m.get("check_result") and m["check_result"] != cur:
            m["first_check_result"] = m["check_result"]
        m["check_result"] = cur
        m.setdefault("confirmed", {})["caught"] = bool(r.get("caught"))
        m["confirmed"]["with_replay"] = bool(r.get("with_replay"))
        m["confirmed"]["patch"] = r.get("patch")
    if sid in notes:
        m["lead_note"] = notes[sid]
    p.write_text(json.dumps(m, indent=1) + "\n")
print(len(reg), "seeds synced")
