#!/usr/bin/env python3
"""Rewrites the table of seeded regressions in DESIGN.md (between the SEEDS markers) from
/verif/seeded/*/meta.json."""
import json
import re
from pathlib import Path

V = Path(__file__).resolve().parent.parent
rows = ["| seed | change (as described by the independent seeding agent) | reported by `./check` as | note |", "|---|---|---|---|"]
n = caught = 0
for d in sorted((V / "seeded").iterdir()):
    m = d / "meta.json"
    if not m.exists():
        continue
    j = json.loads(m.read_text())
    n += 1
    sigs = []
    for v in j.get("check_result", []):
        for l in v.get("lines", []):
            l = l.strip()
            if re.match(r"C\d\d:", l):
                s = l.split(" ")[0].rstrip(":")
                if s not in sigs:
                    sigs.append(s)
            if "no-failing-input-found" in l and "tie broken: no-failing-input-found" not in sigs:
                sigs.append("tie broken: no-failing-input-found")
    ok = j.get("confirmed", {}).get("caught")
    caught += 1 if ok else 0
    title = j.get("title", "").replace("|", "/").replace("\n", " ")
    title = title if len(title) < 170 else title[:167] + "..."
    note = j.get("lead_note", "").strip("()")
    rep = ", ".join(f"`{s}`" for s in sigs[:3]) if ok else "not reported (see note)"
    rows.append(f"| {d.name} | {title} | {rep} | {note} |")
table = "\n".join(rows) + f"\n\n{n} seeded changes kept, {caught} reported with VIOLATION by the check of their property on the current tree.\n"
p = V / "DESIGN.md"
s = p.read_text()
a, b = "<!-- SEEDS:BEGIN -->", "<!-- SEEDS:END -->"
if a in s:
    s = s[: s.index(a) + len(a)] + "\n" + table + s[s.index(b) :]
    p.write_text(s)
    print(f"table rewritten: {n} seeds, {caught} caught")
else:
    print(table)
