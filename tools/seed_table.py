#!/usr/bin/env python3
"""Prints the markdown table of seeded regressions kept under /verif/seeded (for DESIGN.md §11.3)."""
import json
from pathlib import Path

V = Path(__file__).resolve().parent.parent
print("| seed | change | needs to manifest | caught by ./check (signatures) |")
print("|---|---|---|---|")
for d in sorted((V / "seeded").iterdir()):
    m = d / "meta.json"
    if not m.exists():
        continue
    j = json.loads(m.read_text())
    res = j.get("check_result", [])
    sigs = []
    for v in res:
        for l in v.get("lines", []):
            l = l.strip()
            if l.startswith("C") and ":" in l[:60]:
                s = l.split(" ")[0].rstrip(":")
                if s not in sigs:
                    sigs.append(s)
            if "no-failing-input-found" in l and "tie broken (no-failing-input-found)" not in sigs:
                sigs.append("tie broken (no-failing-input-found)")
    caught = j.get("confirmed", {}).get("caught")
    note = j.get("lead_note", "")
    title = j.get("title", "").replace("|", "/")[:140]
    needs = str(j.get("needs_to_manifest", "")).replace("|", "/").replace("\n", " ")[:220]
    print(f"| {d.name} | {title} | {needs} | {'yes: ' + ', '.join(sigs[:3]) if caught else 'NO at first' } {note} |")
