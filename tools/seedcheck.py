#!/usr/bin/env python3
"""tools/seedcheck.py <seed-dir> [--keep <id>] [--tier quick|thorough] [--no-suite]

Confirms a seeded regression (patch.diff + demo + meta.json) independently, in a scratch
worktree of /repo (never in /repo): the patch applies, the unedited test suite passes with it,
the demo fails with it and passes without it; then runs our check for the property against the
changed copy (HAP_REPO) and reports whether it raises VIOLATION. With --keep the seed is copied
to /verif/seeded/<id>/ and meta.json is extended with what was run and what the check said.
"""
import argparse
import json
import os
import shutil
import subprocess
import sys
import tempfile
from pathlib import Path

V = Path(__file__).resolve().parent.parent
PY = "/venv/bin/python"


def sh(cmd, cwd=None, env=None, timeout=1800):
    p = subprocess.run(cmd, shell=True, cwd=cwd, env=env, capture_output=True, text=True, timeout=timeout)
    out = "\n".join(l for l in (p.stdout + p.stderr).splitlines() if "auto_activate" not in l)
    return p.returncode, out


def main():
    ap = argparse.ArgumentParser()
    ap.add_argument("seed")
    ap.add_argument("--keep")
    ap.add_argument("--tier", default="quick")
    ap.add_argument("--no-suite", action="store_true")
    ap.add_argument("--seeds", default="0")
    a = ap.parse_args()
    seed = Path(a.seed)
    meta = json.loads((seed / "meta.json").read_text())
    prop = meta["property"]
    demo = next((seed / n for n in ("demo.py", "test_demo.py") if (seed / n).exists()), None)
    wt = tempfile.mkdtemp(prefix="seedchk-")
    os.rmdir(wt)
    sh(f"git -C /repo worktree add -q {wt} HEAD")
    res = {"property": prop}
    try:
        env = dict(os.environ, PYTHONPATH=wt)

        def run_demo():
            if demo is None:
                return None, "no demo"
            shutil.copy(demo, Path(wt) / demo.name)
            if demo.name.startswith("test_"):
                rc, out = sh(f"{PY} -m pytest -q -p no:cacheprovider -x {demo.name}", cwd=wt, env=env)
            else:
                rc, out = sh(f"{PY} {demo.name}", cwd=wt, env=env)
            (Path(wt) / demo.name).unlink()
            return rc, out[-600:]

        rc0, out0 = run_demo()
        res["demo_without_change"] = "pass" if rc0 == 0 else f"FAIL rc={rc0}"
        rc, out = sh(f"git apply {seed / 'patch.diff'}", cwd=wt)
        res["patch_applies"] = rc == 0
        if rc != 0:
            print(out)
            print(json.dumps(res, indent=1))
            return 1
        rc1, out1 = run_demo()
        res["demo_with_change"] = "fails" if rc1 not in (0, None) else "PASSES (demo does not show the breakage)"
        if not a.no_suite:
            rc, out = sh(f"{PY} -m pytest -q -p no:cacheprovider --timeout=900 -x", cwd=wt, env=env)
            res["suite_with_change"] = "passes" if rc == 0 else "FAILS: " + out[-300:]
        verdicts = []
        for s in a.seeds.split(","):
            rc, out = sh(
                f"./check {prop} --tier {a.tier}", cwd=V, env=dict(os.environ, HAP_REPO=wt, VERIF_SEED=s), timeout=3600
            )
            lines = [l for l in out.splitlines() if l.startswith(("VIOLATION", "KNOWN-FINDING", "  C", "[C"))]
            verdicts.append({"seed": int(s), "exit": rc, "lines": lines[:6]})
        res["check"] = verdicts
        res["caught"] = all(v["exit"] == 1 for v in verdicts)
        print(json.dumps(res, indent=1))
        if a.keep:
            dst = V / "seeded" / a.keep
            dst.mkdir(parents=True, exist_ok=True)
            if dst.resolve() != seed.resolve():
                shutil.copy(seed / "patch.diff", dst / "patch.diff")
                if demo:
                    shutil.copy(demo, dst / demo.name)
            meta["confirmed"] = {k: v for k, v in res.items() if k != "check"}
            meta["check_result"] = verdicts
            meta["ran"] = [
                "git -C /repo worktree add <scratch> HEAD; git apply patch.diff",
                "demo without / with the change",
                "full pytest suite with the change",
                f"HAP_REPO=<scratch> ./check {prop} --tier {a.tier} (VERIF_SEED={a.seeds})",
            ]
            (dst / "meta.json").write_text(json.dumps(meta, indent=1) + "\n")
        return 0
    finally:
        sh(f"git -C /repo worktree remove --force {wt}")
        sh("git -C /repo worktree prune")


if __name__ == "__main__":
    sys.exit(main())
