#!/usr/bin/env python3
"""tools/seedregress.py [--jobs N] [--only C04,C05-3,...] [--out seeded/REGRESSION.json]

Regression over ALL kept seeded changes: re-runs the check of each seed's property (quick tier,
VERIF_SEED=0) against a scratch copy of /repo HEAD + the seed's patch, in N parallel scratch
worktrees of /verif's committed HEAD (each with its own copy of the Lean build directory), and
records per seed: patch applies (re-based with --3way / fuzz when HEAD has moved), exit code,
verdict lines. Needed because making a tie less brittle (or any other change to a check) can
silently lose a detection that was only ever obtained through the brittle tie.

Nothing is written into /verif/seeded/<id>/ except a re-based patch.diff when the original no longer
applies (the original is kept as patch.orig.diff). Scratch worktrees are removed at the end.
"""
import argparse
import json
import os
import shutil
import subprocess
import sys
import tempfile
from concurrent.futures import ThreadPoolExecutor
from pathlib import Path

V = Path(__file__).resolve().parent.parent


def sh(cmd, cwd=None, env=None, timeout=3600):
    p = subprocess.run(cmd, shell=True, cwd=cwd, env=env, capture_output=True, text=True, timeout=timeout)
    out = "\n".join(l for l in (p.stdout + p.stderr).splitlines() if "auto_activate" not in l)
    return p.returncode, out


def apply_patch(wt, seed_dir):
    """git apply; fall back to 3-way / fuzzy patch when HEAD has moved under the seed."""
    patch = seed_dir / "patch.diff"
    rc, _ = sh(f"git apply {patch}", cwd=wt)
    if rc == 0:
        return "applies"
    sh("git checkout -q -- . && git clean -fdq", cwd=wt)
    rc, _ = sh(f"git apply --3way {patch}", cwd=wt)
    if rc != 0:
        sh("git checkout -q -- . && git clean -fdq && git reset -q", cwd=wt)
        rc, _ = sh(f"patch -p1 --fuzz=3 --no-backup-if-mismatch -i {patch}", cwd=wt)
        if rc != 0:
            return "DOES NOT APPLY"
    sh("git reset -q", cwd=wt)
    sh("find . -name '*.orig' -o -name '*.rej' | xargs -r rm -f", cwd=wt)
    rc, diff = sh("git diff", cwd=wt)
    if "\n+<<<<<<<" in diff or "\n+>>>>>>>" in diff:
        # a 3-way merge that "succeeded" with conflict markers is not a re-base
        sh("git checkout -q -- . && git clean -fdq", cwd=wt)
        return "DOES NOT APPLY"
    if not (seed_dir / "patch.orig.diff").exists():
        shutil.copy(patch, seed_dir / "patch.orig.diff")
    patch.write_text(diff + "\n")
    return "re-based"


VSEED = "0"


def worker(idx, seeds, results):
    vdir = Path(f"/work/sr-{os.getpid()}-{idx}")
    sh(f"git -C {V} worktree remove --force {vdir}")
    rc, out = sh(f"git -C {V} worktree add -q --detach {vdir} HEAD")
    if rc != 0:
        print(out)
        return
    shutil.copytree(V / "lean" / ".lake", vdir / "lean" / ".lake", symlinks=True)
    try:
        for sid in seeds:
            sd = V / "seeded" / sid
            meta = json.loads((sd / "meta.json").read_text())
            prop = meta["property"]
            wt = tempfile.mkdtemp(prefix=f"sr{idx}-")
            os.rmdir(wt)
            sh(f"git -C /repo worktree add -q {wt} HEAD")
            try:
                st = apply_patch(wt, sd)
                res = {"property": prop, "patch": st}
                if st != "DOES NOT APPLY":
                    rc, out = sh(f"./check {prop} --tier quick", cwd=vdir, env=dict(os.environ, HAP_REPO=wt, VERIF_SEED=VSEED))
                    lines = [l for l in out.splitlines() if l.startswith(("VIOLATION", "KNOWN-FINDING", "  C", "[C"))]
                    res.update(exit=rc, caught=rc == 1, with_replay=any(l.startswith("VIOLATION") and "no-failing-input-found" not in l for l in lines),
                               lines=[l[:240] for l in lines[:5]])
                results[sid] = res
                print(sid, res.get("patch"), res.get("exit"), "replay" if res.get("with_replay") else "", flush=True)
            finally:
                sh(f"git -C /repo worktree remove --force {wt}")
    finally:
        sh(f"git -C {V} worktree remove --force {vdir}")
        sh("git -C /repo worktree prune")


def main():
    ap = argparse.ArgumentParser()
    ap.add_argument("--jobs", type=int, default=5)
    ap.add_argument("--only")
    ap.add_argument("--seed", default="0", help="VERIF_SEED for the checks (default 0)")
    ap.add_argument("--out", default=str(V / "seeded" / "REGRESSION.json"))
    a = ap.parse_args()
    global VSEED
    VSEED = a.seed
    rc, dirty = sh("git status --porcelain -- harness lean extract tools check", cwd=V)
    if dirty.strip():
        print("warning: uncommitted changes under harness/lean/extract are NOT in the scratch worktrees:\n" + dirty)
    ids = sorted(d.name for d in (V / "seeded").iterdir() if (d / "meta.json").exists())
    if a.only:
        want = a.only.split(",")
        ids = [i for i in ids if i in want or i.split("-")[0] in want]
    parts = [ids[i :: a.jobs] for i in range(a.jobs)]
    results = {}
    with ThreadPoolExecutor(a.jobs) as ex:
        list(ex.map(lambda t: worker(t[0], t[1], results), enumerate(parts)))
    out = Path(a.out)
    old = json.loads(out.read_text()) if out.exists() and a.only else {}
    old.update(results)
    out.write_text(json.dumps(dict(sorted(old.items())), indent=1) + "\n")
    missed = [k for k, v in sorted(old.items()) if not v.get("caught")]
    noreplay = [k for k, v in sorted(old.items()) if v.get("caught") and not v.get("with_replay")]
    print(f"{len(old)} seeds: {len(old) - len(missed)} reported by their own check; not reported: {missed}; reported without replay: {noreplay}")
    return 0


if __name__ == "__main__":
    sys.exit(main())
