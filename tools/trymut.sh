#!/bin/bash
# tools/trymut.sh <Cxx> <patch.diff | -e 'sed-expr' file> : run a check against a scratch copy of /repo with a change applied
set -u
prop=$1; shift
wt=$(mktemp -d /tmp/mut-XXXXXX)
rmdir "$wt"
git -C /repo worktree add -q "$wt" HEAD 2>/dev/null
if [ "$1" = "-e" ]; then
  sed -i "$2" "$wt/$3" || exit 3
else
  git -C "$wt" apply "$1" || { echo "patch does not apply"; git -C /repo worktree remove --force "$wt"; exit 3; }
fi
git -C "$wt" diff --stat | tail -1
(cd /verif && HAP_REPO="$wt" VERIF_SEED=${VERIF_SEED:-0} ./check "$prop" ${TIER:+--tier $TIER} 2>&1 | grep -v auto_activate | grep -E "VIOLATION|KNOWN|^\[C|^  C" | head -8)
rc=$?
git -C /repo worktree remove --force "$wt"
git -C /repo worktree prune
